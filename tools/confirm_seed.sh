#!/bin/bash
# Development tool: confirm a seeded change delivered by a sub-agent and install it under /verif/seeded/<name>.
#   tools/confirm_seed.sh <dir-with-patch.diff,seed_demo_test.go,meta.json> <name e.g. C04-c>
# Confirms in a scratch clone (removed afterwards): demo passes on the clean tree, patch applies, demo fails with the
# change, the whole suite passes with the change (demo absent).
set -u
SRC=${1:?}; NAME=${2:?}
export GOFLAGS=-mod=mod GOPROXY=off GOSUMDB=off GOTOOLCHAIN=local
W=$(mktemp -d /tmp/confirm.XXXXXX)
git clone -q /repo $W/r || exit 2
DEMODIR=$(python3 -c "import json;print(json.load(open('$SRC/meta.json')).get('demo_dir','.'))")
TEST=$(grep -o 'func TestSeedDemo[A-Za-z0-9_]*' $SRC/seed_demo_test.go | head -1 | sed 's/func //')
cd $W/r
cp $SRC/seed_demo_test.go $DEMODIR/seed_demo_test.go
go test -count=1 -run "^$TEST\$" ./$DEMODIR >/dev/null 2>&1; clean=$?
rm $DEMODIR/seed_demo_test.go
git apply $SRC/patch.diff || { echo "APPLY-FAILED"; rm -rf $W; exit 2; }
go build ./... || { echo "BUILD-FAILED"; rm -rf $W; exit 2; }
go test -count=1 ./... >/dev/null 2>&1; suite=$?
cp $SRC/seed_demo_test.go $DEMODIR/seed_demo_test.go
go test -count=1 -run "^$TEST\$" ./$DEMODIR >/dev/null 2>&1; demo=$?
cd /; rm -rf $W
echo "$NAME demo_clean_rc=$clean suite_with_change_rc=$suite demo_with_change_rc=$demo"
if [ $clean = 0 ] && [ $suite = 0 ] && [ $demo != 0 ]; then
  D=/verif/seeded/$NAME; mkdir -p $D
  cp $SRC/patch.diff $SRC/seed_demo_test.go $D/
  python3 - <<PY
import json,datetime
m=json.load(open('$SRC/meta.json'))
m['confirmed_by_me']={'what_i_ran':'tools/confirm_seed.sh: scratch clone of /repo HEAD: demo on clean tree -> pass; git apply patch.diff; go test ./... (demo absent) -> pass; demo -> fail','demo_passes_clean':True,'demo_fails_with_change':True,'suite_passes_with_change':True}
json.dump(m,open('$D/meta.json','w'),indent=1)
PY
  echo "INSTALLED $D"
else
  echo "NOT-CONFIRMED"
fi
