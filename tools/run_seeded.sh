#!/bin/bash
# Development tool (not a registered check): apply every seeded change under /verif/seeded to a scratch checkout
# of the repository, run the property's check against it, and record what the check reported.
#   tools/run_seeded.sh <repo-checkout> [id-prefix ...]
# Run it from a snapshot (vp run --with-repo -- tools/run_seeded.sh '$VP_RUN_REPO') so that /repo and /verif stay untouched.
REPO_DIR=${1:?repo checkout}; shift
VERIF_DIR=$(cd "$(dirname "$0")/.." && pwd)
OUT=$VERIF_DIR/work/seeded_matrix.txt
mkdir -p $VERIF_DIR/work
: > $OUT
for d in $VERIF_DIR/seeded/*/; do
  id=$(basename $d)
  if [ $# -gt 0 ]; then match=0; for p in "$@"; do case $id in $p*) match=1;; esac; done; [ $match = 1 ] || continue; fi
  prop=${id%%-*}
  git -C $REPO_DIR checkout -q -- . && git -C $REPO_DIR apply $d/patch.diff || { echo "$id APPLY-FAILED" | tee -a $OUT; continue; }
  res=$(VERIF_REPO=$REPO_DIR timeout 3000 $VERIF_DIR/check $prop 2>&1)
  rc=$?
  line=$(echo "$res" | grep -m1 '^VIOLATION' )
  echo "$id rc=$rc ${line:-no-violation-line} :: $(echo "$res" | tail -1)" | tee -a $OUT
  if [ -n "$line" ]; then rp=$(echo "$line" | sed 's/.*replay=\([^ ]*\).*/\1/'); cp "$rp" $VERIF_DIR/work/replay_$id.json 2>/dev/null; fi
done
git -C $REPO_DIR checkout -q -- .
echo MATRIX-DONE | tee -a $OUT
