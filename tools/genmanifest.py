#!/usr/bin/env python3
"""Regenerate MANIFEST.json from props.json (a property is claimed once theorems are registered for it)."""
import json, os
V = os.path.join(os.path.dirname(os.path.abspath(__file__)), "..")
props = json.load(open(os.path.join(V, "props.json")))
ids = [json.loads(l)['id'] for l in open(os.path.join(V, "properties.jsonl"))]
claimed = [k for k in ids if props.get(k, {}).get("theorems")]
checks = []
for k in claimed:
    v = props[k]
    partial = " PARTIAL: " + v["not_proved"] if v.get("not_proved") else ""
    checks.append({
        "property_id": k,
        "quick_cmd": "./check %s --tier quick" % k,
        "thorough_cmd": "./check %s --tier thorough" % k,
        "evidence_file": "/verif/evidence/%s.json" % k,
        "replay_cmd_template": "./check %s --replay {path}" % k,
        "engine": "lean-proof+correspondence",
        "level_claimed": {"category": "proof", "text": ("Lean 4 theorems about a model of the code (names in the evidence file's obligation_list). Proved: %s.%s The model is tied to /repo on every run: generated machines and tables are re-translated and the kernel re-checks the simulation certificates and table facts; hand-written Go is modelled by hand and compared operation by operation with the real code (correspondence); the implementation is also compared with the Lean specification on the same inputs, which yields the concrete replay when something breaks." % (v.get("proved_scope", ""), partial)), "design_ref": "DESIGN.md sections 5 (%s) and 13" % k},
        "level_note": "Trusted: Lean kernel (axioms propext, Classical.choice, Quot.sound only; audited per theorem on every run), RJson.Spec (the statements), RJson.Model (reading of Go: -G2 interpreter, checked accesses, 64-bit wrap-around, stdlib models), the translators rl2lean/dumptables/gofacts and the Go harness (validated by the correspondence run, not proved). " + "; ".join(v.get("assumptions", [])),
        "technique": "Lean 4 machine-checked proof over a model regenerated from / corresponded with the code"
    })
m = {
    "version": 1,
    "setup_cmd": "./setup.sh",
    "hooks": {"guard": "verif", "enable": "go build -tags verif (harness module replaces github.com/willabides/rjson => /repo)", "baseline_off_cmd": "cd /repo && GOFLAGS=-mod=mod GOPROXY=off go test -vet=off -count=1 ./...", "source_commits": ["35d8d67", "7636441"], "add_only": True},
    "engines": [{"name": "lean-proof+correspondence", "path": "/verif/check", "serves_properties": claimed, "kind_free_text": "Lean 4 lake project /verif/lean (Spec, Model, regenerated Gen, Proofs, Props, kernel-checked Certs) + Go harness /verif/harness driving the real code (-tags verif) and the compiled model driver modeld over a line protocol"}],
    "checks": checks,
    "notes": "DESIGN.md explains the approach; known_findings.json lists genuine defects (fixed / recorded); seeded/ holds the independently written breaking changes used to test the checks; props.json lists modules and theorems per property.",
    "not_applicable": [{"property_id": i, "reason": props.get(i, {}).get("na_reason", "correspondence and specification-oracle check is built (./check %s) but no Lean theorem is registered for it yet, so it is not claimed" % i)} for i in ids if i not in claimed]
}
json.dump(m, open(os.path.join(V, "MANIFEST.json"), "w"), indent=1)
print("claimed:", " ".join(claimed))
