#!/usr/bin/env python3
"""Development tool (not a registered check): after a legitimate change of /repo, or of what gofacts extracts, rewrite
the expected per-function fact lists of lean/RJson/Props/Literals/*.lean from the regenerated lean/RJson/Gen/Facts.lean.
Review the diff: every changed entry is a place where a hand model may have to follow the source."""
import re, os
root = os.path.join(os.path.dirname(os.path.abspath(__file__)), '..', 'lean', 'RJson')
facts = open(os.path.join(root, 'Gen', 'Facts.lean')).read()
for name in ['Fp', 'SimpleReaders', 'Token', 'Helpers', 'ComplexReaders', 'Decode', 'Rjson']:
    m = re.search(r'def literals%s : List \(String × String\) := (\[.*\])\n' % name, facts)
    path = os.path.join(root, 'Props', 'Literals', name + '.lean')
    s = open(path).read()
    pat = re.compile(r'(Gen\.Facts\.literals%s =\n    )\[.*?\]( := by decide \+kernel)' % name, re.S)
    assert pat.search(s), name
    s2 = pat.sub(lambda mm: mm.group(1) + m.group(1) + mm.group(2), s)
    open(path, 'w').write(s2)
    print(name, 'updated' if s2 != s else 'unchanged')
