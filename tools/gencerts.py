#!/usr/bin/env python3
"""Regenerate the labelling files (untrusted BFS output of `modeld labels`) and the certificate modules that
make the kernel re-check them: lean/RJson/Gen/<M>Labels.lean, lean/RJson/Certs/<M>/Chunk<i>.lean, lean/RJson/Certs/<M>.lean.
Files are written only when their content changes. Exit 2 when a machine can no longer be labelled."""
import os, re, subprocess, sys

LEAN = os.path.join(os.path.dirname(os.path.abspath(__file__)), "..", "lean")
MODELD = os.path.join(LEAN, ".lake", "build", "bin", "modeld")
# (Go function, labelling kind, Lean module name, abstract machine term, abstract state type, Lean import of the abstract machine)
MACHINES = [("skipValue", "skip", "SkipValue", "Abs.machine .skip", "RJson.Abs.AS", "RJson.Model.Abs"),
            ("skipValueFast", "fast", "SkipValueFast", "Abs.machine .fast", "RJson.Abs.AS", "RJson.Model.Abs"),
            ("handleArrayValues", "harr", "HandleArrayValues", "Abs.machine .harr", "RJson.Abs.AS", "RJson.Model.Abs"),
            ("handleObjectValues", "hobj", "HandleObjectValues", "Abs.machine .hobj", "RJson.Abs.AS", "RJson.Model.Abs"),
            ("readNull", "null", "ReadNull", "AbsSmall.lmachine .null", "RJson.AbsSmall.LS", "RJson.Model.AbsSmall"),
            ("readBool", "bool", "ReadBool", "AbsSmall.lmachine .bool", "RJson.AbsSmall.LS", "RJson.Model.AbsSmall"),
            ("appendRemainderOfString", "append", "AppendRemainderOfString", "AbsSmall.smachine .append", "RJson.AbsSmall.SS", "RJson.Model.AbsSmall"),
            ("unescapeStringContent", "unescape", "UnescapeStringContent", "AbsSmall.smachine .unescape", "RJson.AbsSmall.SS", "RJson.Model.AbsSmall")]
CHUNK = 12


def write_if_changed(path, content):
    os.makedirs(os.path.dirname(path), exist_ok=True)
    try:
        if open(path).read() == content:
            return False
    except FileNotFoundError:
        pass
    open(path, "w").write(content)
    return True


def tree(keys, val, default, indent):
    if not keys:
        return default
    if len(keys) == 1:
        return "if s = %d then %s else %s" % (keys[0], val[keys[0]], default)
    mid = len(keys) // 2
    return "if s < %d then\n%s  %s\n%selse\n%s  %s" % (keys[mid], indent, tree(keys[:mid], val, default, indent + "  "), indent, indent, tree(keys[mid:], val, default, indent + "  "))


def main():
    failed = []
    for name, kind, mod, absm, abst, absimp in MACHINES:
        out = subprocess.run([MODELD], input="labels %s %s\n" % (name, kind), capture_output=True, text=True, timeout=600).stdout
        if "MISMATCH" in out or "end-labels" not in out:
            msg = [l for l in out.splitlines() if l.startswith("MISMATCH")]
            print("LABEL-FAILED %s: %s" % (name, (msg or [out[:500]])[0][:1500]))
            failed.append(name)
            continue
        entries = {}
        for m in re.finditer(r"^\s*\| (\d+) => (\[.*\])$", out, re.M):
            entries[int(m.group(1))] = m.group(2)
        nst = None
        src = open(os.path.join(LEAN, "RJson", "Gen", mod + ".lean")).read()
        nst = int(re.search(r"def nstates : Nat := (\d+)", src).group(1))
        keys = sorted(entries)
        body = tree(keys, entries, "[]", "  ")
        lab = ("import %s\nimport RJson.Gen.%s\n/-! GENERATED labelling (untrusted BFS output of `modeld labels %s %s`); re-checked by the kernel in RJson.Certs.%s -/\n"
               "namespace RJson.Gen.%sLabels\n\ndef labelsTab (s : Nat) : List %s :=\n  %s\n\n"
               "def labels (s : Nat) : List %s := if s < RJson.Gen.%s.nstates then labelsTab s else []\n\n"
               "theorem labels_bound : ∀ s, RJson.Gen.%s.nstates ≤ s → labels s = [] := by\n  intro s hs\n  simp [labels, Nat.not_lt.mpr hs]\n\nend RJson.Gen.%sLabels\n") % (absimp, mod, name, kind, mod, mod, abst, body, abst, mod, mod, mod)
        write_if_changed(os.path.join(LEAN, "RJson", "Gen", mod + "Labels.lean"), lab)
        nchunks = (nst + CHUNK - 1) // CHUNK
        for i in range(nchunks):
            lo = i * CHUNK
            ln = min(CHUNK, nst - lo)
            ch = ("import RJson.Proofs.Sim\nimport RJson.Gen.%s\nimport RJson.Gen.%sLabels\n/-! GENERATED certificate chunk: generated states [%d, %d) of %s against the abstract machine -/\n"
                  "namespace RJson.Certs.%s\nopen RJson.Ragel\n\nset_option maxRecDepth 100000 in\ntheorem chunk%d : checkRange (checkState Gen.%s.machine (%s) Gen.%sLabels.labels) %d %d = true := by\n  decide +kernel\n\nend RJson.Certs.%s\n") % (
                mod, mod, lo, lo + ln, name, mod, i, mod, absm, mod, lo, ln, mod)
            write_if_changed(os.path.join(LEAN, "RJson", "Certs", mod, "Chunk%d.lean" % i), ch)
        # remove stale chunks
        d = os.path.join(LEAN, "RJson", "Certs", mod)
        for f in os.listdir(d):
            m = re.match(r"Chunk(\d+)\.lean$", f)
            if m and int(m.group(1)) >= nchunks:
                os.remove(os.path.join(d, f))
        imports = "".join("import RJson.Certs.%s.Chunk%d\n" % (mod, i) for i in range(nchunks))
        cases = ""
        for i in range(nchunks):
            lo = i * CHUNK
            ln = min(CHUNK, nst - lo)
            cases += "  · by_cases h%d : s < %d\n    · exact checkRange_spec chunk%d s (by omega) (by omega)\n" % (i, lo + ln, i)
            cases += "    " if False else ""
        # nested by_cases chain
        chain = ""
        ind = "  "
        for i in range(nchunks):
            lo = i * CHUNK
            ln = min(CHUNK, nst - lo)
            if i < nchunks - 1:
                chain += "%sby_cases h%d : s < %d\n%s· exact checkRange_spec chunk%d s (by omega) (by omega)\n" % (ind, i, lo + ln, ind, i)
            else:
                chain += "%sexact checkRange_spec chunk%d s (by omega) (by simp [Gen.%s.nstates] at hs; omega)\n" % (ind, i, mod)
        main_ = ("import RJson.Proofs.Sim\n%s/-! GENERATED: assembles the chunk certificates of %s into `checkSim` and applies `sim_sound`. -/\n"
                 "namespace RJson.Certs.%s\nopen RJson.Ragel\n\n"
                 "theorem start_ok : ((Gen.%sLabels.labels Gen.%s.machine.start).contains (%s).start && (Gen.%s.machine.maxDepth == (%s).maxDepth) && (Gen.%s.machine.hasField == (%s).hasField)) = true := by\n  decide +kernel\n\n"
                 "theorem states_ok : ∀ s, s < Gen.%s.nstates → checkState Gen.%s.machine (%s) Gen.%sLabels.labels s = true := by\n  intro s hs\n%s\n"
                 "theorem sim : checkSim Gen.%s.nstates Gen.%s.machine (%s) Gen.%sLabels.labels = true :=\n  checkSim_of_parts start_ok states_ok\n\n"
                 "/-- the generated machine and the abstract machine are indistinguishable for the interpreter -/\n"
                 "theorem run_eq {τ : Type} (data : Bytes) (h : Handler τ) (dst : Bytes) (hs : τ) :\n    runL Gen.%s.machine data h dst hs = runL (%s) data h dst hs :=\n  sim_sound Gen.%s.nstates _ _ _ Gen.%sLabels.labels_bound sim data h dst hs\n\nend RJson.Certs.%s\n") % (
            imports, name, mod, mod, mod, absm, mod, absm, mod, absm, mod, mod, absm, mod, chain, mod, mod, absm, mod, mod, absm, mod, mod, mod)
        write_if_changed(os.path.join(LEAN, "RJson", "Certs", mod + ".lean"), main_)
        print("%s: %d states labelled, %d certificate chunks" % (name, len(entries), nchunks))
    sys.exit(2 if failed else 0)


if __name__ == "__main__":
    main()
