#!/bin/bash
# Run once after a fresh restore (offline): builds the Lean project (model driver, proofs, certificates) and the Go tools.
set -e
cd "$(dirname "$0")"
export GOFLAGS=-mod=mod GOPROXY=off GOSUMDB=off GOTOOLCHAIN=local
mkdir -p work evidence replays
(cd harness && cp -n /repo/go.sum . 2>/dev/null || true; go build -o ../work/rl2lean ./cmd/rl2lean && go build -o ../work/gofacts ./cmd/gofacts)
(cd lean && lake build modeld)
python3 tools/gencerts.py || true
mods=$(python3 -c "
import json
p=json.load(open('props.json')); s=[]
for v in p.values():
    for m in v.get('modules',[]):
        if m not in s: s.append(m)
print(' '.join(s))")
(cd lean && lake build $mods)
echo setup done
