module verifharness

go 1.15

require github.com/willabides/rjson v0.0.0

replace github.com/willabides/rjson => /repo
