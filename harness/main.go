// harness: correspondence check between the real rjson code (built from /repo with -tags verif) and the Lean
// model (`modeld`), plus property oracles. One invocation = one property.
//
//	harness -prop C01 -tier quick -seed 1 -modeld /verif/lean/.lake/build/bin/modeld -out /tmp/report.json
package main

import (
	"flag"
	"fmt"
	"math/rand"
	"os"
)

type Ctx struct {
	Prop   string
	Tier   string
	Seed   int64
	Rng    *rand.Rand
	Model  *Model
	Suite  *Suite
	Focus  string // optional: restrict to a sub-suite (used by the search after a broken obligation)
}

func (c *Ctx) thorough() bool { return c.Tier == "thorough" }

var suites = map[string]func(*Ctx) (string, error){}

func main() {
	prop := flag.String("prop", "", "property id")
	tier := flag.String("tier", "quick", "quick|thorough")
	seed := flag.Int64("seed", 1, "PRNG seed")
	modeld := flag.String("modeld", "/verif/lean/.lake/build/bin/modeld", "model driver")
	out := flag.String("out", "", "report file")
	focus := flag.String("focus", "", "sub-suite")
	replay := flag.String("replay", "", "replay file: re-run its ops")
	flag.Parse()
	m, err := startModel(*modeld)
	if err != nil {
		fmt.Fprintln(os.Stderr, err)
		os.Exit(3)
	}
	if *replay != "" {
		rc := runReplay(m, *replay)
		m.Close()
		os.Exit(rc)
	}
	fn, ok := suites[*prop]
	if !ok {
		fmt.Fprintf(os.Stderr, "no suite for %q\n", *prop)
		os.Exit(3)
	}
	ctx := &Ctx{Prop: *prop, Tier: *tier, Seed: *seed, Rng: rand.New(rand.NewSource(*seed)), Model: m, Suite: newSuite(*prop, m), Focus: *focus}
	rule, err := fn(ctx)
	if err != nil {
		fmt.Fprintln(os.Stderr, "harness error:", err)
		os.Exit(3)
	}
	rep := ctx.Suite.Report(*tier, *seed, rule)
	if *out != "" {
		if err := writeReport(*out, rep); err != nil {
			fmt.Fprintln(os.Stderr, err)
			os.Exit(3)
		}
	}
	fmt.Printf("%s: %d evaluations, %d distinct non-trivial, %d disagreements, %d violations, %.1fs\n", *prop, rep.Evaluations, rep.Distinct, len(rep.Disagreements), len(rep.Violations), rep.WallS)
	for i, d := range rep.Disagreements {
		if i < 5 {
			fmt.Printf("  DISAGREE %s\n    impl : %s\n    model: %s\n", d.Line, d.Impl, d.Model)
		}
	}
	for i, d := range rep.Violations {
		if i < 5 {
			fmt.Printf("  VIOLATES %s\n    impl: %s\n    want: %s (%s)\n", d.Line, d.Impl, d.Model, d.Note)
		}
	}
	m.Close()
	if len(rep.Violations) > 0 {
		os.Exit(1)
	}
	if len(rep.Disagreements) > 0 {
		os.Exit(2)
	}
}

func init() {
	suites["cover"] = func(c *Ctx) (string, error) {
		depth := 1
		if c.thorough() {
			depth = 2
		}
		for _, name := range allMachines {
			if c.Focus != "" && c.Focus != name {
				continue
			}
			cases, err := coverCases(c.Model, name, depth, false)
			if err != nil {
				return "", err
			}
			if err := c.Suite.Run(cases); err != nil {
				return "", err
			}
		}
		return "transition cover of every generated machine", nil
	}
}

func runReplay(m *Model, path string) int {
	fmt.Fprintln(os.Stderr, "replay not implemented yet")
	return 3
}
