// gofacts extracts syntactic facts about the hand-written Go of /repo into /verif/lean/RJson/Gen/Facts.lean:
//
//   - package-level variables of rjson and internal/fp, and every place that could mutate one after
//     initialisation: assignments / inc-dec / op-assign whose left-hand side is rooted in a global, `&global`,
//     slicing a global array (creates a writable alias), calls of methods on a global that is not a plain table
//     (e.g. a package-level sync.Pool), `go` statements and imports of unsafe/sync/atomic (C18);
//   - the shape of every Decode* function in decode.go (C12);
//   - writes through parameters that carry input bytes (C16).
//
// The analysis is syntactic (go/ast with package-scope resolution); it is part of the trusted base and is
// complemented by the -race correspondence run.
package main

import (
	"flag"
	"fmt"
	"go/ast"
	"go/parser"
	"go/printer"
	"go/token"
	"os"
	"path/filepath"
	"sort"
	"strings"
)

var fset = token.NewFileSet()

func src(n ast.Node) string {
	var b strings.Builder
	printer.Fprint(&b, fset, n)
	return strings.Join(strings.Fields(b.String()), " ")
}

func hasBuildTag(path string) bool {
	b, err := os.ReadFile(path)
	if err != nil {
		return true
	}
	head := string(b)
	if i := strings.Index(head, "\npackage "); i >= 0 {
		head = head[:i]
	}
	return strings.Contains(head, "+build") || strings.Contains(head, "go:build")
}

type pkgFacts struct {
	name      string
	globals   []string // name:kind
	writes    []string
	aliases   []string
	calls     []string
	goStmts   []string
	imports   []string
	nonTables []string
}

func kindOf(vs *ast.ValueSpec, i int) string {
	var t ast.Expr = vs.Type
	if t == nil && i < len(vs.Values) {
		switch v := vs.Values[i].(type) {
		case *ast.CompositeLit:
			t = v.Type
		case *ast.CallExpr:
			return "call:" + src(v.Fun)
		case *ast.FuncLit:
			return "func"
		default:
			return "expr"
		}
	}
	switch x := t.(type) {
	case *ast.ArrayType:
		if x.Len != nil {
			return "array"
		}
		return "slice"
	case *ast.MapType:
		return "map"
	case *ast.Ident:
		return "named:" + x.Name
	case *ast.SelectorExpr:
		return "named:" + src(x)
	case *ast.FuncType:
		return "func"
	}
	if t == nil {
		return "unknown"
	}
	return "other:" + src(t)
}

// root returns the identifier at the root of an index/selector/slice/star/paren chain.
func root(e ast.Expr) *ast.Ident {
	for {
		switch x := e.(type) {
		case *ast.Ident:
			return x
		case *ast.IndexExpr:
			e = x.X
		case *ast.SelectorExpr:
			e = x.X
		case *ast.SliceExpr:
			e = x.X
		case *ast.StarExpr:
			e = x.X
		case *ast.ParenExpr:
			e = x.X
		default:
			return nil
		}
	}
}

func analyse(dir, name string) (*pkgFacts, map[string]*ast.File, error) {
	matches, _ := filepath.Glob(filepath.Join(dir, "*.go"))
	sort.Strings(matches)
	files := map[string]*ast.File{}
	for _, m := range matches {
		if strings.HasSuffix(m, "_test.go") || hasBuildTag(m) {
			continue
		}
		f, err := parser.ParseFile(fset, m, nil, 0)
		if err != nil {
			return nil, nil, err
		}
		files[m] = f
	}
	pkg, _ := ast.NewPackage(fset, files, nil, nil) // resolves package-scope identifiers; import errors are expected and ignored
	pf := &pkgFacts{name: name}
	globalKind := map[*ast.Object]string{}
	for _, f := range files {
		for _, imp := range f.Imports {
			p := strings.Trim(imp.Path.Value, `"`)
			if p == "unsafe" || p == "sync" || p == "sync/atomic" || p == "reflect" {
				pf.imports = append(pf.imports, filepath.Base(fset.Position(imp.Pos()).Filename)+":"+p)
			}
		}
		for _, d := range f.Decls {
			gd, ok := d.(*ast.GenDecl)
			if !ok || gd.Tok != token.VAR {
				continue
			}
			for _, sp := range gd.Specs {
				vs := sp.(*ast.ValueSpec)
				for i, n := range vs.Names {
					if n.Name == "_" {
						continue
					}
					k := kindOf(vs, i)
					pf.globals = append(pf.globals, n.Name+":"+k)
					if n.Obj != nil {
						globalKind[n.Obj] = k
					}
					if !(k == "array" || k == "slice" || k == "map" || strings.HasPrefix(k, "call:fmt.Errorf") || strings.HasPrefix(k, "call:errors.New") || k == "func") {
						pf.nonTables = append(pf.nonTables, n.Name+":"+k)
					}
				}
			}
		}
	}
	_ = pkg
	isGlobal := func(id *ast.Ident) (string, bool) {
		if id == nil || id.Obj == nil {
			return "", false
		}
		k, ok := globalKind[id.Obj]
		return k, ok
	}
	pos := func(n ast.Node) string {
		p := fset.Position(n.Pos())
		return fmt.Sprintf("%s:%d", filepath.Base(p.Filename), p.Line)
	}
	for _, f := range files {
		for _, d := range f.Decls {
			fd, ok := d.(*ast.FuncDecl)
			if !ok || fd.Body == nil {
				continue
			}
			ast.Inspect(fd.Body, func(n ast.Node) bool {
				switch x := n.(type) {
				case *ast.AssignStmt:
					if x.Tok == token.DEFINE {
						return true
					}
					for _, l := range x.Lhs {
						if _, ok := isGlobal(root(l)); ok {
							pf.writes = append(pf.writes, pos(x)+" "+fd.Name.Name+": "+src(x))
						}
					}
				case *ast.IncDecStmt:
					if _, ok := isGlobal(root(x.X)); ok {
						pf.writes = append(pf.writes, pos(x)+" "+fd.Name.Name+": "+src(x))
					}
				case *ast.UnaryExpr:
					if x.Op == token.AND {
						if _, ok := isGlobal(root(x.X)); ok {
							pf.aliases = append(pf.aliases, pos(x)+" "+fd.Name.Name+": "+src(x))
						}
					}
				case *ast.SliceExpr:
					if id, ok := x.X.(*ast.Ident); ok {
						if k, ok := isGlobal(id); ok && k == "array" {
							pf.aliases = append(pf.aliases, pos(x)+" "+fd.Name.Name+": "+src(x))
						}
					}
				case *ast.RangeStmt:
					if x.Tok == token.ASSIGN {
						for _, l := range []ast.Expr{x.Key, x.Value} {
							if l != nil {
								if _, ok := isGlobal(root(l)); ok {
									pf.writes = append(pf.writes, pos(x)+" "+fd.Name.Name+": range assigns "+src(l))
								}
							}
						}
					}
				case *ast.CallExpr:
					if se, ok := x.Fun.(*ast.SelectorExpr); ok {
						if id, ok := se.X.(*ast.Ident); ok {
							if k, ok := isGlobal(id); ok && !(k == "func") {
								// a method call on a package-level variable (tables have no methods; error values' Error() is harmless)
								if se.Sel.Name != "Error" {
									pf.calls = append(pf.calls, pos(x)+" "+fd.Name.Name+": "+src(x.Fun))
								}
							}
						}
					}
					// copy(global..., ...) / append(global[:0], ...)
					if id, ok := x.Fun.(*ast.Ident); ok && (id.Name == "copy" || id.Name == "append") && len(x.Args) > 0 {
						if k, ok := isGlobal(root(x.Args[0])); ok && (id.Name == "copy" || k == "slice" || k == "array") {
							if id.Name == "copy" {
								pf.writes = append(pf.writes, pos(x)+" "+fd.Name.Name+": "+src(x))
							}
						}
					}
				case *ast.GoStmt:
					pf.goStmts = append(pf.goStmts, pos(x)+" "+fd.Name.Name)
				}
				return true
			})
		}
	}
	for _, l := range []*[]string{&pf.globals, &pf.writes, &pf.aliases, &pf.calls, &pf.goStmts, &pf.imports, &pf.nonTables} {
		sort.Strings(*l)
	}
	return pf, files, nil
}

func leanList(xs []string) string {
	var q []string
	for _, x := range xs {
		q = append(q, fmt.Sprintf("%q", x))
	}
	return "[" + strings.Join(q, ", ") + "]"
}

// decodeShape checks one Decode* function against the canonical body and returns (reader, canonical).
func decodeShape(fd *ast.FuncDecl) (string, bool) {
	b := fd.Body.List
	if len(b) != 5 {
		return "", false
	}
	as, ok := b[1].(*ast.AssignStmt)
	if !ok || src(as.Lhs[0]) != "val" || len(as.Lhs) != 3 || src(as.Lhs[1]) != "p" || src(as.Lhs[2]) != "err" {
		return "", false
	}
	call, ok := as.Rhs[0].(*ast.CallExpr)
	if !ok {
		return "", false
	}
	reader := src(call.Fun)
	if len(call.Args) < 1 || src(call.Args[0]) != "data" {
		return reader, false
	}
	if !strings.HasPrefix(src(b[0]), "var val ") {
		return reader, false
	}
	if src(b[2]) != "if err != nil { return nullOrBust(data, err) }" {
		return reader, false
	}
	if src(b[3]) != "*v = val" {
		return reader, false
	}
	if src(b[4]) != "return p, err" {
		return reader, false
	}
	return reader, true
}

// ---- allocation sites (C19) -------------------------------------------------------------------

// funcKey names a function or method: "Name" or "Recv.Name"; functions of internal/fp are prefixed "fp.".
func funcKey(prefix string, fd *ast.FuncDecl) string {
	name := fd.Name.Name
	if fd.Recv != nil && len(fd.Recv.List) > 0 {
		t := fd.Recv.List[0].Type
		if st, ok := t.(*ast.StarExpr); ok {
			t = st.X
		}
		if id, ok := t.(*ast.Ident); ok {
			name = id.Name + "." + name
		}
	}
	return prefix + name
}

type funcInfo struct {
	sites []string // syntactic constructs that may allocate
	calls []string // callees (function keys)
}

// allocInfo walks a function body and records constructs that may allocate and the functions it calls.
func allocInfo(prefix string, fd *ast.FuncDecl, known map[string]bool) funcInfo {
	var fi funcInfo
	seen := map[string]bool{}
	addCall := func(k string) {
		if !seen[k] {
			seen[k] = true
			fi.calls = append(fi.calls, k)
		}
	}
	ast.Inspect(fd.Body, func(n ast.Node) bool {
		switch x := n.(type) {
		case *ast.CallExpr:
			switch f := x.Fun.(type) {
			case *ast.Ident:
				switch f.Name {
				case "make", "new", "append":
					fi.sites = append(fi.sites, f.Name+":"+src(x))
				case "string":
					fi.sites = append(fi.sites, "conv:"+src(x))
				default:
					addCall(prefix + f.Name)
				}
			case *ast.ArrayType: // []byte(x) and the like
				fi.sites = append(fi.sites, "conv:"+src(x))
			case *ast.SelectorExpr:
				if id, ok := f.X.(*ast.Ident); ok {
					switch id.Name {
					case "fp":
						addCall("fp." + f.Sel.Name)
					case "fmt", "errors", "strings", "bytes", "strconv", "json", "sort":
						fi.sites = append(fi.sites, "lib:"+src(x.Fun))
					default:
						// method call on a value: record every method of that name we know
						// (calls of the caller-supplied handler are not followed: C19 assumes it does not allocate)
						if f.Sel.Name != "HandleArrayValue" && f.Sel.Name != "HandleObjectValue" {
							for k := range known {
								if strings.HasSuffix(k, "."+f.Sel.Name) {
									addCall(k)
								}
							}
						}
					}
				} else if f.Sel.Name != "HandleArrayValue" && f.Sel.Name != "HandleObjectValue" {
					for k := range known {
						if strings.HasSuffix(k, "."+f.Sel.Name) {
							addCall(k)
						}
					}
				}
			}
		case *ast.CompositeLit:
			fi.sites = append(fi.sites, "lit:"+src(x.Type))
		case *ast.FuncLit:
			fi.sites = append(fi.sites, "closure")
			return false
		case *ast.GoStmt:
			fi.sites = append(fi.sites, "go")
		case *ast.DeferStmt:
			fi.sites = append(fi.sites, "defer")
		case *ast.UnaryExpr:
			if x.Op == token.AND {
				if _, ok := x.X.(*ast.CompositeLit); ok {
					fi.sites = append(fi.sites, "addr-lit")
				}
			}
		}
		return true
	})
	sort.Strings(fi.calls)
	return fi
}

// zeroAllocRoots are the entry points C19 speaks about.
var zeroAllocRoots = []string{"ReadUint64", "ReadUint32", "ReadUint", "ReadInt64", "ReadInt32", "ReadInt", "ReadFloat64", "ReadBool",
	"ReadNull", "NextToken", "NextTokenType", "DecodeBool", "DecodeInt", "DecodeInt32", "DecodeInt64", "DecodeUint", "DecodeUint32",
	"DecodeUint64", "DecodeFloat64", "SkipValue", "SkipValueFast", "Valid", "HandleArrayValues", "HandleObjectValues",
	"ReadStringBytes", "UnescapeStringContent"}

func allocFacts(repo string) (reach []string, sites []string, err error) {
	infos := map[string]funcInfo{}
	type src2 struct{ dir, prefix string }
	var decls []struct {
		prefix string
		fd     *ast.FuncDecl
	}
	known := map[string]bool{}
	for _, s := range []src2{{repo, ""}, {filepath.Join(repo, "internal", "fp"), "fp."}} {
		matches, _ := filepath.Glob(filepath.Join(s.dir, "*.go"))
		sort.Strings(matches)
		for _, m := range matches {
			if strings.HasSuffix(m, "_test.go") || hasBuildTag(m) {
				continue
			}
			f, perr := parser.ParseFile(fset, m, nil, 0)
			if perr != nil {
				return nil, nil, perr
			}
			for _, d := range f.Decls {
				if fd, ok := d.(*ast.FuncDecl); ok && fd.Body != nil {
					decls = append(decls, struct {
						prefix string
						fd     *ast.FuncDecl
					}{s.prefix, fd})
					known[funcKey(s.prefix, fd)] = true
				}
			}
		}
	}
	for _, d := range decls {
		infos[funcKey(d.prefix, d.fd)] = allocInfo(d.prefix, d.fd, known)
	}
	seen := map[string]bool{}
	var visit func(k string)
	visit = func(k string) {
		if seen[k] || !known[k] {
			return
		}
		seen[k] = true
		for _, c := range infos[k].calls {
			visit(c)
		}
	}
	for _, r := range zeroAllocRoots {
		visit(r)
	}
	for k := range seen {
		reach = append(reach, k)
		for _, s := range infos[k].sites {
			sites = append(sites, k+" | "+s)
		}
	}
	sort.Strings(reach)
	sort.Strings(sites)
	// collapse repetitions: "site (xN)"
	var out []string
	for i := 0; i < len(sites); {
		j := i
		for j < len(sites) && sites[j] == sites[i] {
			j++
		}
		if j-i > 1 {
			out = append(out, fmt.Sprintf("%s (x%d)", sites[i], j-i))
		} else {
			out = append(out, sites[i])
		}
		i = j
	}
	return reach, out, nil
}

func main() {
	repo := flag.String("repo", "/repo", "repository root")
	out := flag.String("out", "/verif/lean/RJson/Gen/Facts.lean", "output file")
	flag.Parse()
	root1, files, err := analyse(*repo, "rjson")
	if err != nil {
		fmt.Fprintln(os.Stderr, err)
		os.Exit(2)
	}
	fpf, fpFiles, err := analyse(filepath.Join(*repo, "internal", "fp"), "fp")
	if err != nil {
		fmt.Fprintln(os.Stderr, err)
		os.Exit(2)
	}
	var b strings.Builder
	b.WriteString("/-! GENERATED by gofacts from the hand-written Go of /repo — do not edit. -/\nnamespace RJson.Gen.Facts\n\n")
	for _, pf := range []*pkgFacts{root1, fpf} {
		fmt.Fprintf(&b, "/-- package-level variables of package %s (name:kind) -/\ndef %sGlobals : List String := %s\n", pf.name, pf.name, leanList(pf.globals))
		fmt.Fprintf(&b, "/-- package-level variables that are not plain tables / sentinel errors / functions -/\ndef %sNonTableGlobals : List String := %s\n", pf.name, leanList(pf.nonTables))
		fmt.Fprintf(&b, "/-- statements inside functions that assign through a package-level variable -/\ndef %sGlobalWrites : List String := %s\n", pf.name, leanList(pf.writes))
		fmt.Fprintf(&b, "/-- `&global` and slices of global arrays (writable aliases) -/\ndef %sGlobalAliases : List String := %s\n", pf.name, leanList(pf.aliases))
		fmt.Fprintf(&b, "/-- method calls on package-level variables -/\ndef %sGlobalMethodCalls : List String := %s\n", pf.name, leanList(pf.calls))
		fmt.Fprintf(&b, "def %sGoStatements : List String := %s\n", pf.name, leanList(pf.goStmts))
		fmt.Fprintf(&b, "/-- imports of unsafe / sync / sync/atomic / reflect (file:path) -/\ndef %sSensitiveImports : List String := %s\n\n", pf.name, leanList(pf.imports))
	}
	// Decode* shapes
	var names []string
	shapes := map[string][2]string{}
	var nullOrBust string
	for path, f := range files {
		if filepath.Base(path) != "decode.go" {
			continue
		}
		for _, d := range f.Decls {
			fd, ok := d.(*ast.FuncDecl)
			if !ok || fd.Body == nil {
				continue
			}
			if strings.HasPrefix(fd.Name.Name, "Decode") {
				r, ok := decodeShape(fd)
				names = append(names, fd.Name.Name)
				shapes[fd.Name.Name] = [2]string{r, fmt.Sprint(ok)}
			}
			if fd.Name.Name == "nullOrBust" {
				nullOrBust = src(fd.Body)
			}
		}
	}
	sort.Strings(names)
	fmt.Fprintf(&b, "/-- every Decode* function of decode.go: (name, reader it calls, body has the canonical shape\n    `var val T; val, p, err = Reader(data…); if err != nil { return nullOrBust(data, err) }; *v = val; return p, err`) -/\ndef decodeFns : List (String × String × Bool) := [")
	for i, n := range names {
		if i > 0 {
			b.WriteString(", ")
		}
		fmt.Fprintf(&b, "(%q, %q, %s)", n, shapes[n][0], shapes[n][1])
	}
	b.WriteString("]\n")
	canonicalNOB := "{ p, err = ReadNull(data) if err != nil { return 0, origErr } return p, nil }"
	fmt.Fprintf(&b, "/-- nullOrBust has the canonical body -/\ndef nullOrBustCanonical : Bool := %v\n", nullOrBust == canonicalNOB)
	// the public wrappers of rjson.go around the generated machines: (name, inner function, canonical body)
	wrapperInner := map[string]string{"HandleObjectValues": "handleObjectValues", "HandleArrayValues": "handleArrayValues", "SkipValue": "skipValue", "SkipValueFast": "skipValueFast"}
	var wnames []string
	wshape := map[string]bool{}
	for path, f := range files {
		if filepath.Base(path) != "rjson.go" {
			continue
		}
		for _, d := range f.Decls {
			fd, ok := d.(*ast.FuncDecl)
			if !ok || fd.Body == nil || fd.Recv != nil {
				continue
			}
			inner, ok := wrapperInner[fd.Name.Name]
			if !ok {
				continue
			}
			mid := "data, "
			if strings.HasPrefix(fd.Name.Name, "Handle") {
				mid = "data, handler, "
			}
			canonical := fmt.Sprintf("{ if buffer == nil { p, _, err = %s(%snil) return p, err } p, buffer.stackBuf, err = %s(%sbuffer.stackBuf) return p, err }", inner, mid, inner, mid)
			wnames = append(wnames, fd.Name.Name)
			wshape[fd.Name.Name] = src(fd.Body) == canonical
		}
	}
	sort.Strings(wnames)
	fmt.Fprintf(&b, "/-- the Buffer wrappers of rjson.go: (name, body is exactly\n    `if buffer == nil { p, _, err = inner(data[, handler], nil); return p, err }; p, buffer.stackBuf, err = inner(data[, handler], buffer.stackBuf); return p, err`):\n    offset and error of the generated machine are handed on unchanged, the grown stack is stored back -/\ndef wrapperFns : List (String × Bool) := [")
	for i, n := range wnames {
		if i > 0 {
			b.WriteString(", ")
		}
		fmt.Fprintf(&b, "(%q, %v)", n, wshape[n])
	}
	b.WriteString("]\n")
	// numeric and character literals of every hand-written function (the constants the hand models copy): per source file
	// a list of (function, sorted literals). Strings (error texts) are left out.
	emitLits := func(defName, doc string, fs map[string]*ast.File, want func(base string) bool) {
		type fl struct{ name, lits string }
		var rows []fl
		for path, f := range fs {
			if !want(filepath.Base(path)) {
				continue
			}
			for _, d := range f.Decls {
				fd, ok := d.(*ast.FuncDecl)
				if !ok || fd.Body == nil {
					continue
				}
				var lits []string
				ast.Inspect(fd.Body, func(n ast.Node) bool {
					if bl, ok := n.(*ast.BasicLit); ok && (bl.Kind == token.INT || bl.Kind == token.FLOAT || bl.Kind == token.CHAR) {
						lits = append(lits, bl.Value)
					}
					return true
				})
				sort.Strings(lits)
				// operators and jump statements (sorted as well): a changed comparison or a dropped `break` is a changed fact
				var ops []string
				ast.Inspect(fd.Body, func(n ast.Node) bool {
					switch e := n.(type) {
					case *ast.BinaryExpr:
						ops = append(ops, e.Op.String())
					case *ast.UnaryExpr:
						ops = append(ops, "u"+e.Op.String())
					case *ast.IncDecStmt:
						ops = append(ops, e.Tok.String())
					case *ast.AssignStmt:
						if e.Tok != token.ASSIGN && e.Tok != token.DEFINE {
							ops = append(ops, e.Tok.String())
						}
					case *ast.BranchStmt:
						ops = append(ops, e.Tok.String())
					case *ast.ReturnStmt:
						ops = append(ops, "return")
					}
					return true
				})
				sort.Strings(ops)
				rows = append(rows, fl{funcKey("", fd), strings.Join(lits, " ") + " ;; " + strings.Join(ops, " ")})
			}
		}
		sort.Slice(rows, func(i, j int) bool { return rows[i].name < rows[j].name })
		fmt.Fprintf(&b, "/-- %s -/\ndef %s : List (String × String) := [", doc, defName)
		for i, r := range rows {
			if i > 0 {
				b.WriteString(", ")
			}
			fmt.Fprintf(&b, "(%q, %q)", r.name, r.lits)
		}
		b.WriteString("]\n")
	}
	emitLits("literalsFp", "internal/fp (fp.go, decimal.go, eisel_lemire.go): integer / float / character literals per function, then its operators and jump statements, each sorted", fpFiles, func(string) bool { return true })
	for _, g := range []struct{ def, file string }{{"literalsSimpleReaders", "simple_readers.go"}, {"literalsToken", "token.go"}, {"literalsHelpers", "machine_helpers.go"},
		{"literalsComplexReaders", "complex_readers.go"}, {"literalsDecode", "decode.go"}, {"literalsRjson", "rjson.go"}} {
		file := g.file
		emitLits(g.def, file+": integer / float / character literals per function, then its operators and jump statements, each sorted", files, func(base string) bool { return base == file })
	}
	// every index and slice expression of the hand-written token and integer readers, in source order: the places where the
	// checked model (Model/ApiChecked.lean) has an explicit bounds test or, for a 256-entry table indexed by a byte, none
	{
		type fl struct{ name, sites string }
		var rows []fl
		for path, f := range files {
			base := filepath.Base(path)
			if base != "token.go" && base != "simple_readers.go" && base != "decode.go" && base != "rjson.go" && base != "machine_helpers.go" {
				continue
			}
			for _, d := range f.Decls {
				fd, ok := d.(*ast.FuncDecl)
				if !ok || fd.Body == nil || strings.HasSuffix(fd.Name.Name, "Compat") {
					continue
				}
				var sites []string
				ast.Inspect(fd.Body, func(n ast.Node) bool {
					switch e := n.(type) {
					case *ast.IndexExpr:
						sites = append(sites, src(e))
					case *ast.SliceExpr:
						sites = append(sites, src(e))
					}
					return true
				})
				if len(sites) > 0 {
					rows = append(rows, fl{funcKey("", fd), strings.Join(sites, " | ")})
				}
			}
		}
		sort.Slice(rows, func(i, j int) bool { return rows[i].name < rows[j].name })
		fmt.Fprintf(&b, "/-- token.go, simple_readers.go, decode.go, rjson.go, machine_helpers.go: every index and slice expression per function, in source order -/\ndef indexSites : List (String × String) := [")
		for i, r := range rows {
			if i > 0 {
				b.WriteString(", ")
			}
			fmt.Fprintf(&b, "(%q, %q)", r.name, r.sites)
		}
		b.WriteString("]\n")
	}
	reach, sites, aerr := allocFacts(*repo)
	if aerr != nil {
		fmt.Fprintln(os.Stderr, aerr)
		os.Exit(2)
	}
	fmt.Fprintf(&b, "\n/-- functions (syntactically) reachable from the entry points of C19 -/\ndef zeroAllocReach : List String := %s\n", leanList(reach))
	fmt.Fprintf(&b, "/-- every construct in those functions that may allocate: make/new/append, composite literals, conversions to string / []byte,\n    closures, defer, go, calls into fmt/errors/strings/bytes/strconv (function | kind:source) -/\ndef zeroAllocSites : List String := %s\n", leanList(sites))
	b.WriteString("\nend RJson.Gen.Facts\n")
	old, err := os.ReadFile(*out)
	if err == nil && string(old) == b.String() {
		fmt.Println("Facts.lean unchanged")
		return
	}
	if err := os.WriteFile(*out, []byte(b.String()), 0o644); err != nil {
		fmt.Fprintln(os.Stderr, err)
		os.Exit(1)
	}
	fmt.Println("Facts.lean rewritten")
}
