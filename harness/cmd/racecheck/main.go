// racecheck: C18. Runs mixed API calls on shared read-only inputs from many goroutines (binary built with
// -race) and compares every result with the sequential run. Exit 1 + "MISMATCH" lines on a wrong result;
// the race detector itself exits with status 66 and a report on stderr.
package main

import (
	"flag"
	"fmt"
	"math"
	"math/rand"
	"os"
	"sort"
	"strings"
	"sync"

	"github.com/willabides/rjson"
)

type task struct {
	op   int
	data []byte
}

func render(v interface{}) string {
	switch x := v.(type) {
	case nil:
		return "n"
	case bool:
		return fmt.Sprint(x)
	case float64:
		return fmt.Sprint(math.Float64bits(x))
	case string:
		return fmt.Sprintf("%q", x)
	case []interface{}:
		var p []string
		for _, e := range x {
			p = append(p, render(e))
		}
		return "[" + strings.Join(p, ",") + "]"
	case map[string]interface{}:
		var ks []string
		for k := range x {
			ks = append(ks, k)
		}
		sort.Strings(ks)
		var p []string
		for _, k := range ks {
			p = append(p, fmt.Sprintf("%q:%s", k, render(x[k])))
		}
		return "{" + strings.Join(p, ",") + "}"
	}
	return "?"
}

const nOps = 15

func run(t task) (out string) {
	defer func() {
		if r := recover(); r != nil {
			out = "panic"
		}
	}()
	d := t.data
	switch t.op {
	case 0:
		return fmt.Sprint(rjson.Valid(d, nil))
	case 1:
		p, err := rjson.SkipValue(d, nil)
		return fmt.Sprint(p, err)
	case 2:
		p, err := rjson.SkipValueFast(d, nil)
		return fmt.Sprint(p, err)
	case 3:
		v, p, err := rjson.ReadValue(d)
		return fmt.Sprint(render(v), p, err)
	case 4:
		var r rjson.ValueReader
		v, p, err := r.ReadValue(d)
		v2, _, _ := r.ReadValue(d)
		return fmt.Sprint(render(v), render(v2), p, err)
	case 5:
		v, p, err := rjson.ReadFloat64(d)
		return fmt.Sprint(math.Float64bits(v), p, err)
	case 6:
		v, p, err := rjson.ReadString(d, nil)
		return fmt.Sprintf("%q %d %v", v, p, err)
	case 7:
		v, p, err := rjson.ReadStringBytes(d, nil)
		return fmt.Sprintf("%q %d %v", v, p, err)
	case 8:
		v, p, err := rjson.UnescapeStringContent(d, nil)
		return fmt.Sprintf("%q %d %v", v, p, err)
	case 9:
		var calls []string
		p, err := rjson.HandleArrayValues(d, rjson.ArrayValueHandlerFunc(func(x []byte) (int, error) {
			calls = append(calls, fmt.Sprint(len(x)))
			return rjson.SkipValue(x, nil)
		}), &rjson.Buffer{})
		return fmt.Sprint(calls, p, err)
	case 10:
		var calls []string
		p, err := rjson.HandleObjectValues(d, rjson.ObjectValueHandlerFunc(func(f, x []byte) (int, error) {
			calls = append(calls, string(f))
			return 0, nil
		}), nil)
		return fmt.Sprint(calls, p, err)
	case 11:
		a, p, err := rjson.ReadInt64(d)
		b, q, err2 := rjson.ReadUint64(d)
		return fmt.Sprint(a, p, err, b, q, err2)
	case 12:
		return rjson.StdLibCompatibleString(string(d)) + string(rjson.StdLibCompatibleStringBytes(d, nil))
	case 13:
		// String methods and other value-only API: every TokenType value, also the ones no reader returns
		var sb strings.Builder
		for v := 0; v < 256; v++ {
			sb.WriteString(rjson.TokenType(v).String())
			sb.WriteByte(';')
		}
		return sb.String()
	default:
		t1, p, err := rjson.NextToken(d)
		t2, q, err2 := rjson.NextTokenType(d)
		b, r, err3 := rjson.ReadBool(d)
		s, err4 := rjson.ReadNull(d)
		return fmt.Sprint(t1, p, err, t2, q, err2, b, r, err3, s, err4)
	}
}

func main() {
	seed := flag.Int64("seed", 1, "seed")
	nTasks := flag.Int("tasks", 4000, "tasks")
	rounds := flag.Int("rounds", 3, "rounds")
	goroutines := flag.Int("goroutines", 16, "goroutines")
	flag.Parse()
	r := rand.New(rand.NewSource(*seed))
	docs := [][]byte{}
	// documents: array mixes, object mixes, surrogate pairs, slow-path floats, escapes
	for i := 0; i < 200; i++ {
		var b strings.Builder
		depth := 1 + r.Intn(6)
		for k := 0; k < depth; k++ {
			if (i+k)%2 == 0 {
				b.WriteString("[")
			} else {
				fmt.Fprintf(&b, `{"k%d\n":`, k)
			}
		}
		switch i % 6 {
		case 0:
			fmt.Fprintf(&b, `"\ud8%02x\udc%02x x"`, r.Intn(4)*1+0x34, r.Intn(256))
		case 1:
			b.WriteString("9007199254740993")
		case 2:
			fmt.Fprintf(&b, "%d.%de-%d", r.Int63(), r.Int63(), r.Intn(300))
		case 3:
			b.WriteString(`"plain é𝄞"`)
		case 4:
			b.WriteString("[1,true,null,{}]")
		default:
			fmt.Fprintf(&b, "-%d", r.Int63())
		}
		for k := depth - 1; k >= 0; k-- {
			if (i+k)%2 == 0 {
				b.WriteString("]")
			} else {
				b.WriteString("}")
			}
		}
		docs = append(docs, []byte(b.String()))
	}
	for _, s := range []string{`"𝄞"`, `"𐀀􏿿"`, `𝄞😀`, `4.9e-324`, `1.7976931348623157e308`, ` true`, `null`, `[[[[[[[[[[1]]]]]]]]]]`, `{"a":{"a":{"a":{"a":{"a":1}}}}}`, "\xff\xfeabc"} {
		docs = append(docs, []byte(s))
	}
	// every error path too (an error value or message that carries per-call state must not be shared): out-of-range numbers
	// of several spellings, malformed values of every kind, depth-limit errors, integer overflows
	for _, s := range []string{`1e400`, `-2.5e999`, `1.7976931348623159e308`, `[1e999]`, `{"a":-1e400}`, `123456789012345678901234567890e400`, `9e99999`,
		`[`, `{`, `{"a"`, `{"a":`, `[1,`, `"abc`, `"\x"`, `"\ud800"`, `tru`, `nul`, `-`, `1.`, `1e`, `x`, ``, ` `, `[1 2]`, `{"a" 1}`, `[1,]`, `{,}`,
		`18446744073709551616`, `-9223372036854775809`, `99999999999999999999999`, "\"\x01\"", `{"a":[1,{"b":[2,{"c":` } {
		docs = append(docs, []byte(s))
	}
	docs = append(docs, []byte(strings.Repeat("[", 10050)), []byte(strings.Repeat(`{"a":`, 10050)))
	var tasks []task
	for i := 0; i < *nTasks; i++ {
		tasks = append(tasks, task{op: r.Intn(nOps), data: docs[r.Intn(len(docs))]})
	}
	// first contact happens concurrently: anything initialised or cached lazily on first use is then written by several
	// goroutines at once (the race detector sees it); the results are kept and compared below
	type rec struct {
		i   int
		out string
	}
	first := make([][]rec, *goroutines)
	{
		var wg sync.WaitGroup
		for g := 0; g < *goroutines; g++ {
			wg.Add(1)
			go func(g int) {
				defer wg.Done()
				rr := rand.New(rand.NewSource(*seed*977 + int64(g)))
				for k := 0; k < len(tasks)/8; k++ {
					i := rr.Intn(len(tasks))
					first[g] = append(first[g], rec{i, run(tasks[i])})
				}
			}(g)
		}
		wg.Wait()
	}
	want := make([]string, len(tasks))
	for i, t := range tasks {
		want[i] = run(t)
	}
	bad := 0
	var mu sync.Mutex
	for g := range first {
		for _, r := range first[g] {
			if r.out != want[r.i] {
				if bad < 10 {
					fmt.Printf("MISMATCH (first contact) op=%d data=%q\n  concurrent: %.200s\n  sequential: %.200s\n", tasks[r.i].op, tasks[r.i].data, r.out, want[r.i])
				}
				bad++
			}
		}
	}
	for round := 0; round < *rounds; round++ {
		var wg sync.WaitGroup
		for g := 0; g < *goroutines; g++ {
			wg.Add(1)
			go func(g int) {
				defer wg.Done()
				rr := rand.New(rand.NewSource(*seed*131 + int64(g) + int64(round)*977))
				for k := 0; k < len(tasks)/4; k++ {
					i := rr.Intn(len(tasks))
					if got := run(tasks[i]); got != want[i] {
						mu.Lock()
						if bad < 10 {
							fmt.Printf("MISMATCH op=%d data=%q\n  concurrent: %.200s\n  sequential: %.200s\n", tasks[i].op, tasks[i].data, got, want[i])
						}
						bad++
						mu.Unlock()
					}
				}
			}(g)
		}
		wg.Wait()
	}
	fmt.Printf("racecheck: %d tasks, %d goroutines x %d rounds, %d mismatches\n", len(tasks), *goroutines, *rounds, bad)
	if bad > 0 {
		os.Exit(1)
	}
}
