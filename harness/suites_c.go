package main

import (
	"bytes"
	"errors"
	"fmt"
	"math"
	"reflect"
	"strings"

	"github.com/willabides/rjson"
)

// ---- handler machines: inputs ----

func containerDocs(c *Ctx, open byte) (pool [][]byte, cl []string) {
	g := c.gen()
	add := func(b []byte, k string) { pool = append(pool, b); cl = append(cl, k) }
	for i := 0; i < c.scale(2500, 25000); i++ {
		var d []byte
		for tries := 0; tries < 20; tries++ {
			d = g.Doc(1+c.Rng.Intn(4), 3+c.Rng.Intn(25))
			t := bytes.TrimLeft(d, " \t\r\n")
			if len(t) > 0 && t[0] == open {
				break
			}
		}
		add(d, "doc")
		if i%2 == 0 {
			add(append(append([]byte(nil), d...), byte(c.Rng.Intn(256))), "doc:follow")
		}
		if i%3 == 0 {
			for _, m := range g.Mutate(d, 2) {
				add(m, "mutated")
			}
		}
	}
	var shapes []string
	if open == '[' {
		shapes = []string{`null`, ` null `, `nul`, `[]`, ` [ ] `, `[1]`, `[ "a"]`, `[[1, [2], 3], 4]`, `[{"a":[1,{"b":2}]},[],"x",null,true,false,-1.5e3]`, `[1,]`, `[,1]`, `[1 2]`, `[`, `]`, `[1`, `["a]`, `[tru]`, `[01]`, `[1,-01]`, `[-]`, `{}`, `1`, `"x"`, ``, `[1]]`, `[[]`, `[[1,2],[3,4]] x`, "[\"a\",\"b\"\t]", `[1e5-3]`, `["𐀀","é"]`}
	} else {
		shapes = []string{`null`, ` null `, `{}`, ` { } `, `{"a":1}`, `{"a": "b"}`, `{"page\fbreak":1}`, `{"a":1,"b" ` + "\r" + `:2}`, `{"outer\tkey":{"in\n":1}}`, `{"a":[1,2],"b":{"c":[{"d":1}]},"e":"x","f":null,"g":true}`, `{"a":1,}`, `{,"a":1}`, `{"a" 1}`, `{"a":}`, `{a:1}`, `{`, `}`, `{"a":1`, `{"a":1}}`, `{"a":01}`, `[]`, `1`, ``, `{"k":1,"k":2}`, `{"k":1}`, `{"":1}`, `{"a":{"b":{"c":{}}}} x`, `{"a":0,"b":[1,[2]]}`, `{"a":1e5-3}`}
	}
	for _, s := range shapes {
		add([]byte(s), "shape")
	}
	return
}

func handlerOp(name string, d []byte, stack []int, sc []Directive) (Case, *handlerOutcome) {
	line := machineLine(name, d, stack, sc, nil)
	impl := runMachineImpl(name, d, stack, sc, nil)
	return Case{Line: line, Impl: impl, Class: "machine:" + name}, parseHandlerOutcome(impl)
}

type handlerOutcome struct {
	kind   string
	p      string
	ncalls string
	trace  string
}

func parseHandlerOutcome(s string) *handlerOutcome {
	f := strings.Fields(s)
	o := &handlerOutcome{kind: s}
	if len(f) >= 5 {
		o.kind, o.p = f[0], f[1]
		o.ncalls = strings.TrimPrefix(f[4], "n=")
		if len(f) >= 6 {
			o.trace = strings.TrimPrefix(f[5], "t=")
		}
	}
	return o
}

// packageErrors: error values of the package itself, as a handler that delegates to the library would return them,
// plus two of the caller's own.
func packageErrors() []error {
	var out []error
	add := func(err error) {
		if err == nil {
			return
		}
		for _, e := range out {
			if e == err {
				return
			}
		}
		out = append(out, err)
	}
	_, e := rjson.SkipValue([]byte("[1, [2, 3"), nil)
	add(e)
	_, e = rjson.SkipValue([]byte("x"), nil)
	add(e)
	_, e = rjson.SkipValue([]byte(`"abc`), nil)
	add(e)
	_, e = rjson.SkipValue([]byte(""), nil)
	add(e)
	_, e = rjson.SkipValue([]byte("1e"), nil)
	add(e)
	_, e = rjson.SkipValue(nested(10050, "[", "", false), nil)
	add(e)
	_, e = rjson.ReadNull([]byte("x"))
	add(e)
	_, _, e = rjson.ReadBool([]byte("x"))
	add(e)
	_, _, e = rjson.ReadUint64([]byte("x"))
	add(e)
	_, _, e = rjson.ReadInt64([]byte("-"))
	add(e)
	_, _, e = rjson.ReadFloat64([]byte("x"))
	add(e)
	_, _, e = rjson.ReadFloat64([]byte("1e999"))
	add(e)
	_, _, e = rjson.ReadString([]byte("x"), nil)
	add(e)
	_, _, e = rjson.ReadString([]byte("\"\\x\""), nil)
	add(e)
	_, e = rjson.HandleArrayValues([]byte("x"), &scripted{}, nil)
	add(e)
	_, e = rjson.HandleObjectValues([]byte("x"), &scripted{}, nil)
	add(e)
	_, e = rjson.HandleArrayValues([]byte("[1"), &scripted{}, nil)
	add(e)
	_, _, e = rjson.NextToken([]byte(""))
	add(e)
	add(sentinels[3])
	add(errors.New("caller's own"))
	return out
}

// mixes of decline / exact per call
func scriptMixes(c *Ctx, exactSc []Directive) [][]Directive {
	out := [][]Directive{{{PP: 0}}, exactSc}
	n := len(exactSc)
	if n == 0 {
		return out
	}
	if n <= 6 && c.thorough() {
		for mask := 1; mask < (1<<n)-1; mask++ {
			sc := make([]Directive, n)
			for i := 0; i < n; i++ {
				if mask>>i&1 == 1 {
					sc[i] = exactSc[i]
				}
			}
			out = append(out, sc)
		}
		return out
	}
	for k := 0; k < 3; k++ {
		sc := make([]Directive, n)
		for i := 0; i < n; i++ {
			if c.Rng.Intn(2) == 1 {
				sc[i] = exactSc[i]
			}
		}
		out = append(out, sc)
	}
	return out
}

func init() {
	suites["C07"] = func(c *Ctx) (string, error) {
		s := c.Suite
		for _, mc := range []struct {
			name string
			open byte
			spec string
		}{{"handleArrayValues", '[', "specArr"}, {"handleObjectValues", '{', "specObj"}} {
			if c.Focus != "" && c.Focus != mc.name {
				continue
			}
			var cases []Case
			pool, cl := containerDocs(c, mc.open)
			emit := func(d []byte, class string, allMixes bool) {
				h := hx(d)
				ex := exactScript(mc.name, d)
				mixes := scriptMixes(c, ex)
				if !allMixes {
					mixes = mixes[:2]
				}
				for mi, sc := range mixes {
					var stack []int
					if mi%2 == 1 {
						stack = []int{9, 9, 9}
					}
					cs, o := handlerOp(mc.name, d, stack, sc)
					cs.Class = class
					cases = append(cases, cs)
					proj := "err"
					if o.kind == "ok" {
						proj = fmt.Sprintf("ok %s %s", o.p, o.trace)
					} else if o.kind == "panic" {
						proj = "panic"
					}
					cases = append(cases, specCase(class+":spec", mc.spec+" "+h, proj))
				}
			}
			for i, d := range pool {
				emit(d, cl[i], true)
			}
			if err := s.Run(cases); err != nil {
				return "", err
			}
			cases = nil
			lines, err := c.Model.Multi(fmt.Sprintf("cover %s %d", mc.name, c.scale(1, 2)), "end-cover")
			if err != nil {
				return "", err
			}
			for _, ln := range lines {
				f := strings.Fields(ln)
				if len(f) < 2 {
					continue
				}
				inp := unhx(f[0])
				emit(inp, "cover", false)
				if f[1] != "!" && f[1] != "-" {
					emit(append(append([]byte(nil), inp...), unhx(f[1])...), "cover+completion", false)
				}
			}
			if err := s.Run(cases); err != nil {
				return "", err
			}
		}
		return "HandleArrayValues/HandleObjectValues (raw machines, nil and garbage-prefilled stacks, stack scribbled by the handler) on generated/mutated documents, shapes and the machines' transition covers with completions, under well-behaved handler strategies (decline all, exact offsets from an independent encoding/json oracle, random and — thorough, ≤6 members — all per-call mixes); success, end offset and the full call trace (field bytes, member offset) compared with the model and with the Lean specification traverseArray/traverseObject", nil
	}
}

// ---- C09 ----

var hostileOffsets = []int{0, 1, 2, -1, -2, 7, 1000, math.MaxInt64, math.MaxInt64 - 1, math.MinInt64, math.MinInt64 + 1, -(1 << 62), 1 << 62}

func init() {
	suites["C09"] = func(c *Ctx) (string, error) {
		s := c.Suite
		var cases []Case
		for _, mc := range []struct {
			name string
			open byte
		}{{"handleArrayValues", '['}, {"handleObjectValues", '{'}} {
			pool, _ := containerDocs(c, mc.open)
			if !c.thorough() && len(pool) > 1800 {
				pool = pool[:1800]
			}
			for di, d := range pool {
				ex := exactScript(mc.name, d)
				n := len(ex)
				if n == 0 {
					continue
				}
				ks := []int{1, n, 1 + c.Rng.Intn(n)}
				if c.thorough() {
					ks = nil
					for k := 1; k <= n; k++ {
						ks = append(ks, k)
					}
				}
				for _, k := range ks {
					off := hostileOffsets[(di+k)%len(hostileOffsets)]
					if (di+k)%4 == 0 {
						off = ex[k-1].PP
					}
					sc := make([]Directive, k)
					for i := 0; i < k-1; i++ {
						if (di+i)%2 == 0 {
							sc[i] = ex[i]
						}
					}
					id := 1 + (di+k)%40
					sc[k-1] = Directive{Err: true, ID: id, PP: off}
					cs, o := handlerOp(mc.name, d, nil, sc)
					cs.Class = "error-at-call"
					cases = append(cases, cs)
					s.Evaluations++
					want := fmt.Sprintf("herr:%d", id)
					var nc int
					fmt.Sscan(o.ncalls, &nc)
					// the traversal may legitimately stop before call k (malformed document, earlier range error)
					if (nc == k && o.kind != want) || nc > k || o.kind == "panic" {
						s.Violation(cs.Line, cs.Impl, want+" after exactly "+fmt.Sprint(k)+" calls", "error-at-call", "handler error not returned unchanged / further calls made")
					}
				}
			}
		}
		if err := s.Run(cases); err != nil {
			return "", err
		}
		// the public wrappers (rjson.HandleArrayValues / HandleObjectValues, nil and reused Buffer): whatever error the handler
		// returns - a caller's own value or one of the package's own error values, as a handler that delegates to
		// rjson.SkipValue / a reader does - comes back as the very same value (==), with the very same offset the
		// machine reports
		pubErrs := packageErrors()
		for _, mc := range []struct {
			name string
			open byte
		}{{"handleArrayValues", '['}, {"handleObjectValues", '{'}} {
			pool, _ := containerDocs(c, mc.open)
			if len(pool) > c.scale(600, 6000) {
				pool = pool[:c.scale(600, 6000)]
			}
			buf := &rjson.Buffer{}
			for di, d := range pool {
				ex := exactScript(mc.name, d)
				if len(ex) == 0 {
					continue
				}
				k := 1 + (di*7)%len(ex)
				sc := make([]Directive, k)
				copy(sc, ex[:k-1])
				sc[k-1] = Directive{Err: true, ID: 1, PP: ex[k-1].PP}
				e := pubErrs[di%len(pubErrs)]
				for _, useBuf := range []bool{false, true} {
					h := &scripted{script: sc, total: len(d), override: e}
					var p int
					var err error
					out := guard(func() string {
						var b *rjson.Buffer
						if useBuf {
							b = buf
						}
						if mc.name == "handleArrayValues" {
							p, err = rjson.HandleArrayValues(exact(d), h, b)
						} else {
							p, err = rjson.HandleObjectValues(exact(d), h, b)
						}
						return "done"
					})
					s.Evaluations++
					s.Classes["public-wrapper"]++
					line := fmt.Sprintf("public %s %s errAtCall=%d err=%q buffer=%v", mc.name, hx(d), k, e.Error(), useBuf)
					if out != "done" {
						s.Violation(line, out, "no panic", "public-wrapper", "public wrapper panicked")
						continue
					}
					if h.idx == k && err != e {
						s.Violation(line, fmt.Sprintf("returned %v (%p-identity differs) p=%d", err, err, p), "the handler's own error value", "public-wrapper", "handler error not returned unchanged by the public wrapper")
					}
					if h.idx > k {
						s.Violation(line, fmt.Sprintf("%d calls", h.idx), fmt.Sprintf("%d calls", k), "public-wrapper", "handler called again after it returned an error")
					}
				}
			}
		}
		// transition cover: an error on the first / last call of every cover string
		for _, name := range []string{"handleArrayValues", "handleObjectValues"} {
			lines, err := c.Model.Multi(fmt.Sprintf("cover %s %d", name, 1), "end-cover")
			if err != nil {
				return "", err
			}
			cases = nil
			for li, ln := range lines {
				f := strings.Fields(ln)
				if len(f) < 2 {
					continue
				}
				d := unhx(f[0])
				if f[1] != "!" && f[1] != "-" {
					d = append(d, unhx(f[1])...)
				}
				ex := exactScript(name, d)
				for _, k := range []int{1, len(ex)} {
					if k < 1 || k > len(ex) {
						continue
					}
					sc := make([]Directive, k)
					id := 1 + (li+k)%40
					sc[k-1] = Directive{Err: true, ID: id, PP: hostileOffsets[(li+k)%len(hostileOffsets)]}
					cs, o := handlerOp(name, d, nil, sc)
					cs.Class = "cover:error"
					cases = append(cases, cs)
					s.Evaluations++
					if o.ncalls == fmt.Sprint(k) && o.kind != fmt.Sprintf("herr:%d", id) {
						s.Violation(cs.Line, cs.Impl, fmt.Sprintf("herr:%d", id), "cover:error", "handler error not returned unchanged")
					}
				}
			}
			if err := s.Run(cases); err != nil {
				return "", err
			}
		}
		return "handler returning a sentinel error at call k (first, last, random; thorough: every k) with accompanying offsets from {0, exact, ±1, ±2, 1000, MaxInt64, MaxInt64-1, MinInt64, MinInt64+1, ±2^62}, earlier calls declining or returning exact offsets, on generated documents and on every transition-cover string; identity of the returned error (==) and the number of calls compared with the property and with the model", nil
	}
}

// ---- C10 ----

func init() {
	suites["C10"] = func(c *Ctx) (string, error) {
		s := c.Suite
		var cases []Case
		// hostile handler offsets at every call index
		for _, mc := range []struct {
			name string
			open byte
		}{{"handleArrayValues", '['}, {"handleObjectValues", '{'}} {
			pool, _ := containerDocs(c, mc.open)
			if !c.thorough() && len(pool) > 1500 {
				pool = pool[:1500]
			}
			for di, d := range pool {
				ex := exactScript(mc.name, d)
				n := len(ex)
				if n == 0 {
					continue
				}
				for trial := 0; trial < 3; trial++ {
					k := 1 + (di+trial)%n
					sc := make([]Directive, k)
					for i := 0; i < k-1; i++ {
						if i%2 == 0 {
							sc[i] = ex[i]
						}
					}
					var off int
					base := ex[k-1].PP
					rest := len(d)
					switch (di + trial) % 9 {
					case 0:
						off = math.MaxInt64 - (di % 8)
					case 1:
						off = math.MinInt64 + (di % 3)
					case 2:
						off = base + 1
					case 3:
						off = base - 1
					case 4:
						off = rest + (di % 4) - 1
					case 5:
						off = -1 - (di % 3)
					case 6:
						off = 1 << 62
					case 7:
						off = 1 + di%3
					default:
						off = -(1 << 62)
					}
					sc[k-1] = Directive{PP: off}
					cs, o := handlerOp(mc.name, d, nil, sc)
					cs.Class = "hostile-offset"
					cases = append(cases, cs)
					s.Evaluations++
					if o.kind == "panic" {
						s.Violation(cs.Line, cs.Impl, "no panic", "hostile-offset", "panic on a hostile handler offset")
					}
					if o.kind == "ok" {
						var p int
						fmt.Sscan(o.p, &p)
						if p < 0 || p > len(d) {
							s.Violation(cs.Line, cs.Impl, "0 <= p <= len", "hostile-offset", "offset reported with a nil error lies outside the input")
						}
					}
				}
			}
		}
		// every cover string with the first call returning each hostile offset
		for _, name := range []string{"handleArrayValues", "handleObjectValues"} {
			lines, err := c.Model.Multi(fmt.Sprintf("cover %s %d", name, 1), "end-cover")
			if err != nil {
				return "", err
			}
			for li, ln := range lines {
				f := strings.Fields(ln)
				if len(f) < 2 || f[1] == "!" {
					continue
				}
				d := unhx(f[0])
				if f[1] != "-" {
					d = append(d, unhx(f[1])...)
				}
				for t := 0; t < 2; t++ {
					off := hostileOffsets[(li+t*5)%len(hostileOffsets)]
					sc := []Directive{{PP: off}}
					if t == 1 {
						sc = []Directive{{PP: 0}, {PP: off}}
					}
					cs, o := handlerOp(name, d, nil, sc)
					cs.Class = "cover:hostile"
					cases = append(cases, cs)
					s.Evaluations++
					if o.kind == "panic" {
						s.Violation(cs.Line, cs.Impl, "no panic", "cover:hostile", "panic on a hostile handler offset")
					}
				}
			}
		}
		if err := s.Run(cases); err != nil {
			return "", err
		}
		// hostile byte strings through every exported entry point
		g := c.gen()
		var pool [][]byte
		for i := 0; i < c.scale(1500, 20000); i++ {
			d := g.Doc(1+c.Rng.Intn(4), 3+c.Rng.Intn(20))
			pool = append(pool, g.Mutate(d, 3)...)
			n := c.Rng.Intn(12)
			b := make([]byte, n)
			c.Rng.Read(b)
			pool = append(pool, b)
		}
		sp, _ := stringInputs(c)
		for i := 0; i < len(sp); i += c.scale(40, 4) {
			pool = append(pool, sp[i])
		}
		// exact-capacity inputs around truncated escapes (out-of-range reads cannot hide in spare capacity)
		for _, s := range []string{`"\ud800\udc"`, `"\ud800\ud`, `"\ud800\u`, `"\ud800\`, `"\ud800\udc0`, `"𐀀`, `\ud800\udc`, `\ud800\udc0`, `\u00`, `\u004`, `\ud834\udd1`} {
			pool = append(pool, []byte(s))
		}
		deep := c.scale(100000, 1000000)
		for _, kinds := range []string{"[", "{", "[{", "{["} {
			pool = append(pool, nested(deep, kinds, "", false), nested(deep, kinds, "1", true))
		}
		pool = append(pool, append([]byte(`"`), bytes.Repeat([]byte("a"), 1<<20)...), append([]byte("1"), bytes.Repeat([]byte("0"), 1<<20)...), bytes.Repeat([]byte(" "), 1<<20), append(append([]byte(`"`), bytes.Repeat([]byte(`A`), 1<<16)...), '"'))
		allOps := []string{"Valid", "SkipValue", "SkipValueFast", "NextToken", "NextTokenType", "ReadUint64", "ReadInt64", "ReadInt32", "ReadUint32", "ReadInt", "ReadUint", "ReadFloat64", "ReadNull", "ReadBool", "ReadStringBytes", "ReadString", "UnescapeStringContent", "DecodeBool", "DecodeFloat64", "DecodeInt64", "DecodeString", "StdString", "StdBytes", "ReadValue", "ReadObject", "ReadArray"}
		for _, d := range pool {
			h := hx(d)
			big := len(d) > 4096
			for _, op := range allOps {
				var args []string
				switch op {
				case "Valid", "SkipValue", "SkipValueFast":
					args = []string{h, "-"}
				case "ReadStringBytes", "UnescapeStringContent", "StdBytes":
					args = []string{h, "-"}
				case "DecodeBool":
					args = []string{h, "true"}
				case "DecodeFloat64", "DecodeInt64":
					args = []string{h, "7"}
				case "DecodeString":
					args = []string{h, "73"}
				default:
					args = []string{h}
				}
				impl := runAPI(op, args)
				s.Evaluations++
				s.Classes["entry:"+op]++
				if impl == "panic" {
					s.Violation(op+" "+strings.Join(args, " "), impl, "no panic", "entry-point", "exported function panicked")
				}
				if f := strings.Fields(impl); len(f) == 3 && f[0] == "ok" {
					var p int
					if _, err := fmt.Sscan(f[2], &p); err == nil && (p < 0 || p > len(d)) {
						s.Violation(op+" "+h, impl, "0 <= p <= len", "entry-point", "offset outside the input with a nil error")
					}
				}
				if !big {
					s.Distinct[op+" "+h] = struct{}{}
				}
			}
			if big {
				// handler traversals on the big inputs too
				for _, name := range []string{"handleArrayValues", "handleObjectValues"} {
					out := runMachineImpl(name, d, nil, []Directive{{PP: 0}}, nil)
					s.Evaluations++
					if strings.HasPrefix(out, "panic") {
						s.Violation("M "+name+" <"+fmt.Sprint(len(d))+" bytes>", out, "no panic", "deep", "panic on deep/large input")
					}
				}
			}
		}
		// exported methods called directly, on zero-value receivers and with values no reader produces: the ValueReader's
		// own handler methods (it implements both handler interfaces), every TokenType value's String
		for v := 0; v < 256; v++ {
			out := guard(func() string { return "ok " + rjson.TokenType(v).String() })
			s.Evaluations++
			s.Classes["method:TokenType.String"]++
			if out == "panic" {
				s.Violation(fmt.Sprintf("TokenType(%d).String()", v), out, "no panic", "exported-method", "exported method panicked")
			}
		}
		for _, m := range []struct{ field, data string }{{"a", "1}"}, {"a", `"x"}`}, {"", "{}}"}, {`a\n`, "[1]}"}, {"a", ""}, {"a", "x"}, {`\u00`, "1}"}, {"k", "1e999}"}} {
			for _, warm := range []bool{false, true} {
				out := guard(func() string {
					r := &rjson.ValueReader{}
					if warm {
						r.ReadValue([]byte(`{"w":[1,{"x":2}]}`))
					}
					p, err := r.HandleObjectValue([]byte(m.field), []byte(m.data))
					p2, err2 := r.HandleArrayValue([]byte(m.data))
					return fmt.Sprint("ok ", p, err != nil, p2, err2 != nil)
				})
				s.Evaluations++
				s.Classes["method:ValueReader.Handle*Value"]++
				if out == "panic" {
					s.Violation(fmt.Sprintf("(&ValueReader{}).HandleObjectValue(%q, %q) warm=%v", m.field, m.data, warm), out, "no panic", "exported-method", "exported method panicked on a zero-value / reused receiver")
				}
			}
		}
		// number literals on every conversion path (table boundaries of the multiprecision slow path included) through
		// the float entry points, alone and inside a document
		lits, lcl := floatLiterals(c)
		for i, lit := range lits {
			if !c.thorough() && (lcl[i] == "generated" || lcl[i] == "generated-long" || lcl[i] == "table-row") && i%4 != 0 {
				continue
			}
			h := hx([]byte(lit))
			ops := [][]string{{"ReadFloat64", h}, {"DecodeFloat64", h, "7"}}
			if i%4 == 0 {
				ops = append(ops, []string{"ReadValue", hx([]byte("[1," + lit + "]"))})
			}
			for _, oa := range ops {
				impl := runAPI(oa[0], oa[1:])
				s.Evaluations++
				s.Classes["float-entry:"+lcl[i]]++
				if impl == "panic" {
					s.Violation(oa[0]+" "+strings.Join(oa[1:], " "), impl, "no panic", "float-entry", "exported function panicked on a number literal")
				}
			}
		}
		return "hostile handler offsets (MaxInt64-k, MinInt64+k, ±2^62, exact±1, len-1..len+2, small negatives) at every call index on generated documents and transition-cover strings; every exported entry point on mutated documents, random bytes, string-token corner cases (exact-capacity inputs), nesting 10^5 (quick) / 10^6 (thorough) in four array/object mixtures, megabyte single tokens; the number literals of the C04 suite (every conversion path, table boundaries of the slow path) through ReadFloat64 / DecodeFloat64 / ReadValue; panics (recover), offsets outside the input with a nil error, and model correspondence", nil
	}
}

// ---- C14: Buffer sessions ----

type reentrant struct {
	buf   *rjson.Buffer
	calls int
	inner [][]byte
}

func (h *reentrant) HandleArrayValue(data []byte) (int, error) {
	h.calls++
	// re-enter the library with the very Buffer of the enclosing call (the benchmark code's pattern)
	d := h.inner[h.calls%len(h.inner)]
	rjson.SkipValue(d, h.buf)
	rjson.Valid(d, h.buf)
	return rjson.SkipValue(data, h.buf)
}

func (h *reentrant) HandleObjectValue(field, data []byte) (int, error) {
	h.calls++
	d := h.inner[h.calls%len(h.inner)]
	rjson.SkipValueFast(d, h.buf)
	rjson.HandleArrayValues(d, rjson.ArrayValueHandlerFunc(func(x []byte) (int, error) { return rjson.SkipValue(x, h.buf) }), h.buf)
	return rjson.SkipValue(data, h.buf)
}

var errStop = errors.New("stop")

type stopAfter struct{ n, calls int }

func (h *stopAfter) HandleArrayValue(data []byte) (int, error) {
	h.calls++
	if h.calls >= h.n {
		return 0, errStop
	}
	return 0, nil
}
func (h *stopAfter) HandleObjectValue(f, data []byte) (int, error) { return h.HandleArrayValue(data) }

func bufOp(kind int, d []byte, buf *rjson.Buffer, inner [][]byte) string {
	return guard(func() string {
		switch kind {
		case 0:
			return fmt.Sprint(rjson.Valid(d, buf))
		case 1:
			p, err := rjson.SkipValue(d, buf)
			return fmt.Sprintf("%d %s", p, rjson.VerifErrClass(err))
		case 2:
			p, err := rjson.SkipValueFast(d, buf)
			return fmt.Sprintf("%d %s", p, rjson.VerifErrClass(err))
		case 3:
			h := &scripted{total: len(d)}
			p, err := rjson.HandleArrayValues(d, h, buf)
			return fmt.Sprintf("%d %s %s", p, errKind(err), traceString(h.trace))
		case 4:
			h := &scripted{total: len(d)}
			p, err := rjson.HandleObjectValues(d, h, buf)
			return fmt.Sprintf("%d %s %s", p, errKind(err), traceString(h.trace))
		case 5:
			h := &stopAfter{n: 2}
			p, err := rjson.HandleArrayValues(d, h, buf)
			return fmt.Sprintf("%d %v %d", p, err == errStop, h.calls)
		case 6:
			h := &stopAfter{n: 2}
			p, err := rjson.HandleObjectValues(d, h, buf)
			return fmt.Sprintf("%d %v %d", p, err == errStop, h.calls)
		case 7:
			h := &reentrant{buf: buf, inner: inner}
			if buf == nil {
				h.buf = nil
			}
			p, err := rjson.HandleArrayValues(d, h, buf)
			return fmt.Sprintf("%d %s %d", p, rjson.VerifErrClass(err), h.calls)
		default:
			h := &reentrant{buf: buf, inner: inner}
			p, err := rjson.HandleObjectValues(d, h, buf)
			return fmt.Sprintf("%d %s %d", p, rjson.VerifErrClass(err), h.calls)
		}
	})
}

func init() {
	suites["C14"] = func(c *Ctx) (string, error) {
		s := c.Suite
		g := c.gen()
		var docs [][]byte
		for i := 0; i < 400; i++ {
			d := g.Doc(1+c.Rng.Intn(6), 3+c.Rng.Intn(30))
			docs = append(docs, d)
			if i%3 == 0 {
				docs = append(docs, g.Mutate(d, 1)[0])
			}
		}
		// deep documents: grow the shared stack beyond the depth limit, then hit the limit with the same buffer
		deepDocs := [][]byte{nested(12000, "[", "1", true), nested(12000, "{", "1", true), nested(10001, "[", "1", true), nested(10001, "{", "1", true), nested(10000, "[", "1", true), nested(10000, "[{", "1", true), nested(10001, "{[", "1", true), nested(9999, "[", "", false), nested(20000, "[", "", false)}
		inner := [][]byte{[]byte(`[[1,[2]],{"a":[3]}]`), []byte(`{"x":{"y":{"z":[1,2,[3]]}}}`), []byte(`[[[[[[1]]]]]]`), []byte(`[1`), []byte(`{"a":[}`)}
		var cases []Case
		sessions := c.scale(300, 3000)
		for si := 0; si < sessions; si++ {
			buf := &rjson.Buffer{}
			if si%4 == 1 {
				rjson.VerifSetBufferStack(buf, []int{42, 42, 42, 42, 42, 42, 42, 42, 42})
			}
			n := 3 + c.Rng.Intn(10)
			var hist []string
			for oi := 0; oi < n; oi++ {
				kind := c.Rng.Intn(9)
				d := docs[c.Rng.Intn(len(docs))]
				if si%10 == 0 && oi%2 == 0 {
					d = deepDocs[c.Rng.Intn(len(deepDocs))]
					if kind >= 7 {
						kind = c.Rng.Intn(5)
					}
				}
				d = exact(d)
				// model correspondence of the non-handler ops with the stack actually stored in the buffer
				if kind <= 2 && len(d) < 4096 {
					st := rjson.VerifBufferStack(buf)
					if len(st) <= 64 {
						op := []string{"Valid", "SkipValue", "SkipValueFast"}[kind]
						cases = append(cases, apiCase("session:"+op, op, hx(d), stackString(st)+ifEmpty(st)))
					}
				}
				got := bufOp(kind, d, buf, inner)
				want := bufOp(kind, d, nil, inner)
				hist = append(hist, fmt.Sprintf("op%d(%d bytes)", kind, len(d)))
				s.Evaluations++
				s.Classes[fmt.Sprintf("op%d", kind)]++
				s.Distinct[fmt.Sprintf("%d/%d/%s", si, oi, got)] = struct{}{}
				if got != want {
					line := fmt.Sprintf("session %d op %d kind=%d data=%s history=%s", si, oi, kind, hxShort(d), strings.Join(hist, ","))
					s.Violation(line, got, want, "session", "outcome with a reused/shared Buffer differs from the outcome with no buffer")
				}
			}
		}
		if err := s.Run(cases); err != nil {
			return "", err
		}
		return "random call sequences (3-12 calls) over Valid, SkipValue, SkipValueFast, HandleArrayValues, HandleObjectValues on one Buffer: different documents, malformed documents, handler aborts, handlers re-entering the library with the same Buffer, buffers pre-filled with garbage, documents nested 9999..20000 deep that grow the shared stack past the depth limit; every outcome compared with the nil-buffer outcome, and the non-handler calls with the model run on the stack actually stored in the Buffer", nil
	}
}

func ifEmpty(st []int) string {
	return ""
}

func hxShort(d []byte) string {
	if len(d) > 64 {
		return hx(d[:64]) + fmt.Sprintf("...(%d bytes)", len(d))
	}
	return hx(d)
}

// ---- C15: ValueReader sessions ----

func init() {
	suites["C15"] = func(c *Ctx) (string, error) {
		s := c.Suite
		g := c.gen()
		var docs [][]byte
		for i := 0; i < 500; i++ {
			d := g.Doc(1+c.Rng.Intn(6), 3+c.Rng.Intn(30))
			docs = append(docs, d)
			if i%3 == 0 {
				docs = append(docs, g.Mutate(d, 1)[0])
			}
		}
		docs = append(docs, []byte(`{"a":1,"b":}`), []byte(`[1,2,`), []byte(`{"outer\tkey":{"in\n":1}}`), []byte(`null`), []byte(`[]`), []byte(`{}`), []byte(`{"a":{"b":1},"a":2}`))
		deep := [][]byte{nested(10000, "[", "1", true), nested(10001, "[", "1", true), nested(10000, "{", "1", true), nested(10001, "{", "1", true), nested(10001, "[{", "1", true), nested(9999, "{[", "1", true)}
		call := func(r *rjson.ValueReader, kind int, d []byte) (interface{}, string) {
			var v interface{}
			out := guard(func() string {
				var p int
				var err error
				switch kind {
				case 0:
					v, p, err = r.ReadValue(d)
				case 1:
					var m map[string]interface{}
					m, p, err = r.ReadObject(d)
					if err == nil {
						v = m
					}
				default:
					var a []interface{}
					a, p, err = r.ReadArray(d)
					if err == nil {
						v = a
					}
				}
				if err != nil {
					v = nil
					return fmt.Sprintf("err:%s %d", rjson.VerifErrClass(err), p)
				}
				return fmt.Sprintf("ok %s %d", renderVal(v), p)
			})
			return v, out
		}
		// directed histories: keys that are confusable when a raw and a decoded form are mixed up (the raw text of one is the
		// decoding of the other), in the same member position of consecutive objects; error exits behind an escaped key
		// followed by another escaped key; the same with arrays of objects
		type step struct {
			kind int
			d    string
		}
		var scripts [][]step
		confusable := [][2]string{{`"a\\tb"`, `"a\tb"`}, {`"\\u0041"`, `"\u0041"`}, {`"A"`, `"\u0041"`}, {`"k\\\\"`, `"k\\"`}, {`"a\u0009b"`, `"a\tb"`}, {`"x\n"`, `"y\t"`}, {`"𝄞"`, `"\ud834\udd1e"`}}
		for _, pr := range confusable {
			for _, ord := range [][2]string{{pr[0], pr[1]}, {pr[1], pr[0]}} {
				scripts = append(scripts,
					[]step{{1, `{` + ord[0] + `:1}`}, {1, `{` + ord[1] + `:2}`}, {1, `{` + ord[0] + `:3}`}},
					[]step{{0, `[{` + ord[0] + `:1},{` + ord[1] + `:2}]`}, {0, `{"p":{` + ord[1] + `:1},"q":{` + ord[0] + `:2}}`}},
					[]step{{1, `{` + ord[0] + `:1e999}`}, {1, `{` + ord[1] + `:1}`}},
					[]step{{1, `{` + ord[0] + `:[1,`}, {0, `{` + ord[1] + `:{` + ord[0] + `:1}}`}, {1, `{"plain":1}`}, {1, `{` + ord[1] + `:1}`}},
					[]step{{2, `[{` + ord[0] + `:"\x"}]`}, {2, `[{` + ord[1] + `:1}]`}})
			}
		}
		sessions := c.scale(250, 2500) + len(scripts)
		var cases []Case
		for si := 0; si < sessions; si++ {
			r := &rjson.ValueReader{}
			// the stateful model is run on the same history (sessions without the 10,000-deep documents)
			histOK := true
			var histLine, histImpl []string
			type kept struct {
				v    interface{}
				copy interface{}
				desc string
			}
			var earlier []kept
			n := 2 + c.Rng.Intn(12)
			if si%25 == 0 {
				n = 50
			}
			var script []step
			if si < len(scripts) {
				script = scripts[si]
				n = len(script)
			}
			for oi := 0; oi < n; oi++ {
				kind := c.Rng.Intn(3)
				d := docs[c.Rng.Intn(len(docs))]
				if si%8 == 0 && oi%3 == 0 {
					d = deep[c.Rng.Intn(len(deep))]
				}
				if script != nil {
					kind, d = script[oi].kind, []byte(script[oi].d)
				}
				d = exact(d)
				if len(d) > 8192 {
					histOK = false
				}
				hxd := hx(d)
				v, got := call(r, kind, d)
				if histOK {
					st := rjson.VerifReaderState(r)
					histLine = append(histLine, fmt.Sprintf("%d:%s", kind, hxd))
					histImpl = append(histImpl, fmt.Sprintf("%s d=%d nm=%d lm=%d mm=%d ns=%d ls=%d", got, st.Depth, st.NewMapSize, st.LastMapSize, st.MaxMapSize, st.NewSliceSize, st.LastSliceSize))
				}
				_, want := call(&rjson.ValueReader{}, kind, exact(d))
				s.Evaluations++
				s.Classes[fmt.Sprintf("kind%d", kind)]++
				s.Distinct[fmt.Sprintf("%d/%d/%d", si, oi, len(got))] = struct{}{}
				if got != want {
					s.Violation(fmt.Sprintf("session %d call %d kind=%d data=%s", si, oi, kind, hxShort(d)), cut(got), cut(want), "session", "reused ValueReader differs from a fresh one")
				}
				// earlier results must be unchanged
				for _, e := range earlier {
					if !reflect.DeepEqual(e.v, e.copy) {
						s.Violation(fmt.Sprintf("session %d call %d: %s", si, oi, e.desc), "earlier result changed", "unchanged", "session", "a value returned earlier was mutated by a later call")
					}
				}
				if v != nil && len(d) < 4096 {
					earlier = append(earlier, kept{v: v, copy: deepCopy(v), desc: fmt.Sprintf("result of call %d", oi)})
					if len(earlier) > 6 {
						earlier = earlier[1:]
					}
					// the caller modifies the latest result
					if oi%2 == 0 {
						switch x := v.(type) {
						case []interface{}:
							for i := range x {
								x[i] = "clobbered"
							}
							earlier[len(earlier)-1].copy = deepCopy(v)
						case map[string]interface{}:
							x["clobbered"] = 1
							earlier[len(earlier)-1].copy = deepCopy(v)
						}
					}
				}
				// clobber the input after the call
				for k := range d {
					d[k] = 0xEE
				}
			}
			if histOK && len(histLine) > 0 {
				cases = append(cases, Case{Line: "VRHistory " + strings.Join(histLine, " "), Impl: strings.Join(histImpl, " | "), Class: "history:stateful-model"})
			}
		}
		if err := s.Run(cases); err != nil {
			return "", err
		}
		return "sequences of 2-14 (every 25th: 50) ReadValue/ReadObject/ReadArray calls on one ValueReader over valid, malformed and depth-limit documents; each outcome compared with a fresh reader's; all results kept so far deep-compared with copies taken at return time after every later call, after the caller clobbered later results and after the inputs were overwritten; every history without 10,000-deep documents is also run through the stateful Lean model of the reader (Model.ReaderState: depth, size hints, pool oracle) and the outcome and the reader's own depth / size-hint fields after every call are compared", nil
	}
}

func cut(s string) string {
	if len(s) > 300 {
		return s[:300] + "..."
	}
	return s
}
