package main

import (
	"bufio"
	"encoding/hex"
	"encoding/json"
	"fmt"
	"io"
	"os"
	"os/exec"
	"sort"
	"strings"
	"sync"
	"time"
)

// Case is one operation: the protocol line sent to modeld and the canonical output of the real code.
type Case struct {
	Line  string // protocol line for the model
	Impl  string // canonical output of the implementation
	Class string // bucket for the input-distribution histogram
	// Spec: the line is a *specification* operation (property oracle): a mismatch is a concrete violation of
	// the property. Otherwise the line runs the model of the code: a mismatch is a broken correspondence.
	// A spec result "any" means the property does not constrain this input.
	Spec bool
}

// Model is a running modeld process.
type Model struct {
	cmd *exec.Cmd
	wc  io.WriteCloser
	in  *bufio.Writer
	out *bufio.Reader
	mu  sync.Mutex
}

func startModel(path string) (*Model, error) {
	cmd := exec.Command(path)
	stdin, err := cmd.StdinPipe()
	if err != nil {
		return nil, err
	}
	stdout, err := cmd.StdoutPipe()
	if err != nil {
		return nil, err
	}
	cmd.Stderr = os.Stderr
	if err := cmd.Start(); err != nil {
		return nil, err
	}
	return &Model{cmd: cmd, wc: stdin, in: bufio.NewWriterSize(stdin, 1<<20), out: bufio.NewReaderSize(stdout, 1<<20)}, nil
}

func (m *Model) Close() {
	m.in.Flush()
	m.wc.Close()
	m.cmd.Wait()
}

func (m *Model) readLine() (string, error) {
	s, err := m.out.ReadString('\n')
	return strings.TrimRight(s, "\n"), err
}

// Query sends lines and returns one output line per input line.
func (m *Model) Query(lines []string) ([]string, error) {
	m.mu.Lock()
	defer m.mu.Unlock()
	errc := make(chan error, 1)
	go func() {
		for _, l := range lines {
			if _, err := m.in.WriteString(l + "\n"); err != nil {
				errc <- err
				return
			}
		}
		m.in.WriteString("flush\n")
		errc <- m.in.Flush()
	}()
	out := make([]string, 0, len(lines))
	for range lines {
		s, err := m.readLine()
		if err != nil {
			return out, fmt.Errorf("modeld: %v", err)
		}
		out = append(out, s)
	}
	if err := <-errc; err != nil {
		return out, err
	}
	return out, nil
}

// Multi sends one line and reads lines until the terminator line.
func (m *Model) Multi(line, terminator string) ([]string, error) {
	m.mu.Lock()
	defer m.mu.Unlock()
	m.in.WriteString(line + "\nflush\n")
	if err := m.in.Flush(); err != nil {
		return nil, err
	}
	var out []string
	for {
		s, err := m.readLine()
		if err != nil {
			return out, err
		}
		if s == terminator || s == "bad-op" {
			return out, nil
		}
		out = append(out, s)
	}
}

// Disagreement is one case on which model and implementation differ.
type Disagreement struct {
	Line  string `json:"line"`
	Impl  string `json:"impl"`
	Model string `json:"model"`
	Class string `json:"class"`
	Note  string `json:"note,omitempty"`
}

// Suite accumulates the outcome of one check run.
type Suite struct {
	Prop          string
	Evaluations   int
	Distinct      map[string]struct{}
	Classes       map[string]int
	Outcomes      map[string]int
	Samples       []string
	Disagreements []Disagreement // model vs implementation (broken correspondence)
	Violations    []Disagreement // implementation vs property oracle (concrete failing inputs)
	Notes         []string
	NDis, NViol   int
	start         time.Time
	model         *Model
}

func newSuite(prop string, m *Model) *Suite {
	return &Suite{Prop: prop, Distinct: map[string]struct{}{}, Classes: map[string]int{}, Outcomes: map[string]int{}, start: time.Now(), model: m}
}

func outcomeKey(s string) string {
	f := strings.Fields(s)
	if len(f) == 0 {
		return "empty"
	}
	return f[0]
}

// Run compares the cases against the model.
func (s *Suite) Run(cases []Case) error {
	const chunk = 20000
	for i := 0; i < len(cases); i += chunk {
		j := i + chunk
		if j > len(cases) {
			j = len(cases)
		}
		lines := make([]string, 0, j-i)
		for _, c := range cases[i:j] {
			lines = append(lines, c.Line)
		}
		outs, err := s.model.Query(lines)
		if err != nil {
			return err
		}
		for k, c := range cases[i:j] {
			s.Evaluations++
			s.Classes[c.Class]++
			s.Outcomes[outcomeKey(c.Impl)]++
			if _, ok := s.Distinct[c.Line]; !ok && nontrivial(c.Impl) {
				s.Distinct[c.Line] = struct{}{}
			}
			if len(s.Samples) < 6 && (s.Evaluations%997 == 1) {
				s.Samples = append(s.Samples, c.Line+" => "+c.Impl)
			}
			if strings.HasPrefix(c.Impl, "panic") && !c.Spec {
				s.Violation(c.Line, c.Impl, "no panic", c.Class, "the implementation panicked")
			}
			if outs[k] != c.Impl && !(c.Spec && outs[k] == "any") {
				d := Disagreement{Line: c.Line, Impl: c.Impl, Model: outs[k], Class: c.Class}
				if c.Spec {
					s.NViol++
					if len(s.Violations) < 50 {
						d.Note = "implementation differs from the Lean specification"
						s.Violations = append(s.Violations, d)
					}
				} else {
					s.NDis++
					if len(s.Disagreements) < 50 {
						s.Disagreements = append(s.Disagreements, d)
					}
				}
			}
		}
	}
	return nil
}

// nontrivial: a case whose outcome is not an immediate rejection at the first byte.
func nontrivial(impl string) bool {
	f := strings.Fields(impl)
	if len(f) < 2 {
		return true
	}
	if strings.HasPrefix(f[0], "err") && (f[1] == "0" || f[1] == "1") {
		return false
	}
	return true
}

// CheckOracle records a property violation found by comparing the implementation with a property oracle.
func (s *Suite) Violation(line, impl, want, class, note string) {
	s.NViol++
	if len(s.Violations) < 50 {
		s.Violations = append(s.Violations, Disagreement{Line: line, Impl: impl, Model: want, Class: class, Note: note})
	}
}

// Report is what the harness hands to the check driver.
type Report struct {
	Property      string         `json:"property"`
	Tier          string         `json:"tier"`
	Seed          int64          `json:"seed"`
	Evaluations   int            `json:"evaluations"`
	Distinct      int            `json:"distinct_nontrivial"`
	Classes       map[string]int `json:"classes"`
	Outcomes      map[string]int `json:"outcomes"`
	Samples       []string       `json:"samples"`
	Disagreements []Disagreement `json:"disagreements"`
	Violations    []Disagreement `json:"violations"`
	Notes         []string       `json:"notes"`
	NDis          int            `json:"n_disagreements"`
	NViol         int            `json:"n_violations"`
	WallS         float64        `json:"wall_s"`
	Rule          string         `json:"rule"`
}

func (s *Suite) Report(tier string, seed int64, rule string) Report {
	return Report{Property: s.Prop, Tier: tier, Seed: seed, Evaluations: s.Evaluations, Distinct: len(s.Distinct),
		Classes: s.Classes, Outcomes: s.Outcomes, Samples: s.Samples, Disagreements: s.Disagreements, Violations: s.Violations,
		Notes: s.Notes, NDis: s.NDis, NViol: s.NViol, WallS: time.Since(s.start).Seconds(), Rule: rule}
}

func writeReport(path string, r Report) error {
	b, err := json.MarshalIndent(r, "", " ")
	if err != nil {
		return err
	}
	return os.WriteFile(path, b, 0o644)
}

func hx(b []byte) string {
	if len(b) == 0 {
		return "-"
	}
	return hex.EncodeToString(b)
}

func unhx(s string) []byte {
	if s == "-" {
		return nil
	}
	b, err := hex.DecodeString(s)
	if err != nil {
		panic(err)
	}
	return b
}

// exact returns a copy with cap == len (so that out-of-range reads cannot hide in spare capacity).
func exact(b []byte) []byte {
	c := make([]byte, len(b))
	copy(c, b)
	return c
}

func sortedKeys(m map[string]int) []string {
	var ks []string
	for k := range m {
		ks = append(ks, k)
	}
	sort.Strings(ks)
	return ks
}

// guard runs f and converts a panic into the canonical outcome "panic".
func guard(f func() string) (out string) {
	defer func() {
		if r := recover(); r != nil {
			out = "panic"
		}
	}()
	return f()
}
