// Package rlparse reads Ragel -G2 generated Go (`*.rl.go`) and extracts, per machine, the transition
// function (evaluated for all 256 byte values of every state), the action blocks as lists of primitive
// actions from a closed vocabulary, the eof actions and the entry points.
//
// Anything that does not fit the -G2 template is reported as an error ("untranslatable"): the caller treats
// that as a broken tie between model and code, never as success.
package rlparse

import (
	"bytes"
	"fmt"
	"go/ast"
	"go/parser"
	"go/printer"
	"go/token"
	"regexp"
	"sort"
	"strconv"
	"strings"
)

// Act is one primitive action. Lean is its rendering as a term of `RJson.Ragel.Act Nat` (or `SAct` for eof actions).
type Act struct {
	Kind string // errReturn, errReturnByte, setErr, brk, call, ret, floatDec, floatExp, handler, handlerSimple, fieldStart, fieldEnd, setBool, segStart, appendSeg, appendByte, unescapeU
	Err  string // for errReturn / setErr
	Ret  int    // call: return state
	Ent  int    // call: entry state
	Lim  bool   // call: depth limit present
	Byte int    // appendByte
	Bool bool   // setBool
	// handler / handlerSimple: expressions, already rendered for Lean
	RetP, GNeg, GNz, GRange, NewP, FLo, FHi string
	GRangeSrc                               string // Go source text of the range guard (for facts/evidence)
}

// Trans is an action list followed by a target state (0 = error state st0).
type Trans struct {
	Acts   []Act
	Target int
}

// Machine is one generated state machine.
type Machine struct {
	Name       string
	File       string
	Start      int
	FirstFinal int
	ErrorState int
	Entries    map[string]int
	States     []int              // all state numbers with a st_case (sorted)
	Row        map[int]*[256]int  // state -> byte -> index into Trans
	Trans      []Trans            // distinct transitions
	Eof        map[int][]Act      // eof actions
	HasStack   bool               // uses fcall/fret
	HasField   bool               // object handler (field slice passed to the handler)
	Epilogue   string             // the final return statement
	PreGrow    bool               // dst = growBytesSliceCapacity(dst, len(dst)+len(data)) in the prologue
	DepthConst string             // name of the depth-limit constant used in prepush ("" if none)
}

var fset = token.NewFileSet()

func src(n ast.Node) string {
	var b bytes.Buffer
	printer.Fprint(&b, fset, n)
	return strings.Join(strings.Fields(b.String()), " ")
}

// ParseFile returns every machine found in a generated file.
func ParseFile(path string) ([]*Machine, error) {
	f, err := parser.ParseFile(fset, path, nil, 0)
	if err != nil {
		return nil, err
	}
	var out []*Machine
	for _, d := range f.Decls {
		fd, ok := d.(*ast.FuncDecl)
		if !ok || fd.Body == nil {
			continue
		}
		if !hasStCase(fd.Body) {
			continue
		}
		m, err := parseMachine(fd)
		if err != nil {
			return nil, fmt.Errorf("%s: %s: %v", path, fd.Name.Name, err)
		}
		m.File = path
		out = append(out, m)
	}
	return out, nil
}

func hasStCase(b *ast.BlockStmt) bool {
	found := false
	ast.Inspect(b, func(n ast.Node) bool {
		if l, ok := n.(*ast.LabeledStmt); ok && strings.HasPrefix(l.Label.Name, "st_case_") {
			found = true
		}
		return !found
	})
	return found
}

type segment struct {
	labels []string
	stmts  []ast.Stmt
}

func parseMachine(fd *ast.FuncDecl) (*Machine, error) {
	m := &Machine{Name: fd.Name.Name, Entries: map[string]int{}, Row: map[int]*[256]int{}, Eof: map[int][]Act{}}
	var execBlock *ast.BlockStmt
	stmts := fd.Body.List
	for i, s := range stmts {
		switch st := s.(type) {
		case *ast.DeclStmt:
			gd := st.Decl.(*ast.GenDecl)
			if gd.Tok == token.CONST {
				for _, sp := range gd.Specs {
					vs := sp.(*ast.ValueSpec)
					name := vs.Names[0].Name
					if !strings.HasPrefix(name, m.Name+"_") {
						continue
					}
					v, err := strconv.Atoi(src(vs.Values[0]))
					if err != nil {
						return nil, fmt.Errorf("const %s: %v", name, err)
					}
					switch key := strings.TrimPrefix(name, m.Name+"_"); {
					case key == "start":
						m.Start = v
					case key == "first_final":
						m.FirstFinal = v
					case key == "error":
						m.ErrorState = v
					case strings.HasPrefix(key, "en_"):
						m.Entries[strings.TrimPrefix(key, "en_")] = v
					default:
						return nil, fmt.Errorf("unknown machine constant %s", name)
					}
				}
			}
		case *ast.BlockStmt:
			if hasStCase(st) {
				if execBlock != nil {
					return nil, fmt.Errorf("two exec blocks")
				}
				execBlock = st
				// everything after the exec block must be the epilogue return
				rest := stmts[i+1:]
				if len(rest) != 1 {
					return nil, fmt.Errorf("expected exactly one statement after exec block, got %d", len(rest))
				}
				m.Epilogue = src(rest[0])
			} else {
				// init block: cs = start (and top = 0)
				s := src(st)
				okInit := s == fmt.Sprintf("{ cs = %s_start }", m.Name) || s == fmt.Sprintf("{ cs = %s_start top = 0 }", m.Name)
				if !okInit {
					return nil, fmt.Errorf("unexpected init block: %s", s)
				}
			}
		case *ast.AssignStmt:
			s := src(st)
			switch s {
			case "cs, p := 0, 0", "pe := len(data)", "eof := len(data)":
			case "dst = growBytesSliceCapacity(dst, len(dst)+len(data))":
				m.PreGrow = true
			case "reserve := bytes.IndexByte(data, '\"')":
				// capacity reservation up to the first quote (appendRemainderOfString since the C20-F2 fix): no effect on contents
			case "dst = growBytesSliceCapacity(dst, len(dst)+reserve)":
				m.PreGrow = true
			default:
				return nil, fmt.Errorf("unexpected prologue assignment: %s", s)
			}
		case *ast.IfStmt:
			if s := src(st); s != "if reserve < 0 { reserve = len(data) }" {
				return nil, fmt.Errorf("unexpected prologue statement: %s", s)
			}
		default:
			_ = st
		}
	}
	if execBlock == nil {
		return nil, fmt.Errorf("no exec block")
	}
	if m.ErrorState != 0 {
		return nil, fmt.Errorf("error state is %d, expected 0", m.ErrorState)
	}
	// prologue declarations (var …) are checked loosely: only known names
	for _, s := range stmts {
		if ds, ok := s.(*ast.DeclStmt); ok {
			gd := ds.Decl.(*ast.GenDecl)
			if gd.Tok == token.VAR {
				t := src(ds)
				switch t {
				case "var top int", "var err error", "var top, cs, p, pp int", "var currentFieldStart, currentFieldEnd int",
					"var segStart int", "var unescapeUnicodeCharBytes int", "var ok bool", "var val bool":
				default:
					return nil, fmt.Errorf("unexpected prologue declaration: %s", t)
				}
				if strings.Contains(t, "currentFieldStart") {
					m.HasField = true
				}
			}
		}
	}

	// split the exec block into labelled segments
	var segs []*segment
	var pre []ast.Stmt
	var cur *segment
	for _, s := range execBlock.List {
		if ls, ok := s.(*ast.LabeledStmt); ok {
			cur = &segment{}
			var inner ast.Stmt = ls
			for {
				l, ok := inner.(*ast.LabeledStmt)
				if !ok {
					break
				}
				cur.labels = append(cur.labels, l.Label.Name)
				inner = l.Stmt
			}
			if _, empty := inner.(*ast.EmptyStmt); !empty {
				cur.stmts = append(cur.stmts, inner)
			}
			segs = append(segs, cur)
			continue
		}
		if cur == nil {
			pre = append(pre, s)
		} else {
			cur.stmts = append(cur.stmts, s)
		}
	}
	// prologue of the exec block: `if p == pe { goto _test_eof }` then either `goto _resume` or the resume switch
	if len(pre) < 2 || src(pre[0]) != "if p == pe { goto _test_eof }" {
		return nil, fmt.Errorf("unexpected exec prologue")
	}
	resumeSwitch := func(s ast.Stmt, prefix string) (map[int]bool, error) {
		sw, ok := s.(*ast.SwitchStmt)
		if !ok || src(sw.Tag) != "cs" {
			return nil, fmt.Errorf("expected switch cs")
		}
		seen := map[int]bool{}
		for _, c := range sw.Body.List {
			cc := c.(*ast.CaseClause)
			if len(cc.List) != 1 || len(cc.Body) != 1 {
				return nil, fmt.Errorf("unexpected dispatch case")
			}
			n, err := strconv.Atoi(src(cc.List[0]))
			if err != nil {
				return nil, err
			}
			if src(cc.Body[0]) != fmt.Sprintf("goto %s%d", prefix, n) {
				return nil, fmt.Errorf("dispatch case %d goes to %s", n, src(cc.Body[0]))
			}
			seen[n] = true
		}
		return seen, nil
	}
	var resumeStates, againStates map[int]bool
	var err error
	switch len(pre) {
	case 2:
		if src(pre[1]) != "goto _resume" {
			return nil, fmt.Errorf("unexpected exec prologue (2)")
		}
		m.HasStack = true
	case 3:
		if resumeStates, err = resumeSwitch(pre[1], "st_case_"); err != nil {
			return nil, err
		}
		if src(pre[2]) != "goto st_out" {
			return nil, fmt.Errorf("unexpected exec prologue (3)")
		}
	default:
		return nil, fmt.Errorf("unexpected exec prologue length %d", len(pre))
	}

	trBlocks := map[string]*segment{}
	stCase := map[int]*segment{}
	testEofCs := map[int]bool{}
	stEntry := map[int]bool{}
	var testEof *segment
	for i, sg := range segs {
		first := sg.labels[0]
		switch {
		case first == "_again":
			if len(sg.stmts) != 2 || src(sg.stmts[1]) != "if p++; p == pe { goto _test_eof }" {
				return nil, fmt.Errorf("unexpected _again segment")
			}
			if againStates, err = resumeSwitch(sg.stmts[0], "st"); err != nil {
				return nil, err
			}
		case first == "_resume":
			if len(sg.stmts) != 2 || src(sg.stmts[1]) != "goto st_out" {
				return nil, fmt.Errorf("unexpected _resume segment")
			}
			if resumeStates, err = resumeSwitch(sg.stmts[0], "st_case_"); err != nil {
				return nil, err
			}
		case strings.HasPrefix(first, "st_case_"):
			n, err := strconv.Atoi(strings.TrimPrefix(first, "st_case_"))
			if err != nil {
				return nil, err
			}
			if n == 0 {
				// st_case_0: st0: cs = 0; goto _out
				if len(sg.labels) != 2 || sg.labels[1] != "st0" || len(sg.stmts) != 2 || src(sg.stmts[0]) != "cs = 0" || src(sg.stmts[1]) != "goto _out" {
					return nil, fmt.Errorf("unexpected st0 segment")
				}
				continue
			}
			if len(sg.labels) != 1 {
				return nil, fmt.Errorf("st_case_%d carries extra labels %v", n, sg.labels)
			}
			stCase[n] = sg
		case regexp.MustCompile(`^st\d+$`).MatchString(first):
			n, _ := strconv.Atoi(strings.TrimPrefix(first, "st"))
			if len(sg.labels) != 1 || len(sg.stmts) != 1 || src(sg.stmts[0]) != fmt.Sprintf("if p++; p == pe { goto _test_eof%d }", n) {
				return nil, fmt.Errorf("unexpected st%d segment: %v", n, sg.labels)
			}
			// must fall through into st_case_n
			if i+1 >= len(segs) || segs[i+1].labels[0] != fmt.Sprintf("st_case_%d", n) {
				return nil, fmt.Errorf("st%d does not fall through into st_case_%d", n, n)
			}
			stEntry[n] = true
		case regexp.MustCompile(`^tr\d+$`).MatchString(first):
			if len(sg.labels) != 1 {
				return nil, fmt.Errorf("tr block with several labels")
			}
			trBlocks[first] = sg
		case first == "st_out":
			// st_out: _test_eofN: cs = N; goto _test_eof   (labels stack up because st_out has an empty statement)
			labels := sg.labels[1:]
			stm := sg.stmts
			if len(labels) == 0 && len(stm) == 0 {
				continue
			}
			if err := checkTestEofStub(labels, stm, testEofCs); err != nil {
				return nil, err
			}
		case strings.HasPrefix(first, "_test_eof") && first != "_test_eof":
			if err := checkTestEofStub(sg.labels, sg.stmts, testEofCs); err != nil {
				return nil, err
			}
		case first == "_test_eof":
			testEof = sg
		case first == "_out":
			if len(sg.stmts) != 1 || src(sg.stmts[0]) != "{ }" {
				return nil, fmt.Errorf("unexpected _out segment: %d stmts", len(sg.stmts))
			}
		default:
			return nil, fmt.Errorf("unknown label %s", first)
		}
	}
	if testEof == nil {
		return nil, fmt.Errorf("no _test_eof")
	}
	for n := range stCase {
		m.States = append(m.States, n)
	}
	sort.Ints(m.States)
	for _, n := range m.States {
		if !resumeStates[n] {
			return nil, fmt.Errorf("state %d missing from resume dispatch", n)
		}
		if m.HasStack && !againStates[n] {
			return nil, fmt.Errorf("state %d missing from _again dispatch", n)
		}
	}
	if _, ok := stCase[m.Start]; !ok {
		return nil, fmt.Errorf("start state %d has no st_case", m.Start)
	}

	// transitions
	transIdx := map[string]int{}
	addTrans := func(t Trans) int {
		key := fmt.Sprintf("%v", t)
		if i, ok := transIdx[key]; ok {
			return i
		}
		m.Trans = append(m.Trans, t)
		transIdx[key] = len(m.Trans) - 1
		return len(m.Trans) - 1
	}
	trCache := map[string]int{}
	for _, n := range m.States {
		row := new([256]int)
		for b := 0; b < 256; b++ {
			lbl, err := evalStmts(stCase[n].stmts, b)
			if err != nil {
				return nil, fmt.Errorf("st_case_%d byte %d: %v", n, b, err)
			}
			if idx, ok := trCache[lbl]; ok {
				row[b] = idx
				continue
			}
			var t Trans
			switch {
			case strings.HasPrefix(lbl, "st"):
				tn, err := strconv.Atoi(strings.TrimPrefix(lbl, "st"))
				if err != nil {
					return nil, fmt.Errorf("bad target %s", lbl)
				}
				t = Trans{Target: tn}
			case strings.HasPrefix(lbl, "tr"):
				sg, ok := trBlocks[lbl]
				if !ok {
					return nil, fmt.Errorf("missing block %s", lbl)
				}
				acts, tgt, err := parseActions(m, sg.stmts, true)
				if err != nil {
					return nil, fmt.Errorf("%s: %v", lbl, err)
				}
				t = Trans{Acts: acts, Target: tgt}
			default:
				return nil, fmt.Errorf("bad target %s", lbl)
			}
			enterable := func(n int) bool {
				_, ok := stCase[n]
				return ok && stEntry[n] && testEofCs[n]
			}
			if t.Target != 0 && !enterable(t.Target) {
				return nil, fmt.Errorf("target state %d does not exist or has no entry/eof stub", t.Target)
			}
			for _, a := range t.Acts {
				if a.Kind == "call" {
					if !enterable(a.Ret) || !againStates[a.Ret] {
						return nil, fmt.Errorf("call return state %d cannot be re-entered", a.Ret)
					}
					if !enterable(a.Ent) {
						return nil, fmt.Errorf("call entry state %d does not exist", a.Ent)
					}
				}
			}
			idx := addTrans(t)
			trCache[lbl] = idx
			row[b] = idx
		}
		m.Row[n] = row
	}

	// eof actions: `{ }` then `if p == eof { switch cs { case …: … } }`
	if len(testEof.stmts) != 2 || src(testEof.stmts[0]) != "{ }" {
		return nil, fmt.Errorf("unexpected _test_eof segment")
	}
	ifs, ok := testEof.stmts[1].(*ast.IfStmt)
	if !ok || src(ifs.Cond) != "p == eof" || ifs.Else != nil || len(ifs.Body.List) != 1 {
		return nil, fmt.Errorf("unexpected _test_eof if")
	}
	sw, ok := ifs.Body.List[0].(*ast.SwitchStmt)
	if !ok || src(sw.Tag) != "cs" {
		return nil, fmt.Errorf("unexpected _test_eof switch")
	}
	for _, c := range sw.Body.List {
		cc := c.(*ast.CaseClause)
		acts, _, err := parseActions(m, cc.Body, false)
		if err != nil {
			return nil, fmt.Errorf("eof actions: %v", err)
		}
		for _, a := range acts {
			if a.Kind == "call" || a.Kind == "ret" {
				return nil, fmt.Errorf("eof action touches the stack")
			}
		}
		for _, e := range cc.List {
			n, err := strconv.Atoi(src(e))
			if err != nil {
				return nil, err
			}
			if _, dup := m.Eof[n]; dup {
				return nil, fmt.Errorf("duplicate eof case %d", n)
			}
			m.Eof[n] = acts
		}
	}
	return m, nil
}

func checkTestEofStub(labels []string, stmts []ast.Stmt, seen map[int]bool) error {
	if len(labels) != 1 || !strings.HasPrefix(labels[0], "_test_eof") {
		return fmt.Errorf("unexpected labels %v", labels)
	}
	n, err := strconv.Atoi(strings.TrimPrefix(labels[0], "_test_eof"))
	if err != nil {
		return err
	}
	if len(stmts) != 2 || src(stmts[0]) != fmt.Sprintf("cs = %d", n) || src(stmts[1]) != "goto _test_eof" {
		return fmt.Errorf("unexpected _test_eof%d stub", n)
	}
	seen[n] = true
	return nil
}

// ---- evaluation of st_case bodies for one byte value ----

func evalStmts(stmts []ast.Stmt, b int) (string, error) {
	lbl, done, err := evalList(stmts, b)
	if err != nil {
		return "", err
	}
	if !done {
		return "", fmt.Errorf("fell off the end of st_case")
	}
	return lbl, nil
}

func evalList(stmts []ast.Stmt, b int) (string, bool, error) {
	for _, s := range stmts {
		lbl, done, err := evalStmt(s, b)
		if err != nil || done {
			return lbl, done, err
		}
	}
	return "", false, nil
}

func evalStmt(s ast.Stmt, b int) (string, bool, error) {
	switch st := s.(type) {
	case *ast.BranchStmt:
		if st.Tok != token.GOTO {
			return "", false, fmt.Errorf("unexpected branch %s", src(st))
		}
		return st.Label.Name, true, nil
	case *ast.BlockStmt:
		return evalList(st.List, b)
	case *ast.IfStmt:
		if st.Init != nil {
			return "", false, fmt.Errorf("if with init in st_case")
		}
		c, err := evalCond(st.Cond, b)
		if err != nil {
			return "", false, err
		}
		if c {
			return evalList(st.Body.List, b)
		}
		if st.Else != nil {
			return evalStmt(st.Else, b)
		}
		return "", false, nil
	case *ast.SwitchStmt:
		if st.Init != nil {
			return "", false, fmt.Errorf("switch with init")
		}
		var def *ast.CaseClause
		for _, c := range st.Body.List {
			cc := c.(*ast.CaseClause)
			if cc.List == nil {
				def = cc
				continue
			}
			for _, e := range cc.List {
				var hit bool
				if st.Tag != nil {
					if src(st.Tag) != "data[p]" {
						return "", false, fmt.Errorf("switch on %s", src(st.Tag))
					}
					v, err := evalInt(e, b)
					if err != nil {
						return "", false, err
					}
					hit = v == b
				} else {
					var err error
					hit, err = evalCond(e, b)
					if err != nil {
						return "", false, err
					}
				}
				if hit {
					return evalList(cc.Body, b)
				}
			}
		}
		if def != nil {
			return evalList(def.Body, b)
		}
		return "", false, nil
	}
	return "", false, fmt.Errorf("unexpected statement in st_case: %s", src(s))
}

func evalInt(e ast.Expr, b int) (int, error) {
	switch x := e.(type) {
	case *ast.BasicLit:
		if x.Kind == token.INT {
			v, err := strconv.ParseInt(x.Value, 0, 64)
			return int(v), err
		}
		if x.Kind == token.CHAR {
			r, _, _, err := strconv.UnquoteChar(x.Value[1:len(x.Value)-1], '\'')
			return int(r), err
		}
	case *ast.IndexExpr:
		if src(x) == "data[p]" {
			return b, nil
		}
	case *ast.ParenExpr:
		return evalInt(x.X, b)
	}
	return 0, fmt.Errorf("unexpected integer expression %s", src(e))
}

func evalCond(e ast.Expr, b int) (bool, error) {
	switch x := e.(type) {
	case *ast.ParenExpr:
		return evalCond(x.X, b)
	case *ast.BinaryExpr:
		switch x.Op {
		case token.LAND, token.LOR:
			l, err := evalCond(x.X, b)
			if err != nil {
				return false, err
			}
			r, err := evalCond(x.Y, b)
			if err != nil {
				return false, err
			}
			if x.Op == token.LAND {
				return l && r, nil
			}
			return l || r, nil
		case token.LSS, token.LEQ, token.GTR, token.GEQ, token.EQL, token.NEQ:
			l, err := evalInt(x.X, b)
			if err != nil {
				return false, err
			}
			r, err := evalInt(x.Y, b)
			if err != nil {
				return false, err
			}
			switch x.Op {
			case token.LSS:
				return l < r, nil
			case token.LEQ:
				return l <= r, nil
			case token.GTR:
				return l > r, nil
			case token.GEQ:
				return l >= r, nil
			case token.EQL:
				return l == r, nil
			default:
				return l != r, nil
			}
		}
	}
	return false, fmt.Errorf("unexpected condition %s", src(e))
}

// ---- action blocks ----

var (
	reErrReturn  = regexp.MustCompile(`^return (?:p, stack|p|false, p|nil, p), (err[A-Za-z]+)$`)
	reSetErr     = regexp.MustCompile(`^err = (err[A-Za-z]+)$`)
	reBrk        = regexp.MustCompile(`^\{ p\+\+ cs = (\d+) goto _out \}$`)
	reCall       = regexp.MustCompile(`^\{ (if top == ([A-Za-z]+) \{ err = errMaxDepth \{ p\+\+ cs = \d+ goto _out \} \} )?if top\+1 >= len\(stack\) \{ stack = append\(stack, make\(\[\]int, 1\+top-len\(stack\)\)\.\.\.\) \} \{ stack\[top\] = (\d+) top\+\+ goto st(\d+) \} \}$`)
	reGoto       = regexp.MustCompile(`^goto st(\d+)$`)
	reAppendByte = regexp.MustCompile(`^dst = append\(dst, ('(?:[^'\\]|\\.)+')\)$`)
	reFloat      = regexp.MustCompile(`^p, err = skipFloat(Dec|Exp)\(data, p\+1, pe\)$`)
	reFloatIf    = regexp.MustCompile(`^if err != nil \{ \{ p\+\+ cs = \d+ goto _out \} \}$`)
)

var errNames = map[string]string{
	"errMaxDepth": ".maxDepth", "errUnexpectedEOF": ".unexpectedEOF", "errInvalidString": ".invalidString",
	"errInvalidArray": ".invalidArray", "errInvalidObject": ".invalidObject", "errInvalidUInt": ".invalidUInt",
	"errInvalidInt": ".invalidInt", "errInvalidNumber": ".invalidNumber", "errNoValidToken": ".noValidToken",
	"errNotNull": ".notNull", "errNotBool": ".notBool", "errPOutOfRange": ".pOutOfRange",
}

// parseActions turns the statements of a tr block (or an eof case) into primitive actions.
// wantGoto: the block must end in `goto stN` (tr blocks); eof cases have no final goto.
func parseActions(m *Machine, stmts []ast.Stmt, wantGoto bool) ([]Act, int, error) {
	var acts []Act
	target := -1
	i := 0
	next := func() string {
		if i < len(stmts) {
			return src(stmts[i])
		}
		return ""
	}
	for i < len(stmts) {
		s := next()
		switch {
		case s == "return nil, p, errUnexpectedByteInString(data[p])":
			acts = append(acts, Act{Kind: "errReturnByte"})
			i++
		case reErrReturn.MatchString(s):
			name := reErrReturn.FindStringSubmatch(s)[1]
			if _, ok := errNames[name]; !ok {
				return nil, 0, fmt.Errorf("unknown error %s", name)
			}
			acts = append(acts, Act{Kind: "errReturn", Err: name})
			i++
		case reSetErr.MatchString(s):
			name := reSetErr.FindStringSubmatch(s)[1]
			if _, ok := errNames[name]; !ok {
				return nil, 0, fmt.Errorf("unknown error %s", name)
			}
			acts = append(acts, Act{Kind: "setErr", Err: name})
			i++
		case reBrk.MatchString(s):
			acts = append(acts, Act{Kind: "brk"})
			i++
		case reCall.MatchString(s):
			g := reCall.FindStringSubmatch(s)
			ret, _ := strconv.Atoi(g[3])
			ent, _ := strconv.Atoi(g[4])
			a := Act{Kind: "call", Ret: ret, Ent: ent, Lim: g[1] != ""}
			if a.Lim {
				if m.DepthConst != "" && m.DepthConst != g[2] {
					return nil, 0, fmt.Errorf("two different depth constants")
				}
				m.DepthConst = g[2]
			}
			acts = append(acts, a)
			m.HasStack = true
			i++
		case s == "{ top-- cs = stack[top] goto _again }":
			acts = append(acts, Act{Kind: "ret"})
			i++
		case reFloat.MatchString(s):
			kind := "float" + reFloat.FindStringSubmatch(s)[1]
			i++
			if !reFloatIf.MatchString(next()) {
				return nil, 0, fmt.Errorf("skipFloat call not followed by the break-on-error block: %s", next())
			}
			acts = append(acts, Act{Kind: kind})
			i++
		case s == "currentFieldStart = p":
			acts = append(acts, Act{Kind: "fieldStart"})
			i++
		case s == "currentFieldEnd = p":
			acts = append(acts, Act{Kind: "fieldEnd"})
			i++
		case s == "val = true" || s == "val = false":
			acts = append(acts, Act{Kind: "setBool", Bool: s == "val = true"})
			i++
		case s == "segStart = p":
			acts = append(acts, Act{Kind: "segStart"})
			i++
		case s == "dst = append(dst, data[segStart:p]...)":
			acts = append(acts, Act{Kind: "appendSeg"})
			i++
		case reAppendByte.MatchString(s):
			lit := reAppendByte.FindStringSubmatch(s)[1]
			r, _, _, err := strconv.UnquoteChar(lit[1:len(lit)-1], '\'')
			if err != nil || r > 255 {
				return nil, 0, fmt.Errorf("bad char literal %s", lit)
			}
			acts = append(acts, Act{Kind: "appendByte", Byte: int(r)})
			i++
		case s == "dst, unescapeUnicodeCharBytes, ok = unescapeUnicodeChar(data[segStart:], dst)":
			i++
			if next() != "if !ok { return nil, p, errUnexpectedByteInString(data[p]) }" {
				return nil, 0, fmt.Errorf("unexpected statement after unescapeUnicodeChar: %s", next())
			}
			i++
			if next() != "if unescapeUnicodeCharBytes > 6 { p += unescapeUnicodeCharBytes - 6 }" {
				return nil, 0, fmt.Errorf("unexpected statement after unescapeUnicodeChar check: %s", next())
			}
			i++
			acts = append(acts, Act{Kind: "unescapeU"})
		case strings.HasPrefix(s, "pp, err = handler.Handle") || strings.HasPrefix(s, "_, err = handler.Handle"):
			a, n, err := parseHandler(m, stmts[i:])
			if err != nil {
				return nil, 0, err
			}
			acts = append(acts, a)
			i += n
		case reGoto.MatchString(s):
			if i != len(stmts)-1 || !wantGoto {
				return nil, 0, fmt.Errorf("goto in the middle of an action block")
			}
			target, _ = strconv.Atoi(reGoto.FindStringSubmatch(s)[1])
			i++
		default:
			return nil, 0, fmt.Errorf("statement outside the action vocabulary: %s", s)
		}
	}
	if wantGoto && target < 0 {
		return nil, 0, fmt.Errorf("action block without final goto")
	}
	return acts, target, nil
}

// parseHandler recognises try_handler / try_handler_simple. Guards and offset arithmetic are translated as
// expressions, so a changed operator or operand yields a different (still executable) action.
func parseHandler(m *Machine, stmts []ast.Stmt) (Act, int, error) {
	as, ok := stmts[0].(*ast.AssignStmt)
	if !ok || len(as.Lhs) != 2 || len(as.Rhs) != 1 || src(as.Lhs[1]) != "err" {
		return Act{}, 0, fmt.Errorf("unexpected handler call %s", src(stmts[0]))
	}
	call, ok := as.Rhs[0].(*ast.CallExpr)
	if !ok {
		return Act{}, 0, fmt.Errorf("unexpected handler call %s", src(stmts[0]))
	}
	fn := src(call.Fun)
	var flo, fhi string = ".lit 0", ".lit 0"
	switch {
	case fn == "handler.HandleArrayValue" && len(call.Args) == 1 && src(call.Args[0]) == "data[p:]" && !m.HasField:
	case fn == "handler.HandleObjectValue" && len(call.Args) == 2 && src(call.Args[1]) == "data[p:]" && m.HasField:
		se, ok := call.Args[0].(*ast.SliceExpr)
		if !ok || src(se.X) != "data" || se.Low == nil || se.High == nil || se.Slice3 {
			return Act{}, 0, fmt.Errorf("unexpected field argument %s", src(call.Args[0]))
		}
		var err error
		if flo, err = gexpr(se.Low); err != nil {
			return Act{}, 0, err
		}
		if fhi, err = gexpr(se.High); err != nil {
			return Act{}, 0, err
		}
	default:
		return Act{}, 0, fmt.Errorf("unexpected handler call %s", src(stmts[0]))
	}
	simple := src(as.Lhs[0]) == "_"
	if !simple && src(as.Lhs[0]) != "pp" {
		return Act{}, 0, fmt.Errorf("unexpected handler result variable %s", src(as.Lhs[0]))
	}
	// if err != nil { return <expr>, stack, err }
	if len(stmts) < 2 {
		return Act{}, 0, fmt.Errorf("handler call without error check")
	}
	ifs, ok := stmts[1].(*ast.IfStmt)
	if !ok || src(ifs.Cond) != "err != nil" || len(ifs.Body.List) != 1 || ifs.Else != nil {
		return Act{}, 0, fmt.Errorf("unexpected statement after handler call: %s", src(stmts[1]))
	}
	rs, ok := ifs.Body.List[0].(*ast.ReturnStmt)
	if !ok || len(rs.Results) != 3 || src(rs.Results[1]) != "stack" || src(rs.Results[2]) != "err" {
		return Act{}, 0, fmt.Errorf("handler error is not returned as is: %s", src(ifs.Body.List[0]))
	}
	retP, err := gexpr(rs.Results[0])
	if err != nil {
		return Act{}, 0, err
	}
	if simple {
		return Act{Kind: "handlerSimple", RetP: retP, FLo: flo, FHi: fhi}, 2, nil
	}
	// if <gNeg> { err = errPOutOfRange; brk }
	if len(stmts) < 4 {
		return Act{}, 0, fmt.Errorf("truncated try_handler")
	}
	brkBody := func(b *ast.BlockStmt) bool {
		return len(b.List) == 2 && src(b.List[0]) == "err = errPOutOfRange" && reBrk.MatchString(src(b.List[1]))
	}
	if2, ok := stmts[2].(*ast.IfStmt)
	if !ok || if2.Else != nil || !brkBody(if2.Body) {
		return Act{}, 0, fmt.Errorf("unexpected negative-offset check: %s", src(stmts[2]))
	}
	gNeg, err := guard(if2.Cond)
	if err != nil {
		return Act{}, 0, err
	}
	if3, ok := stmts[3].(*ast.IfStmt)
	if !ok || if3.Else != nil || len(if3.Body.List) != 2 {
		return Act{}, 0, fmt.Errorf("unexpected non-zero-offset block: %s", src(stmts[3]))
	}
	gNz, err := guard(if3.Cond)
	if err != nil {
		return Act{}, 0, err
	}
	if4, ok := if3.Body.List[0].(*ast.IfStmt)
	if !ok || if4.Else != nil || !brkBody(if4.Body) {
		return Act{}, 0, fmt.Errorf("unexpected range check: %s", src(if3.Body.List[0]))
	}
	gRange, err := guard(if4.Cond)
	if err != nil {
		return Act{}, 0, err
	}
	pas, ok := if3.Body.List[1].(*ast.AssignStmt)
	if !ok || len(pas.Lhs) != 1 || src(pas.Lhs[0]) != "p" || pas.Tok != token.ASSIGN {
		return Act{}, 0, fmt.Errorf("unexpected fexec: %s", src(if3.Body.List[1]))
	}
	newP, err := gexpr(pas.Rhs[0])
	if err != nil {
		return Act{}, 0, err
	}
	return Act{Kind: "handler", RetP: retP, GNeg: gNeg, GNz: gNz, GRange: gRange, NewP: newP, FLo: flo, FHi: fhi, GRangeSrc: src(if4.Cond)}, 4, nil
}

func gexpr(e ast.Expr) (string, error) {
	switch x := e.(type) {
	case *ast.ParenExpr:
		return gexpr(x.X)
	case *ast.Ident:
		switch x.Name {
		case "p":
			return ".p", nil
		case "pp":
			return ".pp", nil
		case "pe":
			return ".pe", nil
		case "currentFieldStart":
			return ".fs", nil
		case "currentFieldEnd":
			return ".fe", nil
		}
	case *ast.BasicLit:
		if x.Kind == token.INT {
			v, err := strconv.ParseInt(x.Value, 0, 64)
			if err != nil {
				return "", err
			}
			return fmt.Sprintf(".lit %d", v), nil
		}
	case *ast.BinaryExpr:
		l, err := gexpr(x.X)
		if err != nil {
			return "", err
		}
		r, err := gexpr(x.Y)
		if err != nil {
			return "", err
		}
		switch x.Op {
		case token.ADD:
			return fmt.Sprintf(".add (%s) (%s)", l, r), nil
		case token.SUB:
			return fmt.Sprintf(".sub (%s) (%s)", l, r), nil
		}
	}
	return "", fmt.Errorf("expression outside the vocabulary: %s", src(e))
}

func guard(e ast.Expr) (string, error) {
	if p, ok := e.(*ast.ParenExpr); ok {
		return guard(p.X)
	}
	x, ok := e.(*ast.BinaryExpr)
	if !ok {
		return "", fmt.Errorf("guard outside the vocabulary: %s", src(e))
	}
	var op string
	switch x.Op {
	case token.LSS:
		op = ".lt"
	case token.LEQ:
		op = ".le"
	case token.GTR:
		op = ".gt"
	case token.GEQ:
		op = ".ge"
	case token.EQL:
		op = ".eq"
	case token.NEQ:
		op = ".ne"
	default:
		return "", fmt.Errorf("guard outside the vocabulary: %s", src(e))
	}
	l, err := gexpr(x.X)
	if err != nil {
		return "", err
	}
	r, err := gexpr(x.Y)
	if err != nil {
		return "", err
	}
	return fmt.Sprintf("⟨%s, %s, %s⟩", op, l, r), nil
}

// SActLean renders a stack-free action as a term of `RJson.Ragel.SAct`.
func (a Act) SActLean() (string, error) {
	switch a.Kind {
	case "errReturn":
		return fmt.Sprintf(".errReturn %s", errNames[a.Err]), nil
	case "errReturnByte":
		return ".errReturnByte", nil
	case "setErr":
		return fmt.Sprintf(".setErr %s", errNames[a.Err]), nil
	case "brk":
		return ".brk", nil
	case "floatDec":
		return ".floatDec", nil
	case "floatExp":
		return ".floatExp", nil
	case "fieldStart":
		return ".fieldStart", nil
	case "fieldEnd":
		return ".fieldEnd", nil
	case "setBool":
		return fmt.Sprintf(".setBool %v", a.Bool), nil
	case "segStart":
		return ".segStart", nil
	case "appendSeg":
		return ".appendSeg", nil
	case "appendByte":
		return fmt.Sprintf(".appendByte %d", a.Byte), nil
	case "unescapeU":
		return ".unescapeU", nil
	case "handler":
		return fmt.Sprintf(".handler (%s) %s %s %s (%s) (%s) (%s)", a.RetP, a.GNeg, a.GNz, a.GRange, a.NewP, a.FLo, a.FHi), nil
	case "handlerSimple":
		return fmt.Sprintf(".handlerSimple (%s) (%s) (%s)", a.RetP, a.FLo, a.FHi), nil
	}
	return "", fmt.Errorf("not a stack-free action: %s", a.Kind)
}

// Lean renders an action as a term of `RJson.Ragel.Act Nat`.
func (a Act) Lean() (string, error) {
	switch a.Kind {
	case "call":
		return fmt.Sprintf(".call %v %d %d", a.Lim, a.Ret, a.Ent), nil
	case "ret":
		return ".ret", nil
	}
	s, err := a.SActLean()
	if err != nil {
		return "", err
	}
	return fmt.Sprintf(".s (%s)", s), nil
}
