package main

import (
	"bytes"
	"fmt"
		"math/rand"
	"runtime"
	"sort"
	"strings"
	"testing"

	"github.com/willabides/rjson"
)

// ---- C08: API-composition decoders ----

type composer struct {
	r        *rand.Rand
	buf      *rjson.Buffer
	mode     int // 0: read everything with typed readers / nested handlers; 1: random mix incl. skips and declines
	skipped  bool
	fastUsed bool
	walk     bool // containers by a manual token walk (NextToken + typed readers) instead of the traversal functions
	ws       bool // hand the readers the leading whitespace too (they skip it themselves)
	ints     bool // integral numbers through the integer readers
}

var skippedMark = struct{ s string }{"skipped"}

// value decodes the value at the head of data and returns (tree, offset after the value).
func (c *composer) value(data []byte, depth int) (interface{}, int, error) {
	tp, p, err := rjson.NextTokenType(data)
	if err != nil {
		return nil, p, err
	}
	start := p - 1
	choice := 0
	if c.mode == 1 {
		choice = c.r.Intn(6)
	}
	switch choice {
	case 4:
		c.skipped = true
		pp, err := rjson.SkipValue(data[start:], c.buf)
		return skippedMark, start + pp, err
	case 5:
		c.skipped, c.fastUsed = true, true
		pp, err := rjson.SkipValueFast(data[start:], c.buf)
		return skippedMark, start + pp, err
	}
	if c.ws {
		// the readers skip leading whitespace themselves: offsets are then relative to the unskipped slice
		start = 0
	}
	switch tp {
	case rjson.NullType:
		pp, err := rjson.ReadNull(data[start:])
		return nil, start + pp, err
	case rjson.StringType:
		v, pp, err := rjson.ReadString(data[start:], nil)
		return v, start + pp, err
	case rjson.NumberType:
		if c.ints && c.r.Intn(2) == 0 {
			if u, pp, err := rjson.ReadUint64(data[start:]); err == nil {
				return float64(u), start + pp, nil
			}
			if i, pp, err := rjson.ReadInt64(data[start:]); err == nil && i != 0 {
				return float64(i), start + pp, nil
			}
		}
		v, pp, err := rjson.ReadFloat64(data[start:])
		return v, start + pp, err
	case rjson.TrueType, rjson.FalseType:
		v, pp, err := rjson.ReadBool(data[start:])
		return v, start + pp, err
	}
	start = p - 1
	if c.walk && depth <= 200 && (tp == rjson.ArrayStartType || tp == rjson.ObjectStartType) {
		return c.walkContainer(data, p, tp == rjson.ObjectStartType, depth)
	}
	switch tp {
	case rjson.ArrayStartType:
		if choice == 3 || depth > 200 {
			v, pp, err := rjson.ReadValue(data[start:])
			return v, start + pp, err
		}
		out := []interface{}{}
		pp, err := rjson.HandleArrayValues(data[start:], rjson.ArrayValueHandlerFunc(func(d []byte) (int, error) {
			if c.mode == 1 && c.r.Intn(5) == 0 {
				c.skipped = true
				out = append(out, skippedMark)
				return 0, nil // decline: the traversal validates and skips the member itself
			}
			v, q, err := c.value(d, depth+1)
			if err != nil {
				return q, err
			}
			out = append(out, v)
			return q, nil
		}), c.buf)
		return out, start + pp, err
	case rjson.ObjectStartType:
		if choice == 3 || depth > 200 {
			v, pp, err := rjson.ReadValue(data[start:])
			return v, start + pp, err
		}
		out := map[string]interface{}{}
		pp, err := rjson.HandleObjectValues(data[start:], rjson.ObjectValueHandlerFunc(func(field, d []byte) (int, error) {
			key, _, err := rjson.UnescapeStringContent(field, nil)
			if err != nil {
				return 0, err
			}
			if c.mode == 1 && c.r.Intn(5) == 0 {
				c.skipped = true
				out[string(key)] = skippedMark
				return 0, nil
			}
			v, q, err := c.value(d, depth+1)
			if err != nil {
				return q, err
			}
			out[string(key)] = v
			return q, nil
		}), c.buf)
		return out, start + pp, err
	}
	return nil, p, fmt.Errorf("unexpected token")
}

// walkContainer reads an array or object whose opening bracket ends at pos, token by token: every step resumes at the offset
// the previous call reported.
func (c *composer) walkContainer(data []byte, pos int, isObj bool, depth int) (interface{}, int, error) {
	closer := byte(']')
	if isObj {
		closer = '}'
	}
	var arr []interface{}
	obj := map[string]interface{}{}
	arr = []interface{}{}
	first := true
	for {
		tk, q, err := rjson.NextToken(data[pos:])
		if err != nil {
			return nil, pos + q, err
		}
		if tk == closer && first {
			pos += q
			break
		}
		if !first {
			if tk == closer {
				pos += q
				break
			}
			if tk != ',' {
				return nil, pos + q, fmt.Errorf("lost sync: expected , or closer, found %q", tk)
			}
			pos += q
		}
		first = false
		var key string
		if isObj {
			k, q, err := rjson.ReadString(data[pos:], nil)
			if err != nil {
				return nil, pos + q, err
			}
			key = k
			pos += q
			tk, q2, err := rjson.NextToken(data[pos:])
			if err != nil || tk != ':' {
				return nil, pos + q2, fmt.Errorf("lost sync: expected colon")
			}
			pos += q2
		}
		v, q2, err := c.value(data[pos:], depth+1)
		if err != nil {
			return nil, pos + q2, err
		}
		pos += q2
		if isObj {
			obj[key] = v
		} else {
			arr = append(arr, v)
		}
	}
	if isObj {
		return obj, pos, nil
	}
	return arr, pos, nil
}

func init() {
	suites["C08"] = func(c *Ctx) (string, error) {
		s := c.Suite
		g := c.gen()
		var pool [][]byte
		for i := 0; i < c.scale(4000, 40000); i++ {
			d := g.Doc(1+c.Rng.Intn(5), 3+c.Rng.Intn(30))
			pool = append(pool, d)
			if i%2 == 0 {
				pool = append(pool, append(append([]byte(nil), d...), []byte(" ,]x")[c.Rng.Intn(4)]))
			}
			if i%3 == 0 {
				pool = append(pool, g.Mutate(d, 2)...)
			}
		}
		for _, s := range []string{`["café"]`, `["aA\"]"]`, `["A\\"]`, `{"a":["xé",{"b":"]]"}]}`, "[\"\x1f\"]", "{\"a\":\"\x1f\"}", `[[1, [2], 3], 4]`, `{"a":1,"b" ` + "\r" + `:2}`, `[1e5-3]`, `[1,-01]`} {
			pool = append(pool, []byte(s))
		}
		sp, _ := stringInputs(c)
		for i := 0; i < len(sp); i += c.scale(25, 3) {
			pool = append(pool, append(append([]byte("["), sp[i]...), ']'), append(append([]byte(`{"k":`), sp[i]...), '}'))
		}
		for di, d := range pool {
			d = exact(d)
			direct, dp, derr := rjson.ReadValue(d)
			// is the head of the input syntactically invalid (and not merely a number out of range)? The validating skipper with a
			// Buffer of its own is the reference here; C02 ties it to the specification
			_, verr := rjson.SkipValue(d, &rjson.Buffer{})
			syntaxErr := verr != nil
			for trial := 0; trial < 6; trial++ {
				cm := &composer{r: rand.New(rand.NewSource(c.Seed*1000003 + int64(di)*7 + int64(trial))), mode: 1}
				if trial == 0 || trial == 4 {
					cm.mode = 0
				}
				if trial%2 == 1 {
					cm.buf = &rjson.Buffer{}
				}
				if trial >= 4 {
					// the manual token walk, readers given the whitespace, integers through the integer readers
					cm.walk, cm.ws, cm.ints = true, true, true
				}
				if trial == 2 {
					cm.ws, cm.ints = true, true
				}
				var tree interface{}
				var p int
				var err error
				out := guard(func() string {
					tree, p, err = cm.value(d, 0)
					return ""
				})
				s.Evaluations++
				s.Classes[fmt.Sprintf("mode%d", cm.mode)]++
				line := fmt.Sprintf("compose mode=%d trial=%d data=%s", cm.mode, trial, hxShort(d))
				if out == "panic" {
					s.Violation(line, "panic", "no panic", "compose", "composed decoder panicked")
					continue
				}
				if derr == nil {
					s.Distinct[line] = struct{}{}
					if err != nil {
						s.Violation(line, "error: "+err.Error(), fmt.Sprintf("offset %d", dp), "compose", "composed decoder fails where direct decoding succeeds")
					} else if p != dp {
						s.Violation(line, fmt.Sprintf("offset %d", p), fmt.Sprintf("offset %d", dp), "compose", "final offset differs from direct decoding")
					} else if !cm.skipped && renderVal(tree) != renderVal(direct) {
						s.Violation(line, cut(renderVal(tree)), cut(renderVal(direct)), "compose", "tree reconstructed through the API differs from direct decoding")
					}
				} else if cm.mode == 0 && !cm.walk && err == nil {
					s.Violation(line, fmt.Sprintf("ok offset %d", p), "error (direct decoding fails: "+derr.Error()+")", "compose", "all-reading validating decoder accepts an input on which direct decoding fails")
				} else if !cm.fastUsed && !cm.walk && err == nil && syntaxErr {
					// a strategy mix without the non-validating SkipValueFast consists of validating parts only (typed readers,
					// ReadValue, SkipValue with and without a Buffer, traversals whose declined members the machine itself skips)
					s.Violation(line, fmt.Sprintf("ok offset %d", p), "error (direct decoding fails: "+derr.Error()+")", "compose", "a decoder built from validating parts only accepts a syntactically invalid input")
				}
			}
		}
		// the decoder that Props/C08Decoders.lean proves correct end to end (HandleArrayValues with a ReadFloat64 handler): the
		// Go decoder against the model's, on arrays of number literals of every kind, with non-numbers, nesting and damage
		{
			var cases []Case
			lits, _ := floatLiterals(c)
			for i := 0; i < c.scale(1500, 15000); i++ {
				var b strings.Builder
				b.WriteString([]string{"[", " [", "[ ", "\n[\t"}[c.Rng.Intn(4)])
				n := c.Rng.Intn(6)
				for k := 0; k < n; k++ {
					if k > 0 {
						b.WriteString([]string{",", " ,", ", ", " , "}[c.Rng.Intn(4)])
					}
					switch c.Rng.Intn(12) {
					case 0:
						b.WriteString([]string{`"1"`, "null", "true", "[1]", "{}", "1e999", "-", "01"}[c.Rng.Intn(8)])
					case 1:
						b.Write(g.Number())
					default:
						l := lits[c.Rng.Intn(len(lits))]
						if len(l) > 400 {
							l = l[:40]
						}
						b.WriteString(strings.TrimLeft(l, " \t\r\n"))
					}
				}
				b.WriteString([]string{"]", " ]", "] x", "", "]]", ",]"}[c.Rng.Intn(6)])
				d := []byte(b.String())
				st := []string{"-", "1,2,3", "7"}[c.Rng.Intn(3)]
				cases = append(cases, apiCase("floatarray", "FloatArray", hx(d), st))
				if c.Rng.Intn(4) == 0 {
					for _, m := range g.Mutate(d, 1) {
						cases = append(cases, apiCase("floatarray:mutated", "FloatArray", hx(m), st))
					}
				}
			}
			// the field-selective decoder of Props/C08Decoders: objects with repeated, escaped and similar names, numbers and
			// other values under the selected name, damaged documents
			names := []string{"k", "a", "kk", `k\u0020`, "k ", "", "K", `\"k`, "é"}
			for i := 0; i < c.scale(1500, 15000); i++ {
				var b strings.Builder
				b.WriteString([]string{"{", " {", "{ ", "\n{\t"}[c.Rng.Intn(4)])
				n := c.Rng.Intn(6)
				for k := 0; k < n; k++ {
					if k > 0 {
						b.WriteString([]string{",", " ,", ", "}[c.Rng.Intn(3)])
					}
					b.WriteString(`"` + names[c.Rng.Intn(len(names))] + `"` + []string{":", " :", ": "}[c.Rng.Intn(3)])
					switch c.Rng.Intn(8) {
					case 0:
						b.WriteString([]string{`"1"`, "null", "true", "[1,{}]", `{"k":2}`, "1e999", "-", "01"}[c.Rng.Intn(8)])
					case 1:
						b.Write(g.Doc(2, 4))
					default:
						l := lits[c.Rng.Intn(len(lits))]
						if len(l) > 400 {
							l = l[:40]
						}
						b.WriteString(strings.TrimLeft(l, " \t\r\n"))
					}
				}
				b.WriteString([]string{"}", " }", "} x", "", "}}", ",}"}[c.Rng.Intn(6)])
				d := []byte(b.String())
				st := []string{"-", "1,2,3", "7"}[c.Rng.Intn(3)]
				key := names[c.Rng.Intn(3)]
				cases = append(cases, apiCase("fieldfloat", "FieldFloat", hx(d), hx([]byte(key)), st))
				if c.Rng.Intn(4) == 0 {
					for _, m := range g.Mutate(d, 1) {
						cases = append(cases, apiCase("fieldfloat:mutated", "FieldFloat", hx(m), hx([]byte(key)), st))
					}
				}
			}
			for _, sdoc := range []string{"null", " null", "[]", "[ ]", "[1]", "[-0]", "[1,2", "[1 2]", "[1,]", "[,1]", "x", "", "[9007199254740993]", "[1e400]", "[0.1,0.2,0.3]"} {
				cases = append(cases, apiCase("floatarray", "FloatArray", hx([]byte(sdoc)), "-"))
			}
			if err := s.Run(cases); err != nil {
				return "", err
			}
		}
		return "decoders written against the public API only (manual token walks with NextToken and the typed readers incl. the integer readers, readers given leading whitespace, NextTokenType, SkipValue, SkipValueFast, ReadValue, nested HandleArrayValues/HandleObjectValues with and without a shared Buffer, declining handlers), 2 all-reading + 4 random strategy mixes per document, on generated, followed, mutated and string-corner-case documents; final offset and reconstructed tree compared with direct ReadValue; the all-reading validating decoder, must fail wherever direct decoding fails; every strategy mix that did not use SkipValueFast must fail on syntactically invalid input; the number-array decoder of Props/C08Decoders (HandleArrayValues + ReadFloat64 handler) and the field-selective decoder (HandleObjectValues + ReadFloat64 on one name, declining the rest) against their models on generated arrays / objects of float literals", nil
	}
}

// ---- C19: zero allocations ----

type zeroHandler struct{ buf *rjson.Buffer }

func (h zeroHandler) HandleArrayValue(d []byte) (int, error)     { return 0, nil }
func (h zeroHandler) HandleObjectValue(f, d []byte) (int, error) { return 0, nil }

type skipHandler struct{ buf *rjson.Buffer }

func (h skipHandler) HandleArrayValue(d []byte) (int, error)     { return rjson.SkipValue(d, h.buf) }
func (h skipHandler) HandleObjectValue(f, d []byte) (int, error) { return rjson.SkipValue(d, h.buf) }

func init() {
	suites["C19"] = func(c *Ctx) (string, error) {
		s := c.Suite
		g := c.gen()
		check := func(name, h string, f func()) {
			s.Evaluations++
			s.Classes[name]++
			s.Distinct[name+" "+h] = struct{}{}
			var n float64
			out := guard(func() string { n = testing.AllocsPerRun(3, f); return "" })
			if out == "panic" {
				return
			}
			if n != 0 {
				s.Violation(name+" "+h, fmt.Sprintf("%.0f allocs/op", n), "0 allocs/op", "allocs", "a successful call allocated")
			}
		}
		// numbers on every float path
		lits, cl := floatLiterals(c)
		stepL := c.scale(3, 1)
		for i := 0; i < len(lits); i += stepL {
			d := exact([]byte(lits[i]))
			if _, _, err := rjson.ReadFloat64(d); err != nil {
				continue
			}
			var tf float64
			check("ReadFloat64:"+cl[i], hxShort(d), func() { rjson.ReadFloat64(d) })
			if i%4 == 0 {
				check("DecodeFloat64", hxShort(d), func() { rjson.DecodeFloat64(d, &tf) })
			}
		}
		ints := intInputs(c)
		for i := 0; i < len(ints); i += c.scale(5, 1) {
			d := exact(ints[i])
			var t64 int64
			var u64 uint64
			if _, _, err := rjson.ReadInt64(d); err == nil {
				check("ReadInt64", hx(d), func() { rjson.ReadInt64(d); rjson.ReadInt(d); rjson.DecodeInt64(d, &t64) })
			}
			if _, _, err := rjson.ReadUint64(d); err == nil {
				check("ReadUint64", hx(d), func() { rjson.ReadUint64(d); rjson.ReadUint(d); rjson.DecodeUint64(d, &u64) })
			}
			if _, _, err := rjson.ReadInt32(d); err == nil {
				var t32 int32
				var u32 uint32
				check("ReadInt32", hx(d), func() { rjson.ReadInt32(d); rjson.DecodeInt32(d, &t32); rjson.ReadUint32(d); rjson.DecodeUint32(d, &u32) })
			}
		}
		for _, sd := range []string{"true", " false", "\n true ", "null", "  null,"} {
			d := exact([]byte(sd))
			var tb bool
			check("literals", hx(d), func() {
				rjson.ReadBool(d)
				rjson.ReadNull(d)
				rjson.DecodeBool(d, &tb)
				rjson.NextToken(d)
				rjson.NextTokenType(d)
			})
		}
		// strings with a destination whose spare capacity is at least the input length
		sp, scl := stringInputs(c)
		for i := 0; i < len(sp); i += c.scale(9, 1) {
			d := exact(sp[i])
			if _, _, err := rjson.ReadStringBytes(d, nil); err == nil {
				for _, extra := range []int{0, 1, 8} {
					dst := make([]byte, 0, len(d)+extra)
					check("ReadStringBytes:"+scl[i], hxShort(d), func() { rjson.ReadStringBytes(d, dst) })
					dst2 := append(make([]byte, 0, len(d)+extra+3), "pre"...)
					check("ReadStringBytes:prefix", hxShort(d), func() { rjson.ReadStringBytes(d, dst2) })
				}
			}
			t := bytes.TrimLeft(d, " \t\r\n")
			if len(t) >= 2 && t[0] == '"' {
				if e := bytes.LastIndexByte(t, '"'); e > 0 {
					body := exact(t[1:e])
					if _, _, err := rjson.UnescapeStringContent(body, nil); err == nil {
						for _, extra := range []int{0, 1, 5} {
							dst := make([]byte, 0, len(body)+extra)
							check("UnescapeStringContent:"+scl[i], hxShort(body), func() { rjson.UnescapeStringContent(body, dst) })
						}
					}
				}
			}
		}
		// skipping / validation / traversal with a warmed buffer
		var docs [][]byte
		for i := 0; i < c.scale(1200, 12000); i++ {
			docs = append(docs, g.Doc(1+c.Rng.Intn(7), 3+c.Rng.Intn(40)))
		}
		docs = append(docs, nested(3000, "[", "1", true), nested(3000, "{", `"x\n"`, true), nested(500, "[{", "1.5e300", true), nested(900, "{[", "9007199254740993", true))
		for _, d := range docs {
			d = exact(d)
			buf := &rjson.Buffer{}
			if !rjson.Valid(d, buf) {
				continue
			}
			// warm with a document at least as deeply nested: the document itself, through every machine
			rjson.SkipValue(d, buf)
			rjson.SkipValueFast(d, buf)
			rjson.HandleArrayValues(d, skipHandler{buf}, buf)
			rjson.HandleObjectValues(d, skipHandler{buf}, buf)
			h := hxShort(d)
			check("Valid", h, func() { rjson.Valid(d, buf) })
			check("SkipValue", h, func() { rjson.SkipValue(d, buf) })
			check("SkipValueFast", h, func() { rjson.SkipValueFast(d, buf) })
			t := bytes.TrimLeft(d, " \t\r\n")
			if t[0] == '[' {
				check("HandleArrayValues:decline", h, func() { rjson.HandleArrayValues(d, zeroHandler{}, buf) })
				check("HandleArrayValues:skip", h, func() { rjson.HandleArrayValues(d, skipHandler{buf}, buf) })
			}
			if t[0] == '{' {
				check("HandleObjectValues:decline", h, func() { rjson.HandleObjectValues(d, zeroHandler{}, buf) })
				check("HandleObjectValues:skip", h, func() { rjson.HandleObjectValues(d, skipHandler{buf}, buf) })
			}
		}
		// the length of the stack slice after a call (model: max(initial length, height reached), C19.stack_size)
		var cases []Case
		stackOf := func(n int) string {
			if n == 0 {
				return "-"
			}
			xs := make([]string, n)
			for i := range xs {
				xs[i] = "7"
			}
			return strings.Join(xs, ",")
		}
		for i := 0; i < len(docs) && i < c.scale(400, 4000); i++ {
			d := docs[i]
			if len(d) > 6000 {
				continue
			}
			h := hx(d)
			for _, n0 := range []int{0, 1, 2, 3, 5, 9, 40} {
				fn := []string{"SkipValue", "SkipValueFast", "Valid"}[(i+n0)%3]
				cases = append(cases, apiCase("stacklen:"+fn, "StackLen", fn, h, stackOf(n0)))
			}
			// the machine's own notion of height against the reference nesting depth of the document (largest number of
			// containers open at once, computed without the scanner): on a valid document, starting from an empty slice, the
			// stack slice of SkipValue / Valid ends exactly that long — "a Buffer used on a document at least as deeply
			// nested" is a Buffer whose slice is at least that long
			for _, fn := range []string{"SkipValue", "Valid"} {
				cases = append(cases, specCase("stacklen:depth", "specDepth "+h, runAPI("StackLen", []string{fn, h, "-"})))
			}
		}
		if err := s.Run(cases); err != nil {
			return "", err
		}
		return "the length of the stack slice stored back after SkipValue/SkipValueFast/Valid on initial slices of length 0..40 compared with the model (C19.stack_size) and, on valid documents from an empty slice, with the reference nesting depth (Spec.nestDepth); testing.AllocsPerRun around every listed call on successful inputs: floats on every conversion path (incl. the decimal fallback), integers around the bounds, literals and token readers, string tokens with destinations of spare capacity len+0/1/8 (with and without a prefix), UnescapeStringContent with spare len+0/1/5, Valid/SkipValue/SkipValueFast/Handle*Values with a buffer warmed on the same document (nesting up to 3000); expected 0", nil
	}
}

// ---- C20: linear memory ----

func totalAlloc(f func()) uint64 {
	var a, b runtime.MemStats
	runtime.ReadMemStats(&a)
	f()
	runtime.ReadMemStats(&b)
	return b.TotalAlloc - a.TotalAlloc
}

type family struct {
	name string
	gen  func(n int) [][]byte // documents of one call sequence at scale n
	run  func(docs [][]byte)
	id   string
}

func objN(n int, prefix string) string {
	var b strings.Builder
	b.WriteString("{")
	for i := 0; i < n; i++ {
		if i > 0 {
			b.WriteString(",")
		}
		fmt.Fprintf(&b, `"%s%d":1`, prefix, i)
	}
	b.WriteString("}")
	return b.String()
}

func arrN(n int) string { return "[" + strings.Repeat("1,", n) + "1]" }

func readAll(docs [][]byte) {
	var r rjson.ValueReader
	for _, d := range docs {
		r.ReadValue(d)
	}
}

func families() []family {
	one := func(s string) [][]byte { return [][]byte{[]byte(s)} }
	return []family{
		{name: "F1 array: one n-key object then n empty objects", gen: func(n int) [][]byte { return one("[" + objN(n, "k") + strings.Repeat(",{}", n) + "]") }, run: readAll},
		{name: "F1o object: one n-key object member then n empty object members", gen: func(n int) [][]byte {
			var b strings.Builder
			b.WriteString(`{"big":` + objN(n, "k"))
			for i := 0; i < n; i++ {
				fmt.Fprintf(&b, `,"e%d":{}`, i)
			}
			b.WriteString("}")
			return one(b.String())
		}, run: readAll},
		{name: "F1a array: one n-element array then n empty arrays", gen: func(n int) [][]byte { return one("[" + arrN(n) + strings.Repeat(",[]", n) + "]") }, run: readAll},
		{name: "F1' history: one n-key object inside an array, then n small documents on the same reader", gen: func(n int) [][]byte {
			docs := [][]byte{[]byte("[" + objN(n, "k") + "]")}
			for i := 0; i < n; i++ {
				docs = append(docs, []byte(`[{"a":1,"b":{"c":2}}]`))
			}
			return docs
		}, run: readAll},
		{name: "F3 history: one n-key object inside an array, then n small failing documents on the same reader", gen: func(n int) [][]byte {
			docs := [][]byte{[]byte("[" + objN(n, "k") + "," + arrN(n) + "]")}
			for i := 0; i < n; i++ {
				if i%2 == 0 {
					docs = append(docs, []byte(`[{"a":1,"b":}]`))
				} else {
					docs = append(docs, []byte(`[[1,2,`))
				}
			}
			return docs
		}, run: readAll},
		{name: "F2 escapes at every nesting level", id: "F2", gen: func(n int) [][]byte {
			return one(strings.Repeat(`["\n",`, n) + "0" + strings.Repeat("]", n))
		}, run: readAll},
		{name: "F2k escaped keys at every nesting level", id: "F2", gen: func(n int) [][]byte {
			return one(strings.Repeat(`{"\n":`, n) + "0" + strings.Repeat("}", n))
		}, run: readAll},
		{name: "F4 one long string: escaped quote, then \\u escapes separated by single bytes", gen: func(n int) [][]byte {
			return one(`"\"` + strings.Repeat(`\u0436 `, n*4) + `"`)
		}, run: func(docs [][]byte) {
			readAll(docs)
			var buf []byte
			for _, d := range docs {
				buf, _, _ = rjson.ReadStringBytes(d, buf[:0])
				rjson.ReadString(d, nil)
			}
		}},
		{name: "F4k one long escaped key and a string value with many escaped quotes", gen: func(n int) [][]byte {
			return one(`{"\"` + strings.Repeat(`\u00e9x`, n*2) + `":"` + strings.Repeat(`\"\ud83d\ude00`, n) + `"}`)
		}, run: readAll},
		{name: "F4b StdLibCompatibleStringBytes / UnescapeStringContent on one long input, empty destination", gen: func(n int) [][]byte {
			return [][]byte{[]byte(strings.Repeat("a\xffé", n*4)), []byte(strings.Repeat(`\u0041\"\n`, n*4))}
		}, run: func(docs [][]byte) {
			rjson.StdLibCompatibleStringBytes(docs[0], nil)
			rjson.UnescapeStringContent(docs[1], nil)
		}},
		{name: "F5 deep object/array alternation through ReadValue", gen: func(n int) [][]byte {
			return [][]byte{[]byte(strings.Repeat(`{"children":[`, n) + "1" + strings.Repeat("]}", n)), nested(n, "[{", "1", true), nested(n, "{[", "1", true)}
		}, run: readAll},
		{name: "F6 mixed entry points on one reader: a large object before an object sibling through ReadObject / ReadArray, then n small objects through ReadValue", gen: func(n int) [][]byte {
			docs := [][]byte{[]byte(`{"a":` + objN(n, "k") + `,"b":{"x":1}}`), []byte("[" + objN(n, "k") + `,{"x":1}]`)}
			for i := 0; i < n; i++ {
				docs = append(docs, []byte(`{"a":1}`))
			}
			return docs
		}, run: func(docs [][]byte) {
			var r rjson.ValueReader
			r.ReadObject(docs[0])
			r.ReadArray(docs[1])
			for _, d := range docs[2:] {
				r.ReadValue(d)
			}
		}},
		{name: "F6r mixed entry points on one reader: a large document through ReadValue, then n small ones alternating ReadObject / ReadArray / ReadValue", gen: func(n int) [][]byte {
			docs := [][]byte{[]byte(`[` + objN(n, "k") + `,` + arrN(n) + `,{"x":[1]}]`)}
			for i := 0; i < n; i++ {
				switch i % 3 {
				case 0:
					docs = append(docs, []byte(`{"a":{"b":1}}`))
				case 1:
					docs = append(docs, []byte(`[[1],{"c":2}]`))
				default:
					docs = append(docs, []byte(`{"d":[{"e":3}]}`))
				}
			}
			return docs
		}, run: func(docs [][]byte) {
			var r rjson.ValueReader
			r.ReadValue(docs[0])
			for i, d := range docs[1:] {
				switch i % 3 {
				case 0:
					r.ReadObject(d)
				case 1:
					r.ReadArray(d)
				default:
					r.ReadValue(d)
				}
			}
		}},
		{name: "deep arrays through ReadValue", gen: func(n int) [][]byte { return one(string(nested(n, "[", "1", true))) }, run: readAll},
		{name: "wide flat array through ReadValue", gen: func(n int) [][]byte { return one(arrN(n * 4)) }, run: readAll},
		{name: "many strings with escapes in one array", gen: func(n int) [][]byte { return one("[" + strings.Repeat(`"a\nbéc",`, n) + `""]`) }, run: readAll},
		{name: "Valid/SkipValue/SkipValueFast on deep mixed nesting with a fresh buffer", gen: func(n int) [][]byte {
			return [][]byte{nested(n, "[{", "1", true), nested(n, "{[", "1", true), []byte(strings.Repeat(`{"a":0,"b":[`, n) + "1" + strings.Repeat("]}", n))}
		}, run: func(docs [][]byte) {
			for _, d := range docs {
				rjson.Valid(d, nil)
				rjson.SkipValue(d, &rjson.Buffer{})
				rjson.SkipValueFast(d, &rjson.Buffer{})
			}
		}},
		{name: "Handle*Values (declining handler) on deep nesting, reused buffer", gen: func(n int) [][]byte {
			return [][]byte{[]byte("[" + string(nested(n, "[{", "1", true)) + "]"), []byte(`{"a":` + string(nested(n, "{[", "1", true)) + "}"), []byte("[" + strings.Repeat(`{"a":0,"b":[`, n) + "1" + strings.Repeat("]}", n) + "]")}
		}, run: func(docs [][]byte) {
			buf := &rjson.Buffer{}
			for _, d := range docs {
				rjson.HandleArrayValues(d, zeroHandler{}, buf)
				rjson.HandleObjectValues(d, zeroHandler{}, buf)
			}
		}},
		{name: "many small documents on one reader and one buffer", gen: func(n int) [][]byte {
			var docs [][]byte
			for i := 0; i < n; i++ {
				docs = append(docs, []byte(`{"id":1,"tags":["a","b"],"n":{"x":1.5}}`))
			}
			return docs
		}, run: func(docs [][]byte) {
			var r rjson.ValueReader
			buf := &rjson.Buffer{}
			for _, d := range docs {
				r.ReadValue(d)
				rjson.Valid(d, buf)
				rjson.SkipValue(d, buf)
			}
		}},
	}
}

func init() {
	suites["C20"] = func(c *Ctx) (string, error) {
		s := c.Suite
		scales := []int{500, 1000, 2000, 4000, 8000}
		if c.thorough() {
			scales = []int{500, 1000, 2000, 4000, 8000, 16000}
		}
		for _, fam := range families() {
			var perByte []float64
			var detail []string
			for _, n := range scales {
				docs := fam.gen(n)
				total := 0
				for _, d := range docs {
					total += len(d)
				}
				runtime.GC()
				a := totalAlloc(func() { fam.run(docs) })
				s.Evaluations++
				s.Classes[fam.name]++
				pb := float64(a) / float64(total+64*len(docs))
				perByte = append(perByte, pb)
				detail = append(detail, fmt.Sprintf("n=%d input=%dB alloc=%dB (%.1f B/B)", n, total, a, pb))
				// stop scaling as soon as the verdict is clear (a quadratic family gets expensive quickly)
				if pb/perByte[0] > 6 && pb > 200 {
					break
				}
			}
			// linear cost keeps the allocation per input byte roughly constant over the 16-fold size range;
			// quadratic cost multiplies it by the scale factor. (A log-log fit over few points is fooled by the
			// one-off steps of sync.Pool's per-P arrays, so the ratio test is used.)
			ratio := perByte[len(perByte)-1] / perByte[0]
			last := detail[len(detail)-1]
			s.Distinct[fam.name] = struct{}{}
			s.Samples = append(s.Samples, fmt.Sprintf("%s: bytes allocated per input byte grew %.2fx; %s", fam.name, ratio, last))
			if ratio > 3 && perByte[len(perByte)-1] > 200 {
				line := fmt.Sprintf("family %q %s", fam.name, strings.Join(detail, "; "))
				cls := "family"
				if fam.id != "" {
					cls = "family:" + fam.id
				}
				s.Violation(line, fmt.Sprintf("allocation per input byte grew %.1fx while the input grew %dx", ratio, scales[len(perByte)-1]/scales[0]), "allocation per input byte stays bounded", cls, "total allocation is superlinear in the input size")
			}
		}
		sort.Strings(s.Samples)
		return "runtime.MemStats.TotalAlloc around call sequences of adversarial families at doubling scales (large container then many small siblings in arrays and objects, big-then-small and big-then-failing histories on one reader, escapes and escaped keys at every nesting level, deep and wide documents, skip/validate/traverse on deep mixed nesting with fresh and reused buffers, many small documents); allocated bytes per input byte growing more than 3x over the 16-fold size range (and exceeding 200 B/B) is a violation", nil
	}
}
