package main

import (
	"bytes"
	"fmt"
	"math/big"
	"strconv"
	"strings"

	"github.com/willabides/rjson"
)

// ---- shared input pools ----

func (c *Ctx) gen() *Gen { return &Gen{r: c.Rng} }

func (c *Ctx) scale(quick, thorough int) int {
	if c.thorough() {
		return thorough
	}
	return quick
}

// docPool: well-formed documents, their mutations, small-scope strings and repository corpus files.
func (c *Ctx) docPool() (pool [][]byte, classes []string) {
	g := c.gen()
	add := func(b []byte, cl string) { pool = append(pool, b); classes = append(classes, cl) }
	nDocs := c.scale(2500, 20000)
	for i := 0; i < nDocs; i++ {
		d := g.Doc(1+c.Rng.Intn(5), 2+c.Rng.Intn(30))
		add(d, "doc:valid")
		for _, m := range g.Mutate(d, 5) {
			add(m, "doc:mutated")
		}
	}
	smallScope(jsonSymbols, c.scale(3, 4), func(b []byte) { add(append([]byte(nil), b...), "smallscope") })
	for _, b := range corpus(c.Rng, c.scale(1200, 12000)) {
		add(b, "corpus")
	}
	return
}

// followPool: well-formed values followed by each of the 256 byte values, and every truncation.
func (c *Ctx) followPool() (pool [][]byte, classes []string) {
	g := c.gen()
	n := c.scale(120, 1200)
	for i := 0; i < n; i++ {
		var v []byte
		if i%3 == 0 {
			v = g.Scalar()
		} else {
			b := 8
			v = g.Value(1+c.Rng.Intn(3), &b)
		}
		for b := 0; b < 256; b++ {
			pool = append(pool, append(append([]byte(nil), v...), byte(b)))
			classes = append(classes, "follow")
		}
		for k := 0; k < len(v); k++ {
			pool = append(pool, append([]byte(nil), v[:k]...))
			classes = append(classes, "truncate")
		}
	}
	// numbers with every follow byte after each prefix shape
	for _, num := range []string{"0", "-0", "1", "12", "-12", "1.5", "1.50", "0.0", "1e5", "1E+5", "1e-5", "1.5e5", "1.", "1e", "1e+", "-", "0.", "01", "1.e1", "0e0"} {
		for b := 0; b < 256; b++ {
			pool = append(pool, append([]byte(num), byte(b)))
			classes = append(classes, "number-follow")
		}
	}
	// ... and every kind of multi-byte rune after each number shape and inside containers: digits, letters, spaces and
	// punctuation of other scripts are not JSON digits / letters / whitespace (helpers that classify by rune instead of
	// by byte would accept them)
	runes := []string{"\u0663", "\u0969", "\uff11", "\U0001d7d1", "\u00b2", "\u2002", "\u00a0", "\u3000", "\u2028", "\ufeff", "\uff0c", "\uff3d", "\u00e9", "\uff45", "\u212f"}
	for _, num := range []string{"0", "-0", "12", "1.5", "0.25", "1e5", "1E+5", "1.5e-3", "1.", "1e", "-"} {
		for _, r := range runes {
			for _, shape := range []string{"%s%s", "%s%s1", "[%s%s]", "[%s%s,1]", `{"a":%s%s}`, " %s%s "} {
				pool = append(pool, []byte(fmt.Sprintf(shape, num, r)))
				classes = append(classes, "number-rune-follow")
			}
		}
	}
	for _, r := range runes {
		for _, d := range []string{"[1%s,2]", "[%s1]", "{%s\"a\":1}", "{\"a\"%s:1}", "tru%s", "true%s", "%snull", "[true%s]"} {
			pool = append(pool, []byte(fmt.Sprintf(d, r)))
			classes = append(classes, "rune-in-structure")
		}
	}
	return
}

func depthDocs() (pool [][]byte) {
	for _, kinds := range []string{"[", "{", "[{", "{[", "[[{", "{{["} {
		for _, d := range []int{9998, 9999, 10000, 10001, 10002} {
			pool = append(pool, nested(d, kinds, "1", true))
			pool = append(pool, nested(d, kinds, "", false))
		}
	}
	return
}

var garbageStack = "5,6,7,99999,0,1"

// a Buffer that an earlier, deeper traversal (Handle*Values have no depth limit) left longer than the limit
var longStack = strings.TrimSuffix(strings.Repeat("3,", 10050), ",")

// ---- C01 ----

func init() {
	suites["C01"] = func(c *Ctx) (string, error) {
		var cases []Case
		pool, cl := c.docPool()
		// what may follow a number, and multi-byte runes in every structural position (shared with C02)
		fp, fcl := c.followPool()
		for i := range fp {
			if fcl[i] == "number-follow" || fcl[i] == "number-rune-follow" || fcl[i] == "rune-in-structure" {
				pool = append(pool, fp[i])
				cl = append(cl, fcl[i])
			}
		}
		pool = append(pool, byteNeighbourhood([]string{"[1.5e+3,true]", " {\"a\":null} ", "\"\\n\"", "-0"})...)
		// one stray byte at every distance up to 70 behind the value, in whitespace of every kind, followed by 0..16 more
		// whitespace bytes (block-wise trailing checks), and the same in front of the value
		for _, v := range []string{"1", "{}", "[1]", "\"s\"", "null"} {
			for _, w := range []string{" ", "\n", "\r\n", "\t"} {
				for k := 0; k <= 70; k++ {
					ws := strings.Repeat(w, k)
					for _, g := range []string{"2", "]", "}", "x", "\x00", ",", "\"", "\x0b"} {
						for _, m := range []int{0, 1, 2, 3, 7, 8, 9, 16} {
							if (k+m)%3 != 0 && !c.thorough() {
								continue
							}
							pool = append(pool, []byte(v+ws+g+strings.Repeat(w, m)))
						}
					}
					if k%7 == 0 {
						pool = append(pool, []byte(ws+"x"+ws+v))
					}
				}
			}
		}
		for len(cl) < len(pool) {
			cl = append(cl, "neighbourhood")
		}
		for i, d := range pool {
			h := hx(d)
			cases = append(cases, apiCase(cl[i], "Valid", h, "-"))
			if i%3 == 0 {
				cases = append(cases, apiCase(cl[i]+":stack", "Valid", h, garbageStack))
			}
			cases = append(cases, specCase(cl[i]+":spec", "specValid 10000 "+h, runAPI("Valid", []string{h, "-"})))
		}
		for _, d := range depthDocs() {
			h := hx(d)
			cases = append(cases, apiCase("depth", "Valid", h, "-"), apiCase("depth:stack", "Valid", h, garbageStack), apiCase("depth:longstack", "Valid", h, longStack))
			cases = append(cases, specCase("depth:spec", "specValid 10000 "+h, runAPI("Valid", []string{h, garbageStack})))
			cases = append(cases, specCase("depth:longstack:spec", "specValid 10000 "+h, runAPI("Valid", []string{h, longStack})))
		}
		if err := c.Suite.Run(cases); err != nil {
			return "", err
		}
		cov, err := coverCases(c.Model, "skipValue", c.scale(1, 2), false)
		if err != nil {
			return "", err
		}
		// the cover strings also go through Valid against the specification
		var more []Case
		for _, cc := range cov {
			f := strings.Fields(cc.Line)
			if len(f) > 2 && !strings.Contains(cc.Class, ":stack") {
				more = append(more, specCase("cover:spec", "specValid 10000 "+f[2], runAPI("Valid", []string{f[2], "-"})))
			}
		}
		if err := c.Suite.Run(cov); err != nil {
			return "", err
		}
		if err := c.Suite.Run(more); err != nil {
			return "", err
		}
		return "Valid on generated documents, mutations, small-scope strings, corpus files, nesting 9998..10002 in six array/object mixtures, and the transition cover of skipValue; compared with the model (same tables) and with the Lean specification validDoc; non-trivial = not rejected at the first byte", nil
	}

	suites["C02"] = func(c *Ctx) (string, error) {
		var cases []Case
		pool, cl := c.docPool()
		fp, fcl := c.followPool()
		pool = append(pool, fp...)
		cl = append(cl, fcl...)
		for i, d := range pool {
			h := hx(d)
			impl := runAPI("SkipValue", []string{h, "-"})
			cases = append(cases, Case{Line: "SkipValue " + h + " -", Impl: impl, Class: cl[i]})
			if i%4 == 0 {
				cases = append(cases, apiCase(cl[i]+":stack", "SkipValue", h, garbageStack))
			}
			cases = append(cases, specCase(cl[i]+":spec", "specEnd 10000 "+h, okErr(impl, false)))
		}
		for _, d := range byteNeighbourhood([]string{"-1.5e+3", " 0.25E-2,", "[1,2.0e1]", "{\"a\":\"b\\n\"}", "\"\\u00e9\" ", "true", " null"}) {
			h := hx(d)
			impl := runAPI("SkipValue", []string{h, "-"})
			cases = append(cases, Case{Line: "SkipValue " + h + " -", Impl: impl, Class: "neighbourhood"})
			cases = append(cases, specCase("neighbourhood:spec", "specEnd 10000 "+h, okErr(impl, false)))
		}
		for _, d := range depthDocs() {
			h := hx(d)
			impl := runAPI("SkipValue", []string{h, garbageStack})
			cases = append(cases, Case{Line: "SkipValue " + h + " " + garbageStack, Impl: impl, Class: "depth"})
			cases = append(cases, specCase("depth:spec", "specEnd 10000 "+h, okErr(impl, false)))
			implL := runAPI("SkipValue", []string{h, longStack})
			cases = append(cases, Case{Line: "SkipValue " + h + " " + longStack, Impl: implL, Class: "depth:longstack"})
			cases = append(cases, specCase("depth:longstack:spec", "specEnd 10000 "+h, okErr(implL, false)))
		}
		// the hand-written number-tail scanners directly: every byte at each position of short tails
		for _, base := range []string{"", "5", "55", "5e", "5e5", "5e+5", "5E-55", "e5", "e+", "e+5", "+5", "-", "5e5x", "55x", "5.5"} {
			for pos := 0; pos <= len(base); pos++ {
				for a := 0; a < 256; a++ {
					d := []byte("1." + base)
					if pos < len(base) {
						d[2+pos] = byte(a)
					} else {
						d = append(d, byte(a))
					}
					cases = append(cases, apiCase("skipFloatDec", "skipFloatDec", hx(d), "2"), apiCase("skipFloatExp", "skipFloatExp", hx(d), "2"))
				}
			}
			cases = append(cases, apiCase("skipFloatDec", "skipFloatDec", hx([]byte("1."+base)), "2"), apiCase("skipFloatExp", "skipFloatExp", hx([]byte("1e"+base)), "2"))
		}
		if err := c.Suite.Run(cases); err != nil {
			return "", err
		}
		cov, err := coverCases(c.Model, "skipValue", c.scale(1, 2), false)
		if err != nil {
			return "", err
		}
		var more []Case
		for _, cc := range cov {
			f := strings.Fields(cc.Line)
			if len(f) > 2 && !strings.Contains(cc.Class, ":stack") {
				more = append(more, specCase("cover:spec", "specEnd 10000 "+f[2], okErr(runAPI("SkipValue", []string{f[2], "-"}), false)))
			}
		}
		if err := c.Suite.Run(cov); err != nil {
			return "", err
		}
		if err := c.Suite.Run(more); err != nil {
			return "", err
		}
		return "SkipValue on documents, mutations, small-scope strings, corpus, every value followed by each of 256 bytes, every truncation, depth boundaries and the skipValue transition cover; compared with the model and with the Lean specification valueEnd (success and offset)", nil
	}

	suites["C11"] = func(c *Ctx) (string, error) {
		var cases []Case
		g := c.gen()
		var pool [][]byte
		var cl []string
		n := c.scale(6000, 60000)
		for i := 0; i < n; i++ {
			d := g.Doc(1+c.Rng.Intn(6), 2+c.Rng.Intn(40))
			pool = append(pool, d)
			cl = append(cl, "doc:valid")
			if i%4 == 0 {
				pool = append(pool, append(append([]byte(nil), d...), byte(c.Rng.Intn(256))))
				cl = append(cl, "doc:follow")
			}
			if i%3 == 0 {
				for _, m := range g.Mutate(d, 2) {
					pool = append(pool, m)
					cl = append(cl, "doc:mutated")
				}
			}
		}
		// strings full of brackets, quotes and backslashes inside containers
		brk := []string{`"[]"`, `"]"`, `"}"`, `"{"`, `"\""`, `"\\"`, `"\\\""`, `"a]"`, `"A\""`, `"A\\"`, `"\\u005d"`, `"[\"]"`, `"}\\"`}
		for _, a := range brk {
			for _, b := range brk {
				for _, tmpl := range []string{`[%s,%s]`, `{%s:%s}`, `[[%s],{"k":%s}]`, `{"a":[%s,{%s:1}]}`, `[%s , [ %s ] ]x`} {
					pool = append(pool, []byte(fmt.Sprintf(tmpl, a, b)))
					cl = append(cl, "brackets-in-strings")
				}
			}
		}
		fp, fcl := c.followPool()
		pool = append(pool, fp...)
		cl = append(cl, fcl...)
		for _, d := range depthDocs() {
			pool = append(pool, d)
			cl = append(cl, "depth")
			h := hx(d)
			implL := runAPI("SkipValueFast", []string{h, longStack})
			cases = append(cases, Case{Line: "SkipValueFast " + h + " " + longStack, Impl: implL, Class: "depth:longstack"})
			cases = append(cases, specCase("depth:longstack:spec", "specFast 10000 "+h, okErr(implL, false)))
		}
		for i, d := range pool {
			h := hx(d)
			impl := runAPI("SkipValueFast", []string{h, "-"})
			cases = append(cases, Case{Line: "SkipValueFast " + h + " -", Impl: impl, Class: cl[i]})
			if i%4 == 0 {
				cases = append(cases, apiCase(cl[i]+":stack", "SkipValueFast", h, garbageStack))
			}
			cases = append(cases, specCase(cl[i]+":spec", "specFast 10000 "+h, okErr(impl, false)))
		}
		if err := c.Suite.Run(cases); err != nil {
			return "", err
		}
		cov, err := coverCases(c.Model, "skipValueFast", c.scale(1, 2), false)
		if err != nil {
			return "", err
		}
		var more []Case
		for _, cc := range cov {
			f := strings.Fields(cc.Line)
			if len(f) > 2 && !strings.Contains(cc.Class, ":stack") {
				more = append(more, specCase("cover:spec", "specFast 10000 "+f[2], okErr(runAPI("SkipValueFast", []string{f[2], "-"}), false)))
			}
		}
		if err := c.Suite.Run(cov); err != nil {
			return "", err
		}
		// the skipValue cover strings are mostly well-formed prefixes: good inputs for the agreement property too
		cov2, err := coverCases(c.Model, "skipValue", 1, false)
		if err != nil {
			return "", err
		}
		for _, cc := range cov2 {
			f := strings.Fields(cc.Line)
			if len(f) > 2 && !strings.Contains(cc.Class, ":stack") {
				more = append(more, specCase("cover2:spec", "specFast 10000 "+f[2], okErr(runAPI("SkipValueFast", []string{f[2], "-"}), false)))
			}
		}
		if err := c.Suite.Run(more); err != nil {
			return "", err
		}
		return "SkipValueFast on well-formed documents (weighted towards strings containing brackets, quotes, backslashes), follow bytes, mutations, depth boundaries and both skip machines' transition covers; model correspondence plus the specification 'if valueEnd = ok p then SkipValueFast = ok p' (no constraint otherwise)", nil
	}
}

// ---- C13 ----

func wsPrefixes(maxLen int) [][]byte {
	out := [][]byte{nil}
	cur := [][]byte{nil}
	for l := 1; l <= maxLen; l++ {
		var next [][]byte
		for _, p := range cur {
			for _, w := range wsBytes {
				next = append(next, append(append([]byte(nil), p...), w))
			}
		}
		out = append(out, next...)
		cur = next
	}
	return out
}

func tokenProjection(h string) string {
	a := runAPI("NextToken", []string{h})
	b := runAPI("NextTokenType", []string{h})
	fa, fb := strings.Fields(a), strings.Fields(b)
	if len(fa) == 0 || len(fb) == 0 {
		return a + "|" + b
	}
	if fa[0] == "eof" && fb[0] == "eof" {
		return "eof"
	}
	if (fa[0] == "ok" || fa[0] == "invalid") && fb[0] == "ok" && len(fa) == 3 && len(fb) == 3 && fa[2] == fb[2] {
		valid := fb[1] != "0"
		if valid == (fa[0] == "ok") {
			return fmt.Sprintf("tok %s %s %s", fa[1], fb[1], fa[2])
		}
	}
	return "INCONSISTENT " + a + " | " + b
}

type readerFam struct {
	fam string
	op  string
	arg bool // takes a second argument
}

var typedReaders = []readerFam{
	{"null", "ReadNull", false}, {"bool", "ReadBool", false}, {"string", "ReadString", false}, {"string", "ReadStringBytes", true},
	{"number", "ReadInt64", false}, {"number", "ReadInt32", false}, {"number", "ReadInt", false},
	{"number", "ReadUint64", false}, {"number", "ReadUint32", false}, {"number", "ReadUint", false}, {"number", "ReadFloat64", false},
	{"object", "ReadObject", false}, {"array", "ReadArray", false},
}

func init() {
	suites["C13"] = func(c *Ctx) (string, error) {
		var cases []Case
		prefixes := wsPrefixes(3)
		// long whitespace runs (word-sized and vectorised skips work in blocks: lengths around 8, 16, 32, 64)
		for _, pre := range wsRuns() {
			for _, b := range []byte{'n', 't', 'f', '"', '1', '-', '[', ']', '{', '}', ',', ':', 'x', 0, 0x0b, 0xff} {
				d := append(append([]byte(nil), pre...), b)
				h := hx(d)
				cases = append(cases, apiCase("token:long-ws", "NextToken", h), apiCase("token:long-ws", "NextTokenType", h))
				cases = append(cases, specCase("token:spec", "specToken "+h, tokenProjection(h)))
			}
			for _, lit := range []string{"null", "true", "false", "12", "-7", "1.5"} {
				h := hx(append(append([]byte(nil), pre...), lit...))
				for _, op := range []string{"ReadNull", "ReadBool", "ReadUint64", "ReadInt64", "ReadFloat64", "NextToken", "countWhitespace"} {
					cases = append(cases, apiCase("long-ws:"+op, op, h))
				}
				cases = append(cases, specCase("token:spec", "specToken "+h, tokenProjection(h)))
			}
			h := hx(pre)
			cases = append(cases, apiCase("token:eof", "NextToken", h), apiCase("token:eof", "NextTokenType", h), specCase("token:spec", "specToken "+h, tokenProjection(h)))
		}
		// type exclusivity on near-miss spellings: whatever NextTokenType says, a typed reader of another type must not succeed
		for _, sp := range []string{"+1", "+0", " +42", "+1.5", "+.5", ".5", "-.5", "+", "-", "Infinity", "-Infinity", "NaN", "nan", "inf", "0x10", "1_000", "1,000", "٣",
			"True", "TRUE", "False", "yes", "1", "0", "nil", "NULL", "Null", "undefined", "none", "'a'", "`a`", "a", "“a”", "nul", "tru", "fals", "\"null\"", "\"1\"", "[null]", "{}"} {
			for _, suf := range []string{"", " ", ",", "]", "x"} {
				d := []byte(sp + suf)
				h := hx(d)
				tk := runAPI("NextTokenType", []string{h})
				for _, rd := range []struct{ op, types string }{{"ReadNull", " 1 "}, {"ReadBool", " 4 5 "}, {"ReadString", " 2 "}, {"ReadFloat64", " 3 "}, {"ReadInt64", " 3 "}, {"ReadInt32", " 3 "}, {"ReadUint64", " 3 "}, {"ReadUint32", " 3 "}} {
					impl := runAPI(rd.op, []string{h})
					cases = append(cases, Case{Line: rd.op + " " + h, Impl: impl, Class: "exclusive:" + rd.op})
					c.Suite.Evaluations++
					f := strings.Fields(tk)
					if strings.HasPrefix(impl, "ok") && !(len(f) >= 2 && f[0] == "ok" && strings.Contains(rd.types, " "+f[1]+" ")) {
						c.Suite.Violation(rd.op+" "+h, impl, "no success: NextTokenType says "+tk, "exclusive", "a typed reader succeeds on a token classified as another type")
					}
				}
			}
		}
		for _, d := range byteNeighbourhood([]string{"null", " true", "false ", "\n\tnull", " \r", "[1]", "\"x\""}) {
			h := hx(d)
			cases = append(cases, apiCase("token:neighbourhood", "NextToken", h), apiCase("token:neighbourhood", "NextTokenType", h),
				apiCase("literal:neighbourhood", "ReadNull", h), apiCase("literal:neighbourhood", "ReadBool", h), apiCase("ws:neighbourhood", "countWhitespace", h))
			cases = append(cases, specCase("token:spec", "specToken "+h, tokenProjection(h)))
		}
		for _, pre := range prefixes {
			for b := 0; b < 256; b++ {
				d := append(append([]byte(nil), pre...), byte(b))
				if b%16 == 0 {
					d = append(d, 'x')
				}
				h := hx(d)
				cases = append(cases, apiCase("token", "NextToken", h), apiCase("token", "NextTokenType", h))
				cases = append(cases, specCase("token:spec", "specToken "+h, tokenProjection(h)))
			}
			h := hx(pre)
			cases = append(cases, apiCase("token:eof", "NextToken", h), apiCase("token:eof", "NextTokenType", h), specCase("token:spec", "specToken "+h, tokenProjection(h)))
		}
		// literal readers: every one-byte corruption and truncation, every follow byte
		lits := map[string]string{"null": "ReadNull", "true": "ReadBool", "false": "ReadBool"}
		for lit, op := range lits {
			for _, pre := range prefixes[:21] {
				var inputs [][]byte
				base := append(append([]byte(nil), pre...), lit...)
				for k := len(pre); k < len(base); k++ {
					for b := 0; b < 256; b++ {
						d := append([]byte(nil), base...)
						d[k] = byte(b)
						inputs = append(inputs, d)
					}
					inputs = append(inputs, append([]byte(nil), base[:k]...))
				}
				for b := 0; b < 256; b++ {
					inputs = append(inputs, append(append([]byte(nil), base...), byte(b)))
				}
				for _, d := range inputs {
					h := hx(d)
					impl := runAPI(op, []string{h})
					cases = append(cases, Case{Line: op + " " + h, Impl: impl, Class: "literal:" + lit})
					if op == "ReadNull" {
						cases = append(cases, specCase("literal:spec", "specLit null "+h, okErr(impl, false)))
					} else {
						cases = append(cases, specCase("literal:spec", "specBool "+h, okErr(impl, true)))
					}
				}
			}
		}
		if err := c.Suite.Run(cases); err != nil {
			return "", err
		}
		for _, name := range []string{"readNull", "readBool"} {
			cov, err := coverCases(c.Model, name, 2, true)
			if err != nil {
				return "", err
			}
			if err := c.Suite.Run(cov); err != nil {
				return "", err
			}
			var more []Case
			for _, cc := range cov {
				f := strings.Fields(cc.Line)
				if name == "readNull" {
					more = append(more, specCase("cover:spec", "specLit null "+f[2], okErr(runAPI("ReadNull", []string{f[2]}), false)))
				} else {
					more = append(more, specCase("cover:spec", "specBool "+f[2], okErr(runAPI("ReadBool", []string{f[2]}), true)))
				}
			}
			if err := c.Suite.Run(more); err != nil {
				return "", err
			}
		}
		// type exclusivity
		g := c.gen()
		var pool [][]byte
		for i := 0; i < c.scale(1500, 15000); i++ {
			var d []byte
			switch c.Rng.Intn(6) {
			case 0:
				d = g.Scalar()
			case 1:
				d = g.Doc(2, 6)
			case 2:
				d = g.Mutate(g.Scalar(), 1)[0]
			case 3:
				d = append(g.ws(), g.Number()...)
			case 4:
				d = append(g.ws(), g.String()...)
			default:
				d = g.Mutate(g.Doc(2, 5), 1)[0]
			}
			pool = append(pool, d)
		}
		for _, s := range []string{"null", " null", "nul", "true", "false", "0", "-0", "-", `""`, "[]", "{}", "[", "{", "]", "}", ",", ":", " ", "", "n", "t", "f", `"`, "1e5", "1.5", "-1", "Null", "NULL", "nulL"} {
			pool = append(pool, []byte(s))
		}
		var lines []string
		for _, d := range pool {
			lines = append(lines, "specToken "+hx(d))
		}
		outs, err := c.Model.Query(lines)
		if err != nil {
			return "", err
		}
		var warm rjson.ValueReader
		famOfType := map[string]string{"1": "null", "2": "string", "3": "number", "4": "bool", "5": "bool", "6": "object", "8": "array"}
		for i, d := range pool {
			h := hx(d)
			allowed := ""
			if f := strings.Fields(outs[i]); len(f) == 4 && f[0] == "tok" {
				allowed = famOfType[f[2]]
			}
			succeeded := map[string]bool{}
			for _, rd := range typedReaders {
				args := []string{h}
				if rd.arg {
					args = append(args, "-")
				}
				impl := runAPI(rd.op, args)
				c.Suite.Evaluations++
				c.Suite.Classes["exclusive"]++
				if strings.HasPrefix(impl, "ok ") {
					succeeded[rd.fam] = true
					if rd.fam != allowed {
						c.Suite.Violation(rd.op+" "+strings.Join(args, " "), impl, "error (token classified as "+allowed+")", "exclusive", "a typed reader succeeded on a token of another type")
					}
				}
			}
			// the container readers once more on a reader that has just read a non-empty array and a non-empty object: what a
			// reader accepts must not depend on what it read before
			{
				c.Suite.Evaluations++
				c.Suite.Classes["exclusive:warm"]++
				warm.ReadArray([]byte("[1,2,3]"))
				_, _, aerr := warm.ReadArray(d)
				warm.ReadObject([]byte(`{"a":1,"b":2}`))
				_, _, oerr := warm.ReadObject(d)
				if aerr == nil && allowed != "array" {
					c.Suite.Violation("ReadArray "+h+" on a used reader", "ok", "error (token classified as "+allowed+")", "exclusive", "a typed reader succeeded on a token of another type")
				}
				if oerr == nil && allowed != "object" {
					c.Suite.Violation("ReadObject "+h+" on a used reader", "ok", "error (token classified as "+allowed+")", "exclusive", "a typed reader succeeded on a token of another type")
				}
			}
			if len(succeeded) > 1 {
				c.Suite.Violation("readers "+h, fmt.Sprint(succeeded), "at most one family", "exclusive", "more than one Read family accepts the input")
			}
			if len(succeeded) > 0 {
				c.Suite.Distinct["excl "+h] = struct{}{}
			}
		}
		return "NextToken/NextTokenType on all 256 bytes after all whitespace prefixes up to length 3 (exhaustive), ReadNull/ReadBool on every one-byte corruption, truncation and follow byte of each literal after 21 whitespace prefixes, exhaustive two-level transition cover of both literal machines with every next byte, and type-exclusivity of all 13 typed readers on generated tokens; oracles: the model and the Lean specification (specToken, specLit)", nil
	}
}

// ---- C05 ----

type intType struct {
	op, dec string
	lo, hi  string
	signed  bool
}

var intTypes = []intType{
	{"ReadUint64", "DecodeUint64", "0", "18446744073709551615", false},
	{"ReadInt64", "DecodeInt64", "-9223372036854775808", "9223372036854775807", true},
	{"ReadUint32", "DecodeUint32", "0", "4294967295", false},
	{"ReadInt32", "DecodeInt32", "-2147483648", "2147483647", true},
	{"ReadInt", "DecodeInt", "-9223372036854775808", "9223372036854775807", true},
	{"ReadUint", "DecodeUint", "0", "18446744073709551615", false},
}

// byteNeighbourhood: every input that differs from a seed by one byte replaced or one byte inserted (all 256 values at every
// position, both ends included). Hand-written readers decide byte by byte; this reaches every comparison once per position.
func byteNeighbourhood(seeds []string) (out [][]byte) {
	for _, sd := range seeds {
		b := []byte(sd)
		for i := 0; i <= len(b); i++ {
			for v := 0; v < 256; v++ {
				ins := append(append(append([]byte(nil), b[:i]...), byte(v)), b[i:]...)
				out = append(out, ins)
				if i < len(b) && b[i] != byte(v) {
					rep := append([]byte(nil), b...)
					rep[i] = byte(v)
					out = append(out, rep)
				}
			}
		}
	}
	return
}

// wsRuns: long runs of whitespace, pure and mixed, of the lengths around which block-wise skipping changes behaviour.
func wsRuns() (out [][]byte) {
	for _, n := range []int{4, 7, 8, 9, 15, 16, 17, 24, 31, 32, 33, 63, 64, 65, 100} {
		sp := bytes.Repeat([]byte(" "), n)
		out = append(out, sp, bytes.Repeat([]byte("\t"), n), bytes.Repeat([]byte("\n"), n), bytes.Repeat([]byte("\r"), n),
			append(append([]byte(nil), sp...), '\t'), append([]byte("\n"), sp...), append(append(append([]byte(nil), sp[:n-1]...), '\r'), ' '),
			append(append([]byte(nil), sp...), sp...))
	}
	return
}

func intInputs(c *Ctx) (pool [][]byte) {
	pow := func(b, e int64) *big.Int { return new(big.Int).Exp(big.NewInt(b), big.NewInt(e), nil) }
	centers := []*big.Int{pow(2, 31), pow(2, 32), pow(2, 63), pow(2, 64), pow(10, 17), pow(10, 18), pow(10, 19), pow(10, 20), big.NewInt(0),
		new(big.Int).Mul(pow(2, 64), big.NewInt(10)), new(big.Int).Add(pow(2, 64), pow(10, 19)), new(big.Int).Mul(pow(2, 63), big.NewInt(2))}
	w := int64(c.scale(40, 300))
	follow := []string{"", " ", ",", "]", "}", ".", "e", "E", "x", ".5", "e1", "0", "-", "\x00", "\xff", ":", "/"}
	for _, ctr := range centers {
		for d := -w; d <= w; d++ {
			v := new(big.Int).Add(ctr, big.NewInt(d))
			for _, sign := range []string{"", "-"} {
				s := sign + new(big.Int).Abs(v).String()
				fi := int((d + w)) % len(follow)
				pool = append(pool, []byte(s+follow[fi]))
				if d%7 == 0 {
					pool = append(pool, []byte(" "+s), []byte("0"+s), []byte(s+follow[(fi+3)%len(follow)]))
				}
			}
		}
	}
	// every follow byte after representative literals
	for _, s := range []string{"0", "-0", "7", "-7", "18446744073709551615", "-9223372036854775808", "123456789012345678", "1234567890123456789", "4294967295", "2147483647", "-2147483648"} {
		for b := 0; b < 256; b++ {
			pool = append(pool, append([]byte(s), byte(b)))
		}
	}
	// every byte between the sign and the digits, between leading whitespace and the sign, and in front of everything
	// (a sign must be followed by a digit at once; every whitespace byte and its neighbours in the table are tried)
	for _, body := range []string{"0", "1", "7", "9223372036854775807", "9223372036854775808", "2147483648", "18446744073709551615"} {
		for b := 0; b < 256; b++ {
			pool = append(pool, append(append([]byte("-"), byte(b)), body...), append(append([]byte(" -"), byte(b)), body...),
				append(append([]byte{byte(b)}, '-'), body...))
			if b == ' ' || b == '\t' || b == '\n' || b == '\r' || b == 0x0b || b == 0x0c {
				pool = append(pool, append(append([]byte{byte(b), byte(b), '-'}, byte(b)), body...), append([]byte{'+', byte(b)}, body...))
			}
		}
	}
	// long whitespace runs in front of the number
	for _, pre := range wsRuns() {
		for _, body := range []string{"0", "12", "-7", "18446744073709551615", "-9223372036854775808", "x"} {
			pool = append(pool, append(append([]byte(nil), pre...), body...))
		}
	}
	// digit strings of every length 1..25, all-nines and random
	for l := 1; l <= 25; l++ {
		pool = append(pool, []byte(strings.Repeat("9", l)), []byte("-"+strings.Repeat("9", l)), []byte("1"+strings.Repeat("0", l-1)))
		for k := 0; k < c.scale(4, 40); k++ {
			var b strings.Builder
			b.WriteByte(byte('1' + c.Rng.Intn(9)))
			for i := 1; i < l; i++ {
				b.WriteByte(byte('0' + c.Rng.Intn(10)))
			}
			if c.Rng.Intn(3) == 0 {
				pool = append(pool, []byte("-"+b.String()))
			} else {
				pool = append(pool, []byte(b.String()))
			}
		}
	}
	for _, s := range []string{"", "-", "--1", "+1", "- 1", " -1", "-\t1", "00", "-00", "01", "-01", "1-", "0x1", "1_0", "１", "null", "true", `"1"`, "[1]", " ", "\n5\n", "5e", ".5", "-.5", "1.0", "1e0", "1E0"} {
		pool = append(pool, []byte(s))
	}
	return
}

func init() {
	suites["C05"] = func(c *Ctx) (string, error) {
		var cases []Case
		pool := intInputs(c)
		pool = append(pool, byteNeighbourhood([]string{"0", "-0", " 12", "-7 ", "\t-2147483648", "4294967295,", "-9223372036854775808"})...)
		for i, d := range pool {
			h := hx(d)
			for _, t := range intTypes {
				impl := runAPI(t.op, []string{h})
				cases = append(cases, Case{Line: t.op + " " + h, Impl: impl, Class: t.op})
				cases = append(cases, specCase(t.op+":spec", fmt.Sprintf("specInt %s %s %v %s", t.lo, t.hi, t.signed, h), okErr(impl, true)))
				if i%5 == 0 {
					cases = append(cases, apiCase(t.dec, t.dec, h, "77"))
				}
			}
		}
		if err := c.Suite.Run(cases); err != nil {
			return "", err
		}
		return "all six integer readers on every value within a window around 2^31, 2^32, 2^63, 2^64, 2^64*10, 10^17..10^20 and 0 with optional sign and assorted following bytes, all 256 following bytes after boundary literals, digit strings of every length 1..25, malformed shapes; compared with the model and with the Lean specification readInt (exact value, range, offset); Decode forms with a non-zero sentinel target", nil
	}
}

// ---- C12 ----

type decodeFn struct {
	name, reader string
	sentinels    []string
}

var decodeFns = []decodeFn{
	{"DecodeBool", "ReadBool", []string{"true", "false"}},
	// targets: 1.0, a negative value, +0, -0 and a NaN (a store skipped because the old and the new value compare equal, or
	// never equal, is only visible bitwise)
	{"DecodeFloat64", "ReadFloat64", []string{"4607182418800017408", "13830554455654793216", "0", "9223372036854775808", "9221120237041090561"}},
	{"DecodeInt64", "ReadInt64", []string{"-77", "9223372036854775807"}},
	{"DecodeInt32", "ReadInt32", []string{"-77", "2147483647"}},
	{"DecodeInt", "ReadInt", []string{"-77", "1"}},
	{"DecodeUint64", "ReadUint64", []string{"77", "18446744073709551615"}},
	{"DecodeUint32", "ReadUint32", []string{"77", "4294967295"}},
	{"DecodeUint", "ReadUint", []string{"77", "1"}},
	{"DecodeString", "ReadString", []string{"73656e74", "-"}},
}

func init() {
	suites["C12"] = func(c *Ctx) (string, error) {
		g := c.gen()
		var pool [][]byte
		for _, s := range []string{"null", " null", "\tnull ", "nullx", "null,", "nul", "nu", "n", "Null", "nulll", "-null", "tnull", "1e999null", "null1", " \n null]", "", " ", "x", "4294967296", "18446744073709551616", "-9223372036854775809", "2147483648", "1e999", `"abc`, `"aé"`, "tru", "truenull", "1.5", "1.", "-", "99999999999999999999",
			"0", "-0", "0.0", "-0.0", " -0", "-0e7", "0e-3", "-0.000e+1", "0.0e3 ", "1", "-1", "false", "true", `""`, `"sent"`} {
			pool = append(pool, []byte(s))
		}
		// what counts as whitespace in front of the null fallback is JSON's four bytes and nothing else: every byte value,
		// alone and between real whitespace, in front of `null` and of one value of each reader's type
		for b := 0; b < 256; b++ {
			for _, v := range []string{"null", "null,1", "true", "7", `"s"`} {
				if v != "null" && b%16 != 11 && b%16 != 12 && b > 0x21 {
					continue
				}
				pool = append(pool, append([]byte{byte(b)}, v...), append(append([]byte{' ', byte(b), '\n'}, v...)), append([]byte{'\t', byte(b)}, v...))
			}
		}
		for i := 0; i < c.scale(1500, 15000); i++ {
			var d []byte
			switch c.Rng.Intn(5) {
			case 0:
				d = append(g.ws(), g.Scalar()...)
			case 1:
				d = append(g.ws(), g.Number()...)
			case 2:
				d = g.Mutate(append(g.ws(), g.Scalar()...), 1)[0]
			case 3:
				d = g.Mutate([]byte(" null"), 1)[0]
			default:
				d = append(g.Scalar(), byte(c.Rng.Intn(256)))
			}
			pool = append(pool, d)
		}
		pool = append(pool, intInputs(c)[:c.scale(400, 4000)]...)
		var cases []Case
		for _, d := range pool {
			h := hx(d)
			nullImpl := runAPI("ReadNull", []string{h})
			nullRes := strings.Fields(nullImpl)
			// the fallback's own notion of `null` against the Lean specification (JSON whitespace, then the four letters)
			cases = append(cases, specCase("null:spec", "specLit null "+h, okErr(nullImpl, false)))
			for _, fn := range decodeFns {
				for _, t0 := range fn.sentinels {
					impl := runAPI(fn.name, []string{h, t0})
					cases = append(cases, Case{Line: fn.name + " " + h + " " + t0, Impl: impl, Class: fn.name})
					// the property, stated over the implementation's own reader: store on success; null → untouched, no error; else error, untouched
					rd := strings.Fields(runAPI(fn.reader, []string{h}))
					var want string
					switch {
					case len(rd) == 3 && rd[0] == "ok":
						want = fmt.Sprintf("ok %s %s", rd[1], rd[2])
					case len(nullRes) == 3 && nullRes[0] == "ok":
						want = fmt.Sprintf("ok %s %s", t0, nullRes[2])
					default:
						want = "err " + t0
					}
					got := impl
					if f := strings.Fields(impl); len(f) == 3 && strings.HasPrefix(f[0], "err") {
						got = "err " + f[1]
					}
					c.Suite.Evaluations++
					c.Suite.Classes[fn.name+":property"]++
					if got != want {
						c.Suite.Violation(fn.name+" "+h+" "+t0, impl, want, fn.name, "Decode does not behave as reader / null / error with untouched target")
					}
				}
			}
		}
		if err := c.Suite.Run(cases); err != nil {
			return "", err
		}
		return "all nine Decode functions with two non-zero sentinel targets each on null variants, reader inputs, mutations and integer boundary inputs; compared with the model (generic decode over the model readers) and with the property stated over the implementation's own reader and ReadNull, the latter compared with the Lean specification of the null literal; every byte value in front of null", nil
	}
}

var _ = strconv.Itoa
var _ = rjson.Valid
