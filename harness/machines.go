package main

import (
	"errors"
	"fmt"
	"strconv"
	"strings"

	"github.com/willabides/rjson"
)

// Directive of a handler script: return (pp, nil) or (pp, sentinel[id]).
type Directive struct {
	Err bool
	ID  int
	PP  int
}

func (d Directive) String() string {
	if d.Err {
		return fmt.Sprintf("e%d:%d", d.ID, d.PP)
	}
	return fmt.Sprintf("i%d", d.PP)
}

func scriptString(sc []Directive) string {
	if len(sc) == 0 {
		return "-"
	}
	var p []string
	for _, d := range sc {
		p = append(p, d.String())
	}
	return strings.Join(p, ",")
}

func parseScript(s string) []Directive {
	if s == "-" {
		return nil
	}
	var out []Directive
	for _, t := range strings.Split(s, ",") {
		if strings.HasPrefix(t, "i") {
			v, _ := strconv.Atoi(t[1:])
			out = append(out, Directive{PP: v})
		} else {
			ab := strings.SplitN(t[1:], ":", 2)
			id, _ := strconv.Atoi(ab[0])
			v, _ := strconv.Atoi(ab[1])
			out = append(out, Directive{Err: true, ID: id, PP: v})
		}
	}
	return out
}

// sentinel errors handed out by scripted handlers; identity is what C09 is about.
var sentinels = func() []error {
	var s []error
	for i := 0; i < 64; i++ {
		s = append(s, errors.New("sentinel"))
	}
	return s
}()

type callRec struct {
	field []byte
	off   int
}

// scripted is both an ArrayValueHandler and an ObjectValueHandler.
type scripted struct {
	script  []Directive
	idx     int
	total   int
	trace   []callRec
	scratch []int // the shared stack array a re-entrant call could have written to
	override error // when set: the error value returned instead of a sentinel
}

func (h *scripted) next() (int, error) {
	var d Directive
	switch {
	case h.idx < len(h.script):
		d = h.script[h.idx]
	case len(h.script) > 0:
		d = h.script[len(h.script)-1]
	}
	k := h.idx
	h.idx++
	// emulate a re-entrant use of the same Buffer: scribble over the whole shared backing array
	full := h.scratch[:cap(h.scratch)]
	for i := range full {
		full[i] = 777000 + 13*k + i
	}
	if d.Err {
		if h.override != nil {
			return d.PP, h.override
		}
		return d.PP, sentinels[d.ID%len(sentinels)]
	}
	return d.PP, nil
}

func (h *scripted) HandleArrayValue(data []byte) (int, error) {
	h.trace = append(h.trace, callRec{off: h.total - len(data)})
	return h.next()
}

func (h *scripted) HandleObjectValue(field, data []byte) (int, error) {
	h.trace = append(h.trace, callRec{field: append([]byte(nil), field...), off: h.total - len(data)})
	return h.next()
}

func errKind(err error) string {
	if err == nil {
		return "ok"
	}
	for i, s := range sentinels {
		if err == s {
			return fmt.Sprintf("herr:%d", i)
		}
	}
	return "err:" + rjson.VerifErrClass(err)
}

func traceString(t []callRec) string {
	var p []string
	for _, c := range t {
		p = append(p, hx(c.field)+"@"+strconv.Itoa(c.off))
	}
	return strings.Join(p, ";")
}

func parseStack(s string) []int {
	if s == "-" {
		return nil
	}
	var out []int
	for _, t := range strings.Split(s, ",") {
		v, _ := strconv.Atoi(t)
		out = append(out, v)
	}
	return out
}

func stackString(st []int) string {
	if len(st) == 0 {
		return "-"
	}
	var p []string
	for _, v := range st {
		p = append(p, strconv.Itoa(v))
	}
	return strings.Join(p, ",")
}

// machineLine builds the protocol line of a raw machine run.
func machineLine(name string, data []byte, stack []int, sc []Directive, dst []byte) string {
	return fmt.Sprintf("M %s %s %s %s %s", name, hx(data), stackString(stack), scriptString(sc), hx(dst))
}

// runMachineImpl runs the real generated machine; output format = modeld's resultStr.
func runMachineImpl(name string, data []byte, stack []int, sc []Directive, dst []byte) string {
	data = exact(data)
	return guard(func() string {
		// the stack slice keeps extra capacity so that the handler can scribble over the same backing array
		st := make([]int, len(stack), len(stack)+8)
		copy(st, stack)
		if stack == nil {
			st = nil
		}
		h := &scripted{script: sc, total: len(data), scratch: st}
		var p int
		var err error
		val := false
		var out []byte
		switch name {
		case "readNull":
			p, err = rjson.ReadNull(data)
		case "readBool":
			val, p, err = rjson.ReadBool(data)
		case "skipValue":
			p, _, err = rjson.VerifSkipValue(data, st)
		case "skipValueFast":
			p, _, err = rjson.VerifSkipValueFast(data, st)
		case "handleArrayValues":
			p, _, err = rjson.VerifHandleArrayValues(data, h, st)
		case "handleObjectValues":
			p, _, err = rjson.VerifHandleObjectValues(data, h, st)
		case "unescapeStringContent":
			out, p, err = rjson.UnescapeStringContent(data, append(make([]byte, 0, len(dst)), dst...))
		case "appendRemainderOfString":
			out, p, err = rjson.VerifAppendRemainderOfString(data, append(make([]byte, 0, len(dst)), dst...))
		default:
			return "bad-op"
		}
		return fmt.Sprintf("%s %d v=%v d=%s n=%d t=%s", errKind(err), p, val, hx(out), h.idx, traceString(h.trace))
	})
}

func machineCase(name string, data []byte, stack []int, sc []Directive, dst []byte, class string) Case {
	return Case{Line: machineLine(name, data, stack, sc, dst), Impl: runMachineImpl(name, data, stack, sc, dst), Class: class}
}
