package main

import (
	"fmt"
	"strings"

	"github.com/willabides/rjson"
)

var allMachines = []string{"readNull", "readBool", "skipValue", "skipValueFast", "handleArrayValues", "handleObjectValues", "unescapeStringContent", "appendRemainderOfString"}

func isHandlerMachine(name string) bool {
	return name == "handleArrayValues" || name == "handleObjectValues"
}

func isStringMachine(name string) bool {
	return name == "unescapeStringContent" || name == "appendRemainderOfString"
}

// exactScript: the per-call offsets a well-behaved "read every member" handler returns: the end of the member
// according to an independent oracle (encoding/json via the repository's skipValueCompat), 0 where the member is malformed.
func exactScript(name string, data []byte) []Directive {
	h := &scripted{total: len(data)}
	func() {
		defer func() { recover() }()
		if name == "handleArrayValues" {
			rjson.VerifHandleArrayValues(exact(data), h, nil)
		} else {
			rjson.VerifHandleObjectValues(exact(data), h, nil)
		}
	}()
	var sc []Directive
	for _, c := range h.trace {
		pp := 0
		if c.off >= 0 && c.off <= len(data) {
			if p, err := rjson.VerifSkipValueCompat(data[c.off:]); err == nil {
				pp = p
			}
		}
		sc = append(sc, Directive{PP: pp})
	}
	return sc
}

// coverCases builds the transition-cover cases of one machine from modeld's `cover` output.
func coverCases(m *Model, name string, depth int, allNext bool) ([]Case, error) {
	lines, err := m.Multi(fmt.Sprintf("cover %s %d", name, depth), "end-cover")
	if err != nil {
		return nil, err
	}
	var cases []Case
	garbage := []int{5, 6, 7}
	for _, ln := range lines {
		f := strings.Fields(ln)
		if len(f) < 2 {
			continue
		}
		inp := unhx(f[0])
		var variants [][]byte
		variants = append(variants, inp)
		if f[1] != "!" && f[1] != "-" {
			variants = append(variants, append(append([]byte(nil), inp...), unhx(f[1])...))
		}
		if allNext {
			for b := 0; b < 256; b++ {
				variants = append(variants, append(append([]byte(nil), inp...), byte(b)))
			}
		}
		for vi, data := range variants {
			class := "cover:" + name
			switch {
			case isHandlerMachine(name):
				cases = append(cases, machineCase(name, data, nil, []Directive{{PP: 0}}, nil, class+":decline"))
				if vi < 2 {
					cases = append(cases, machineCase(name, data, garbage, exactScript(name, data), nil, class+":exact"))
				}
			case isStringMachine(name):
				cases = append(cases, machineCase(name, data, nil, nil, nil, class))
				if vi < 2 {
					cases = append(cases, machineCase(name, data, nil, nil, []byte("xy"), class+":dst"))
				}
			case name == "skipValue" || name == "skipValueFast":
				cases = append(cases, machineCase(name, data, nil, nil, nil, class))
				if vi < 2 {
					cases = append(cases, machineCase(name, data, garbage, nil, nil, class+":stack"))
				}
			default:
				cases = append(cases, machineCase(name, data, nil, nil, nil, class))
			}
		}
	}
	return cases, nil
}
