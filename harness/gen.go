package main

import (
	"bytes"
	"compress/gzip"
	"fmt"
	"io/ioutil"
	"math/rand"
	"os"
	"path/filepath"
	"sort"
	"strings"
)

// Gen produces structured, mostly well-formed JSON from one PRNG.
type Gen struct {
	r *rand.Rand
}

var wsBytes = []byte(" \t\r\n")

func (g *Gen) ws() []byte {
	switch g.r.Intn(6) {
	case 0, 1, 2:
		return nil
	case 3:
		return []byte{wsBytes[g.r.Intn(4)]}
	case 4:
		return []byte{wsBytes[g.r.Intn(4)], wsBytes[g.r.Intn(4)]}
	default:
		n := g.r.Intn(4)
		var b []byte
		for i := 0; i < n; i++ {
			b = append(b, wsBytes[g.r.Intn(4)])
		}
		return b
	}
}

var simpleEscapes = []string{`\"`, `\\`, `\/`, `\b`, `\f`, `\n`, `\r`, `\t`}

func (g *Gen) hex4(v int) string { return fmt.Sprintf("%04x", v) }

func (g *Gen) uEscape() string {
	var v int
	switch g.r.Intn(8) {
	case 0:
		v = g.r.Intn(0x80)
	case 1:
		v = 0x80 + g.r.Intn(0x780)
	case 2:
		v = 0xD800 + g.r.Intn(0x400) // high surrogate
		if g.r.Intn(3) > 0 {
			lo := 0xDC00 + g.r.Intn(0x400)
			return `\u` + g.mixCase(g.hex4(v)) + `\u` + g.mixCase(g.hex4(lo))
		}
	case 3:
		v = 0xDC00 + g.r.Intn(0x400) // lone low surrogate
	case 4:
		v = []int{0, 0x1f, 0x20, 0x7f, 0x80, 0x7ff, 0x800, 0xd7ff, 0xe000, 0xfffd, 0xffff}[g.r.Intn(11)]
	default:
		v = g.r.Intn(0x10000)
	}
	return `\u` + g.mixCase(g.hex4(v))
}

func (g *Gen) mixCase(s string) string {
	b := []byte(s)
	for i := range b {
		if g.r.Intn(2) == 0 {
			b[i] = byte(strings.ToUpper(string(b[i]))[0])
		}
	}
	return string(b)
}

// StringBody returns the bytes between the quotes of a well-formed string token.
func (g *Gen) StringBody() []byte {
	var b []byte
	n := g.r.Intn(8)
	if g.r.Intn(10) == 0 {
		n = g.r.Intn(40)
	}
	for i := 0; i < n; i++ {
		switch g.r.Intn(12) {
		case 0:
			b = append(b, simpleEscapes[g.r.Intn(len(simpleEscapes))]...)
		case 1:
			b = append(b, g.uEscape()...)
		case 2:
			b = append(b, "[]{},:"[g.r.Intn(6)])
		case 3:
			b = append(b, byte(0x80+g.r.Intn(0x80))) // raw high byte (possibly invalid UTF-8)
		case 4:
			b = append(b, []byte("é€𝄞")[0:]...)
		case 5:
			b = append(b, 0x7f)
		default:
			c := byte(0x20 + g.r.Intn(0x5f))
			if c == '"' || c == '\\' {
				c = 'a'
			}
			b = append(b, c)
		}
	}
	return b
}

func (g *Gen) String() []byte {
	return append(append([]byte{'"'}, g.StringBody()...), '"')
}

func (g *Gen) digits(n int) string {
	var b strings.Builder
	for i := 0; i < n; i++ {
		b.WriteByte(byte('0' + g.r.Intn(10)))
	}
	return b.String()
}

// Number returns a well-formed JSON number literal.
func (g *Gen) Number() []byte {
	var b strings.Builder
	if g.r.Intn(3) == 0 {
		b.WriteByte('-')
	}
	switch g.r.Intn(4) {
	case 0:
		b.WriteByte('0')
	default:
		b.WriteByte(byte('1' + g.r.Intn(9)))
		b.WriteString(g.digits(g.r.Intn(5)))
		if g.r.Intn(12) == 0 {
			b.WriteString(g.digits(g.r.Intn(25)))
		}
	}
	if g.r.Intn(3) == 0 {
		b.WriteByte('.')
		b.WriteString(g.digits(1 + g.r.Intn(6)))
	}
	if g.r.Intn(4) == 0 {
		b.WriteByte("eE"[g.r.Intn(2)])
		if g.r.Intn(2) == 0 {
			b.WriteByte("+-"[g.r.Intn(2)])
		}
		b.WriteString(g.digits(1 + g.r.Intn(3)))
	}
	return []byte(b.String())
}

func (g *Gen) Scalar() []byte {
	switch g.r.Intn(7) {
	case 0:
		return []byte("true")
	case 1:
		return []byte("false")
	case 2:
		return []byte("null")
	case 3, 4:
		return g.String()
	default:
		return g.Number()
	}
}

// Value returns a well-formed value; budget bounds the number of nodes, depth the nesting.
func (g *Gen) Value(depth int, budget *int) []byte {
	*budget--
	if depth <= 0 || *budget <= 0 || g.r.Intn(3) == 0 {
		return g.Scalar()
	}
	var b []byte
	n := g.r.Intn(5)
	if g.r.Intn(2) == 0 {
		b = append(b, '[')
		b = append(b, g.ws()...)
		for i := 0; i < n; i++ {
			if i > 0 {
				b = append(b, ',')
				b = append(b, g.ws()...)
			}
			b = append(b, g.Value(depth-1, budget)...)
			b = append(b, g.ws()...)
		}
		return append(b, ']')
	}
	b = append(b, '{')
	b = append(b, g.ws()...)
	var keys [][]byte
	for i := 0; i < n; i++ {
		if i > 0 {
			b = append(b, ',')
			b = append(b, g.ws()...)
		}
		var k []byte
		if len(keys) > 0 && g.r.Intn(4) == 0 {
			k = g.respell(keys[g.r.Intn(len(keys))]) // duplicate key, possibly in another spelling
		} else {
			k = g.String()
		}
		keys = append(keys, k)
		b = append(b, k...)
		b = append(b, g.ws()...)
		b = append(b, ':')
		b = append(b, g.ws()...)
		b = append(b, g.Value(depth-1, budget)...)
		b = append(b, g.ws()...)
	}
	return append(b, '}')
}

// respell rewrites plain ASCII characters of a string token as \u escapes (same decoded content).
func (g *Gen) respell(tok []byte) []byte {
	out := []byte{'"'}
	body := tok[1 : len(tok)-1]
	for i := 0; i < len(body); i++ {
		c := body[i]
		if c == '\\' {
			// copy the escape unchanged
			if i+1 < len(body) && body[i+1] == 'u' && i+5 < len(body) {
				out = append(out, body[i:i+6]...)
				i += 5
			} else if i+1 < len(body) {
				out = append(out, body[i:i+2]...)
				i++
			}
			continue
		}
		if c >= 0x20 && c < 0x7f && g.r.Intn(2) == 0 {
			out = append(out, fmt.Sprintf(`\u%04x`, c)...)
		} else {
			out = append(out, c)
		}
	}
	return append(out, '"')
}

// Doc returns a value with optional surrounding whitespace.
func (g *Gen) Doc(depth, nodes int) []byte {
	b := nodes
	return append(append(g.ws(), g.Value(depth, &b)...), g.ws()...)
}

// Mutations of a document: substitutions, deletions, insertions, truncations.
func (g *Gen) Mutate(doc []byte, n int) [][]byte {
	var out [][]byte
	structural := []byte(`[]{},:"\0-.eE+ tfn`)
	for i := 0; i < n; i++ {
		d := append([]byte(nil), doc...)
		if len(d) == 0 {
			out = append(out, d)
			continue
		}
		pos := g.r.Intn(len(d))
		switch g.r.Intn(6) {
		case 0:
			d[pos] = byte(g.r.Intn(256))
		case 1:
			d[pos] = structural[g.r.Intn(len(structural))]
		case 2:
			d = append(d[:pos], d[pos+1:]...)
		case 3:
			d = append(d[:pos], append([]byte{structural[g.r.Intn(len(structural))]}, d[pos:]...)...)
		case 4:
			d = d[:pos]
		case 5:
			d = append(d[:pos], append([]byte{byte(g.r.Intn(256))}, d[pos:]...)...)
		}
		out = append(out, d)
	}
	return out
}

// smallScope enumerates all strings over the symbol set up to maxLen symbols.
func smallScope(symbols []string, maxLen int, f func([]byte)) {
	var rec func(prefix []byte, n int)
	rec = func(prefix []byte, n int) {
		f(prefix)
		if n == 0 {
			return
		}
		for _, s := range symbols {
			rec(append(append([]byte(nil), prefix...), s...), n-1)
		}
	}
	rec(nil, maxLen)
}

var jsonSymbols = []string{"[", "]", "{", "}", ",", ":", `"a"`, `"`, "0", "1", "-", ".", "e", " ", "true", "null", `\`}

// nested builds a deeply nested document: kinds[i%len] selects '[' or '{"a":' at level i.
func nested(depth int, kinds string, leaf string, closeAll bool) []byte {
	var b bytes.Buffer
	var closers []byte
	for i := 0; i < depth; i++ {
		if kinds[i%len(kinds)] == '[' {
			b.WriteByte('[')
			closers = append(closers, ']')
		} else {
			b.WriteString(`{"a":`)
			closers = append(closers, '}')
		}
	}
	b.WriteString(leaf)
	if closeAll {
		for i := len(closers) - 1; i >= 0; i-- {
			b.WriteByte(closers[i])
		}
	}
	return b.Bytes()
}

// corpus returns (a sample of) the repository's own test inputs.
func repoRoot() string {
	if r := os.Getenv("VERIF_REPO"); r != "" {
		return r
	}
	return "/repo"
}

func corpus(r *rand.Rand, max int) [][]byte {
	var out [][]byte
	files, _ := filepath.Glob(repoRoot() + "/testdata/jsontestsuite/*.json")
	sort.Strings(files)
	for _, f := range files {
		if b, err := ioutil.ReadFile(f); err == nil && len(b) < 4096 {
			out = append(out, b)
		}
	}
	fz, _ := filepath.Glob(repoRoot() + "/testdata/fuzz/corpus/*")
	sort.Strings(fz)
	r.Shuffle(len(fz), func(i, j int) { fz[i], fz[j] = fz[j], fz[i] })
	for _, f := range fz {
		if len(out) >= max {
			break
		}
		if st, err := os.Stat(f); err == nil && !st.IsDir() && st.Size() < 2048 {
			if b, err := ioutil.ReadFile(f); err == nil {
				out = append(out, b)
			}
		}
	}
	if len(out) > max {
		out = out[:max]
	}
	return out
}

func gunzipFile(path string) []byte {
	f, err := os.Open(path)
	if err != nil {
		return nil
	}
	defer f.Close()
	z, err := gzip.NewReader(f)
	if err != nil {
		return nil
	}
	b, _ := ioutil.ReadAll(z)
	return b
}
