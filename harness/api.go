package main

import (
	"fmt"
	"io"
	"math"
	"sort"
	"strconv"
	"strings"

	"github.com/willabides/rjson"
)

func fmtErr(err error, p int) string { return fmt.Sprintf("err:%s %d", rjson.VerifErrClass(err), p) }

func bufferWith(stack []int) *rjson.Buffer {
	if stack == nil {
		return nil
	}
	b := &rjson.Buffer{}
	st := make([]int, len(stack), len(stack)+4)
	copy(st, stack)
	rjson.VerifSetBufferStack(b, st)
	return b
}

func renderVal(v interface{}) string {
	switch x := v.(type) {
	case nil:
		return "n"
	case bool:
		if x {
			return "t"
		}
		return "f"
	case float64:
		return "d" + strconv.FormatUint(math.Float64bits(x), 10)
	case string:
		return "s" + hx([]byte(x))
	case []interface{}:
		var p []string
		for _, e := range x {
			p = append(p, renderVal(e))
		}
		return "[" + strings.Join(p, ",") + "]"
	case map[string]interface{}:
		keys := make([]string, 0, len(x))
		for k := range x {
			keys = append(keys, k)
		}
		sort.Strings(keys)
		var p []string
		for _, k := range keys {
			p = append(p, hx([]byte(k))+":"+renderVal(x[k]))
		}
		return "{" + strings.Join(p, ",") + "}"
	}
	return fmt.Sprintf("?%T", v)
}

func atoi(s string) int64 {
	v, err := strconv.ParseInt(s, 10, 64)
	if err != nil {
		panic(err)
	}
	return v
}

func atou(s string) uint64 {
	v, err := strconv.ParseUint(s, 10, 64)
	if err != nil {
		panic(err)
	}
	return v
}

// runAPI executes one API-level operation against the real code and renders the result like modeld does.
func runAPI(op string, args []string) string {
	return guard(func() string {
		var data []byte
		if len(args) > 0 && op != "fpExact" && op != "fpEL" && op != "StackLen" {
			data = exact(unhx(args[0]))
		}
		okp := func(val string, p int, err error) string {
			if err != nil {
				return fmtErr(err, p)
			}
			return fmt.Sprintf("ok %s %d", val, p)
		}
		dec := func(val string, p int, err error) string {
			if err != nil {
				return fmt.Sprintf("err:%s %s %d", rjson.VerifErrClass(err), val, p)
			}
			return fmt.Sprintf("ok %s %d", val, p)
		}
		switch op {
		case "Valid":
			return strconv.FormatBool(rjson.Valid(data, bufferWith(parseStack(args[1]))))
		case "SkipValue":
			p, err := rjson.SkipValue(data, bufferWith(parseStack(args[1])))
			return okp("-", p, err)
		case "SkipValueFast":
			p, err := rjson.SkipValueFast(data, bufferWith(parseStack(args[1])))
			return okp("-", p, err)
		case "StackLen":
			// args: fn, data, stack — `data` above is args[0] decoded, so decode again
			d := unhx(args[1])
			st := parseStack(args[2])
			b := &rjson.Buffer{}
			cp := make([]int, len(st), len(st)+4)
			copy(cp, st)
			rjson.VerifSetBufferStack(b, cp)
			switch args[0] {
			case "SkipValue":
				rjson.SkipValue(d, b)
			case "SkipValueFast":
				rjson.SkipValueFast(d, b)
			case "Valid":
				rjson.Valid(d, b)
			default:
				return "bad-op"
			}
			return fmt.Sprint(len(rjson.VerifBufferStack(b)))
		case "NextToken":
			t, p, err := rjson.NextToken(data)
			switch {
			case err == nil:
				return fmt.Sprintf("ok %d %d", t, p)
			case err == io.EOF:
				return fmt.Sprintf("eof %d", p)
			default:
				return fmt.Sprintf("invalid %d %d", t, p)
			}
		case "NextTokenType":
			t, p, err := rjson.NextTokenType(data)
			switch {
			case err == nil:
				return fmt.Sprintf("ok %d %d", t, p)
			case err == io.EOF:
				return fmt.Sprintf("eof %d", p)
			default:
				return fmt.Sprintf("invalid %d %d", t, p)
			}
		case "ReadUint64":
			v, p, err := rjson.ReadUint64(data)
			return okp(strconv.FormatUint(v, 10), p, err)
		case "ReadUint32":
			v, p, err := rjson.ReadUint32(data)
			return okp(strconv.FormatUint(uint64(v), 10), p, err)
		case "ReadUint":
			v, p, err := rjson.ReadUint(data)
			return okp(strconv.FormatUint(uint64(v), 10), p, err)
		case "ReadInt64":
			v, p, err := rjson.ReadInt64(data)
			return okp(strconv.FormatInt(v, 10), p, err)
		case "ReadInt32":
			v, p, err := rjson.ReadInt32(data)
			return okp(strconv.FormatInt(int64(v), 10), p, err)
		case "ReadInt":
			v, p, err := rjson.ReadInt(data)
			return okp(strconv.FormatInt(int64(v), 10), p, err)
		case "ReadFloat64":
			v, p, err := rjson.ReadFloat64(data)
			return okp(strconv.FormatUint(math.Float64bits(v), 10), p, err)
		case "FloatArray":
			// a decoder written against the public API: HandleArrayValues with a handler that reads every member with ReadFloat64
			h := &floatArrayHandler{}
			p, err := rjson.HandleArrayValues(data, h, bufferWith(parseStack(args[1])))
			if h.failed {
				return "herr"
			}
			if err != nil {
				return fmtErr(err, p)
			}
			if len(h.bits) == 0 {
				return fmt.Sprintf("ok - %d", p)
			}
			return fmt.Sprintf("ok %s %d", strings.Join(h.bits, ","), p)
		case "FieldFloat":
			// a field-selective decoder: the member named args[1] through ReadFloat64, every other member declined
			h := &fieldFloatHandler{key: string(unhx(args[1])), val: "-"}
			p, err := rjson.HandleObjectValues(data, h, bufferWith(parseStack(args[2])))
			if h.failed {
				return "herr"
			}
			if err != nil {
				return fmtErr(err, p)
			}
			return fmt.Sprintf("ok %s %d", h.val, p)
		case "ReadNull":
			p, err := rjson.ReadNull(data)
			return okp("-", p, err)
		case "ReadBool":
			v, p, err := rjson.ReadBool(data)
			return okp(strconv.FormatBool(v), p, err)
		case "ReadStringBytes":
			buf := unhx(args[1])
			v, p, err := rjson.ReadStringBytes(data, append(make([]byte, 0, len(buf)), buf...))
			return okp(hx(v), p, err)
		case "ReadString":
			v, p, err := rjson.ReadString(data, nil)
			return okp(hx([]byte(v)), p, err)
		case "UnescapeStringContent":
			buf := unhx(args[1])
			v, p, err := rjson.UnescapeStringContent(data, append(make([]byte, 0, len(buf)), buf...))
			return okp(hx(v), p, err)
		case "DecodeBool":
			t := args[1] == "true"
			p, err := rjson.DecodeBool(data, &t)
			return dec(strconv.FormatBool(t), p, err)
		case "DecodeFloat64":
			t := math.Float64frombits(atou(args[1]))
			p, err := rjson.DecodeFloat64(data, &t)
			return dec(strconv.FormatUint(math.Float64bits(t), 10), p, err)
		case "DecodeInt64":
			t := atoi(args[1])
			p, err := rjson.DecodeInt64(data, &t)
			return dec(strconv.FormatInt(t, 10), p, err)
		case "DecodeInt32":
			t := int32(atoi(args[1]))
			p, err := rjson.DecodeInt32(data, &t)
			return dec(strconv.FormatInt(int64(t), 10), p, err)
		case "DecodeInt":
			t := int(atoi(args[1]))
			p, err := rjson.DecodeInt(data, &t)
			return dec(strconv.FormatInt(int64(t), 10), p, err)
		case "DecodeUint64":
			t := atou(args[1])
			p, err := rjson.DecodeUint64(data, &t)
			return dec(strconv.FormatUint(t, 10), p, err)
		case "DecodeUint32":
			t := uint32(atou(args[1]))
			p, err := rjson.DecodeUint32(data, &t)
			return dec(strconv.FormatUint(uint64(t), 10), p, err)
		case "DecodeUint":
			t := uint(atou(args[1]))
			p, err := rjson.DecodeUint(data, &t)
			return dec(strconv.FormatUint(uint64(t), 10), p, err)
		case "DecodeString":
			t := string(unhx(args[1]))
			p, err := rjson.DecodeString(data, &t, nil)
			return dec(hx([]byte(t)), p, err)
		case "StdString":
			return hx([]byte(rjson.StdLibCompatibleString(string(data))))
		case "StdBytes":
			buf := unhx(args[1])
			return hx(rjson.StdLibCompatibleStringBytes(data, append(make([]byte, 0, len(buf)), buf...)))
		case "ReadValue":
			v, p, err := rjson.ReadValue(data)
			return okp(renderVal(v), p, err)
		case "ReadObject":
			v, p, err := rjson.ReadObject(data)
			if err != nil {
				return fmtErr(err, p)
			}
			return okp(renderVal(v), p, err)
		case "ReadArray":
			v, p, err := rjson.ReadArray(data)
			if err != nil {
				return fmtErr(err, p)
			}
			return okp(renderVal(v), p, err)
		case "StdTree":
			v, _, err := rjson.ReadValue(data)
			if err != nil {
				return "err"
			}
			collide := false
			sanitizeTree(v, rjson.StdLibCompatibleString, &collide)
			if collide {
				return "collide"
			}
			var out interface{} = v
			switch x := v.(type) {
			case []interface{}:
				out = rjson.StdLibCompatibleSlice(x)
			case map[string]interface{}:
				out = rjson.StdLibCompatibleMap(x)
			case string:
				out = rjson.StdLibCompatibleString(x)
			}
			return "ok " + renderVal(out)
		case "getu4":
			return fmt.Sprint(int(rjson.VerifGetu4(data)))
		case "unescapeUnicodeChar":
			dst := unhx(args[1])
			o, n, ok := rjson.VerifUnescapeUnicodeChar(data, append(make([]byte, 0, len(dst)), dst...))
			return fmt.Sprintf("%s %d %v", hx(o), n, ok)
		case "skipFloatDec", "skipFloatExp":
			p := int(atoi(args[1]))
			var q int
			var err error
			if op == "skipFloatDec" {
				q, err = rjson.VerifSkipFloatDec(data, p, len(data))
			} else {
				q, err = rjson.VerifSkipFloatExp(data, p, len(data))
			}
			if err != nil {
				return fmtErr(err, q)
			}
			return fmt.Sprintf("ok %d", q)
		case "countWhitespace":
			return strconv.Itoa(rjson.VerifCountWhitespace(data))
		case "fpReadFloat":
			m, e, neg, tr, p, ok := rjson.VerifFPReadFloat(data)
			return fmt.Sprintf("%d %d %v %v %d %v", m, e, neg, tr, p, ok)
		case "fpExact":
			f, ok := rjson.VerifFPAtof64exact(atou(args[0]), int(atoi(args[1])), args[2] == "true")
			if !ok {
				return "none"
			}
			return fmt.Sprintf("some %d", math.Float64bits(f))
		case "fpEL":
			f, ok := rjson.VerifFPEiselLemire64(atou(args[0]), int(atoi(args[1])), args[2] == "true")
			if !ok {
				return "none"
			}
			return fmt.Sprintf("some %d", math.Float64bits(f))
		case "fpShift", "fpRounded":
			// args: digits (ASCII, hex), dp, neg, trunc [, k]
			st := rjson.VerifFPDecimalState{Digits: data, Dp: int(atoi(args[1])), Neg: args[2] == "true", Trunc: args[3] == "true"}
			if op == "fpRounded" {
				return fmt.Sprint(rjson.VerifFPDecimalRounded(st))
			}
			r := rjson.VerifFPDecimalShift(st, int(atoi(args[4])))
			return fmt.Sprintf("%s %d %v %v", hx(r.Digits), r.Dp, r.Neg, r.Trunc)
		case "fpDecimal":
			b, ovf, ok := rjson.VerifFPDecimal(data)
			if !ok {
				return "fail"
			}
			return fmt.Sprintf("%d %v", b, ovf)
		}
		return "bad-op"
	})
}

func apiCase(class, op string, args ...string) Case {
	return Case{Line: op + " " + strings.Join(args, " "), Impl: runAPI(op, args), Class: class}
}

// specCase: a specification operation and the projection of the implementation's result it is compared with.
func specCase(class, line, implProjected string) Case {
	return Case{Line: line, Impl: implProjected, Class: class, Spec: true}
}

// okErr projects "ok <val> <p>" / "err:..." onto what a specification that does not speak about error
// classes and error offsets can say: "ok <val> <p>" / "err". keepVal=false drops the value field.
func okErr(impl string, keepVal bool) string {
	f := strings.Fields(impl)
	if len(f) == 0 {
		return impl
	}
	if f[0] == "ok" && len(f) == 3 {
		if keepVal {
			return impl
		}
		return "ok " + f[2]
	}
	if strings.HasPrefix(f[0], "err") {
		return "err"
	}
	return impl
}

type floatArrayHandler struct {
	bits   []string
	failed bool
}

func (h *floatArrayHandler) HandleArrayValue(d []byte) (int, error) {
	v, p, err := rjson.ReadFloat64(d)
	if err != nil {
		h.failed = true
		return 0, err
	}
	h.bits = append(h.bits, strconv.FormatUint(math.Float64bits(v), 10))
	return p, nil
}

type fieldFloatHandler struct {
	key    string
	val    string
	failed bool
}

func (h *fieldFloatHandler) HandleObjectValue(fieldname, d []byte) (int, error) {
	if string(fieldname) != h.key {
		return 0, nil
	}
	v, p, err := rjson.ReadFloat64(d)
	if err != nil {
		h.failed = true
		return 0, err
	}
	h.val = strconv.FormatUint(math.Float64bits(v), 10)
	return p, nil
}
