package main

import (
	"bytes"
	"encoding/json"
	"fmt"
	"math"
	"math/big"
	"reflect"
	"strconv"
	"strings"
	"unicode/utf8"

	"github.com/willabides/rjson"
)

// ---- C06: string tokens ----

func stringInputs(c *Ctx) (pool [][]byte, cl []string) {
	g := c.gen()
	add := func(b []byte, k string) { pool = append(pool, b); cl = append(cl, k) }
	// every byte value at every position of short tokens (exhaustive to length 2 after the quote, sampled at 3)
	for a := 0; a < 256; a++ {
		add([]byte{'"', byte(a)}, "short1")
		add([]byte{'"', byte(a), '"'}, "short1")
		add([]byte{'"', '\\', byte(a), '"'}, "escape1")
		add([]byte{'"', 'a', '\\', byte(a), 'b', '"', 'x'}, "escape1")
		for _, b := range []byte{'"', '\\', 'a', 0x1f, 0x80, 'u'} {
			add([]byte{'"', byte(a), b, '"'}, "short2")
			add([]byte{'"', b, byte(a), '"'}, "short2")
		}
	}
	// \uXXXX: every byte at each hex position, and all 65536 code units in the thorough tier
	for pos := 0; pos < 4; pos++ {
		for a := 0; a < 256; a++ {
			h := []byte("0041")
			h[pos] = byte(a)
			add([]byte(`"x\u`+string(h)+`y"`), "uhex")
			add([]byte(`"\ud834\u`+string(h)+`"`), "uhex2")
			l := []byte("dd1e")
			l[pos] = byte(a)
			add([]byte(`"\ud834\u`+string(l)+`"`), "uhex2-low")
			add([]byte(`"x\uDBFF\u`+string(l)+`y" `), "uhex2-low")
		}
	}
	step := c.scale(37, 1)
	for v := 0; v < 0x10000; v += step {
		add([]byte(fmt.Sprintf(`"\u%04x"`, v)), "ucode")
		if v%2 == 0 {
			add([]byte(fmt.Sprintf(`"a\u%04Xb" `, v)), "ucode")
		}
	}
	// surrogate combinations
	his := []int{0xD800, 0xD801, 0xD834, 0xDBFF, 0xDBFE}
	los := []int{0xDC00, 0xDC01, 0xDD1E, 0xDFFF, 0xDFFE}
	others := []int{0x0041, 0xD7FF, 0xE000, 0xFFFF, 0xD800, 0xDBFF}
	for _, h := range his {
		for _, l := range los {
			add([]byte(fmt.Sprintf(`"\u%04x\u%04x"`, h, l)), "surrogate-pair")
			add([]byte(fmt.Sprintf(`"x\u%04X\u%04Xy"z`, h, l)), "surrogate-pair")
		}
		for _, o := range others {
			add([]byte(fmt.Sprintf(`"\u%04x\u%04x"`, h, o)), "surrogate-unpaired")
		}
		for _, tail := range []string{`"`, `x"`, `\n"`, `\u"`, `\u12"`, `\ud"`, `\udc0"`, `\udc"`, `\udc00`, `\udc0`, `\\udc00"`, ``, `\`, `\u`, `\udc0g"`, `\uDC0\u0019"`} {
			add([]byte(fmt.Sprintf(`"\u%04x%s`, h, tail)), "surrogate-truncated")
		}
	}
	for _, l := range los {
		add([]byte(fmt.Sprintf(`"\u%04x"`, l)), "surrogate-lone-low")
		add([]byte(fmt.Sprintf(`"\u%04x\ud800"`, l)), "surrogate-lone-low")
	}
	n := c.scale(200, 4000)
	for i := 0; i < n*4; i++ {
		h := 0xD800 + c.Rng.Intn(0x400)
		l := 0xDC00 + c.Rng.Intn(0x400)
		add([]byte(fmt.Sprintf(`"\u%04x\u%04x"`, h, l)), "surrogate-random")
	}
	for i := 0; i < n*10; i++ {
		tok := append(g.ws(), g.String()...)
		add(append(tok, g.ws()...), "generated")
		if i%2 == 0 {
			for _, m := range g.Mutate(tok, 2) {
				add(m, "mutated")
			}
		}
		if i%5 == 0 {
			for k := 0; k < len(tok); k++ {
				add(append([]byte(nil), tok[:k]...), "truncated")
			}
		}
	}
	for _, s := range []string{``, ` `, `"`, `""`, ` "" `, `x`, `null`, `"a`, `"\`, `"\"`, `"\\"`, `'a'`, `"a"b`, "\"\t\"", "\"\x00\"", "\"\x1f\"", "\"\x20\"", "\"\x7f\"", `"\'"`, `"\a"`, `"\U0041"`, `"\x41"`, `"\u004"`, `"\u004g"`} {
		add([]byte(s), "shape")
	}
	return
}

func init() {
	suites["C06"] = func(c *Ctx) (string, error) {
		var cases []Case
		pool, cl := stringInputs(c)
		// one raw control byte (and the bytes around the 0x20 boundary) at every position of plain strings of length 8…26:
		// block-wise scans must find it wherever it sits
		for L := 8; L <= 26; L++ {
			for pos := 0; pos < L; pos++ {
				for _, b := range []byte{0x00, 0x01, 0x08, 0x0a, 0x1e, 0x1f, 0x20, 0x21, 0x7f, 0x80, 0xff, '"', '\\'} {
					body := bytes.Repeat([]byte("a"), L)
					body[pos] = b
					pool = append(pool, append(append([]byte{'"'}, body...), '"'))
					cl = append(cl, "control-in-long")
				}
			}
		}
		for _, d := range byteNeighbourhood([]string{`"ab\n\u00e9\ud83d\ude00c"`, ` "x" `, `"\"\\\/\b"`, `"\ud800\u0041"`, `"é𝄞"`}) {
			pool = append(pool, d)
			cl = append(cl, "neighbourhood")
		}
		for i, d := range pool {
			h := hx(d)
			impl := runAPI("ReadStringBytes", []string{h, "-"})
			cases = append(cases, Case{Line: "ReadStringBytes " + h + " -", Impl: impl, Class: cl[i]})
			cases = append(cases, specCase(cl[i]+":spec", "specString "+h, okErr(impl, true)))
			implS := runAPI("ReadString", []string{h})
			cases = append(cases, Case{Line: "ReadString " + h, Impl: implS, Class: cl[i]})
			cases = append(cases, specCase(cl[i]+":spec", "specString "+h, okErr(implS, true)))
			if i%3 == 0 {
				implD := runAPI("DecodeString", []string{h, "73"})
				cases = append(cases, Case{Line: "DecodeString " + h + " 73", Impl: implD, Class: cl[i]})
			}
			// the body between the quotes on its own (well-formed tokens only: the specification says "any" otherwise)
			if len(d) >= 2 {
				t := bytes.TrimLeft(d, " \t\r\n")
				if len(t) >= 2 && t[0] == '"' {
					if e := bytes.LastIndexByte(t, '"'); e > 0 {
						body := hx(t[1:e])
						implU := runAPI("UnescapeStringContent", []string{body, "-"})
						cases = append(cases, Case{Line: "UnescapeStringContent " + body + " -", Impl: implU, Class: cl[i] + ":unescape"})
						cases = append(cases, specCase(cl[i]+":unescape:spec", "specUnescapeWF "+body, okErr(implU, true)))
					}
				}
			}
		}
		// the hand-written helpers directly: every byte value at each of the 6 (12) positions of \uXXXX(\uXXXX)
		for _, base := range []string{`\u0041`, `\ud834`, `\udd1e`, `\uFFFF`, `\u00e9`} {
			for pos := 0; pos < 6; pos++ {
				for a := 0; a < 256; a++ {
					d := []byte(base + "rest")
					d[pos] = byte(a)
					cases = append(cases, apiCase("getu4", "getu4", hx(d)))
					if pos < len(base) {
						cases = append(cases, apiCase("getu4:short", "getu4", hx(d[:pos+1])))
					}
				}
			}
		}
		for _, first := range []string{`\ud834`, `\udbff`, `\ud800`, `\u0041`, `\udc00`, `\ud7ff`, `\ue000`} {
			for _, second := range []string{`\udd1e`, `\udc00`, `\udfff`, `\ud834`, `\u0041`, `\ue000`, `\udbff`} {
				for pos := 0; pos < 6; pos++ {
					for a := 0; a < 256; a++ {
						d := []byte(first + second + "t")
						d[6+pos] = byte(a)
						cases = append(cases, apiCase("unescapeUnicodeChar", "unescapeUnicodeChar", hx(d), "7071"))
					}
				}
				for cut := 6; cut <= 12; cut++ {
					cases = append(cases, apiCase("unescapeUnicodeChar:short", "unescapeUnicodeChar", hx([]byte(first + second)[:cut]), "-"))
				}
			}
		}
		if err := c.Suite.Run(cases); err != nil {
			return "", err
		}
		for _, name := range []string{"appendRemainderOfString", "unescapeStringContent"} {
			cov, err := coverCases(c.Model, name, 1, true)
			if err != nil {
				return "", err
			}
			if err := c.Suite.Run(cov); err != nil {
				return "", err
			}
			var more []Case
			for _, cc := range cov {
				f := strings.Fields(cc.Line)
				if strings.Contains(cc.Class, ":dst") {
					continue
				}
				if name == "appendRemainderOfString" {
					// the cover string is a string token without its opening quote
					tok := "22" + strings.TrimPrefix(f[2], "-")
					if f[2] == "-" {
						tok = "22"
					}
					impl := runAPI("ReadStringBytes", []string{tok, "-"})
					more = append(more, specCase("cover:spec", "specString "+tok, okErr(impl, true)))
				} else {
					impl := runAPI("UnescapeStringContent", []string{f[2], "-"})
					more = append(more, specCase("cover:spec", "specUnescapeWF "+f[2], okErr(impl, true)))
				}
			}
			if err := c.Suite.Run(more); err != nil {
				return "", err
			}
		}
		return "string readers on every byte value at the first positions of a token and after a backslash, every byte at each \\u hex position, a sweep of the 65536 code units, high/low/unpaired/truncated surrogate combinations, generated and mutated tokens, truncations, and the transition cover (with every next byte) of both string machines; compared with the model and with the Lean specification readString/decodeString; unescaping of the body alone on well-formed tokens", nil
	}
}

// ---- C16: append semantics, scratch independence, input immutability, result ownership ----

func init() {
	suites["C16"] = func(c *Ctx) (string, error) {
		pool, cl := stringInputs(c)
		if !c.thorough() && len(pool) > 6000 {
			pool, cl = pool[:6000], cl[:6000]
		}
		// strings whose unescaped form outgrows what is reserved up front (an escaped quote ends the reservation early, later
		// escapes then have to grow the destination themselves): every growth site must keep what is already there
		for fill := 0; fill <= 24; fill++ {
			f := strings.Repeat("x", fill)
			for _, t := range []string{`\u00e9`, `\u20ac!`, `\ud83d\ude00`, `\n\u0041\t`, `\"\u00e9\"\u00e9`, `\\\u0000z`, `\ud800`, `\/\b\f\r\u0062`} {
				pool = append(pool, []byte(`"\"`+f+t+`"`), []byte(`"ab\"`+f+t+`cd"`), []byte(`"\"\"`+f+t+f+`"`))
				cl = append(cl, "late-growth", "late-growth", "late-growth")
			}
		}
		s := c.Suite
		var cases []Case
		canary := func(n int) []byte {
			b := make([]byte, n)
			for i := range b {
				b[i] = 0xA5
			}
			return b
		}
		for i, d := range pool {
			h := hx(d)
			prefix := []byte("PRE")
			// model correspondence with a non-empty destination
			if i%4 == 0 {
				cases = append(cases, apiCase(cl[i]+":dst", "ReadStringBytes", h, hx(prefix)))
				cases = append(cases, apiCase(cl[i]+":dst", "StdBytes", h, hx(prefix)))
			}
			base := runAPI("ReadStringBytes", []string{h, "-"})
			// append semantics for every spare capacity 0..len+8 (sampled), spare filled with a canary
			for _, spare := range []int{0, 1, 2, 3, len(d) / 2, len(d) - 1, len(d), len(d) + 1, len(d) + 8} {
				if spare < 0 {
					continue
				}
				s.Evaluations++
				s.Classes["append:"+cl[i]]++
				in := exact(d)
				keep := append([]byte(nil), in...)
				dst := append(append(make([]byte, 0, len(prefix)+spare), prefix...), canary(spare)...)[:len(prefix)]
				got := guard(func() string {
					v, p, err := rjson.ReadStringBytes(in, dst)
					if err != nil {
						return "err"
					}
					if !bytes.HasPrefix(v, prefix) {
						return "PREFIX-LOST " + hx(v)
					}
					return fmt.Sprintf("ok %s %d", hx(v[len(prefix):]), p)
				})
				want := okErr(base, true)
				if got != want {
					s.Violation(fmt.Sprintf("ReadStringBytes %s dst=PRE spare=%d", h, spare), got, want, "append", "result with a non-empty destination is not prefix + result with an empty destination")
				}
				if !bytes.Equal(in, keep) {
					s.Violation("ReadStringBytes "+h, "input modified", "input unchanged", "immutability", "a function wrote to its input")
				}
			}
			// UnescapeStringContent on the raw input as content
			{
				baseU := runAPI("UnescapeStringContent", []string{h, "-"})
				for _, spare := range []int{0, 1, len(d), len(d) + 4} {
					s.Evaluations++
					in := exact(d)
					keep := append([]byte(nil), in...)
					dst := append(append(make([]byte, 0, len(prefix)+spare), prefix...), canary(spare)...)[:len(prefix)]
					got := guard(func() string {
						v, p, err := rjson.UnescapeStringContent(in, dst)
						if err != nil {
							return "err"
						}
						if !bytes.HasPrefix(v, prefix) {
							return "PREFIX-LOST " + hx(v)
						}
						return fmt.Sprintf("ok %s %d", hx(v[len(prefix):]), p)
					})
					if want := okErr(baseU, true); got != want {
						s.Violation(fmt.Sprintf("UnescapeStringContent %s dst=PRE spare=%d", h, spare), got, want, "append", "append semantics")
					}
					if !bytes.Equal(in, keep) {
						s.Violation("UnescapeStringContent "+h, "input modified", "input unchanged", "immutability", "a function wrote to its input")
					}
				}
			}
			// StdLibCompatibleStringBytes: append semantics for several spare capacities
			{
				baseS := runAPI("StdBytes", []string{h, "-"})
				for _, spare := range []int{0, 1, 2, 3, 4, len(d), len(d) * 2, len(d)*4 + 4} {
					s.Evaluations++
					in := exact(d)
					dst := append(append(make([]byte, 0, len(prefix)+spare), prefix...), canary(spare)...)[:len(prefix)]
					got := guard(func() string {
						v := rjson.StdLibCompatibleStringBytes(in, dst)
						if !bytes.HasPrefix(v, prefix) {
							return "PREFIX-LOST " + hx(v)
						}
						return hx(v[len(prefix):])
					})
					if got != baseS {
						s.Violation(fmt.Sprintf("StdBytes %s dst=PRE spare=%d", h, spare), got, baseS, "append", "append semantics")
					}
				}
			}
			// scratch independence and result ownership for ReadString / DecodeString
			{
				s.Evaluations++
				in := exact(d)
				want := runAPI("ReadString", []string{h})
				scratch := append(canary(7), []byte("dirty")...)
				got := guard(func() string {
					v, p, err := rjson.ReadString(in, &scratch)
					if err != nil {
						return fmt.Sprintf("err:%s %d", rjson.VerifErrClass(err), p)
					}
					before := string(append([]byte(nil), v...))
					// later changes to the input and to the scratch buffer must not reach the returned string
					for k := range in {
						in[k] ^= 0xFF
					}
					full := scratch[:cap(scratch)]
					for k := range full {
						full[k] = 0x5A
					}
					if v != before {
						return "RESULT-ALIASED"
					}
					return fmt.Sprintf("ok %s %d", hx([]byte(v)), p)
				})
				if got != want {
					s.Violation("ReadString "+h+" with dirty scratch", got, want, "scratch", "result depends on the scratch buffer or aliases input/scratch")
				}
			}
		}
		if err := s.Run(cases); err != nil {
			return "", err
		}
		// value trees own their memory: overwrite the input after ReadValue
		g := c.gen()
		for i := 0; i < c.scale(1500, 15000); i++ {
			d := exact(g.Doc(3, 12))
			s.Evaluations++
			s.Classes["tree-ownership"]++
			v, _, err := rjson.ReadValue(d)
			if err != nil {
				continue
			}
			before := renderVal(v)
			for k := range d {
				d[k] = 'Z'
			}
			if renderVal(v) != before {
				s.Violation("ReadValue "+hx(d), "tree changed after the input was overwritten", before, "ownership", "returned tree aliases the input")
			}
		}
		// the reader's own scratch for escaped object keys: keys of every length and order in one object, in sibling objects
		// (one pooled reader) and on a reused reader — a key must not depend on what an earlier key left in the scratch
		{
			var kcases []Case
			esc := []string{`\t`, `\u0020`, `\"`, `\\`, `\u00e9`, `\ud83d\ude00`}
			key := func(n, e int) string {
				return strings.Repeat("k", n/2) + esc[e%len(esc)] + strings.Repeat("y", n-n/2)
			}
			var r rjson.ValueReader
			for n1 := 0; n1 <= 40; n1 += 1 + n1/8 {
				for n2 := 0; n2 <= 72; n2 += 1 + n2/6 {
					e := n1 + n2
					docs := []string{
						fmt.Sprintf(`{"%s":1,"%s":2}`, key(n1, e), key(n2, e+1)),
						fmt.Sprintf(`[{"%s":1},{"%s":2},{"%s":3}]`, key(n1, e), key(n2, e+1), key(n1/2, e+2)),
						fmt.Sprintf(`{"p":{"%s":{"%s":1}},"%s":{"%s":2}}`, key(n1, e), key(n2, e+1), key(n2, e+3), key(n1, e+2)),
					}
					for _, doc := range docs {
						h := hx([]byte(doc))
						kcases = append(kcases, apiCase("key-scratch", "ReadValue", h))
						kcases = append(kcases, specCase("key-scratch:spec", "specTree 10000 "+h, okErr(runAPI("ReadValue", []string{h}), true)))
						// the same document on a reader that has been used before: same tree as on a fresh one
						s.Evaluations++
						s.Classes["key-scratch:reused"]++
						fresh, _, ferr := rjson.ReadValue([]byte(doc))
						got, _, gerr := r.ReadValue([]byte(doc))
						if (ferr == nil) != (gerr == nil) || (ferr == nil && renderVal(fresh) != renderVal(got)) {
							s.Violation("ReadValue "+h+" on a reused reader", cut(renderVal(got)), cut(renderVal(fresh)), "key-scratch", "a key depends on what an earlier call left in the reader's scratch")
						}
					}
				}
			}
			if err := s.Run(kcases); err != nil {
				return "", err
			}
		}
		return "escaped object keys of every length and order against the model and the specification, on fresh and reused readers; appending functions (ReadStringBytes, UnescapeStringContent, StdLibCompatibleStringBytes) with a non-empty destination and spare capacities 0..len+8 filled with a canary; ReadString with a dirty scratch buffer; inputs compared before/after every call; returned strings and trees re-checked after overwriting input and scratch", nil
	}
}

// ---- C17 ----

func utf8Inputs(c *Ctx) (pool [][]byte) {
	for a := 0; a < 256; a++ {
		pool = append(pool, []byte{byte(a)})
	}
	lead := []byte{0x00, 0x41, 0x7f, 0x80, 0xbf, 0xc0, 0xc1, 0xc2, 0xdf, 0xe0, 0xe1, 0xec, 0xed, 0xee, 0xef, 0xf0, 0xf1, 0xf3, 0xf4, 0xf5, 0xff}
	if c.thorough() {
		lead = nil
		for a := 0; a < 256; a++ {
			lead = append(lead, byte(a))
		}
	}
	for _, a := range lead {
		for b := 0; b < 256; b++ {
			pool = append(pool, []byte{a, byte(b)})
		}
	}
	edge := []byte{0x00, 0x7f, 0x80, 0x8f, 0x90, 0x9f, 0xa0, 0xbf, 0xc0, 0xc2, 0xe0, 0xed, 0xf0, 0xf4, 0xff, 0x41}
	for _, a := range lead {
		if a < 0xc0 {
			continue
		}
		for _, b := range edge {
			for _, d := range edge {
				pool = append(pool, []byte{a, b, d}, []byte{a, b, d, 0x80}, []byte{a, b, d, 0xbf, 0x41}, []byte{0x41, a, b, d})
			}
		}
	}
	if c.thorough() {
		for a := 0xc0; a < 256; a++ {
			for b := 0x70; b < 0xd0; b++ {
				for d := 0x70; d < 0xd0; d++ {
					pool = append(pool, []byte{byte(a), byte(b), byte(d)})
				}
			}
		}
	}
	// mixtures of well-formed runes at the edges of the code space (among them a correctly encoded U+FFFD, which must
	// stay one character) with every kind of ill-formed fragment, 2 to 5 pieces each
	good := []string{"A", "\x00", "\x7f", "\u0080", "\u07ff", "\u0800", "\ud7ff", "\ue000", "\ufffd", "\ufffe", "\uffff", "\U00010000", "\U0010ffff", "é", "€", "𝄞"}
	bad := []string{"\x80", "\xbf", "\xc0\x80", "\xc1\xbf", "\xc2", "\xe0\x80\x80", "\xe0\x9f\xbf", "\xed\xa0\x80", "\xed\xbf\xbf", "\xe2\x82", "\xef\xbf",
		"\xf0\x80\x80\x80", "\xf0\x8f\xbf\xbf", "\xf4\x90\x80\x80", "\xf5\x80\x80\x80", "\xf0\x9d\x84", "\xf0\x9d", "\xf0", "\xff", "\xfe", "\xf8\x88\x80\x80\x80"}
	for _, bd := range bad {
		for _, gd := range good {
			pool = append(pool, []byte(bd+gd), []byte(gd+bd), []byte(gd+bd+gd), []byte(bd+gd+bd))
		}
	}
	for i := 0; i < c.scale(2000, 20000); i++ {
		var b []byte
		for k := 2 + c.Rng.Intn(4); k > 0; k-- {
			if c.Rng.Intn(3) == 0 {
				b = append(b, bad[c.Rng.Intn(len(bad))]...)
			} else {
				b = append(b, good[c.Rng.Intn(len(good))]...)
			}
		}
		pool = append(pool, b)
	}
	g := c.gen()
	for i := 0; i < c.scale(3000, 30000); i++ {
		n := 1 + c.Rng.Intn(12)
		if i%50 == 0 {
			n = 1000 + c.Rng.Intn(1200)
		}
		var b []byte
		for len(b) < n {
			switch c.Rng.Intn(6) {
			case 0:
				b = append(b, byte(c.Rng.Intn(256)))
			case 1:
				b = append(b, "é"...)
			case 2:
				b = append(b, "€"...)
			case 3:
				b = append(b, "𝄞"...)
			case 4:
				b = append(b, g.StringBody()...)
			default:
				b = append(b, byte(0x20+c.Rng.Intn(0x5f)))
			}
		}
		pool = append(pool, b)
	}
	return
}

func deepCopy(v interface{}) interface{} {
	switch x := v.(type) {
	case []interface{}:
		o := make([]interface{}, len(x))
		for i := range x {
			o[i] = deepCopy(x[i])
		}
		return o
	case map[string]interface{}:
		o := make(map[string]interface{}, len(x))
		for k, e := range x {
			o[k] = deepCopy(e)
		}
		return o
	}
	return v
}

// sanitizeTree applies f to every string value and key; reports key collisions.
func sanitizeTree(v interface{}, f func(string) string, collide *bool) interface{} {
	switch x := v.(type) {
	case string:
		return f(x)
	case []interface{}:
		o := make([]interface{}, len(x))
		for i := range x {
			o[i] = sanitizeTree(x[i], f, collide)
		}
		return o
	case map[string]interface{}:
		o := make(map[string]interface{}, len(x))
		for k, e := range x {
			nk := f(k)
			if _, dup := o[nk]; dup {
				*collide = true
			}
			o[nk] = sanitizeTree(e, f, collide)
		}
		return o
	}
	return v
}

func init() {
	suites["C17"] = func(c *Ctx) (string, error) {
		var cases []Case
		s := c.Suite
		for _, d := range utf8Inputs(c) {
			h := hx(d)
			implS := runAPI("StdString", []string{h})
			cases = append(cases, Case{Line: "StdString " + h, Impl: implS, Class: "string"})
			cases = append(cases, specCase("string:spec", "specSanitize "+h, implS))
			implB := runAPI("StdBytes", []string{h, "7071"})
			cases = append(cases, Case{Line: "StdBytes " + h + " 7071", Impl: implB, Class: "bytes"})
			cases = append(cases, specCase("bytes:spec", "specSanitize "+h, strings.TrimPrefix(strings.TrimPrefix(implB, "7071"), "-")+dashIfEmpty(implB, "7071")))
			// the appending form with every small spare capacity behind a non-empty destination: the result does not depend on
			// how much room the destination happens to have (a replacement character is longer than the byte it replaces)
			for spare := 0; spare <= 5; spare++ {
				s.Evaluations++
				s.Classes["bytes:spare"]++
				pre := []byte("pq")
				dst := append(make([]byte, 0, len(pre)+spare), pre...)
				in := append([]byte(nil), d...)
				got := guard(func() string {
					v := rjson.StdLibCompatibleStringBytes(in, dst)
					if !bytes.HasPrefix(v, pre) {
						return "PREFIX-LOST " + hx(v)
					}
					return hx(v[len(pre):])
				})
				if got != implS {
					s.Violation(fmt.Sprintf("StdBytes %s dst=pq spare=%d", h, spare), got, implS, "bytes:spare", "StdLibCompatibleStringBytes depends on the destination's spare capacity")
				}
			}
			// identity on valid UTF-8, idempotence
			s.Evaluations++
			out := rjson.StdLibCompatibleString(string(d))
			if utf8.Valid(d) && out != string(d) {
				s.Violation("StdString "+h, hx([]byte(out)), h, "identity", "not the identity on valid UTF-8")
			}
			if rjson.StdLibCompatibleString(out) != out {
				s.Violation("StdString "+h, "not idempotent", hx([]byte(out)), "idempotent", "not idempotent")
			}
		}
		if err := s.Run(cases); err != nil {
			return "", err
		}
		// slice / map helpers
		g := c.gen()
		f := rjson.StdLibCompatibleString
		// documents with ill-formed bytes in strings and keys at every depth and in every container combination
		var treeDocsX [][]byte
		bads := []string{"x\xffy", "\xc0\x80", "\xed\xa0\x80", "ok", "\xef\xbf\xbd", "é\x80", ""}
		for _, b1 := range bads {
			for _, b2 := range bads {
				q := func(s string) string { return `"` + s + `"` }
				for _, shape := range []string{`[%s,%s]`, `{%s:%s}`, `[{"a":[%s]},{%s:1}]`, `{"a":{"b":[[%s]],%s:[]}}`, `[[[%s]],{"k":{"j":%s}}]`, `{%s:{%s:null}}`, `[1,true,null,%s,{"n":[{"m":%s}]}]`} {
					treeDocsX = append(treeDocsX, []byte(fmt.Sprintf(shape, q(b1), q(b2))))
				}
			}
		}
		var treeCases []Case
		for _, d := range treeDocsX {
			treeCases = append(treeCases, apiCase("tree:model", "StdTree", hx(d)))
		}
		for i := 0; i < c.scale(4000, 40000)+len(treeDocsX); i++ {
			d := g.Doc(4, 14)
			if i < len(treeDocsX) {
				d = treeDocsX[i]
			} else if i%2 == 0 {
				treeCases = append(treeCases, apiCase("tree:model", "StdTree", hx(d)))
			}
			v, _, err := rjson.ReadValue(d)
			if err != nil {
				continue
			}
			s.Evaluations++
			s.Classes["tree"]++
			orig := deepCopy(v)
			var got interface{}
			switch x := v.(type) {
			case []interface{}:
				got = rjson.StdLibCompatibleSlice(x)
			case map[string]interface{}:
				got = rjson.StdLibCompatibleMap(x)
			default:
				continue
			}
			collide := false
			want := sanitizeTree(orig, f, &collide)
			if !reflect.DeepEqual(v, orig) {
				s.Violation("StdLibCompatible helper on "+hx(d), "argument modified", "argument unchanged", "tree", "helper modified its argument")
			}
			if !collide && renderVal(got) != renderVal(want) {
				s.Violation("StdLibCompatible helper on "+hx(d), renderVal(got), renderVal(want), "tree", "helper differs from applying StdLibCompatibleString to every string and key")
			}
			if !collide {
				var jv interface{}
				if json.Unmarshal(d, &jv) == nil && renderVal(jv) != renderVal(got) {
					s.Violation("StdLibCompatible helper on "+hx(d), renderVal(got), renderVal(jv), "tree-vs-encoding/json", "sanitised tree differs from encoding/json's")
				}
			}
			s.Distinct["tree "+hx(d)] = struct{}{}
		}
		if err := s.Run(treeCases); err != nil {
			return "", err
		}
		return "StdLibCompatibleString / StringBytes on all 1-byte strings, 2-byte strings for 21 (quick) or all 256 (thorough) lead bytes, boundary 3- and 4-byte sequences (thorough: all 3-byte sequences with bytes 0x70..0xcf after a lead >= 0xc0), generated strings up to 2200 bytes; compared with the model and with the Lean specification sanitize; identity on valid UTF-8 and idempotence; slice/map helpers against per-node application, argument immutability and encoding/json on collision-free trees", nil
	}
}

func dashIfEmpty(impl, prefix string) string {
	if strings.TrimPrefix(impl, prefix) == "" {
		return "-"
	}
	return ""
}

// ---- C03: generic decoding ----

func treeDocs(c *Ctx) (pool [][]byte, cl []string) {
	g := c.gen()
	add := func(b []byte, k string) { pool = append(pool, b); cl = append(cl, k) }
	for i := 0; i < c.scale(4000, 40000); i++ {
		d := g.Doc(1+c.Rng.Intn(5), 2+c.Rng.Intn(40))
		add(d, "doc")
		if i%3 == 0 {
			for _, m := range g.Mutate(d, 2) {
				add(m, "mutated")
			}
		}
	}
	// keys: duplicates in several spellings, and keys that are confusable when raw and decoded forms are mixed up (the raw
	// text of one is the decoding of the other)
	keys := []string{`"a"`, `"a"`, `"a\u0000"`, `"A"`, `"𝄞"`, `"𝄞"`, `""`, `"a\tb"`, `"a\u0009b"`, `"k\\"`, `"k\""`,
		`"a\\tb"`, `"a\\u0009b"`, `"\u0041"`, `"\\u0041"`, `"k\\\\"`, `"\ud834\udd1e"`}
	vals := []string{`1`, `{}`, `[]`, `{"x":{"y":[1,2]}}`, `"s"`, `null`, `[{"a":1}]`, `1e3`, `-0`}
	for _, k1 := range keys {
		for _, k2 := range keys {
			for _, v := range vals {
				add([]byte(fmt.Sprintf(`{%s:%s,%s:2}`, k1, v, k2)), "dup-keys")
				add([]byte(fmt.Sprintf(`[{%s:1},{"w":{%s:%s}, %s :3}]`, k1, k2, v, k1)), "dup-keys")
				if v == `1` || v == `{}` || v == `[{"a":1}]` {
					// the same member position in sibling objects read by one (pooled) reader
					add([]byte(fmt.Sprintf(`[{%s:%s},{%s:2}]`, k1, v, k2)), "dup-keys")
					add([]byte(fmt.Sprintf(`{"p":{"z":0,%s:%s},"q":{"z":0,%s:2}}`, k1, v, k2)), "dup-keys")
				}
			}
		}
	}
	// wide-after-narrow and narrow-after-wide siblings
	for _, n := range []int{0, 1, 2, 9, 17, 33} {
		var wide, narrow strings.Builder
		wide.WriteString("{")
		for i := 0; i < n; i++ {
			if i > 0 {
				wide.WriteString(",")
			}
			fmt.Fprintf(&wide, `"k%d":%d`, i, i)
		}
		wide.WriteString("}")
		narrow.WriteString("[")
		for i := 0; i < n; i++ {
			if i > 0 {
				narrow.WriteString(",")
			}
			fmt.Fprintf(&narrow, "%d", i)
		}
		narrow.WriteString("]")
		add([]byte(fmt.Sprintf(`[%s,{},%s,{"a":1},%s,[],%s]`, wide.String(), narrow.String(), wide.String(), narrow.String())), "siblings")
		add([]byte(fmt.Sprintf(`{"a":{},"b":%s,"c":{},"d":%s,"e":[]}`, wide.String(), narrow.String())), "siblings")
	}
	// every small container length (and the lengths around powers of two), followed by a different, shorter sibling read
	// by the same pooled reader: a result that still points into a reader's scratch space is overwritten by the sibling
	var lens []int
	for n := 0; n <= 40; n++ {
		lens = append(lens, n)
	}
	for _, n := range []int{63, 64, 65, 127, 128, 129, 255, 256, 257, 511, 512, 513, 1023, 1024, 1025} {
		lens = append(lens, n)
	}
	for _, n := range lens {
		var arr, obj strings.Builder
		arr.WriteString("[")
		obj.WriteString("{")
		for i := 0; i < n; i++ {
			if i > 0 {
				arr.WriteString(",")
				obj.WriteString(",")
			}
			fmt.Fprintf(&arr, "%d", i+1)
			fmt.Fprintf(&obj, `"m%d":%d`, i, i+1)
		}
		arr.WriteString("]")
		obj.WriteString("}")
		add([]byte(fmt.Sprintf(`[%s,["x","y"],%s,{"z":true}]`, arr.String(), obj.String())), "length-sweep")
		add([]byte(fmt.Sprintf(`{"a":%s,"b":["x"],"c":%s,"d":{"q":null,"r":"s"}}`, arr.String(), obj.String())), "length-sweep")
		add([]byte(fmt.Sprintf(`[[%s,[false]],[%s,{"k":[]}]]`, arr.String(), obj.String())), "length-sweep")
	}
	for _, s := range []string{`null`, ` null`, `[]`, `{}`, ` [ ] `, ` { } `, `[null]`, `{"a":null}`, `1`, `"x"`, `true`, ``, ` `, `[`, `{`, `]`, `[1,]`, `{"a"}`, `{"a":}`, `{,}`, `[,]`, `nul`, `[1e999]`, `{"a":1e999}`, `[-]`, `["\ud800"]`, `{"\udc00":1}`} {
		add([]byte(s), "shape")
	}
	return
}

func init() {
	suites["C03"] = func(c *Ctx) (string, error) {
		var cases []Case
		s := c.Suite
		pool, cl := treeDocs(c)
		for i, d := range pool {
			h := hx(d)
			for _, op := range []string{"ReadValue", "ReadObject", "ReadArray"} {
				if op != "ReadValue" && i%2 == 1 && cl[i] == "doc" {
					continue
				}
				impl := runAPI(op, []string{h})
				cases = append(cases, Case{Line: op + " " + h, Impl: impl, Class: op + ":" + cl[i]})
				switch op {
				case "ReadValue":
					cases = append(cases, specCase(op+":spec", "specTree 10000 "+h, okErr(impl, true)))
				case "ReadObject":
					cases = append(cases, specCase(op+":spec", "specTreeKind 10000 123 "+h, okErr(impl, true)))
				case "ReadArray":
					cases = append(cases, specCase(op+":spec", "specTreeKind 10000 91 "+h, okErr(impl, true)))
				}
			}
			// encoding/json on valid-UTF-8, collision-free documents
			if cl[i] == "doc" || cl[i] == "dup-keys" || cl[i] == "siblings" || cl[i] == "length-sweep" {
				s.Evaluations++
				v, p, err := rjson.ReadValue(exact(d))
				var jv interface{}
				dec := json.NewDecoder(bytes.NewReader(d))
				jerr := dec.Decode(&jv)
				if (err == nil) != (jerr == nil) {
					if !(jerr != nil && strings.Contains(jerr.Error(), "UTF-8")) {
						s.Violation("ReadValue "+h, fmt.Sprint(err), fmt.Sprint(jerr), "vs-encoding/json", "success differs from encoding/json")
					}
				} else if err == nil {
					collide := false
					sv := sanitizeTree(v, rjson.StdLibCompatibleString, &collide)
					if !collide && renderVal(sv) != renderVal(jv) {
						s.Violation("ReadValue "+h, renderVal(sv), renderVal(jv), "vs-encoding/json", "tree differs from encoding/json's")
					}
					if int(dec.InputOffset()) != p {
						s.Violation("ReadValue "+h, fmt.Sprint(p), fmt.Sprint(dec.InputOffset()), "vs-encoding/json", "offset differs from encoding/json's")
					}
				}
			}
		}
		// depth boundaries through all three entry points
		for _, kinds := range []string{"[", "{", "[{", "{["} {
			for _, dep := range []int{9999, 10000, 10001} {
				d := nested(dep, kinds, "1", true)
				h := hx(d)
				for _, op := range []string{"ReadValue", "ReadObject", "ReadArray"} {
					impl := runAPI(op, []string{h})
					cases = append(cases, Case{Line: op + " " + h, Impl: impl, Class: "depth"})
				}
				cases = append(cases, specCase("depth:spec", "specTree 10000 "+h, okErr(runAPI("ReadValue", []string{h}), true)))
			}
		}
		if err := s.Run(cases); err != nil {
			return "", err
		}
		// the handler machines' transition cover, read through ReadArray / ReadObject against the tree specification
		for _, name := range []string{"handleArrayValues", "handleObjectValues"} {
			lines, err := c.Model.Multi(fmt.Sprintf("cover %s %d", name, c.scale(1, 2)), "end-cover")
			if err != nil {
				return "", err
			}
			var more []Case
			op, kind := "ReadArray", "91"
			if name == "handleObjectValues" {
				op, kind = "ReadObject", "123"
			}
			for _, ln := range lines {
				f := strings.Fields(ln)
				if len(f) < 2 {
					continue
				}
				ins := []string{f[0]}
				if f[1] != "!" && f[1] != "-" {
					ins = append(ins, strings.TrimPrefix(f[0], "-")+f[1])
				}
				for _, h := range ins {
					impl := runAPI(op, []string{h})
					more = append(more, Case{Line: op + " " + h, Impl: impl, Class: "cover:" + name})
					more = append(more, specCase("cover:spec", "specTreeKind 10000 "+kind+" "+h, okErr(impl, true)))
				}
			}
			if err := s.Run(more); err != nil {
				return "", err
			}
		}
		return "ReadValue/ReadObject/ReadArray on generated documents (duplicate keys in several escape spellings, empty containers, wide/narrow siblings), mutations, malformed shapes, depth 9999..10001 and the handler machines' transition covers; compared with the model, with the Lean specification decodeValue (tree with last-duplicate-wins, correctly rounded numbers, offset) and with encoding/json on collision-free documents", nil
	}
}

var _ = strconv.Itoa
var _ = math.MaxInt64
var _ = big.NewInt
