package main

import (
	"fmt"
	"math"
	"math/big"
	"strconv"
	"strings"
)

// exactDecimal renders num * 2^pow2 (num >= 0) as an exact decimal literal.
func exactDecimal(num *big.Int, pow2 int) string {
	if pow2 >= 0 {
		return new(big.Int).Lsh(num, uint(pow2)).String()
	}
	k := -pow2
	n := new(big.Int).Mul(num, new(big.Int).Exp(big.NewInt(5), big.NewInt(int64(k)), nil))
	s := n.String()
	if len(s) <= k {
		s = strings.Repeat("0", k-len(s)+1) + s
	}
	return s[:len(s)-k] + "." + s[len(s)-k:]
}

// decompose returns (mant, exp2) with value = mant * 2^exp2 for a finite non-negative double.
func decompose(bits uint64) (*big.Int, int) {
	ex := int(bits >> 52 & 0x7ff)
	fr := bits & 0xfffffffffffff
	if ex == 0 {
		return new(big.Int).SetUint64(fr), -1074
	}
	return new(big.Int).SetUint64(fr | 1<<52), ex - 1075
}

// bumpLast changes the last digit of a decimal literal by ±1 (keeping it a literal of the same length).
func bumpLast(s string, up bool) string {
	b := []byte(s)
	for i := len(b) - 1; i >= 0; i-- {
		if b[i] < '0' || b[i] > '9' {
			continue
		}
		if up {
			if b[i] == '9' {
				return s + "1"
			}
			b[i]++
		} else {
			if b[i] == '0' {
				return s[:len(s)] + ""
			}
			b[i]--
		}
		return string(b)
	}
	return s
}

func floatLiterals(c *Ctx) (pool []string, cl []string) {
	add := func(s, k string) { pool = append(pool, s); cl = append(cl, k) }
	r := c.Rng
	for e := -360; e <= 360; e++ {
		mans := []string{"1", "9", "17976931348623157", "22250738585072014", "4503599627370497", "9007199254740993", "18446744073709551615", "1844674407370955161", fmt.Sprint(r.Uint64()), fmt.Sprint(r.Uint64() >> uint(r.Intn(40))), fmt.Sprint(r.Uint64()), fmt.Sprint(r.Uint64() | 1<<63)}
		for i, m := range mans {
			if !c.thorough() && i > 5 && e%3 != 0 {
				continue
			}
			add(fmt.Sprintf("%se%d", m, e), "table-row")
		}
	}
	// zeros of every length and sign: a literal with 20 or more digit characters leaves the fast paths even when all of them
	// are zeros, and the multiprecision path has its own exit for "no digits at all" — the sign of zero must survive it
	for _, k := range []int{0, 1, 5, 17, 18, 19, 20, 21, 25, 40, 100, 799, 800, 801, 1200} {
		z := strings.Repeat("0", k+1)
		for _, sign := range []string{"", "-"} {
			add(sign+"0."+z, "zeros")
			add(sign+"0."+z+"e5", "zeros")
			add(sign+"0."+z+"E-400", "zeros")
			add(sign+"0."+z+"e+999999", "zeros")
			add(sign+"0e"+z+"7", "zeros")
			add(" "+sign+"0."+z, "zeros")
		}
	}
	nMid := c.scale(400, 4000)
	for i := 0; i < nMid; i++ {
		var bits uint64
		switch i % 6 {
		case 0:
			bits = r.Uint64() & 0x7fefffffffffffff
		case 1:
			bits = uint64(r.Intn(4000))
		case 2:
			bits = 0x7fefffffffffffff - uint64(r.Intn(3))
		case 3:
			bits = uint64(0x0010000000000000) + uint64(r.Intn(5)) - 2
		case 4:
			bits = (uint64(1023+52+r.Intn(12)) << 52) | (r.Uint64() & 0xfffffffffffff) // integers around 2^53..2^64
		default:
			bits = (uint64(1023+r.Intn(120)-60) << 52) | (r.Uint64() & 0xfffffffffffff)
		}
		if bits >= 0x7ff0000000000000 {
			continue
		}
		m, e2 := decompose(bits)
		// midpoint between bits and bits+1: (2m+1) * 2^(e2-1)
		mid := new(big.Int).Add(new(big.Int).Lsh(m, 1), big.NewInt(1))
		if bits>>52&0x7ff == 0x7fe && bits&0xfffffffffffff == 0xfffffffffffff {
			// above the largest finite double: the overflow threshold
		}
		lit := exactDecimal(mid, e2-1)
		add(lit, "midpoint")
		add(bumpLast(lit, true), "midpoint+")
		add(bumpLast(lit, false), "midpoint-")
		add(lit+"000", "midpoint")
		add(lit+strings.Repeat("0", 30)+"1", "midpoint+tail")
		if i%10 == 0 {
			add(lit+strings.Repeat("0", 820)+"1", "midpoint+longtail")
			add(lit+strings.Repeat("0", 820)+"10", "midpoint+longtail")
			add(lit+strings.Repeat("0", 820), "midpoint+longzeros")
		}
		// a tail that still fits the 800-digit buffer when the literal is read, so that nothing is marked truncated
		// there, while the binary right shifts of the scaling loop push its last digits past the end of the buffer:
		// whether the result rounds up then rests entirely on the shift recording what it dropped
		if sig := len(strings.TrimLeft(strings.Replace(lit, ".", "", 1), "0")); sig < 780 && (i%5 == 0 || i%6 == 4) {
			dot := ""
			if !strings.Contains(lit, ".") {
				dot = "."
			}
			for _, total := range []int{800, 799, 790 + r.Intn(9)} {
				add(lit+dot+strings.Repeat("0", total-sig-1)+"1", "midpoint+fittail")
			}
			add("-"+lit+dot+strings.Repeat("0", 800-sig-1)+"7", "midpoint+fittail")
		}
		if strings.Contains(lit, ".") && i%3 == 0 {
			// the same value in exponent form
			ip := strings.Index(lit, ".")
			digits := lit[:ip] + lit[ip+1:]
			add(fmt.Sprintf("%se-%d", strings.TrimLeft(digits, "0"), len(lit)-ip-1), "midpoint-exp")
		}
		add("-"+lit, "midpoint-neg")
	}
	// halfway points next to every power of ten and every power of two: the scaling steps of the slow path (powtab,
	// leftcheats, the 10^k/2^k decade-binade slivers) are exercised at each of their boundaries, from both sides
	midOf := func(bits uint64) string {
		m, e2 := decompose(bits)
		return exactDecimal(new(big.Int).Add(new(big.Int).Lsh(m, 1), big.NewInt(1)), e2-1)
	}
	for q := -324; q <= 308; q++ {
		f, err := strconv.ParseFloat(fmt.Sprintf("1e%d", q), 64)
		if err != nil {
			continue
		}
		b := math.Float64bits(f)
		for _, bb := range []uint64{b - 1, b} {
			if bb >= 0x7fefffffffffffff || bb == ^uint64(0) {
				continue
			}
			lit := midOf(bb)
			add(lit, "pow10-boundary")
			if c.thorough() || q%2 == 0 {
				add(bumpLast(lit, true), "pow10-boundary")
				add(bumpLast(lit, false), "pow10-boundary")
			}
		}
	}
	for k := -1074; k <= 1023; k++ {
		b := math.Float64bits(math.Ldexp(1, k))
		for _, bb := range []uint64{b - 1, b} {
			if bb >= 0x7fefffffffffffff || bb == ^uint64(0) {
				continue
			}
			lit := midOf(bb)
			add(lit, "pow2-boundary")
			if c.thorough() && k%4 == 0 {
				add(bumpLast(lit, true), "pow2-boundary")
				add(bumpLast(lit, false), "pow2-boundary")
			}
		}
	}
	// exact powers of two and their decimal multiples (every binade; subnormal multiples 10^j * 2^-1074), with the
	// 17..21-digit roundings on both sides: decimals whose digits sit exactly on a leftcheats cutoff (5^k) while shifting
	for k := -1074; k <= 1023; k++ {
		full := exactDecimal(big.NewInt(1), k)
		if k >= -1074 && (k <= -1000 || (k > -70 && k < 70) || k%16 == 0 || c.thorough()) {
			add(full, "pow2-exact")
		}
		// leading digits, in exponent form
		digits := strings.TrimLeft(strings.Replace(full, ".", "", 1), "0")
		var e10 int
		if ip := strings.Index(full, "."); ip >= 0 {
			lead := len(full[ip+1:]) - len(strings.TrimLeft(full[ip+1:], "0"))
			if strings.TrimLeft(full[:ip], "0") == "" {
				e10 = -lead - 1
			} else {
				e10 = len(strings.TrimLeft(full[:ip], "0")) - 1
			}
		} else {
			e10 = len(digits) - 1
		}
		for _, nd := range []int{17, 19, 20, 21} {
			if len(digits) <= nd || (!c.thorough() && k%3 != 0 && k > -1060) {
				continue
			}
			pre := digits[:nd]
			add(fmt.Sprintf("%s.%se%d", pre[:1], pre[1:], e10), "pow2-prefix")
			add(fmt.Sprintf("%s.%se%d", pre[:1], bumpLast(pre[1:], true), e10), "pow2-prefix")
		}
	}
	for j := 0; j <= 16; j++ {
		m := new(big.Int).Exp(big.NewInt(10), big.NewInt(int64(j)), nil)
		full := exactDecimal(m, -1074)
		add(full, "subnormal-pow10")
		add(full+"1", "subnormal-pow10")
		add(bumpLast(full, false), "subnormal-pow10")
		add(fmt.Sprintf("4.940656458412465442e%d", -324+j), "subnormal-pow10")
		add(fmt.Sprintf("4.940656458412465441e%d", -324+j), "subnormal-pow10")
		add(fmt.Sprintf("4.9406564584124654417656879286822137236505980e%d", -324+j), "subnormal-pow10")
		add(fmt.Sprintf("4.9406564584124654417656879286822137236505981e%d", -324+j), "subnormal-pow10")
	}
	// digits of 5^k (the leftcheats cutoffs) at every small decimal exponent, exactly, one below and just above
	for k := 1; k <= 60; k++ {
		d5 := new(big.Int).Exp(big.NewInt(5), big.NewInt(int64(k)), nil).String()
		for j := -45; j <= 3; j++ {
			if !c.thorough() && (j+k)%2 != 0 {
				continue
			}
			add(fmt.Sprintf("%se%d", d5, j-len(d5)), "cheat-cutoff")
			add(fmt.Sprintf("%s00000000000000000001e%d", d5, j-len(d5)-20), "cheat-cutoff")
			add(fmt.Sprintf("%se%d", bumpLast(d5, false), j-len(d5)), "cheat-cutoff")
		}
	}
	// long whitespace runs in front of the literal (ReadFloat64 skips them itself)
	for _, pre := range wsRuns() {
		for _, body := range []string{"0", "1.5", "-2.5e-3", "9007199254740993", "1e400"} {
			add(string(pre)+body, "long-ws")
		}
	}
	// 19/20/21-digit mantissas around 2^64 and truncation boundaries
	for _, base := range []string{"18446744073709551615", "18446744073709551616", "9999999999999999999", "1000000000000000000", "9007199254740992", "9007199254740993", "9007199254740994"} {
		for _, suffix := range []string{"", "0", "1", "5", "9", "00", "01", "50", "99", "000000000000000000001", ".0", ".5", ".50000000000000000000001", "e1", "e-1", "e22", "e23", "e-22", "e-23", "e37", "e38"} {
			add(base+suffix, "mantissa-boundary")
		}
	}
	// exponents near the fast-path limits for small mantissas
	for e := -30; e <= 45; e++ {
		for _, m := range []string{"1", "3", "7", "123456789012345", "9007199254740991", "9007199254740992", "1000000000000000", "999999999999999"} {
			add(fmt.Sprintf("%se%d", m, e), "exact-path")
			add(fmt.Sprintf("%s.5e%d", m, e), "exact-path")
		}
	}
	// thresholds, zeros, huge exponents, leading zeros that eat the 19-digit budget
	for _, s := range []string{"0", "-0", "0.0", "-0.0", "0e0", "0e999999", "-0e-999999", "0.000", "1e308", "1.7976931348623157e308", "1.7976931348623158e308", "1.7976931348623159e308", "1.797693134862315807e308", "1.797693134862315808e308", "1.797693134862315708145274237317043567981e308", "1.797693134862315708145274237317043567980e308", "2e308", "1e309", "1e400", "1e99999", "1e100000", "1e-99999", "1e-100000", "4.9e-324", "5e-324", "2.4703282292062327e-324", "2.4703282292062328e-324", "2.47032822920623272088284396434110686182e-324", "2.47032822920623272088284396434110686183e-324", "2.2250738585072014e-308", "2.2250738585072011e-308", "2.225073858507201e-308",
		"0.000000000000000000000000000001", "0.00000000000000000001234567890123456789", "0.0000000000000000001234567890123456789012", "0." + strings.Repeat("0", 400) + "1", "0." + strings.Repeat("0", 320) + "12345678901234567890123", strings.Repeat("9", 400), strings.Repeat("9", 309), strings.Repeat("1", 810), "1" + strings.Repeat("0", 805), "1" + strings.Repeat("0", 805) + "e-800", "9007199254740993" + strings.Repeat("0", 784) + "10e-786",
		"100000000000000016777215", "100000000000000016777216", "1e23", "8.41e21", "5e-20", "6.6e-20", "1.00000000000000011102230246251565404236316680908203125", "1.00000000000000011102230246251565404236316680908203124", "1.00000000000000011102230246251565404236316680908203126"} {
		add(s, "threshold")
	}
	// more digits than the exponent scan's saturation threshold: the decimal point must still end up where the
	// literal says (exponents beyond the threshold may only be clipped when that cannot change the result)
	for _, nz := range []int{9990, 10000, 10020, 20000} {
		zeros := strings.Repeat("0", nz)
		for _, e := range []int{nz - 1, nz, nz + 1, nz + 300, nz + 400, 99999, 100000, 100001, 10 * nz, 10*nz + 1, 120000, 1000000} {
			add(fmt.Sprintf("1%se-%d", zeros, e), "huge-exponent")
			add(fmt.Sprintf("0.%s1e%d", zeros, e), "huge-exponent")
			add(fmt.Sprintf("-0.%s1e+%d", zeros, e+1), "huge-exponent")
		}
		add("17976931348623157"+zeros+fmt.Sprintf("e-%d", nz-292), "huge-exponent")
		add("0."+zeros+fmt.Sprintf("17976931348623158e%d", nz+309), "huge-exponent")
	}
	// generated literals
	g := c.gen()
	for i := 0; i < c.scale(6000, 80000); i++ {
		add(string(g.Number()), "generated")
		if i%3 == 0 {
			var b strings.Builder
			b.WriteByte(byte('1' + r.Intn(9)))
			n := r.Intn(40)
			for k := 0; k < n; k++ {
				b.WriteByte(byte('0' + r.Intn(10)))
			}
			if r.Intn(2) == 0 {
				b.WriteByte('.')
				n = 1 + r.Intn(30)
				for k := 0; k < n; k++ {
					b.WriteByte(byte('0' + r.Intn(10)))
				}
			}
			if r.Intn(2) == 0 {
				fmt.Fprintf(&b, "e%d", r.Intn(700)-350)
			}
			add(b.String(), "generated-long")
		}
	}
	return
}

// elSearch looks for Eisel-Lemire bail-out candidates at every table exponent (xHi low bits all ones).
func elCandidates(c *Ctx) (pool []string) {
	r := c.Rng
	n := c.scale(20, 400)
	for e := -348; e <= 347; e++ {
		for k := 0; k < n; k++ {
			m := r.Uint64()
			if k%2 == 0 {
				m |= 1 << 63
			}
			pool = append(pool, fmt.Sprintf("%d %d false", m, e))
		}
	}
	return
}

// decimalStateCases: decimal.Shift / RoundedInteger on explicit states (hooks VerifFPDecimalShift / VerifFPDecimalRounded).
func decimalStateCases(c *Ctx) (cases []Case) {
	r := c.Rng
	randDigits := func(n int) string {
		b := make([]byte, n)
		for i := range b {
			b[i] = byte('0' + r.Intn(10))
		}
		if n > 0 && b[0] == '0' {
			b[0] = byte('1' + r.Intn(9))
		}
		return string(b)
	}
	shift := func(digits string, dp int, neg, tr bool, k int, class string) {
		if len(digits) == 0 || digits[0] == '0' {
			return
		}
		cases = append(cases, apiCase(class, "fpShift", hx([]byte(digits)), fmt.Sprint(dp), fmt.Sprint(neg), fmt.Sprint(tr), fmt.Sprint(k)))
	}
	for k := 1; k <= 60; k++ {
		d5 := new(big.Int).Exp(big.NewInt(5), big.NewInt(int64(k)), nil).String()
		vars := []string{d5, bumpLast(d5, false), bumpLast(d5, true), d5 + "0", d5 + "1", d5 + strings.Repeat("0", 30) + "1", d5 + strings.Repeat("9", 25),
			d5[:len(d5)-1], d5[:(len(d5)+1)/2], d5[:1], d5 + randDigits(800-len(d5)), bumpLast(d5, false) + strings.Repeat("9", 800-len(d5)), d5 + strings.Repeat("0", 799-len(d5)) + "1"}
		for vi, v := range vars {
			shift(v, r.Intn(700)-350, vi%2 == 0, vi%3 == 0, k, "shift-cutoff")
			if vi%4 == 0 {
				shift(v, r.Intn(40)-20, false, false, -k, "shift-right")
			}
		}
	}
	lens := []int{1, 2, 3, 9, 19, 20, 100, 400, 750, 799, 800}
	for i := 0; i < c.scale(1500, 20000); i++ {
		n := lens[r.Intn(len(lens))]
		ds := randDigits(n)
		if i%5 == 0 {
			ds = strings.TrimRight(ds, "0") + strings.Repeat("0", r.Intn(4))
		}
		var k int
		switch i % 6 {
		case 0:
			k = 1 + r.Intn(60)
		case 1:
			k = -(1 + r.Intn(60))
		case 2:
			k = 61 + r.Intn(200)
		case 3:
			k = -(61 + r.Intn(1100))
		case 4:
			k = []int{1, 3, 6, 9, 13, 16, 19, 23, 26, 27, 53, 60}[r.Intn(12)]
		default:
			k = -[]int{1, 3, 6, 9, 13, 16, 19, 23, 26, 27, 53, 60}[r.Intn(12)]
		}
		shift(ds, r.Intn(800)-400, i%2 == 0, i%7 == 0, k, "shift-random")
	}
	for i := 0; i < c.scale(800, 8000); i++ {
		n := 1 + r.Intn(40)
		ds := randDigits(n)
		dp := r.Intn(25) - 3
		if i%3 == 0 && dp >= 0 && dp < n {
			// a tie: the digit after the integer part is a final 5
			ds = ds[:dp] + "5"
			if len(ds) == 1 {
				ds = "5"
			}
		}
		if ds[0] == '0' {
			continue
		}
		cases = append(cases, apiCase("rounded", "fpRounded", hx([]byte(ds)), fmt.Sprint(dp), "false", fmt.Sprint(i%2 == 0)))
	}
	return
}

func init() {
	suites["C04"] = func(c *Ctx) (string, error) {
		s := c.Suite
		var cases []Case
		lits, cl := floatLiterals(c)
		follow := []string{"", " ", ",", "]", "}", "x", ".", "e", "-", "\x00"}
		for i, lit := range lits {
			d := []byte(lit + follow[i%len(follow)])
			if i%7 == 0 {
				d = append([]byte(" \n"), d...)
			}
			h := hx(d)
			impl := runAPI("ReadFloat64", []string{h})
			cases = append(cases, Case{Line: "ReadFloat64 " + h, Impl: impl, Class: cl[i]})
			cases = append(cases, specCase(cl[i]+":spec", "specFloat "+h, okErr(impl, true)))
			if i%5 == 0 {
				cases = append(cases, apiCase("decode", "DecodeFloat64", h, "4607182418800017408"))
				cases = append(cases, apiCase("readvalue", "ReadValue", hx([]byte("["+lit+"]"))))
			}
			// strconv as a second oracle for well-formed literals followed by a delimiter
			if f := follow[i%len(follow)]; f == "" || f == " " || f == "," || f == "]" || f == "}" {
				s.Evaluations++
				want, err := strconv.ParseFloat(strings.TrimLeft(lit, " \t\r\n"), 64) // ReadFloat64 skips leading JSON whitespace, strconv does not
				fi := strings.Fields(impl)
				if err == nil && !(len(fi) == 3 && fi[0] == "ok" && fi[1] == strconv.FormatUint(math.Float64bits(want), 10)) {
					// strconv itself mis-places the decimal point of >800-digit integers (same port); the Lean specification decides those
					if len(lit) < 800 {
						s.Violation("ReadFloat64 "+h, impl, fmt.Sprintf("ok %d", math.Float64bits(want)), "vs-strconv", "differs from strconv.ParseFloat")
					}
				}
				if err != nil && len(fi) > 0 && fi[0] == "ok" && len(lit) < 800 {
					s.Violation("ReadFloat64 "+h, impl, "error ("+err.Error()+")", "vs-strconv", "accepted where strconv.ParseFloat reports an error")
				}
			}
		}
		// internals: the three conversion paths separately, against the model
		for _, a := range elCandidates(c) {
			f := strings.Fields(a)
			cases = append(cases, apiCase("eisel-lemire", "fpEL", f[0], f[1], f[2]))
			if m, _ := strconv.ParseUint(f[0], 10, 64); m>>52 == 0 {
				cases = append(cases, apiCase("exact", "fpExact", f[0], f[1], f[2]))
			}
		}
		for e := -25; e <= 40; e++ {
			for _, m := range []uint64{0, 1, 3, 1 << 52, 1<<52 - 1, 1<<53 - 1, 1 << 53, 123456789, 999999999999999, 1000000000000000, 1000000000000001, 4503599627370495} {
				cases = append(cases, apiCase("exact", "fpExact", fmt.Sprint(m), fmt.Sprint(e), "false"), apiCase("exact", "fpExact", fmt.Sprint(m), fmt.Sprint(e), "true"))
			}
		}
		for i, lit := range lits {
			if i%3 == 0 {
				h := hx([]byte(lit))
				cases = append(cases, apiCase("readFloat", "fpReadFloat", h), apiCase("decimal", "fpDecimal", h))
			}
		}
		// the shifts and the rounding of the multiprecision decimal directly, on states a literal rarely reaches: digits
		// on and next to every leftcheats cutoff (5^k) for every k, full 800-digit buffers, truncated decimals, multi-step shifts
		cases = append(cases, decimalStateCases(c)...)
		if err := s.Run(cases); err != nil {
			return "", err
		}
		// which conversion path did each literal take? (model-side; goes into the evidence histogram)
		var lines []string
		for _, lit := range lits {
			lines = append(lines, "FloatPath "+hx([]byte(lit)))
		}
		outs, err := c.Model.Query(lines)
		if err != nil {
			return "", err
		}
		for _, o := range outs {
			s.Classes["path:"+o]++
		}
		return "ReadFloat64 on: every Eisel-Lemire table exponent with 6-12 mantissa classes, exact halfway points between adjacent doubles (random, subnormal, smallest-normal, largest-finite, integer range) with ±1 neighbours, long tails beyond 800 digits and exponent-form respellings, 19-21 digit mantissas around 2^64, fast-path exponent limits, thresholds and zeros, generated literals; compared with the model (path histogram in input_classes), the Lean specification (roundDec of the exact decimal value) and strconv.ParseFloat; readFloat/atof64exact/eiselLemire64/decimal compared separately with their models", nil
	}
}
