package main

import (
	"fmt"
	"math"
	"math/big"
	"strconv"
	"strings"
)

// exactDecimal renders num * 2^pow2 (num >= 0) as an exact decimal literal.
func exactDecimal(num *big.Int, pow2 int) string {
	if pow2 >= 0 {
		return new(big.Int).Lsh(num, uint(pow2)).String()
	}
	k := -pow2
	n := new(big.Int).Mul(num, new(big.Int).Exp(big.NewInt(5), big.NewInt(int64(k)), nil))
	s := n.String()
	if len(s) <= k {
		s = strings.Repeat("0", k-len(s)+1) + s
	}
	return s[:len(s)-k] + "." + s[len(s)-k:]
}

// decompose returns (mant, exp2) with value = mant * 2^exp2 for a finite non-negative double.
func decompose(bits uint64) (*big.Int, int) {
	ex := int(bits >> 52 & 0x7ff)
	fr := bits & 0xfffffffffffff
	if ex == 0 {
		return new(big.Int).SetUint64(fr), -1074
	}
	return new(big.Int).SetUint64(fr | 1<<52), ex - 1075
}

// bumpLast changes the last digit of a decimal literal by ±1 (keeping it a literal of the same length).
func bumpLast(s string, up bool) string {
	b := []byte(s)
	for i := len(b) - 1; i >= 0; i-- {
		if b[i] < '0' || b[i] > '9' {
			continue
		}
		if up {
			if b[i] == '9' {
				return s + "1"
			}
			b[i]++
		} else {
			if b[i] == '0' {
				return s[:len(s)] + ""
			}
			b[i]--
		}
		return string(b)
	}
	return s
}

func floatLiterals(c *Ctx) (pool []string, cl []string) {
	add := func(s, k string) { pool = append(pool, s); cl = append(cl, k) }
	r := c.Rng
	for e := -360; e <= 360; e++ {
		mans := []string{"1", "9", "17976931348623157", "22250738585072014", "4503599627370497", "9007199254740993", "18446744073709551615", "1844674407370955161", fmt.Sprint(r.Uint64()), fmt.Sprint(r.Uint64() >> uint(r.Intn(40))), fmt.Sprint(r.Uint64()), fmt.Sprint(r.Uint64() | 1<<63)}
		for i, m := range mans {
			if !c.thorough() && i > 5 && e%3 != 0 {
				continue
			}
			add(fmt.Sprintf("%se%d", m, e), "table-row")
		}
	}
	nMid := c.scale(400, 4000)
	for i := 0; i < nMid; i++ {
		var bits uint64
		switch i % 6 {
		case 0:
			bits = r.Uint64() & 0x7fefffffffffffff
		case 1:
			bits = uint64(r.Intn(4000))
		case 2:
			bits = 0x7fefffffffffffff - uint64(r.Intn(3))
		case 3:
			bits = uint64(0x0010000000000000) + uint64(r.Intn(5)) - 2
		case 4:
			bits = (uint64(1023+52+r.Intn(12)) << 52) | (r.Uint64() & 0xfffffffffffff) // integers around 2^53..2^64
		default:
			bits = (uint64(1023+r.Intn(120)-60) << 52) | (r.Uint64() & 0xfffffffffffff)
		}
		if bits >= 0x7ff0000000000000 {
			continue
		}
		m, e2 := decompose(bits)
		// midpoint between bits and bits+1: (2m+1) * 2^(e2-1)
		mid := new(big.Int).Add(new(big.Int).Lsh(m, 1), big.NewInt(1))
		if bits>>52&0x7ff == 0x7fe && bits&0xfffffffffffff == 0xfffffffffffff {
			// above the largest finite double: the overflow threshold
		}
		lit := exactDecimal(mid, e2-1)
		add(lit, "midpoint")
		add(bumpLast(lit, true), "midpoint+")
		add(bumpLast(lit, false), "midpoint-")
		add(lit+"000", "midpoint")
		add(lit+strings.Repeat("0", 30)+"1", "midpoint+tail")
		if i%10 == 0 {
			add(lit+strings.Repeat("0", 820)+"1", "midpoint+longtail")
			add(lit+strings.Repeat("0", 820)+"10", "midpoint+longtail")
			add(lit+strings.Repeat("0", 820), "midpoint+longzeros")
		}
		if strings.Contains(lit, ".") && i%3 == 0 {
			// the same value in exponent form
			ip := strings.Index(lit, ".")
			digits := lit[:ip] + lit[ip+1:]
			add(fmt.Sprintf("%se-%d", strings.TrimLeft(digits, "0"), len(lit)-ip-1), "midpoint-exp")
		}
		add("-"+lit, "midpoint-neg")
	}
	// 19/20/21-digit mantissas around 2^64 and truncation boundaries
	for _, base := range []string{"18446744073709551615", "18446744073709551616", "9999999999999999999", "1000000000000000000", "9007199254740992", "9007199254740993", "9007199254740994"} {
		for _, suffix := range []string{"", "0", "1", "5", "9", "00", "01", "50", "99", "000000000000000000001", ".0", ".5", ".50000000000000000000001", "e1", "e-1", "e22", "e23", "e-22", "e-23", "e37", "e38"} {
			add(base+suffix, "mantissa-boundary")
		}
	}
	// exponents near the fast-path limits for small mantissas
	for e := -30; e <= 45; e++ {
		for _, m := range []string{"1", "3", "7", "123456789012345", "9007199254740991", "9007199254740992", "1000000000000000", "999999999999999"} {
			add(fmt.Sprintf("%se%d", m, e), "exact-path")
			add(fmt.Sprintf("%s.5e%d", m, e), "exact-path")
		}
	}
	// thresholds, zeros, huge exponents, leading zeros that eat the 19-digit budget
	for _, s := range []string{"0", "-0", "0.0", "-0.0", "0e0", "0e999999", "-0e-999999", "0.000", "1e308", "1.7976931348623157e308", "1.7976931348623158e308", "1.7976931348623159e308", "1.797693134862315807e308", "1.797693134862315808e308", "1.797693134862315708145274237317043567981e308", "1.797693134862315708145274237317043567980e308", "2e308", "1e309", "1e400", "1e99999", "1e100000", "1e-99999", "1e-100000", "4.9e-324", "5e-324", "2.4703282292062327e-324", "2.4703282292062328e-324", "2.47032822920623272088284396434110686182e-324", "2.47032822920623272088284396434110686183e-324", "2.2250738585072014e-308", "2.2250738585072011e-308", "2.225073858507201e-308",
		"0.000000000000000000000000000001", "0.00000000000000000001234567890123456789", "0.0000000000000000001234567890123456789012", "0." + strings.Repeat("0", 400) + "1", "0." + strings.Repeat("0", 320) + "12345678901234567890123", strings.Repeat("9", 400), strings.Repeat("9", 309), strings.Repeat("1", 810), "1" + strings.Repeat("0", 805), "1" + strings.Repeat("0", 805) + "e-800", "9007199254740993" + strings.Repeat("0", 784) + "10e-786",
		"100000000000000016777215", "100000000000000016777216", "1e23", "8.41e21", "5e-20", "6.6e-20", "1.00000000000000011102230246251565404236316680908203125", "1.00000000000000011102230246251565404236316680908203124", "1.00000000000000011102230246251565404236316680908203126"} {
		add(s, "threshold")
	}
	// more digits than the exponent scan's saturation threshold: the decimal point must still end up where the
	// literal says (exponents beyond the threshold may only be clipped when that cannot change the result)
	for _, nz := range []int{9990, 10000, 10020, 20000} {
		zeros := strings.Repeat("0", nz)
		for _, e := range []int{nz - 1, nz, nz + 1, nz + 300, nz + 400, 99999, 100000, 100001, 10 * nz, 10*nz + 1, 120000, 1000000} {
			add(fmt.Sprintf("1%se-%d", zeros, e), "huge-exponent")
			add(fmt.Sprintf("0.%s1e%d", zeros, e), "huge-exponent")
			add(fmt.Sprintf("-0.%s1e+%d", zeros, e+1), "huge-exponent")
		}
		add("17976931348623157"+zeros+fmt.Sprintf("e-%d", nz-292), "huge-exponent")
		add("0."+zeros+fmt.Sprintf("17976931348623158e%d", nz+309), "huge-exponent")
	}
	// generated literals
	g := c.gen()
	for i := 0; i < c.scale(6000, 80000); i++ {
		add(string(g.Number()), "generated")
		if i%3 == 0 {
			var b strings.Builder
			b.WriteByte(byte('1' + r.Intn(9)))
			n := r.Intn(40)
			for k := 0; k < n; k++ {
				b.WriteByte(byte('0' + r.Intn(10)))
			}
			if r.Intn(2) == 0 {
				b.WriteByte('.')
				n = 1 + r.Intn(30)
				for k := 0; k < n; k++ {
					b.WriteByte(byte('0' + r.Intn(10)))
				}
			}
			if r.Intn(2) == 0 {
				fmt.Fprintf(&b, "e%d", r.Intn(700)-350)
			}
			add(b.String(), "generated-long")
		}
	}
	return
}

// elSearch looks for Eisel-Lemire bail-out candidates at every table exponent (xHi low bits all ones).
func elCandidates(c *Ctx) (pool []string) {
	r := c.Rng
	n := c.scale(20, 400)
	for e := -348; e <= 347; e++ {
		for k := 0; k < n; k++ {
			m := r.Uint64()
			if k%2 == 0 {
				m |= 1 << 63
			}
			pool = append(pool, fmt.Sprintf("%d %d false", m, e))
		}
	}
	return
}

func init() {
	suites["C04"] = func(c *Ctx) (string, error) {
		s := c.Suite
		var cases []Case
		lits, cl := floatLiterals(c)
		follow := []string{"", " ", ",", "]", "}", "x", ".", "e", "-", "\x00"}
		for i, lit := range lits {
			d := []byte(lit + follow[i%len(follow)])
			if i%7 == 0 {
				d = append([]byte(" \n"), d...)
			}
			h := hx(d)
			impl := runAPI("ReadFloat64", []string{h})
			cases = append(cases, Case{Line: "ReadFloat64 " + h, Impl: impl, Class: cl[i]})
			cases = append(cases, specCase(cl[i]+":spec", "specFloat "+h, okErr(impl, true)))
			if i%5 == 0 {
				cases = append(cases, apiCase("decode", "DecodeFloat64", h, "4607182418800017408"))
				cases = append(cases, apiCase("readvalue", "ReadValue", hx([]byte("["+lit+"]"))))
			}
			// strconv as a second oracle for well-formed literals followed by a delimiter
			if f := follow[i%len(follow)]; f == "" || f == " " || f == "," || f == "]" || f == "}" {
				s.Evaluations++
				want, err := strconv.ParseFloat(lit, 64)
				fi := strings.Fields(impl)
				if err == nil && !(len(fi) == 3 && fi[0] == "ok" && fi[1] == strconv.FormatUint(math.Float64bits(want), 10)) {
					// strconv itself mis-places the decimal point of >800-digit integers (same port); the Lean specification decides those
					if len(lit) < 800 {
						s.Violation("ReadFloat64 "+h, impl, fmt.Sprintf("ok %d", math.Float64bits(want)), "vs-strconv", "differs from strconv.ParseFloat")
					}
				}
				if err != nil && len(fi) > 0 && fi[0] == "ok" && len(lit) < 800 {
					s.Violation("ReadFloat64 "+h, impl, "error ("+err.Error()+")", "vs-strconv", "accepted where strconv.ParseFloat reports an error")
				}
			}
		}
		// internals: the three conversion paths separately, against the model
		for _, a := range elCandidates(c) {
			f := strings.Fields(a)
			cases = append(cases, apiCase("eisel-lemire", "fpEL", f[0], f[1], f[2]))
			if m, _ := strconv.ParseUint(f[0], 10, 64); m>>52 == 0 {
				cases = append(cases, apiCase("exact", "fpExact", f[0], f[1], f[2]))
			}
		}
		for e := -25; e <= 40; e++ {
			for _, m := range []uint64{0, 1, 3, 1 << 52, 1<<52 - 1, 1<<53 - 1, 1 << 53, 123456789, 999999999999999, 1000000000000000, 1000000000000001, 4503599627370495} {
				cases = append(cases, apiCase("exact", "fpExact", fmt.Sprint(m), fmt.Sprint(e), "false"), apiCase("exact", "fpExact", fmt.Sprint(m), fmt.Sprint(e), "true"))
			}
		}
		for i, lit := range lits {
			if i%3 == 0 {
				h := hx([]byte(lit))
				cases = append(cases, apiCase("readFloat", "fpReadFloat", h), apiCase("decimal", "fpDecimal", h))
			}
		}
		if err := s.Run(cases); err != nil {
			return "", err
		}
		// which conversion path did each literal take? (model-side; goes into the evidence histogram)
		var lines []string
		for _, lit := range lits {
			lines = append(lines, "FloatPath "+hx([]byte(lit)))
		}
		outs, err := c.Model.Query(lines)
		if err != nil {
			return "", err
		}
		for _, o := range outs {
			s.Classes["path:"+o]++
		}
		return "ReadFloat64 on: every Eisel-Lemire table exponent with 6-12 mantissa classes, exact halfway points between adjacent doubles (random, subnormal, smallest-normal, largest-finite, integer range) with ±1 neighbours, long tails beyond 800 digits and exponent-form respellings, 19-21 digit mantissas around 2^64, fast-path exponent limits, thresholds and zeros, generated literals; compared with the model (path histogram in input_classes), the Lean specification (roundDec of the exact decimal value) and strconv.ParseFloat; readFloat/atof64exact/eiselLemire64/decimal compared separately with their models", nil
	}
}
