import RJson.Model.Cover
import RJson.Model.Label
/-! `modeld`: line-protocol driver. One operation per input line, one result line per operation.
    Core-only (no Mathlib), so it links as a `lean_exe`. -/

partial def loop (h : IO.FS.Stream) (out : IO.FS.Stream) : IO Unit := do
  let line ← h.getLine
  if line.isEmpty then
    out.flush
    return ()
  let l := line.trimAscii.toString
  match l.splitOn " " with
  | ["cover", name, maxStack] =>
    match RJson.Driver.machineByName name, maxStack.toNat? with
    | some M, some k =>
      for ln in RJson.Cover.coverLines M k do out.putStrLn ln
      out.putStrLn "end-cover"
    | _, _ => out.putStrLn "bad-op"
  | ["labels", name, kind] =>
    let res : Option (Option String × String) :=
      match RJson.Driver.machineByName name with
      | none => none
      | some M =>
        let big (k : RJson.Abs.Kind) :=
          let st := RJson.Label.label RJson.Label.asStr M (RJson.Abs.machine k)
          some (st.err, RJson.Label.render RJson.Label.asStr "labels" st)
        let lit (k : RJson.AbsSmall.LKind) :=
          let st := RJson.Label.label RJson.Label.lsStr M (RJson.AbsSmall.lmachine k)
          some (st.err, RJson.Label.render RJson.Label.lsStr "labels" st)
        let str (k : RJson.AbsSmall.SKind) :=
          let st := RJson.Label.label RJson.Label.ssStr M (RJson.AbsSmall.smachine k)
          some (st.err, RJson.Label.render RJson.Label.ssStr "labels" st)
        match kind with
        | "skip" => big .skip | "fast" => big .fast | "harr" => big .harr | "hobj" => big .hobj
        | "null" => lit .null | "bool" => lit .bool
        | "append" => str .append | "unescape" => str .unescape
        | _ => none
    match res with
    | some (some e, _) => out.putStrLn ("MISMATCH " ++ e); out.putStrLn "end-labels"
    | some (none, txt) => out.putStrLn txt; out.putStrLn "end-labels"
    | none => out.putStrLn "bad-op"
  | ["flush"] => out.flush
  | _ => out.putStrLn (RJson.Driver.runLine l)
  loop h out

def main : IO Unit := do
  let stdin ← IO.getStdin
  let stdout ← IO.getStdout
  loop stdin stdout
