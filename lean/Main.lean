import RJson.Model.Cover
import RJson.Model.Label
/-! `modeld`: line-protocol driver. One operation per input line, one result line per operation.
    Core-only (no Mathlib), so it links as a `lean_exe`. -/

partial def loop (h : IO.FS.Stream) (out : IO.FS.Stream) : IO Unit := do
  let line ← h.getLine
  if line.isEmpty then
    out.flush
    return ()
  let l := line.trimAscii.toString
  match l.splitOn " " with
  | ["cover", name, maxStack] =>
    match RJson.Driver.machineByName name, maxStack.toNat? with
    | some M, some k =>
      for ln in RJson.Cover.coverLines M k do out.putStrLn ln
      out.putStrLn "end-cover"
    | _, _ => out.putStrLn "bad-op"
  | ["labels", name, kind] =>
    let k? : Option RJson.Abs.Kind := match kind with
      | "skip" => some .skip | "fast" => some .fast | "harr" => some .harr | "hobj" => some .hobj | _ => none
    match RJson.Driver.machineByName name, k? with
    | some M, some k =>
      let st := RJson.Label.label M (RJson.Abs.machine k)
      match st.err with
      | some e => out.putStrLn ("MISMATCH " ++ e)
      | none => out.putStrLn (RJson.Label.render "labels" st)
      out.putStrLn "end-labels"
    | _, _ => out.putStrLn "bad-op"
  | ["flush"] => out.flush
  | _ => out.putStrLn (RJson.Driver.runLine l)
  loop h out

def main : IO Unit := do
  let stdin ← IO.getStdin
  let stdout ← IO.getStdout
  loop stdin stdout
