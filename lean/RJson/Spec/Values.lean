import RJson.Spec.Scanner
import RJson.Spec.Float
/-!
# Value-level specification (hand-written, independent of /repo)

* `decodeString`: content of a JSON string body per RFC 8259 (surrogate pairs combined, unpaired surrogates
  → U+FFFD, every other byte copied).
* `intToken` / `numberValue`: mathematical value of integer / number literals.
* `traverseArray` / `traverseObject`: the member list of the first array / object.
* `decodeValue`: the value tree (numbers correctly rounded to binary64, objects last-duplicate-wins).
* `sanitize`: replacement of bytes that are not part of a well-formed UTF-8 sequence (Unicode Table 3-7).
-/
namespace RJson.Spec

/-! ## UTF-8 -/

def utf8EncodeScalar (r : Nat) : List UInt8 :=
  if r < 0x80 then [UInt8.ofNat r]
  else if r < 0x800 then [UInt8.ofNat (0xC0 + r / 64), UInt8.ofNat (0x80 + r % 64)]
  else if r < 0x10000 then [UInt8.ofNat (0xE0 + r / 4096), UInt8.ofNat (0x80 + r / 64 % 64), UInt8.ofNat (0x80 + r % 64)]
  else [UInt8.ofNat (0xF0 + r / 262144), UInt8.ofNat (0x80 + r / 4096 % 64), UInt8.ofNat (0x80 + r / 64 % 64), UInt8.ofNat (0x80 + r % 64)]

def replacement : List UInt8 := [0xEF, 0xBF, 0xBD]

def cont (b : UInt8) : Bool := 0x80 ≤ b && b ≤ 0xBF

/-- length of the well-formed UTF-8 sequence at the head of the input (Unicode Table 3-7), if any -/
def wellFormedLen : List UInt8 → Option Nat
  | [] => none
  | b0 :: rest =>
    if b0 < 0x80 then some 1
    else if 0xC2 ≤ b0 && b0 ≤ 0xDF then
      match rest with
      | b1 :: _ => if cont b1 then some 2 else none
      | _ => none
    else if 0xE0 ≤ b0 && b0 ≤ 0xEF then
      match rest with
      | b1 :: b2 :: _ =>
        let ok1 := if b0 == 0xE0 then 0xA0 ≤ b1 && b1 ≤ 0xBF else if b0 == 0xED then 0x80 ≤ b1 && b1 ≤ 0x9F else cont b1
        if ok1 && cont b2 then some 3 else none
      | _ => none
    else if 0xF0 ≤ b0 && b0 ≤ 0xF4 then
      match rest with
      | b1 :: b2 :: b3 :: _ =>
        let ok1 := if b0 == 0xF0 then 0x90 ≤ b1 && b1 ≤ 0xBF else if b0 == 0xF4 then 0x80 ≤ b1 && b1 ≤ 0x8F else cont b1
        if ok1 && cont b2 && cont b3 then some 4 else none
      | _ => none
    else none

/-- greedy sanitisation: copy a well-formed sequence, otherwise emit U+FFFD and advance one byte -/
def sanitize : Nat → List UInt8 → List UInt8
  | 0, _ => []
  | _, [] => []
  | fuel+1, b :: rest =>
    match wellFormedLen (b :: rest) with
    | some n => (b :: rest).take n ++ sanitize fuel ((b :: rest).drop n)
    | none => replacement ++ sanitize fuel rest

def sanitizeAll (l : List UInt8) : List UInt8 := sanitize (l.length + 1) l

def utf8Valid : Nat → List UInt8 → Bool
  | 0, l => l.isEmpty
  | _, [] => true
  | fuel+1, b :: rest =>
    match wellFormedLen (b :: rest) with
    | some n => utf8Valid fuel ((b :: rest).drop n)
    | none => false

/-! ## strings -/

def hexVal (c : UInt8) : Nat :=
  if 48 ≤ c && c ≤ 57 then c.toNat - 48
  else if 97 ≤ c && c ≤ 102 then c.toNat - 87
  else c.toNat - 55

def hex4 (a b c d : UInt8) : Nat := ((hexVal a * 16 + hexVal b) * 16 + hexVal c) * 16 + hexVal d

def simpleEscape (e : UInt8) : UInt8 :=
  if e == 98 then 8 else if e == 102 then 12 else if e == 110 then 10 else if e == 114 then 13 else if e == 116 then 9 else e

def isHighSurrogate (r : Nat) : Bool := 0xD800 ≤ r && r < 0xDC00
def isLowSurrogate (r : Nat) : Bool := 0xDC00 ≤ r && r < 0xE000

/-- decoded content of a (well-formed) string body -/
def decodeString : Nat → List UInt8 → List UInt8
  | 0, _ => []
  | _, [] => []
  | fuel+1, 92 :: 117 :: a :: b :: c :: d :: rest =>
    let r := hex4 a b c d
    if isHighSurrogate r then
      match rest with
      | 92 :: 117 :: a2 :: b2 :: c2 :: d2 :: rest2 =>
        if isHex a2 && isHex b2 && isHex c2 && isHex d2 && isLowSurrogate (hex4 a2 b2 c2 d2) then
          utf8EncodeScalar (0x10000 + (r - 0xD800) * 1024 + (hex4 a2 b2 c2 d2 - 0xDC00)) ++ decodeString fuel rest2
        else replacement ++ decodeString fuel rest
      | _ => replacement ++ decodeString fuel rest
    else if isLowSurrogate r then replacement ++ decodeString fuel rest
    else utf8EncodeScalar r ++ decodeString fuel rest
  | fuel+1, 92 :: e :: rest => simpleEscape e :: decodeString fuel rest
  | fuel+1, x :: rest => x :: decodeString fuel rest

/-- body of the string token at the head (after the opening quote): `(body, rest after the closing quote)` -/
def splitString (l : List UInt8) : Option (List UInt8 × List UInt8) :=
  match scanStringBody l with
  | some rest => some (l.take (l.length - rest.length - 1), rest)
  | none => none

/-- string token after optional whitespace: `(decoded content, end offset)` -/
def readString (data : List UInt8) : Option (List UInt8 × Nat) :=
  match skipWs data with
  | 34 :: l =>
    match splitString l with
    | some (body, rest) => some (decodeString (body.length + 1) body, data.length - rest.length)
    | none => none
  | _ => none

/-! ## numbers -/

def digitsVal : List UInt8 → Nat → Nat
  | [], acc => acc
  | b :: rest, acc => digitsVal rest (acc * 10 + (b.toNat - 48))

def takeDigits : List UInt8 → List UInt8
  | b :: rest => if isDigit b then b :: takeDigits rest else []
  | [] => []

/-- the digits of an unsigned integer literal at the head: a single `0`, or a maximal digit run starting with `1`-`9` -/
def uintDigitsOf (l : List UInt8) : List UInt8 :=
  match l with
  | 48 :: _ => [48]
  | d :: _ => if 49 ≤ d && d ≤ 57 then takeDigits l else []
  | [] => []

/-- unsigned integer literal `0 | [1-9][0-9]*` at the head, not followed by `.`/`e`/`E`: `(value, rest)` -/
def uintToken (l : List UInt8) : Option (Nat × List UInt8) :=
  if (uintDigitsOf l).isEmpty then none
  else
    match l.drop (uintDigitsOf l).length with
    | c :: _ => if c == 46 || c == 101 || c == 69 then none else some (digitsVal (uintDigitsOf l) 0, l.drop (uintDigitsOf l).length)
    | [] => some (digitsVal (uintDigitsOf l) 0, l.drop (uintDigitsOf l).length)

/-- integer literal `-? (0 | [1-9][0-9]*)` at the head, not followed by `.`/`e`/`E`: `(value, negative?, rest)` -/
def intToken (l : List UInt8) : Option (Int × Bool × List UInt8) :=
  match l with
  | 45 :: t => (uintToken t).map (fun (v, rest) => (-(v : Int), true, rest))
  | l => (uintToken l).map (fun (v, rest) => ((v : Int), false, rest))

/-- typed integer reader: `(value, end offset)` when the token fits `[lo, hi]` (and is unsigned when `!signed`) -/
def readInt (lo hi : Int) (signed : Bool) (data : List UInt8) : Option (Int × Nat) :=
  match intToken (skipWs data) with
  | some (v, neg, rest) =>
    if (neg && !signed) || v < lo || v > hi then none else some (v, data.length - rest.length)
  | none => none

/-- digits of the exponent with its sign (`t` = what follows the `e`) -/
def expSigned : List UInt8 → Int
  | 43 :: t' => (digitsVal (takeDigits t') 0 : Int)
  | 45 :: t' => -1 * (digitsVal (takeDigits t') 0 : Int)
  | t => (digitsVal (takeDigits t) 0 : Int)

/-- value of the exponent part (`l` = what follows the mantissa: nothing, or `e`/`E` …) -/
def expValue : List UInt8 → Int
  | _ :: t => expSigned t
  | [] => 0

/-- fraction digits and what follows them (`l` = what follows the integer digits) -/
def fracSplit : List UInt8 → List UInt8 × List UInt8
  | 46 :: t => (takeDigits t, t.drop (takeDigits t).length)
  | l => ([], l)

/-- unsigned part of a number literal: `(mantissa digits as a natural number, decimal exponent)` -/
def numberValue1 (l : List UInt8) : Nat × Int :=
  let ip := takeDigits l
  let fr := fracSplit (l.drop ip.length)
  (digitsVal (ip ++ fr.1) 0, expValue fr.2 - fr.1.length)

/-- exact value of a number literal: `(neg, mantissa digits as a natural number, decimal exponent)` -/
def numberValue : List UInt8 → Bool × Nat × Int
  | 45 :: t => (true, numberValue1 t)
  | l => (false, numberValue1 l)

/-- number token after optional whitespace: correctly rounded binary64 bits, end offset; `none` on malformed or overflow -/
def readFloat (data : List UInt8) : Option (Nat × Nat) :=
  let l := skipWs data
  match scanNumber l with
  | some rest =>
    let lit := l.take (l.length - rest.length)
    let (neg, m, e) := numberValue lit
    let (bits, ovf) := roundDec neg m e
    if ovf then none else some (bits, data.length - rest.length)
  | none => none

/-! ## tokens -/

/-- the fixed JSON token table: 0 invalid, 1 null, 2 string, 3 number, 4 true, 5 false, 6 `{`, 7 `}`, 8 `[`, 9 `]`, 10 `,`, 11 `:` -/
def tokenType (b : UInt8) : Nat :=
  if b == 110 then 1 else if b == 34 then 2 else if b == 45 || isDigit b then 3
  else if b == 116 then 4 else if b == 102 then 5 else if b == 123 then 6 else if b == 125 then 7
  else if b == 91 then 8 else if b == 93 then 9 else if b == 44 then 10 else if b == 58 then 11 else 0

/-- `NextTokenType`: `none` = end of input; else (type, index + 1) of the first non-whitespace byte -/
def nextTokenType (data : List UInt8) : Option (Nat × Nat) :=
  match skipWs data with
  | [] => none
  | b :: rest => some (tokenType b, data.length - rest.length)

/-- `NextToken`: `none` = end of input; else (byte, valid?, index + 1) -/
def nextToken (data : List UInt8) : Option (UInt8 × Bool × Nat) :=
  match skipWs data with
  | [] => none
  | b :: rest => some (b, tokenType b != 0, data.length - rest.length)

/-! ## traversal -/

structure Member where
  field : List UInt8      -- raw bytes between the key's quotes (objects)
  off : Nat               -- offset of the first byte of the member's value
  deriving Repr

/-- members of an array body (after `[`); `total` = length of the whole input -/
def arrMembers (total : Nat) : Nat → Bool → List UInt8 → List Member → Option (List Member × List UInt8)
  | 0, _, _, _ => none
  | fuel+1, first, l, acc =>
    match skipWs l with
    | [] => none
    | b :: rest =>
      if b == 93 then some (acc.reverse, rest)
      else
        let start : Option (List UInt8) := if first then some (b :: rest) else if b == 44 then some (skipWs rest) else none
        match start with
        | none => none
        | some v =>
          match scanValue none (2 * v.length + 2) 0 v with
          | none => none
          | some r => arrMembers total fuel false r ({ field := [], off := total - v.length } :: acc)

def objMembers (total : Nat) : Nat → Bool → List UInt8 → List Member → Option (List Member × List UInt8)
  | 0, _, _, _ => none
  | fuel+1, first, l, acc =>
    match skipWs l with
    | [] => none
    | b :: rest =>
      if b == 125 then some (acc.reverse, rest)
      else
        let start : Option (List UInt8) := if first then some (b :: rest) else if b == 44 then some (skipWs rest) else none
        match start with
        | some (34 :: k) =>
          match splitString k with
          | none => none
          | some (body, r1) =>
            match skipWs r1 with
            | 58 :: r2 =>
              let v := skipWs r2
              match scanValue none (2 * v.length + 2) 0 v with
              | none => none
              | some r => objMembers total fuel false r ({ field := body, off := total - v.length } :: acc)
            | _ => none
        | _ => none

/-- `HandleArrayValues` on a well-formed input: members and end offset (`null` → no members) -/
def traverseArray (data : List UInt8) : Option (List Member × Nat) :=
  match skipWs data with
  | 91 :: rest =>
    match arrMembers data.length (data.length + 1) true rest [] with
    | some (ms, r) => some (ms, data.length - r.length)
    | none => none
  | l => match scanLit [110, 117, 108, 108] l with
    | some r => some ([], data.length - r.length)
    | none => none

def traverseObject (data : List UInt8) : Option (List Member × Nat) :=
  match skipWs data with
  | 123 :: rest =>
    match objMembers data.length (data.length + 1) true rest [] with
    | some (ms, r) => some (ms, data.length - r.length)
    | none => none
  | l => match scanLit [110, 117, 108, 108] l with
    | some r => some ([], data.length - r.length)
    | none => none

/-- nesting depth of a document: the largest number of containers open at the same time (brackets inside strings do
    not count). Independent of the scanner; used as an observation oracle for the stack height (C19). -/
def nestDepth (l : List UInt8) : Nat :=
  let rec go : List UInt8 → Bool → Bool → Nat → Nat → Nat
    | [], _, _, _, m => m
    | b :: t, inStr, esc, cur, m =>
      if inStr then
        if esc then go t true false cur m
        else if b == 92 then go t true true cur m
        else if b == 34 then go t false false cur m
        else go t true false cur m
      else if b == 34 then go t true false cur m
      else if b == 91 || b == 123 then go t false false (cur + 1) (max m (cur + 1))
      else if b == 93 || b == 125 then go t false false (cur - 1) m
      else go t false false cur m
  go l false false 0 0

/-! ## value trees -/

inductive JVal
  | null | bool (b : Bool) | num (bits : Nat) | str (s : List UInt8)
  | arr (xs : List JVal) | obj (kvs : List (List UInt8 × JVal))     -- in document order, duplicates kept
  deriving Inhabited

mutual
/-- decode the value at the head (whitespace skipped): `(tree, rest)`; `depth` = enclosing containers -/
def decodeValue (maxDepth : Nat) : Nat → Nat → List UInt8 → Option (JVal × List UInt8)
  | 0, _, _ => none
  | _+1, _, [] => none
  | fuel+1, depth, b :: rest =>
    if b == 34 then
      match splitString rest with
      | some (body, r) => some (.str (decodeString (body.length + 1) body), r)
      | none => none
    else if b == 116 then (scanLit [114, 117, 101] rest).map (fun r => (.bool true, r))
    else if b == 102 then (scanLit [97, 108, 115, 101] rest).map (fun r => (.bool false, r))
    else if b == 110 then (scanLit [117, 108, 108] rest).map (fun r => (.null, r))
    else if b == 91 then
      if depth == maxDepth then none else decodeArr maxDepth fuel (depth+1) true rest []
    else if b == 123 then
      if depth == maxDepth then none else decodeObj maxDepth fuel (depth+1) true rest []
    else
      match scanNumber (b :: rest) with
      | some r =>
        let lit := (b :: rest).take ((b :: rest).length - r.length)
        let (neg, m, e) := numberValue lit
        let (bits, ovf) := roundDec neg m e
        if ovf then none else some (.num bits, r)
      | none => none
def decodeArr (maxDepth : Nat) : Nat → Nat → Bool → List UInt8 → List JVal → Option (JVal × List UInt8)
  | 0, _, _, _, _ => none
  | fuel+1, depth, first, l, acc =>
    match skipWs l with
    | [] => none
    | b :: rest =>
      if b == 93 then some (.arr acc.reverse, rest)
      else
        let start : Option (List UInt8) := if first then some (b :: rest) else if b == 44 then some (skipWs rest) else none
        match start with
        | none => none
        | some v =>
          match decodeValue maxDepth fuel depth v with
          | none => none
          | some (x, r) => decodeArr maxDepth fuel depth false r (x :: acc)
def decodeObj (maxDepth : Nat) : Nat → Nat → Bool → List UInt8 → List (List UInt8 × JVal) → Option (JVal × List UInt8)
  | 0, _, _, _, _ => none
  | fuel+1, depth, first, l, acc =>
    match skipWs l with
    | [] => none
    | b :: rest =>
      if b == 125 then some (.obj acc.reverse, rest)
      else
        let start : Option (List UInt8) := if first then some (b :: rest) else if b == 44 then some (skipWs rest) else none
        match start with
        | some (34 :: k) =>
          match splitString k with
          | none => none
          | some (body, r1) =>
            match skipWs r1 with
            | 58 :: r2 =>
              match decodeValue maxDepth fuel depth (skipWs r2) with
              | none => none
              | some (x, r) => decodeObj maxDepth fuel depth false r ((decodeString (body.length + 1) body, x) :: acc)
            | _ => none
        | _ => none
end

/-- `ReadValue`: tree and end offset -/
def readValue (maxDepth : Nat) (data : List UInt8) : Option (JVal × Nat) :=
  match decodeValue maxDepth (2 * data.length + 2) 0 (skipWs data) with
  | some (v, rest) => some (v, data.length - rest.length)
  | none => none

end RJson.Spec
