/-!
# IEEE-754 binary64 rounding of exact rationals (specification)

`roundRat neg n d` is the binary64 bit pattern nearest to `±n/d` (ties to even), with overflow flag when the
rounded magnitude exceeds the largest finite double. Pure `Nat`/`Int` arithmetic, no floats.
Hand-written, independent of /repo.
-/
namespace RJson.Spec

def signBit (neg : Bool) : Nat := if neg then 2^63 else 0

/-- `⌊n / (d · 2^e)⌋` and whether the remainder is `<`, `=`, `>` half: returns `(q, cmpHalf)` with
    `cmpHalf = 0` (exact), `1` (below half), `2` (exactly half), `3` (above half) -/
def divPow2 (n d : Nat) (e : Int) : Nat × Nat :=
  let num := if e < 0 then n * 2 ^ (-e).toNat else n
  let den := if e < 0 then d else d * 2 ^ e.toNat
  let q := num / den
  let r := num % den
  let c := if r == 0 then 0 else if 2 * r < den then 1 else if 2 * r == den then 2 else 3
  (q, c)

/-- round-to-nearest-even of `q + fraction` given the comparison of the fraction with one half -/
def roundHalfEven (q c : Nat) : Nat :=
  if c == 3 then q + 1 else if c == 2 then (if q % 2 == 1 then q + 1 else q) else q

/-- bits of the double nearest to `n/d` (`d > 0`), and the overflow flag -/
def roundRat (neg : Bool) (n d : Nat) : Nat × Bool :=
  if n == 0 || d == 0 then (signBit neg, false)
  else
    -- n/d ∈ [2^(k-1), 2^(k+1)) for k = log2 n - log2 d
    let k : Int := (Nat.log2 n : Int) - (Nat.log2 d : Int)
    let e0 : Int := k - 52
    let q0 := (divPow2 n d e0).1
    let e1 : Int := if q0 ≥ 2^53 then e0 + 1 else if q0 < 2^52 then e0 - 1 else e0
    let e : Int := if e1 < -1074 then -1074 else e1
    let (q, c) := divPow2 n d e
    let m := roundHalfEven q c
    let (m, e) : Nat × Int := if m == 2^53 then (2^52, e + 1) else (m, e)
    if m < 2^52 then (signBit neg + m, false)                       -- subnormal (e = -1074)
    else
      let biased : Int := e + 1075
      if biased ≥ 2047 then (signBit neg + 2047 * 2^52, true)       -- ±Inf
      else (signBit neg + biased.toNat * 2^52 + (m - 2^52), false)

/-- exact value of a finite double as a rational `(neg, num, den)` -/
def bitsToRat (bits : Nat) : Bool × Nat × Nat :=
  let neg := bits / 2^63 % 2 == 1
  let ex : Nat := bits / 2^52 % 2048
  let fr : Nat := bits % 2^52
  let (m, e) : Nat × Int := if ex == 0 then (fr, -1074) else (fr + 2^52, (ex : Int) - 1075)
  if e ≥ 0 then (neg, m * 2 ^ e.toNat, 1) else (neg, m, 2 ^ (-e).toNat)

/-- `10^e` as a rational `(num, den)` -/
def pow10Rat (e : Int) : Nat × Nat := if e ≥ 0 then (10 ^ e.toNat, 1) else (1, 10 ^ (-e).toNat)

/-- nearest double to `man · 10^e`. The two shortcuts only avoid astronomically large powers of ten:
    `man ≥ 1` and `e > 400` gives a value `≥ 10^401` (beyond the largest double, `< 1.8·10^308`: overflow);
    `man < 2^(log2 man + 1) ≤ 10^(log2 man + 1)`, so `e + log2 man + 1 < -400` gives a value `< 10^-400`, below half
    the smallest subnormal (`≈ 2.47·10^-324`): it rounds to zero. -/
def roundDec (neg : Bool) (man : Nat) (e : Int) : Nat × Bool :=
  if man == 0 then (signBit neg, false)
  else if e > 400 then (signBit neg + 2047 * 2^52, true)
  else if e + (Nat.log2 man : Int) + 1 < -400 then (signBit neg, false)
  else
    let (pn, pd) := pow10Rat e
    roundRat neg (man * pn) pd

end RJson.Spec
