import RJson.Model.Basic
/-!
# Functional reference scanner for RFC 8259 (hand-written, independent of /repo)

`List UInt8 → Option (rest)` functions: a token/value scanner returns the input that follows the token it
recognised (maximal munch, no back-tracking once a number has committed to a fraction or exponent), or `none`.
This is the executable specification used (a) as oracle by `modeld`, (b) as the right-hand side of the
refinement theorems. `Spec/Grammar.lean` relates it to a declarative grammar.
-/
namespace RJson.Spec

def skipWs : List UInt8 → List UInt8
  | b :: rest => if isWs b then skipWs rest else b :: rest
  | [] => []

/-- drop a maximal run of digits -/
def skipDigits : List UInt8 → List UInt8
  | b :: rest => if isDigit b then skipDigits rest else b :: rest
  | [] => []

def isHex (b : UInt8) : Bool := (48 ≤ b && b ≤ 57) || (97 ≤ b && b ≤ 102) || (65 ≤ b && b ≤ 70)

/-- the bytes that may follow a backslash (other than `u`) -/
def isSimpleEscape (b : UInt8) : Bool :=
  b == 34 || b == 92 || b == 47 || b == 98 || b == 102 || b == 110 || b == 114 || b == 116

/-- after the opening quote: the input after the closing quote -/
def scanStringBody : List UInt8 → Option (List UInt8)
  | [] => none
  | 34 :: rest => some rest
  | 92 :: 117 :: a :: b :: c :: d :: rest =>
    if isHex a && isHex b && isHex c && isHex d then scanStringBody rest else none
  | 92 :: e :: rest => if isSimpleEscape e then scanStringBody rest else none
  | [92] => none
  | x :: rest => if x < 32 then none else scanStringBody rest

/-- optional exponent -/
def scanExp : List UInt8 → Option (List UInt8)
  | e :: t =>
    if e == 101 || e == 69 then
      let t1 := match t with
        | s :: t' => if s == 43 || s == 45 then t' else s :: t'
        | [] => []
      match t1 with
      | d :: t2 => if isDigit d then some (skipDigits t2) else none
      | [] => none
    else some (e :: t)
  | [] => some []

/-- optional fraction, then optional exponent -/
def scanFrac : List UInt8 → Option (List UInt8)
  | 46 :: t =>
    match t with
    | d :: t' => if isDigit d then scanExp (skipDigits t') else none
    | [] => none
  | l => scanExp l

/-- `(0 | [1-9][0-9]*) frac? exp?` -/
def scanNum1 : List UInt8 → Option (List UInt8)
  | 48 :: t => scanFrac t
  | d :: t => if 49 ≤ d && d ≤ 57 then scanFrac (skipDigits t) else none
  | [] => none

/-- `-? (0 | [1-9][0-9]*) frac? exp?` -/
def scanNumber : List UInt8 → Option (List UInt8)
  | 45 :: t => scanNum1 t
  | l => scanNum1 l

def scanLit (lit : List UInt8) (l : List UInt8) : Option (List UInt8) :=
  if lit.isPrefixOf l then some (l.drop lit.length) else none

mutual
/-- a value starts at the head of the input (whitespace already skipped); `depth` = number of enclosing
    containers that count against `maxDepth` (`none` = unlimited) -/
def scanValue (maxDepth : Option Nat) : Nat → Nat → List UInt8 → Option (List UInt8)
  | 0, _, _ => none
  | _+1, _, [] => none
  | fuel+1, depth, b :: rest =>
    if b == 34 then scanStringBody rest
    else if b == 116 then scanLit [114, 117, 101] rest
    else if b == 102 then scanLit [97, 108, 115, 101] rest
    else if b == 110 then scanLit [117, 108, 108] rest
    else if b == 91 then
      if maxDepth == some depth then none else scanArr maxDepth fuel (depth+1) true rest
    else if b == 123 then
      if maxDepth == some depth then none else scanObj maxDepth fuel (depth+1) true rest
    else scanNumber (b :: rest)
/-- inside an array, after `[` (`first`) or after a member -/
def scanArr (maxDepth : Option Nat) : Nat → Nat → Bool → List UInt8 → Option (List UInt8)
  | 0, _, _, _ => none
  | fuel+1, depth, first, l =>
    match skipWs l with
    | [] => none
    | b :: rest =>
      if b == 93 then some rest
      else if first then
        match scanValue maxDepth fuel depth (b :: rest) with
        | none => none
        | some r => scanArr maxDepth fuel depth false r
      else if b == 44 then
        match scanValue maxDepth fuel depth (skipWs rest) with
        | none => none
        | some r => scanArr maxDepth fuel depth false r
      else none
/-- inside an object, after `{` (`first`) or after a member -/
def scanObj (maxDepth : Option Nat) : Nat → Nat → Bool → List UInt8 → Option (List UInt8)
  | 0, _, _, _ => none
  | fuel+1, depth, first, l =>
    match skipWs l with
    | [] => none
    | b :: rest =>
      if b == 125 then some rest
      else
        let afterSep : Option (List UInt8) :=
          if first then some (b :: rest) else if b == 44 then some (skipWs rest) else none
        match afterSep with
        | some (34 :: krest) =>
          match scanStringBody krest with
          | none => none
          | some r1 =>
            match skipWs r1 with
            | 58 :: r2 =>
              match scanValue maxDepth fuel depth (skipWs r2) with
              | none => none
              | some r3 => scanObj maxDepth fuel depth false r3
            | _ => none
        | _ => none
end

/-- end offset of the first value of `data` (after optional whitespace), nesting limited by `maxDepth` -/
def valueEnd (maxDepth : Option Nat) (data : List UInt8) : Option Nat :=
  match scanValue maxDepth (2 * data.length + 2) 0 (skipWs data) with
  | some rest => some (data.length - rest.length)
  | none => none

/-- `Valid`: one value surrounded by optional whitespace -/
def validDoc (maxDepth : Nat) (data : List UInt8) : Bool :=
  match scanValue (some maxDepth) (2 * data.length + 2) 0 (skipWs data) with
  | some rest => (skipWs rest).isEmpty
  | none => false

end RJson.Spec
