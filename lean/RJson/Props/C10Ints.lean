import RJson.Model.ApiChecked
import RJson.Gen.Facts
/-!
# C10 — the hand-written token and integer readers never index or slice out of range

`Model.ApiChecked` restates `NextToken`, `NextTokenType`, `ReadUint64` (on `data[off:]`, as `ReadInt64` calls it) and
`ReadInt64` with every `data[p]` and `data[p:]` of the Go source as an explicit test, `none` standing for the run-time
panic. For **every** input the checked function returns `some` of what the unchecked model (`Model.Api`, the one the
correspondence run executes against the Go code) returns: no index expression of these functions can be out of range.
`ReadInt32`, `ReadUint32`, `ReadInt`, `ReadUint` and the `Decode*` wrappers contain no index expression of their own.
-/
namespace RJson.C10
open RJson.Model

theorem get_bang (data : Bytes) (p : Nat) (b : UInt8) (h : data[p]? = some b) : data[p]! = b := by
  simp [getElem!_def, h]

theorem get_some (data : Bytes) (p : Nat) (h : p < data.size) : ∃ b, data[p]? = some b :=
  ⟨data[p], by simp [h]⟩

theorem lt_of_get (data : Bytes) (p : Nat) (b : UInt8) (h : data[p]? = some b) : p < data.size := by
  rcases Nat.lt_or_ge p data.size with hlt | hge
  · exact hlt
  · have : data[p]? = none := by simp; omega
    rw [this] at h; cases h

theorem countWsFrom_le (data : Bytes) : ∀ (fuel p : Nat), p ≤ data.size → countWsFrom data fuel p ≤ data.size := by
  intro fuel
  induction fuel with
  | zero => intro p hp; simpa [countWsFrom] using hp
  | succ fuel ih =>
    intro p hp
    simp only [countWsFrom]
    cases hg : data[p]? with
    | none => exact hp
    | some b =>
      simp only []
      have hlt : p < data.size := lt_of_get data p b hg
      split
      · exact ih (p + 1) (by omega)
      · exact hp

theorem uintLoop1_le (data : Bytes) (s : Nat) : ∀ (fuel p : Nat) (v : UInt64), p ≤ data.size → (uintLoop1 data s fuel p v).1 ≤ data.size := by
  intro fuel
  induction fuel with
  | zero => intro p v hp; simpa [uintLoop1] using hp
  | succ fuel ih =>
    intro p v hp
    simp only [uintLoop1]
    cases hg : data[p]? with
    | none => exact hp
    | some b =>
      simp only []
      have hlt : p < data.size := lt_of_get data p b hg
      split
      · exact hp
      · exact ih (p + 1) _ (by omega)

theorem uintLoop2_le (data : Bytes) : ∀ (fuel p : Nat) (v : UInt64), p ≤ data.size → (uintLoop2 data fuel p v).1 ≤ data.size := by
  intro fuel
  induction fuel with
  | zero => intro p v hp; simpa [uintLoop2] using hp
  | succ fuel ih =>
    intro p v hp
    simp only [uintLoop2]
    cases hg : data[p]? with
    | none => exact hp
    | some b =>
      simp only []
      have hlt : p < data.size := lt_of_get data p b hg
      split
      · exact hp
      · split
        · exact hp
        · split
          · exact hp
          · exact ih (p + 1) _ (by omega)

theorem uintDigits_le (data : Bytes) (p : Nat) (hp : p ≤ data.size) : (uintDigits data p).1 ≤ data.size := by
  unfold uintDigits
  have h1 := uintLoop1_le data p (data.size - p) p 0 hp
  simp only []
  split
  · exact uintLoop2_le data _ _ _ h1
  · exact h1

theorem uintZeroC_eq (data : Bytes) (off p : Nat) (hp : p ≤ data.size) : uintZeroC data off p = some (uintZero data off p) := by
  unfold uintZeroC uintZero
  rw [if_neg (by omega)]
  by_cases he : (p == data.size) = true
  · rw [if_pos he, if_pos he]
  · rw [if_neg he, if_neg he]
    have hlt : p < data.size := by
      have : p ≠ data.size := by simpa using he
      omega
    obtain ⟨b, hb⟩ := get_some data p hlt
    rw [hb, get_bang data p b hb]
    simp only []
    split <;> rfl

theorem uintFinishC_eq (data : Bytes) (off s p : Nat) (v : UInt64) (hp : p ≤ data.size) :
    uintFinishC data off s p v = some (uintFinish data off s p v) := by
  unfold uintFinishC uintFinish
  by_cases h0 : (p - s == 0) = true
  · rw [if_pos h0, if_pos h0]
  · rw [if_neg h0, if_neg h0]
    by_cases he : (p == data.size) = true
    · rw [if_pos he, if_pos he]
    · rw [if_neg he, if_neg he]
      have hlt : p < data.size := by
        have : p ≠ data.size := by simpa using he
        omega
      obtain ⟨b, hb⟩ := get_some data p hlt
      rw [hb, get_bang data p b hb]
      simp only []
      split <;> rfl

/-- **`ReadUint64(data[off:])` never indexes or slices out of range** -/
theorem readUint64FromC_eq (data : Bytes) (off : Nat) (hoff : off ≤ data.size) :
    readUint64FromC data off = some (readUint64From data off) := by
  unfold readUint64FromC readUint64From
  rw [if_neg (by omega)]
  have hws := countWsFrom_le data data.size off hoff
  simp only []
  by_cases he : (countWsFrom data data.size off == data.size) = true
  · rw [if_pos he, if_pos he]
  · rw [if_neg he, if_neg he]
    have hlt : countWsFrom data data.size off < data.size := by
      have : countWsFrom data data.size off ≠ data.size := by simpa using he
      omega
    obtain ⟨b, hb⟩ := get_some data _ hlt
    rw [hb, get_bang data _ b hb]
    simp only []
    by_cases h48 : (b == 48) = true
    · rw [if_pos h48, if_pos h48]
      exact uintZeroC_eq data off _ (by omega)
    · rw [if_neg h48, if_neg h48]
      have hd := uintDigits_le data _ (Nat.le_of_lt hlt)
      generalize uintDigits data (countWsFrom data data.size off) = r at hd
      obtain ⟨pend, ov⟩ := r
      cases ov with
      | none => rfl
      | some v => exact uintFinishC_eq data off _ pend v hd

/-- **`ReadInt64` never indexes or slices out of range** -/
theorem readInt64AtC_eq (data : Bytes) (p : Nat) (hp : p ≤ data.size) : readInt64AtC data p = some (readInt64At data p) := by
  unfold readInt64AtC readInt64At
  simp only []
  by_cases he : (p == data.size) = true
  · rw [if_pos he, if_pos he]
  · rw [if_neg he, if_neg he]
    have hlt : p < data.size := by
      have : p ≠ data.size := by simpa using he
      omega
    obtain ⟨b0, hb0⟩ := get_some data p hlt
    rw [hb0, get_bang data p b0 hb0]
    simp only []
    cases hneg : (b0 == 45) with
    | false =>
      simp only [Bool.false_eq_true, if_false, Bool.not_false, if_true, Bool.false_and]
      rw [readUint64FromC_eq data p hp]
      simp only []
      generalize readUint64From data p = r
      cases r.err with
      | some e => rfl
      | none => simp only []; split <;> rfl
    | true =>
      simp only [if_true, Bool.not_true, Bool.false_eq_true, if_false, Bool.true_and]
      by_cases he2 : (p + 1 == data.size) = true
      · rw [if_pos he2]
        simp [he2]
      · rw [if_neg he2]
        have hlt2 : p + 1 < data.size := by
          have : p + 1 ≠ data.size := by simpa using he2
          omega
        obtain ⟨b, hb⟩ := get_some data (p + 1) hlt2
        rw [hb, get_bang data (p + 1) b hb]
        simp only [he2, Bool.false_or]
        cases hw : isWsT b with
        | true => simp
        | false =>
          simp only [Bool.false_eq_true, if_false]
          rw [readUint64FromC_eq data (p + 1) (by omega)]
          simp only []
          generalize readUint64From data (p + 1) = r
          cases r.err with
          | some e => rfl
          | none => simp only []; split <;> rfl

theorem readUint64C_eq (data : Bytes) : readUint64C data = some (readUint64 data) :=
  readUint64FromC_eq data 0 (Nat.zero_le _)

theorem readInt64C_eq (data : Bytes) : readInt64C data = some (readInt64 data) :=
  readInt64AtC_eq data _ (countWsFrom_le data data.size 0 (Nat.zero_le _))

/-- **`NextToken` never indexes out of range** -/
theorem nextTokenC_eq (data : Bytes) : nextTokenC data = some (nextToken data) := by
  unfold nextTokenC nextToken
  by_cases h0 : (data.size == 0) = true
  · rw [if_pos h0, if_pos h0]
  · rw [if_neg h0, if_neg h0]
    have hpos : 0 < data.size := by
      have : data.size ≠ 0 := by simpa using h0
      omega
    obtain ⟨b0, hb0⟩ := get_some data 0 hpos
    rw [hb0, get_bang data 0 b0 hb0]
    simp only []
    split
    · rfl
    · split
      · rfl
      · split
        · rfl
        · rename_i hge
          have hlt : countWhitespace data < data.size := by omega
          obtain ⟨b, hb⟩ := get_some data _ hlt
          rw [hb, get_bang data _ b hb]
          simp only []
          split <;> rfl

/-- **`NextTokenType` never indexes out of range** -/
theorem nextTokenTypeC_eq (data : Bytes) : nextTokenTypeC data = some (nextTokenType data) := by
  unfold nextTokenTypeC nextTokenType
  by_cases h0 : (data.size == 0) = true
  · rw [if_pos h0, if_pos h0]
  · rw [if_neg h0, if_neg h0]
    have hpos : 0 < data.size := by
      have : data.size ≠ 0 := by simpa using h0
      omega
    obtain ⟨b0, hb0⟩ := get_some data 0 hpos
    rw [hb0, get_bang data 0 b0 hb0]
    simp only []
    split
    · rfl
    · split
      · rfl
      · split
        · rfl
        · rename_i hge
          have hlt : countWhitespace data < data.size := by omega
          obtain ⟨b, hb⟩ := get_some data _ hlt
          rw [hb, get_bang data _ b hb]

/-- where the pre-scan of `ReadStringBytes` stops -/
def scanPos : StrScan → Nat
  | .eof q => q
  | .quote q => q
  | .control q => q
  | .escape q => q

theorem strScan_bounds (data : Bytes) : ∀ (fuel p : Nat), p ≤ data.size →
    p ≤ scanPos (strScan data fuel p) ∧ scanPos (strScan data fuel p) ≤ data.size := by
  intro fuel
  induction fuel with
  | zero => intro p hp; simp only [strScan, scanPos]; exact ⟨Nat.le_refl _, hp⟩
  | succ fuel ih =>
    intro p hp
    simp only [strScan]
    cases hg : data[p]? with
    | none => exact ⟨Nat.le_refl _, hp⟩
    | some b =>
      have hlt := lt_of_get data p b hg
      simp only []
      by_cases h1 : b ≤ 0x1f
      · rw [if_pos h1]; exact ⟨Nat.le_refl _, hp⟩
      · rw [if_neg h1]
        by_cases h2 : (b == 34) = true
        · rw [if_pos h2]; exact ⟨Nat.le_refl _, hp⟩
        · rw [if_neg h2]
          by_cases h3 : (b == 92) = true
          · rw [if_pos h3]; exact ⟨Nat.le_refl _, hp⟩
          · rw [if_neg h3]
            have := ih (p + 1) (by omega)
            exact ⟨by omega, this.2⟩

/-- **`ReadStringBytes` never indexes or slices out of range** (its escape handling is the generated machine
    `appendRemainderOfString`, covered by `C10.safe_*`) -/
theorem readStringBytesC_eq (data buf : Bytes) : readStringBytesC data buf = some (readStringBytes data buf) := by
  unfold readStringBytesC readStringBytes
  have hws : countWhitespace data ≤ data.size := countWsFrom_le data data.size 0 (Nat.zero_le _)
  simp only []
  by_cases he : (countWhitespace data == data.size) = true
  · rw [if_pos he]
    simp [he]
  · rw [if_neg he]
    have hlt : countWhitespace data < data.size := by
      have : countWhitespace data ≠ data.size := by simpa using he
      omega
    obtain ⟨b, hb⟩ := get_some data _ hlt
    rw [hb, get_bang data _ b hb]
    simp only [he, Bool.false_or]
    by_cases hq : (b != 34) = true
    · rw [if_pos hq, if_pos hq]
    · rw [if_neg hq, if_neg hq]
      have hb := strScan_bounds data (data.size - (countWhitespace data + 1)) (countWhitespace data + 1) (by omega)
      revert hb
      cases strScan data (data.size - (countWhitespace data + 1)) (countWhitespace data + 1) with
      | eof q => intro _; rfl
      | quote q => intro hb; simp only [scanPos] at hb; simp only []; rw [if_pos hb]
      | control q => intro hb; simp only [scanPos] at hb; simp only []; rw [if_pos hb.2]
      | escape q => intro hb; simp only [scanPos] at hb; simp only []; rw [if_pos hb]

/-- every index and slice expression of `token.go`, `simple_readers.go`, `decode.go`, `rjson.go` and `machine_helpers.go` on
    the current tree (regenerated by `gofacts`), in source order. `getu4`, `unescapeUnicodeChar`, `skipFloatDec`,
    `skipFloatExp`, `countWhitespace` are the helpers of `Model/Helpers.lean` (checked accesses, part of the machine
    runs of `C10.gen_total`); `growBytesSliceCapacity` slices a slice it has just made long enough; `digits`, `expBytes`,
    `signBytes` are 256-entry tables; `out[…]` are stores into a freshly made slice of the same length / a map. Each `data[…]` below is an explicit test of `Model.ApiChecked` (or sits inside the
    `p < len(data)` loop condition that the model's loops carry); `tokenTypes[…]` and `whitespace[…]` are 256-entry
    tables indexed by a byte, `tokenTypeStrings[t]` a 256-entry table indexed by a `TokenType` (`uint8`); `ReadString`
    repeats `ReadStringBytes` (`(*buf)[:0]` truncates the caller's scratch slice); `ReadFloat64` slices at the end of
    the whitespace scan (`countWsFrom_le`). A new index expression in these functions changes this list. -/
def expectedIndexSites : List (String × String) :=
  [("NextToken", "tokenTypes[data[0]] | data[0] | data[0] | whitespace[data[0]] | data[0] | data[0] | data[p] | tokenTypes[b]"),
   ("NextTokenType", "tokenTypes[data[0]] | data[0] | whitespace[data[0]] | data[0] | tokenTypes[data[p]] | data[p]"),
   ("ReadFloat64", "data[p:]"),
   ("ReadInt64", "data[p] | whitespace[data[p]] | data[p] | data[p:]"),
   ("ReadString", "data[p] | (*buf)[:0] | data[p] | data[p:] | data[p] | data[start:p] | data[start:p] | data[p:]"),
   ("ReadStringBytes", "data[p] | data[p] | data[p:] | data[p] | data[start:p] | data[start:p] | data[p:]"),
   ("ReadUint64", "data[p] | data[p:] | data[p] | data[p] | data[p] | data[p] | data[p] | data[p] | data[p] | data[p]"),
   ("StdLibCompatibleMap", "out[k] | out[k] | out[k] | out[k]"),
   ("StdLibCompatibleSlice", "out[i] | out[i] | out[i] | out[i]"),
   ("StdLibCompatibleString", "rjsonString[i:]"),
   ("StdLibCompatibleStringBytes", "rjsonString[i:]"),
   ("TokenType.String", "tokenTypeStrings[t]"),
   ("Valid", "data[p:]"),
   ("countWhitespace", "whitespace[data[i]] | data[i]"),
   ("getu4", "data[0] | data[1] | data[2:6]"),
   ("growBytesSliceCapacity", "slice[:cap(slice)] | slice[:origLen]"),
   ("skipFloatDec", "digits[data[p]] | data[p] | digits[data[p]] | data[p] | expBytes[data[p]] | data[p]"),
   ("skipFloatExp", "digits[data[p]] | data[p] | signBytes[data[p]] | data[p]"),
   ("unescapeUnicodeChar", "growBytesSliceCapacity(data, origLen+4)[:origLen+4] | s[6:] | data[origLen:] | data[:origLen+rl] | data[origLen:] | data[:origLen+w]")]

theorem indexSites_expected : Gen.Facts.indexSites = expectedIndexSites := by decide +kernel

/-- non-vacuity: the checked reader does return `none` when handed an offset behind the end (the caller's duty) -/
example : (readUint64FromC "12".toUTF8.data 3).isNone = true := by decide

end RJson.C10
