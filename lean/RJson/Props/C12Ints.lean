import RJson.Props.C12
import RJson.Props.C05
import RJson.Props.C13Literals
/-!
# C12 — the integer `Decode*` functions, end to end

With C05 (each integer reader returns exactly the value and offset of the reference integer token when it fits the
type's range, and fails otherwise) and `C13.readNull_spec`, `DecodeInt64`, `DecodeInt` (the same reader on a 64-bit platform) and `DecodeInt32` are
determined by the text alone and so are `DecodeUint64`, `DecodeUint`, `DecodeUint32` (`decodeUint64_spec`, `decodeUint32_spec`): an integer token in range — target = its value, offset =
its end; else JSON whitespace and `null` — target untouched, offset after `null`; else an error, target untouched.
-/
namespace RJson.C12
open RJson.Model RJson.Spec RJson.Abs RJson.Ragel RJson.C05

theorem uintZero_np (data : Bytes) (off p : Nat) : (uintZero data off p).panicked = false := by
  unfold uintZero
  split
  · rfl
  · split <;> rfl

theorem uintFinish_np (data : Bytes) (off s p : Nat) (v : UInt64) : (uintFinish data off s p v).panicked = false := by
  unfold uintFinish
  split
  · rfl
  · split
    · rfl
    · split <;> rfl

theorem readUint64From_np (data : Bytes) (off : Nat) : (readUint64From data off).panicked = false := by
  unfold readUint64From
  simp only []
  split
  · rfl
  · split
    · exact uintZero_np _ _ _
    · split
      · rfl
      · exact uintFinish_np _ _ _ _ _

theorem readInt64At_np (data : Bytes) (p : Nat) : (readInt64At data p).panicked = false := by
  unfold readInt64At
  simp only []
  repeat' (first | rfl | split)

theorem readInt64_np (data : Bytes) : (readInt64 data).panicked = false := readInt64At_np _ _

/-- what a signed integer `Decode*` is specified to do: `(target afterwards, offset or none for an error)` -/
def specDecodeInt (lo hi : Int) (data : List UInt8) (t : Int) : Int × Option Nat :=
  match Spec.readInt lo hi true data with
  | some (v, n) => (v, some n)
  | none =>
    match scanLit [110, 117, 108, 108] (skipWs data) with
    | some rest => (t, some (data.length - rest.length))
    | none => (t, none)

/-- any signed reader that meets its C05 specification and never panics gives a `Decode*` determined by the text -/
theorem decodeInt_of_spec (rd : Bytes → R Int) (lo hi : Int) (data : Bytes) (hsm : Small data) (t : Int)
    (hspec : outcomeI (rd data) = Spec.readInt lo hi true data.toList) (hnp : (rd data).panicked = false) :
    (decode rd data t).panicked = false ∧
    (decode rd data t).val = (specDecodeInt lo hi data.toList t).1 ∧
    match (specDecodeInt lo hi data.toList t).2 with
    | some n => (decode rd data t).err = none ∧ (decode rd data t).p.toNat = n
    | none => (decode rd data t).err.isSome = true := by
  simp only [specDecodeInt]
  simp only [outcomeI, hnp, Bool.not_false, Bool.and_true] at hspec
  cases he : (rd data).err with
  | none =>
    simp only [he, Option.isNone_none, if_true] at hspec
    rw [← hspec]
    simp only []
    rw [decode_success rd data t he hnp]
    exact ⟨hnp, rfl, he, rfl⟩
  | some e =>
    simp only [he, Option.isNone_some, Bool.false_eq_true, if_false] at hspec
    rw [← hspec]
    simp only []
    have hn := C13.readNull_spec data hsm
    cases hl : scanLit [110, 117, 108, 108] (skipWs data.toList) with
    | some rest =>
      rw [hl] at hn
      simp only [] at hn ⊢
      obtain ⟨n1, n2, n3⟩ := hn
      obtain ⟨d1, d2, d3⟩ := decode_null rd data t e he hnp n1 n3
      refine ⟨?_, d1, d2, ?_⟩
      · simp [decode, he, hnp, n1, n3]
      · rw [d3, n2]; simp
    | none =>
      rw [hl] at hn
      simp only [] at hn ⊢
      obtain ⟨n1, n3⟩ := hn
      obtain ⟨d1, d2⟩ := decode_error rd data t e .notNull he hnp n1 n3
      refine ⟨?_, d1, by rw [d2]; rfl⟩
      simp [decode, he, hnp, n1, n3]

/-- **`DecodeInt64` (and `DecodeInt` on a 64-bit platform) does what the text says** -/
theorem decodeInt64_spec (data : Bytes) (hsm : Small data) (t : Int) :
    (decode readInt64 data t).panicked = false ∧
    (decode readInt64 data t).val = (specDecodeInt (-9223372036854775808) 9223372036854775807 data.toList t).1 ∧
    match (specDecodeInt (-9223372036854775808) 9223372036854775807 data.toList t).2 with
    | some n => (decode readInt64 data t).err = none ∧ (decode readInt64 data t).p.toNat = n
    | none => (decode readInt64 data t).err.isSome = true :=
  decodeInt_of_spec readInt64 _ _ data hsm t (readInt64_spec data) (readInt64_np data)

theorem readInt32_np (data : Bytes) : (readInt32 data).panicked = false := by
  have h := readInt64_np data
  unfold readInt32
  simp only []
  split
  · exact h
  · split
    · rfl
    · exact h

/-- **`DecodeInt32` does what the text says** -/
theorem decodeInt32_spec (data : Bytes) (hsm : Small data) (t : Int) :
    (decode readInt32 data t).panicked = false ∧
    (decode readInt32 data t).val = (specDecodeInt (-2147483648) 2147483647 data.toList t).1 ∧
    match (specDecodeInt (-2147483648) 2147483647 data.toList t).2 with
    | some n => (decode readInt32 data t).err = none ∧ (decode readInt32 data t).p.toNat = n
    | none => (decode readInt32 data t).err.isSome = true :=
  decodeInt_of_spec readInt32 _ _ data hsm t (readInt32_spec data) (readInt32_np data)

/-! ## the unsigned decoders -/

/-- what an unsigned integer `Decode*` is specified to do -/
def specDecodeUint (hi : Int) (data : List UInt8) (t : UInt64) : Int × Option Nat :=
  match Spec.readInt 0 hi false data with
  | some (v, n) => (v, some n)
  | none =>
    match scanLit [110, 117, 108, 108] (skipWs data) with
    | some rest => ((t.toNat : Int), some (data.length - rest.length))
    | none => ((t.toNat : Int), none)

theorem decodeUint_of_spec (rd : Bytes → R UInt64) (hi : Int) (data : Bytes) (hsm : Small data) (t : UInt64)
    (hspec : outcomeU (rd data) = Spec.readInt 0 hi false data.toList) (hnp : (rd data).panicked = false) :
    (decode rd data t).panicked = false ∧
    (((decode rd data t).val.toNat : Int)) = (specDecodeUint hi data.toList t).1 ∧
    match (specDecodeUint hi data.toList t).2 with
    | some n => (decode rd data t).err = none ∧ (decode rd data t).p.toNat = n
    | none => (decode rd data t).err.isSome = true := by
  simp only [specDecodeUint]
  simp only [outcomeU, hnp, Bool.not_false, Bool.and_true] at hspec
  cases he : (rd data).err with
  | none =>
    simp only [he, Option.isNone_none, if_true] at hspec
    rw [← hspec]
    simp only []
    rw [decode_success rd data t he hnp]
    exact ⟨hnp, rfl, he, rfl⟩
  | some e =>
    simp only [he, Option.isNone_some, Bool.false_eq_true, if_false] at hspec
    rw [← hspec]
    simp only []
    have hn := C13.readNull_spec data hsm
    cases hl : scanLit [110, 117, 108, 108] (skipWs data.toList) with
    | some rest =>
      rw [hl] at hn
      simp only [] at hn ⊢
      obtain ⟨n1, n2, n3⟩ := hn
      obtain ⟨d1, d2, d3⟩ := decode_null rd data t e he hnp n1 n3
      refine ⟨?_, by rw [d1], d2, ?_⟩
      · simp [decode, he, hnp, n1, n3]
      · rw [d3, n2]; simp
    | none =>
      rw [hl] at hn
      simp only [] at hn ⊢
      obtain ⟨n1, n3⟩ := hn
      obtain ⟨d1, d2⟩ := decode_error rd data t e .notNull he hnp n1 n3
      refine ⟨?_, by rw [d1], by rw [d2]; rfl⟩
      simp [decode, he, hnp, n1, n3]

theorem readUint32_np (data : Bytes) : (readUint32 data).panicked = false := by
  have h : (readUint64 data).panicked = false := readUint64From_np data 0
  unfold readUint32
  simp only []
  split
  · rfl
  · exact h

/-- **`DecodeUint64` (and `DecodeUint` on a 64-bit platform) does what the text says** -/
theorem decodeUint64_spec (data : Bytes) (hsm : Small data) (t : UInt64) :
    (decode readUint64 data t).panicked = false ∧
    (((decode readUint64 data t).val.toNat : Int)) = (specDecodeUint 18446744073709551615 data.toList t).1 ∧
    match (specDecodeUint 18446744073709551615 data.toList t).2 with
    | some n => (decode readUint64 data t).err = none ∧ (decode readUint64 data t).p.toNat = n
    | none => (decode readUint64 data t).err.isSome = true :=
  decodeUint_of_spec readUint64 _ data hsm t (readUint64_spec data) (readUint64From_np data 0)

/-- **`DecodeUint32` does what the text says** -/
theorem decodeUint32_spec (data : Bytes) (hsm : Small data) (t : UInt64) :
    (decode readUint32 data t).panicked = false ∧
    (((decode readUint32 data t).val.toNat : Int)) = (specDecodeUint 4294967295 data.toList t).1 ∧
    match (specDecodeUint 4294967295 data.toList t).2 with
    | some n => (decode readUint32 data t).err = none ∧ (decode readUint32 data t).p.toNat = n
    | none => (decode readUint32 data t).err.isSome = true :=
  decodeUint_of_spec readUint32 _ data hsm t (readUint32_spec data) (readUint32_np data)

end RJson.C12
