import RJson.Proofs.Utf8
/-!
# C17 — StdLibCompatible helpers reproduce encoding/json's invalid-UTF-8 handling

`stdLibCompatibleString_spec` / `stdLibCompatibleStringBytes_spec`: the model (rune-by-rune decode and
re-encode, `utf8.DecodeRune` / `utf8.EncodeRune` modelled from Unicode Table 3-7) equals the specification
`Spec.sanitizeAll`: well-formed sequences are copied, every other byte becomes U+FFFD. About the
specification itself: it is the identity on valid UTF-8, its output is valid UTF-8, and it is idempotent.
The slice/map helpers are covered by the correspondence run (per-node application, argument immutability,
encoding/json on collision-free trees).
-/
namespace RJson.C17
open RJson.Model RJson.Spec RJson.Utf8

theorem stdLibCompatibleString_spec (s : Bytes) :
    stdLibCompatibleString s = (sanitizeAll s.toList).toArray := Utf8.stdLibCompatibleString_spec s

theorem stdLibCompatibleStringBytes_spec (s buf : Bytes) :
    stdLibCompatibleStringBytes s buf = buf ++ (sanitizeAll s.toList).toArray := Utf8.stdLibCompatibleStringBytes_spec s buf

/-- a well-formed sequence is determined by its own bytes -/
theorem wf_take {l : List UInt8} {n : Nat} (h : wellFormedLen l = some n) (X : List UInt8) :
    n ≤ l.length ∧ wellFormedLen (l.take n ++ X) = some n := by
  cases l with
  | nil => simp [wellFormedLen] at h
  | cons b0 rest =>
    simp only [wellFormedLen] at h
    by_cases c1 : b0 < 0x80
    · simp only [c1, if_true] at h
      injection h with h; subst h
      simp [wellFormedLen, c1]
    · simp only [c1, if_false] at h
      by_cases c2 : (0xC2 ≤ b0 && b0 ≤ 0xDF) = true
      · simp only [c2, if_true] at h
        cases rest with
        | nil => simp at h
        | cons b1 rest =>
          simp only [] at h
          by_cases k1 : cont b1 = true
          · simp only [k1, if_true] at h
            injection h with h; subst h
            simp [wellFormedLen, c1, c2, k1]
          · simp [k1] at h
      · simp only [c2, Bool.false_eq_true, if_false] at h
        by_cases c3 : (0xE0 ≤ b0 && b0 ≤ 0xEF) = true
        · simp only [c3, if_true] at h
          match rest, h with
          | [], h => simp at h
          | [_], h => simp at h
          | b1 :: b2 :: rest, h =>
            simp only [] at h
            generalize hok : (if b0 == 0xE0 then 0xA0 ≤ b1 && b1 ≤ 0xBF else if b0 == 0xED then 0x80 ≤ b1 && b1 ≤ 0x9F else cont b1) = ok1 at h
            by_cases k : (ok1 && cont b2) = true
            · simp only [k, if_true] at h
              injection h with h; subst h
              simp only [List.length_cons, List.take_succ_cons, List.take_zero, List.cons_append, List.nil_append]
              refine ⟨by omega, ?_⟩
              simp only [wellFormedLen, c1, if_false, c2, Bool.false_eq_true, c3, if_true, hok, k]
            · simp [k] at h
        · simp only [c3, Bool.false_eq_true, if_false] at h
          by_cases c4 : (0xF0 ≤ b0 && b0 ≤ 0xF4) = true
          · simp only [c4, if_true] at h
            match rest, h with
            | [], h => simp at h
            | [_], h => simp at h
            | [_, _], h => simp at h
            | b1 :: b2 :: b3 :: rest, h =>
              simp only [] at h
              generalize hok : (if b0 == 0xF0 then 0x90 ≤ b1 && b1 ≤ 0xBF else if b0 == 0xF4 then 0x80 ≤ b1 && b1 ≤ 0x8F else cont b1) = ok1 at h
              by_cases k : (ok1 && cont b2 && cont b3) = true
              · simp only [k, if_true] at h
                injection h with h; subst h
                simp only [List.length_cons, List.take_succ_cons, List.take_zero, List.cons_append, List.nil_append]
                refine ⟨by omega, ?_⟩
                simp only [wellFormedLen, c1, if_false, c2, Bool.false_eq_true, c3, c4, if_true, hok, k]
              · simp [k] at h
          · simp [c4] at h

theorem wf_replacement (X : List UInt8) : wellFormedLen (replacement ++ X) = some 3 := by
  simp [replacement, wellFormedLen, cont]

/-- the sanitiser is the identity on valid UTF-8 -/
theorem sanitize_valid : ∀ (fuel : Nat) (l : List UInt8), utf8Valid fuel l = true → sanitize fuel l = l := by
  intro fuel
  induction fuel with
  | zero => intro l h; simp [utf8Valid] at h; simp [sanitize, h]
  | succ fuel ih =>
    intro l h
    cases l with
    | nil => rfl
    | cons b rest =>
      simp only [utf8Valid] at h
      simp only [sanitize]
      cases hw : wellFormedLen (b :: rest) with
      | none => rw [hw] at h; cases h
      | some n =>
        rw [hw] at h
        simp only [] at h ⊢
        rw [ih _ h, List.take_append_drop]

/-- the sanitiser's output is valid UTF-8 -/
theorem sanitize_output_valid : ∀ (fuel : Nat) (l : List UInt8), l.length + 1 ≤ fuel →
    ∀ fuel2, (sanitize fuel l).length + 1 ≤ fuel2 → utf8Valid fuel2 (sanitize fuel l) = true := by
  intro fuel
  induction fuel with
  | zero => intro l h; omega
  | succ fuel ih =>
    intro l hf fuel2 hf2
    cases l with
    | nil => cases fuel2 <;> simp [sanitize, utf8Valid]
    | cons b rest =>
      simp only [sanitize] at hf2 ⊢
      cases hw : wellFormedLen (b :: rest) with
      | none =>
        rw [hw] at hf2
        simp only [] at hf2 ⊢
        obtain ⟨fuel2, rfl⟩ : ∃ f, fuel2 = f + 1 := ⟨fuel2 - 1, by simp [replacement] at hf2; omega⟩
        have hr : replacement ++ sanitize fuel rest = 0xEF :: (0xBF :: 0xBD :: sanitize fuel rest) := rfl
        rw [hr]
        simp only [utf8Valid]
        have := wf_replacement (sanitize fuel rest)
        rw [hr] at this
        rw [this]
        simp only [List.drop_succ_cons, List.drop_zero]
        apply ih rest (by simp at hf; omega)
        simp [replacement] at hf2
        omega
      | some n =>
        rw [hw] at hf2
        simp only [] at hf2 ⊢
        obtain ⟨hn, hwt⟩ := wf_take hw (sanitize fuel ((b :: rest).drop n))
        obtain ⟨hn1, hn4⟩ := Utf8.wellFormedLen_pos hw
        have hpos : 1 ≤ fuel2 := Nat.le_trans (Nat.le_add_left 1 _) hf2
        obtain ⟨fuel2, rfl⟩ : ∃ f, fuel2 = f + 1 := ⟨fuel2 - 1, (Nat.sub_add_cancel hpos).symm⟩
        have htl : ((b :: rest).take n).length = n := by rw [List.length_take]; exact Nat.min_eq_left hn
        cases htk : (b :: rest).take n with
        | nil => rw [htk] at htl; simp at htl; omega
        | cons t0 trest =>
          rw [htk] at hwt hf2 htl
          simp only [List.cons_append] at hwt ⊢
          simp only [utf8Valid]
          rw [hwt]
          simp only []
          have hd : (t0 :: (trest ++ sanitize fuel ((b :: rest).drop n))).drop n = sanitize fuel ((b :: rest).drop n) := by
            have : t0 :: (trest ++ sanitize fuel ((b :: rest).drop n)) = (t0 :: trest) ++ sanitize fuel ((b :: rest).drop n) := rfl
            rw [this, List.drop_append_of_le_length (by omega)]
            rw [List.drop_eq_nil_of_le (by omega)]
            simp [← htl]
          rw [hd]
          apply ih _ (by simp [List.length_drop] at hf ⊢; omega)
          simp only [List.cons_append, List.length_cons, List.length_append] at hf2
          omega

/-- hence the sanitiser is idempotent -/
theorem sanitizeAll_idem (l : List UInt8) : sanitizeAll (sanitizeAll l) = sanitizeAll l := by
  unfold sanitizeAll
  apply sanitize_valid
  exact sanitize_output_valid _ l (by omega) _ (by omega)

/-- on valid UTF-8 the sanitiser changes nothing -/
theorem sanitizeAll_valid (l : List UInt8) (h : utf8Valid (l.length + 1) l = true) : sanitizeAll l = l :=
  sanitize_valid _ l h

/-- non-vacuity -/
example : sanitizeAll [0x41, 0xFF, 0xC3, 0xA9, 0xED, 0xA0, 0x80] = [0x41, 0xEF, 0xBF, 0xBD, 0xC3, 0xA9, 0xEF, 0xBF, 0xBD, 0xEF, 0xBF, 0xBD, 0xEF, 0xBF, 0xBD] := by decide

end RJson.C17
