import RJson.Gen.Facts
import RJson.Proofs.Sizes
import RJson.Props.C10
import RJson.Props.C14
import RJson.Proofs.StackSize
/-!
# C19 (partial) — scalar reads, skipping and handler traversal allocate nothing on success: the logical part

What a theorem can carry about "zero heap allocations":

1. **Where the code can allocate at all** (`alloc_sites_expected`, regenerated from the Go source on every run by
   `gofacts`): in the functions syntactically reachable from the entry points of C19 (`reach_expected`; calls of
   the caller-supplied handler are not followed) the only constructs that may allocate — `make`, `new`, `append`,
   composite literals, conversions to `string` / `[]byte`, closures, `defer`, `go`, calls into `fmt` / `errors` /
   `strings` / `bytes` / `strconv` — are
   * `fmt.Errorf` / `string(b)` on **error** paths of the integer and string readers (C19 is about success),
   * `append` into the **caller's destination** in `ReadStringBytes`, `appendRemainderOfString`,
     `unescapeStringContent` — never beyond `len(dst) + len(input)` bytes in total (`readStringBytes_size`,
     `unescape_size`, from `Sizes.decode_len_le`: decoded content is never longer than its escaped source), so a
     destination with spare capacity of at least the input length is never re-allocated (`unescapeStringContent`
     reserves `len(dst)+len(data)` up front; `appendRemainderOfString`, since the repair of C20-F2, only up to the first
     double quote it finds with `bytes.IndexByte` — which does not allocate — and lets `append` grow beyond that),
   * `growBytesSliceCapacity`'s own `make`/`append` (taken only when the capacity is insufficient),
   * the `prepush` growth `append(stack, make([]int, 1+top-len(stack))...)` of the four generated machines: it appends
     a positive number of elements only when the live height exceeds the slice — `stack_size`: the slice after a run
     has length `max (initial length) (height the run reached)`, for the regenerated tables, every handler and every
     re-entrant interference; hence `warm_buffer_no_growth`: a `Buffer` already used on a document whose run reached
     at least the same height (in particular: the same document again, or any document nested no deeper in the
     machine's own sense) is not grown again;
   `internal/fp` (all three conversion paths) contains no such construct at all.
2. **Termination with bounded work**: C10 (`2·len+1` loop iterations).

What only the run-time measurement can decide (`testing.AllocsPerRun` suite of the correspondence run): escape
analysis, interface boxing of results, the allocator itself. MANIFEST labels the check partial.
-/
namespace RJson.C19

/-- the functions reachable from the entry points of C19 on the current tree -/
def expectedReach : List String := ["DecodeBool", "DecodeFloat64", "DecodeInt", "DecodeInt32", "DecodeInt64", "DecodeUint", "DecodeUint32", "DecodeUint64", "HandleArrayValues", "HandleObjectValues", "NextToken", "NextTokenType", "ReadBool", "ReadFloat64", "ReadInt", "ReadInt32", "ReadInt64", "ReadNull", "ReadStringBytes", "ReadUint", "ReadUint32", "ReadUint64", "SkipValue", "SkipValueFast", "UnescapeStringContent", "Valid", "appendRemainderOfString", "countWhitespace", "errUnexpectedByteInString", "fp.ParseJSONFloatPrefix", "fp.atof64exact", "fp.decimal.RoundedInteger", "fp.decimal.Shift", "fp.decimal.floatBits", "fp.decimal.set", "fp.eiselLemire64", "fp.leftShift", "fp.prefixIsLessThan", "fp.readFloat", "fp.rightShift", "fp.shouldRoundUp", "fp.trim", "getu4", "growBytesSliceCapacity", "handleArrayValues", "handleObjectValues", "nullOrBust", "readBool", "readNull", "skipFloatDec", "skipFloatExp", "skipValue", "skipValueFast", "unescapeStringContent", "unescapeUnicodeChar"]

/-- every construct in them that may allocate, on the current tree -/
def expectedSites : List String := ["ReadInt | lib:fmt.Errorf", "ReadInt64 | lib:fmt.Errorf (x2)", "ReadStringBytes | append:append(buf, data[start:p]...) (x2)", "ReadStringBytes | lib:fmt.Errorf (x2)", "ReadUint | lib:fmt.Errorf", "ReadUint64 | lib:fmt.Errorf (x2)", "appendRemainderOfString | append:append(dst, '\"')", "appendRemainderOfString | append:append(dst, '/')", "appendRemainderOfString | append:append(dst, '\\\\')", "appendRemainderOfString | append:append(dst, '\\b')", "appendRemainderOfString | append:append(dst, '\\f')", "appendRemainderOfString | append:append(dst, '\\n')", "appendRemainderOfString | append:append(dst, '\\r')", "appendRemainderOfString | append:append(dst, '\\t')", "appendRemainderOfString | append:append(dst, data[segStart:p]...) (x3)", "appendRemainderOfString | lib:bytes.IndexByte", "errUnexpectedByteInString | conv:string(b)", "errUnexpectedByteInString | lib:fmt.Errorf", "growBytesSliceCapacity | append:append(slice[:cap(slice)], make([]byte, delta)...)", "growBytesSliceCapacity | make:make([]byte, delta)", "handleArrayValues | append:append(stack, make([]int, 1+top-len(stack))...) (x12)", "handleArrayValues | make:make([]int, 1+top-len(stack)) (x12)", "handleObjectValues | append:append(stack, make([]int, 1+top-len(stack))...) (x12)", "handleObjectValues | make:make([]int, 1+top-len(stack)) (x12)", "skipValue | append:append(stack, make([]int, 1+top-len(stack))...) (x10)", "skipValue | make:make([]int, 1+top-len(stack)) (x10)", "skipValueFast | append:append(stack, make([]int, 1+top-len(stack))...) (x4)", "skipValueFast | make:make([]int, 1+top-len(stack)) (x4)", "unescapeStringContent | append:append(dst, '\"')", "unescapeStringContent | append:append(dst, '/')", "unescapeStringContent | append:append(dst, '\\'')", "unescapeStringContent | append:append(dst, '\\\\')", "unescapeStringContent | append:append(dst, '\\b')", "unescapeStringContent | append:append(dst, '\\f')", "unescapeStringContent | append:append(dst, '\\n')", "unescapeStringContent | append:append(dst, '\\r')", "unescapeStringContent | append:append(dst, '\\t')", "unescapeStringContent | append:append(dst, data[segStart:p]...) (x3)"]

theorem reach_expected : Gen.Facts.zeroAllocReach = expectedReach := by decide
theorem alloc_sites_expected : Gen.Facts.zeroAllocSites = expectedSites := by decide

/-! ## the stack slice is grown only up to the height the run reaches -/

open RJson.Ragel in
/-- for each of the four generated machines (regenerated tables), every handler and every re-entrant interference:
    the stack slice after the call is as long as the longer of the slice handed in and the height the run reached -/
theorem stack_size {τ} (f : C14.Fn) (data : Bytes) (h : Handler τ) (hv : Havoc Nat) (stack0 : Array Nat) (dst : Bytes) (hs : τ) :
    (runA f.machine data h hv stack0 dst hs).2.size = max stack0.size (heightL f.machine data h dst hs) :=
  runA_size f.machine data h hv stack0 dst hs (C14.fn_noBD f data h dst hs)

open RJson.Ragel in
/-- **a warmed buffer is not grown**: after a call on `data1`, a call (same machine) on a document whose run reaches
    no greater height leaves the slice length unchanged — `prepush` appends nothing, so no allocation for the stack -/
theorem warm_buffer_no_growth {τ} (f : C14.Fn) (data1 data2 : Bytes) (h1 h2 : Handler τ) (hv1 hv2 : Havoc Nat)
    (stack0 : Array Nat) (dst1 dst2 : Bytes) (hs1 hs2 : τ)
    (hle : heightL f.machine data2 h2 dst2 hs2 ≤ heightL f.machine data1 h1 dst1 hs1) :
    (runA f.machine data2 h2 hv2 (runA f.machine data1 h1 hv1 stack0 dst1 hs1).2 dst2 hs2).2.size =
      (runA f.machine data1 h1 hv1 stack0 dst1 hs1).2.size :=
  warm_no_growth f.machine data1 data2 h1 h2 hv1 hv2 stack0 dst1 dst2 hs1 hs2
    (C14.fn_noBD f data1 h1 dst1 hs1) (C14.fn_noBD f data2 h2 dst2 hs2) hle

open RJson.Ragel in
/-- non-vacuity: `[[1]]` reaches height 2 in `SkipValue` -/
example : heightL Gen.SkipValue.machine #[91, 91, 49, 93, 93] noHandler #[] () = 2 := by decide +kernel

end RJson.C19
