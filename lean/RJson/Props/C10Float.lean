import RJson.Proofs.DecTotal
import RJson.Props.C04Slow
/-!
# C10 / C04 — the float parser is total: no panic on any input

For **every** byte string, `ParseJSONFloatPrefix` (hand model `FP.parse`, tied to the code by the correspondence run;
panics of the Go code — an index out of range in `leftShift`/`rightShift`/`leftcheats`/`powtab`, a loop that does
not end within the model's budget — are the outcome `Path.panic`) returns normally:

* `parse_total`: the path is never `panic`, and the reported length lies within the input;
* `parse_number_paths`: when the input begins with a JSON number, the answer comes from one of the conversion paths
  (never the syntax error of `readFloat`, never the syntax error of `decimal.set`);
* `readFloat64_total`: `ReadFloat64` never panics and its offset lies within the input.

Behind it, for every well-formed decimal in normal form, exact or truncated, with any number of digits in the literal:
`Dec.set_total` (`decimal.set` accepts every number literal), `Dec.leftShift_approx` / `rightShift_approx` /
`shift_near` (a shift is `a·2^±k` cut off after 800 digits: relative error `10^-799` per step; no index out of range:
`Dec.leftShift_spec`, `Dec.cheat_all`), `Dec.scaleDown_total` / `scaleUp_total` (the scaling loops end within 1058 /
1100 rounds, the binary exponent stays within ±1200, so every `Shift` amount is within the model's range),
`Dec.prepare_total`, `Dec.floatBits_total`.
-/
namespace RJson.C10
open RJson.Spec RJson.FP RJson.NumShape RJson.Abs RJson.Ragel RJson.Dec

/-- the literal at the head of `data`, cut out by `parse` for `decimal.set`, is a complete number literal -/
theorem lit_shape (data : Bytes) (rest : List UInt8) (hscan : scanNumber data.toList = some rest) :
    ∃ neg ip fp ec sg eds, Shape (data.extract 0 (data.size - rest.length)).toList neg ip fp ec sg eds [] := by
  obtain ⟨neg, ip, fp, ec, sg, eds, hs⟩ := shape_of_scan _ _ hscan
  have hsl := ParseSlow.shape_lit hs
  have hsz : data.toList.length = data.size := by simp
  rw [hsz, ← C04.lit_toList] at hsl
  exact ⟨neg, ip, fp, ec, sg, eds, hsl⟩

/-- on a number, the answer comes from a conversion path: no syntax error, no slow-path syntax error, no panic -/
theorem parse_number_paths (data : Bytes) (rest : List UInt8) (hscan : scanNumber data.toList = some rest) :
    (parse data).path ≠ .syntax ∧ (parse data).path ≠ .slowSyntax ∧ (parse data).path ≠ .panic := by
  obtain ⟨neg, ip, fp, ec, sg, eds, hs⟩ := shape_of_scan _ _ hscan
  obtain ⟨hok, hp, _, _, _, _⟩ := ParseFast.readFloat_fields data neg ip fp ec sg eds rest hs
  obtain ⟨hpos, hlast⟩ := ParseFast.last_is_digit data neg ip fp ec sg eds rest hs
  have htd : (decide (data.size - rest.length > 0) && data[data.size - rest.length - 1]! == 46) = false := by
    have : (data[data.size - rest.length - 1]! == 46) = false := by
      apply beq_eq_false_iff_ne.mpr
      intro h46; rw [h46] at hlast; exact absurd hlast (by decide)
    rw [this, Bool.and_false]
  obtain ⟨neg', ip', fp', ec', sg', eds', hsl⟩ := lit_shape data rest hscan
  obtain ⟨a, hset, hga, _⟩ := set_total _ neg' ip' fp' ec' sg' eds' hsl
  obtain ⟨r, hfb⟩ := floatBits_total a hga
  simp only [parse, hok, Bool.not_true, Bool.false_eq_true, if_false, hp, htd]
  split
  · exact ⟨by simp, by simp, by simp⟩
  · split
    · rename_i f path hel
      split at hel
      · split at hel
        · injection hel with hel; injection hel with _ hpth; subst hpth; exact ⟨by simp, by simp, by simp⟩
        · split at hel
          · split at hel
            · injection hel with hel; injection hel with _ hpth; subst hpth; exact ⟨by simp, by simp, by simp⟩
            · cases hel
          · cases hel
      · cases hel
    · rw [hset]
      simp only [hfb]
      obtain ⟨rb, rovf⟩ := r
      cases rovf <;> exact ⟨by simp, by simp, by simp⟩

/-- **`ParseJSONFloatPrefix` never panics**, whatever the input, and the length it reports lies within the input -/
theorem parse_total (data : Bytes) : (parse data).path ≠ .panic ∧ (parse data).n ≤ data.size := by
  by_cases hok : (readFloat data).ok = true
  · by_cases htd : (decide ((readFloat data).p > 0) && data[(readFloat data).p - 1]! == 46) = true
    · simp [parse, hok, htd]
    · have hnt : ¬ FloatSyntax.TrailingDot data (readFloat data) := by
        intro h
        apply htd
        simp [h.1, h.2]
      obtain ⟨rest, hscan, hp⟩ := FloatSyntax.readFloat_ok data hok hnt
      refine ⟨(parse_number_paths data rest hscan).2.2, ?_⟩
      obtain ⟨_, _, hn, _⟩ := C04.parse_accepts_number data rest hscan
      rw [hn]; omega
  · simp [parse, hok]

/-- **`ReadFloat64` never panics**, whatever the input, and its offset lies within the input -/
theorem readFloat64_total (data : Bytes) :
    (Model.readFloat64 data).panicked = false ∧ 0 ≤ (Model.readFloat64 data).p ∧ (Model.readFloat64 data).p ≤ (data.size : ℤ) := by
  have hcw := countWhitespace_spec data
  have hwl := skipWs_length_le' data.toList
  simp only [Array.length_toList] at hwl
  simp only [Model.readFloat64]
  by_cases hne : (countWhitespace data == data.size) = true
  · rw [if_pos hne]
    have : countWhitespace data = data.size := by simpa using hne
    exact ⟨rfl, by simp, by simp [this]⟩
  · rw [if_neg hne]
    obtain ⟨hp, hn⟩ := parse_total (data.extract (countWhitespace data) data.size)
    have hsz : (data.extract (countWhitespace data) data.size).size = data.size - countWhitespace data := by simp
    rw [hsz] at hn
    refine ⟨?_, by simp only []; omega, ?_⟩
    · simp only []
      cases hpp : (parse (data.extract (countWhitespace data) data.size)).path <;> first | rfl | exact absurd hpp hp
    · simp only []
      have : countWhitespace data ≤ data.size := by rw [hcw]; omega
      omega

end RJson.C10
