import RJson.Gen.Facts
/-!
# C18 — independent calls are safe to run concurrently (logic part)

`disjoint_commute`: operations whose write set is disjoint from the other's read and write set commute, and
`interleave_eq_sequential` lifts this to every interleaving of two calls' step sequences.
`footprints_disjoint`: on the current source, no function of `rjson` or `internal/fp` assigns through a
package-level variable, takes the address of one, slices a package-level array, calls a method on one, or
starts a goroutine, and every package-level variable is a plain table, a sentinel error or a function value —
so the only locations a call writes are reachable from its own arguments / receiver / locals.
The runtime part (the Go memory model, the race detector run) is in the correspondence check.
-/
namespace RJson.C18

variable {Loc Val : Type}

/-- an atomic step with a declared footprint -/
structure Step (Loc Val : Type) where
  reads : Loc → Prop
  writes : Loc → Prop
  run : (Loc → Val) → (Loc → Val)
  /-- locations outside the write set are unchanged -/
  frame : ∀ s l, ¬ writes l → run s l = s l
  /-- the written values depend only on the locations read or written -/
  local_ : ∀ s t, (∀ l, reads l ∨ writes l → s l = t l) → ∀ l, writes l → run s l = run t l

def Step.indep (a b : Step Loc Val) : Prop :=
  (∀ l, a.writes l → ¬ b.reads l ∧ ¬ b.writes l) ∧ (∀ l, b.writes l → ¬ a.reads l ∧ ¬ a.writes l)

theorem disjoint_commute (a b : Step Loc Val) (h : a.indep b) (s : Loc → Val) :
    a.run (b.run s) = b.run (a.run s) := by
  funext l
  by_cases ha : a.writes l
  · have hb : ¬ b.writes l := (h.1 l ha).2
    rw [b.frame (a.run s) l hb]
    apply a.local_
    · intro l' hl'
      apply b.frame
      intro hbw
      rcases hl' with hr | hw
      · exact (h.2 l' hbw).1 hr
      · exact (h.2 l' hbw).2 hw
    · exact ha
  · rw [a.frame (b.run s) l ha]
    by_cases hb : b.writes l
    · apply b.local_
      · intro l' hl'
        symm
        apply a.frame
        intro haw
        rcases hl' with hr | hw
        · exact (h.1 l' haw).1 hr
        · exact (h.1 l' haw).2 hw
      · exact hb
    · rw [b.frame s l hb, b.frame (a.run s) l hb, a.frame s l ha]

def runAll (xs : List (Step Loc Val)) (s : Loc → Val) : Loc → Val := xs.foldl (fun s x => x.run s) s

/-- the interleavings of two step sequences -/
inductive Interleave : List (Step Loc Val) → List (Step Loc Val) → List (Step Loc Val) → Prop
  | nil : Interleave [] [] []
  | left {x xs ys zs} : Interleave xs ys zs → Interleave (x :: xs) ys (x :: zs)
  | right {y xs ys zs} : Interleave xs ys zs → Interleave xs (y :: ys) (y :: zs)

theorem run_swap_front (y : Step Loc Val) (xs : List (Step Loc Val)) (h : ∀ x ∈ xs, x.indep y) (s : Loc → Val) :
    runAll (xs ++ [y]) s = runAll (y :: xs) s := by
  induction xs generalizing s with
  | nil => rfl
  | cons x xs ih =>
    simp only [runAll, List.cons_append, List.foldl_cons] at ih ⊢
    rw [ih (fun x' hx' => h x' (List.mem_cons_of_mem _ hx'))]
    rw [disjoint_commute x y (h x (List.mem_cons_self))]

/-- every interleaving of two calls whose steps are pairwise independent ends in the state of running the
    first call completely and then the second -/
theorem interleave_eq_sequential {xs ys zs : List (Step Loc Val)} (hi : Interleave xs ys zs)
    (hind : ∀ x ∈ xs, ∀ y ∈ ys, x.indep y) (s : Loc → Val) :
    runAll zs s = runAll (xs ++ ys) s := by
  induction hi generalizing s with
  | nil => rfl
  | left _ ih =>
    simp only [runAll, List.cons_append, List.foldl_cons] at ih ⊢
    exact ih (fun x hx y hy => hind x (List.mem_cons_of_mem _ hx) y hy) _
  | @right y xs ys zs _ ih =>
    have ih' := ih (fun x hx y' hy' => hind x hx y' (List.mem_cons_of_mem _ hy'))
    simp only [runAll, List.foldl_cons] at ih' ⊢
    rw [ih']
    have := run_swap_front y xs (fun x hx => hind x hx y List.mem_cons_self) s
    simp only [runAll, List.foldl_append, List.foldl_cons, List.foldl_nil] at this
    rw [List.foldl_append, List.foldl_append, List.foldl_cons, ← this]

/-- the regenerated facts: nothing in either package can write to package-level state -/
theorem footprints_disjoint :
    Gen.Facts.rjsonGlobalWrites = [] ∧ Gen.Facts.rjsonGlobalAliases = [] ∧ Gen.Facts.rjsonGlobalMethodCalls = [] ∧
    Gen.Facts.rjsonNonTableGlobals = [] ∧ Gen.Facts.rjsonGoStatements = [] ∧
    Gen.Facts.fpGlobalWrites = [] ∧ Gen.Facts.fpGlobalAliases = [] ∧ Gen.Facts.fpGlobalMethodCalls = [] ∧
    Gen.Facts.fpNonTableGlobals = [] ∧ Gen.Facts.fpGoStatements = [] ∧ Gen.Facts.fpSensitiveImports = [] ∧
    Gen.Facts.rjsonSensitiveImports = ["complex_readers.go:sync"] := by decide

end RJson.C18
