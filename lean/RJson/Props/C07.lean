import RJson.Proofs.TraverseMembers
import RJson.Props.C14
/-!
# C07 — handlers see each member exactly once, in order; the traversal still validates

For every input (shorter than 2^62 bytes), every buffer state / re-entrant interference and every *well-behaved*
handler (`Abs.WB`: when it reports no error it returns 0 or the exact length of the value at the head of the
bytes it was given), the models of `HandleArrayValues` / `HandleObjectValues` — the regenerated tables on the Go
slice stack — behave as follows, where `Spec.traverseArray` / `traverseObject` is the member list of the
reference scanner (`null` has no members):

* the input's first value is a well-formed array / object (or `null`), and the handler reports no error on any
  member: success, offset just after the closing bracket, the handler was called exactly once per member, in
  document order, with the raw bytes between the key's quotes and the input from the first byte of the member's
  value (`replay` folds the handler over the member list; the final handler state and the call count are equal);
* the handler reports an error on some member: the traversal stops with that error after exactly the calls up to
  that member (what is returned then is C09's business);
* otherwise (no well-formed array / object / `null`): never success.
-/
namespace RJson.C07
open RJson.Ragel RJson.Spec RJson.Abs

theorem traverseArray_91 (rest : List UInt8) (data : List UInt8) (h : skipWs data = 91 :: rest) :
    traverseArray data =
      match arrMembers data.length (data.length + 1) true rest [] with
      | some (ms, r) => some (ms, data.length - r.length)
      | none => none := by
  simp only [traverseArray, h]
  rfl

theorem traverseArray_other (data : List UInt8) (hne : ∀ rest, skipWs data ≠ 91 :: rest) :
    traverseArray data =
      match scanLit [110, 117, 108, 108] (skipWs data) with
      | some r => some ([], data.length - r.length)
      | none => none := by
  simp only [traverseArray]
  split <;> simp_all

theorem traverseObject_123 (rest : List UInt8) (data : List UInt8) (h : skipWs data = 123 :: rest) :
    traverseObject data =
      match objMembers data.length (data.length + 1) true rest [] with
      | some (ms, r) => some (ms, data.length - r.length)
      | none => none := by
  simp only [traverseObject, h]
  rfl

theorem traverseObject_other (data : List UInt8) (hne : ∀ rest, skipWs data ≠ 123 :: rest) :
    traverseObject data =
      match scanLit [110, 117, 108, 108] (skipWs data) with
      | some r => some ([], data.length - r.length)
      | none => none := by
  simp only [traverseObject]
  split <;> simp_all

/-- what a result has to look like given the member list -/
def Agrees {τ} (h : Handler τ) (data : List UInt8) (hs : τ) (res : Result τ) : Option (List Member × Nat) → Prop
  | some (ms, n) =>
    match (replay h data ms hs 0).2.2 with
    | none => res.kind = .ok ∧ res.p = (n : Int) ∧ res.hs = (replay h data ms hs 0).1 ∧ res.ncalls = (replay h data ms hs 0).2.1
    | some id => res.kind = .herr id ∧ res.hs = (replay h data ms hs 0).1 ∧ res.ncalls = (replay h data ms hs 0).2.1
  | none => res.kind ≠ .ok

theorem isErr_not_ok {τ} (res : Result τ) (h : IsErr res) : res.kind ≠ .ok := by
  obtain ⟨e, he⟩ := h
  rw [he]; simp

theorem walkRes_not_done {τ} (data : Bytes) (res : Result τ) (o : TOut τ) (hw : WalkRes data res o)
    (hnd : ∀ hs' c r, o ≠ .done hs' c r) : res.kind ≠ .ok := by
  cases o with
  | bad => exact isErr_not_ok res hw
  | herr a b c => rw [hw.1]; simp
  | done a b c => exact absurd rfl (hnd a b c)

theorem walkRes_replay {τ} (h : Handler τ) (data : Bytes) (hs : τ) (res : Result τ) (ms : List Member) (r : List UInt8)
    (hw : WalkRes data res (replayOut (replay h data.toList ms hs 0) r)) :
    Agrees h data.toList hs res (some (ms, data.toList.length - r.length)) := by
  simp only [Agrees]
  simp only [replayOut] at hw
  cases he : (replay h data.toList ms hs 0).2.2 with
  | none =>
    rw [he] at hw
    obtain ⟨hk, hhs, hn, p', hat, hp⟩ := hw
    refine ⟨hk, ?_, hhs, hn⟩
    have hl := hat.length
    have hle := hat.le
    rw [hp]
    simp only [Array.length_toList]
    omega
  | some id =>
    rw [he] at hw
    exact hw

theorem null_case {τ} (k : Abs.Kind) (h : Handler τ) (data : Bytes) (hs : τ) (res : Result τ)
    (hb : ∀ b rest, skipWs data.toList = b :: rest → (k == .harr && b == 91) = false ∧ (k == .hobj && b == 123) = false)
    (hw : WalkRes data res (traverseH k h data.toList hs)) :
    Agrees h data.toList hs res
      (match scanLit [110, 117, 108, 108] (skipWs data.toList) with
        | some r => some ([], data.toList.length - r.length)
        | none => none) := by
  simp only [traverseH] at hw
  cases hsk : skipWs data.toList with
  | nil =>
    rw [hsk] at hw
    simp only [scanLit_cons_nil, Agrees]
    exact isErr_not_ok res hw
  | cons b rest =>
    rw [hsk] at hw
    obtain ⟨h1, h2⟩ := hb b rest hsk
    simp only [h1, h2, Bool.false_eq_true, if_false] at hw
    rw [scanLit_cons_cons]
    by_cases h110 : (b == 110) = true
    · simp only [h110, if_true] at hw ⊢
      cases hsl : scanLit [117, 108, 108] rest with
      | none =>
        rw [hsl] at hw
        exact isErr_not_ok res hw
      | some r =>
        rw [hsl] at hw
        exact walkRes_replay h data hs res [] r (by simpa [replay, replayOut] using hw)
    · have h110' : (b == 110) = false := by simpa using h110
      simp only [h110', Bool.false_eq_true, if_false] at hw ⊢
      exact isErr_not_ok res hw

/-- the abstract array-handler machine against the member list -/
theorem abs_array_spec {τ} (h : Handler τ) (hwb : WB h) (data : Bytes) (hsm : Small data) (dst : Bytes) (hs : τ) :
    Agrees h data.toList hs (runL (machine .harr) data h dst hs) (traverseArray data.toList) := by
  have hw := traverse_run .harr (.inl rfl) h hwb data hsm dst hs
  generalize runL (machine .harr) data h dst hs = res at hw
  by_cases h91 : ∃ rest, skipWs data.toList = 91 :: rest
  · obtain ⟨rest, hsk⟩ := h91
    rw [traverseArray_91 rest _ hsk]
    simp only [traverseH, hsk] at hw
    have hw' : WalkRes data res (arrWalk h (data.toList.length + 1) true rest hs 0) := by simpa using hw
    have hsuf : rest <:+ data.toList := by
      have := skipWs_suffix data.toList
      rw [hsk] at this
      exact suffix_of_cons_suffix this
    have key := arr_members_walk h data.toList (data.toList.length + 1) true rest [] hs 0 hsuf
    cases hm : arrMembers data.toList.length (data.toList.length + 1) true rest [] with
    | none =>
      rw [hm] at key
      exact walkRes_not_done data res _ hw' key
    | some pr =>
      obtain ⟨ms, r⟩ := pr
      rw [hm] at key
      obtain ⟨new, hms, hwalk⟩ := key
      simp only [List.reverse_nil, List.nil_append] at hms
      subst hms
      rw [hwalk] at hw'
      exact walkRes_replay h data hs res ms r hw'
  · have hne : ∀ rest, skipWs data.toList ≠ 91 :: rest := fun rest hh => h91 ⟨rest, hh⟩
    rw [traverseArray_other _ hne]
    apply null_case .harr h data hs res _ hw
    intro b rest hsk
    refine ⟨?_, rfl⟩
    have : b ≠ 91 := by intro hb; subst hb; exact hne rest hsk
    simpa using this

/-- the abstract object-handler machine against the member list -/
theorem abs_object_spec {τ} (h : Handler τ) (hwb : WB h) (data : Bytes) (hsm : Small data) (dst : Bytes) (hs : τ) :
    Agrees h data.toList hs (runL (machine .hobj) data h dst hs) (traverseObject data.toList) := by
  have hw := traverse_run .hobj (.inr rfl) h hwb data hsm dst hs
  generalize runL (machine .hobj) data h dst hs = res at hw
  by_cases h123 : ∃ rest, skipWs data.toList = 123 :: rest
  · obtain ⟨rest, hsk⟩ := h123
    rw [traverseObject_123 rest _ hsk]
    simp only [traverseH, hsk] at hw
    have hw' : WalkRes data res (objWalk h (data.toList.length + 1) true rest hs 0) := by
      have hk1 : (Kind.hobj == Kind.harr) = false := rfl
      simpa [hk1] using hw
    have hsuf : rest <:+ data.toList := by
      have := skipWs_suffix data.toList
      rw [hsk] at this
      exact suffix_of_cons_suffix this
    have key := obj_members_walk h data.toList (data.toList.length + 1) true rest [] hs 0 hsuf
    cases hm : objMembers data.toList.length (data.toList.length + 1) true rest [] with
    | none =>
      rw [hm] at key
      exact walkRes_not_done data res _ hw' key
    | some pr =>
      obtain ⟨ms, r⟩ := pr
      rw [hm] at key
      obtain ⟨new, hms, hwalk⟩ := key
      simp only [List.reverse_nil, List.nil_append] at hms
      subst hms
      rw [hwalk] at hw'
      exact walkRes_replay h data hs res ms r hw'
  · have hne : ∀ rest, skipWs data.toList ≠ 123 :: rest := fun rest hh => h123 ⟨rest, hh⟩
    rw [traverseObject_other _ hne]
    apply null_case .hobj h data hs res _ hw
    intro b rest hsk
    refine ⟨rfl, ?_⟩
    have : b ≠ 123 := by intro hb; subst hb; exact hne rest hsk
    simpa using this

/-- **C07, arrays**: the regenerated table on the Go slice stack -/
theorem handleArrayValues_spec {τ} (h : Handler τ) (hwb : WB h) (data : Bytes) (hsm : Small data) (hv : Havoc Nat)
    (stack : Array Nat) (hs : τ) :
    Agrees h data.toList hs (runA Gen.HandleArrayValues.machine data h hv stack #[] hs).1 (traverseArray data.toList) := by
  rw [runA_eq_runL _ data h hv stack #[] hs (C14.handleArrayValues_noBD data h #[] hs), Certs.HandleArrayValues.run_eq]
  exact abs_array_spec h hwb data hsm #[] hs

/-- **C07, objects** -/
theorem handleObjectValues_spec {τ} (h : Handler τ) (hwb : WB h) (data : Bytes) (hsm : Small data) (hv : Havoc Nat)
    (stack : Array Nat) (hs : τ) :
    Agrees h data.toList hs (runA Gen.HandleObjectValues.machine data h hv stack #[] hs).1 (traverseObject data.toList) := by
  rw [runA_eq_runL _ data h hv stack #[] hs (C14.handleObjectValues_noBD data h #[] hs), Certs.HandleObjectValues.run_eq]
  exact abs_object_spec h hwb data hsm #[] hs

/-- without a handler error the handler is called exactly once per member -/
theorem replay_calls {τ} (h : Handler τ) (data : List UInt8) : ∀ (ms : List Member) (hs : τ) (n : Nat),
    (replay h data ms hs n).2.2 = none → (replay h data ms hs n).2.1 = n + ms.length := by
  intro ms
  induction ms with
  | nil => intro hs n _; rfl
  | cons m ms ih =>
    intro hs n hne
    simp only [replay] at hne ⊢
    cases he : (h hs m.field.toArray (List.drop m.off data).toArray).2.2 with
    | some id => rw [he] at hne; simp at hne
    | none =>
      rw [he] at hne
      simp only [] at hne ⊢
      rw [ih _ _ hne]
      simp only [List.length_cons]
      omega

/-- non-vacuity: the member list of `[1, "a"]` and of `{"k": [2]}` -/
example : traverseArray [91, 49, 44, 32, 34, 97, 34, 93] = some ([⟨[], 1⟩, ⟨[], 4⟩], 8) := by rfl
example : traverseObject [123, 34, 107, 34, 58, 32, 91, 50, 93, 125] = some ([⟨[107], 6⟩], 10) := by rfl

end RJson.C07
