import RJson.Proofs.SafetyRun
import RJson.Props.C14
/-!
# C10 — every entry point built on the generated machines is total and memory-safe on hostile input and handlers

`gen_total`: for each of the four regenerated tables (`skipValue`, `skipValueFast`, `handleArrayValues`,
`handleObjectValues`), every input shorter than 2^62 bytes, every handler — *any* function: any offset (negative,
zero, beyond the end, near the integer limits, into the middle of a token) and any error at any call — every initial
content of the scratch buffer and every re-entrant overwriting of it: the run does not panic (no index or slice
out of range, no pop from an empty stack), ends within the interpreter's fuel (the Go loop terminates: twice the
remaining input length plus one bounds the number of iterations), and a result without error reports an offset
between 0 and the input length.

Route: `Abs.allOK k` — a syntactic condition on every transition of every reachable state of the abstract
machine, *decided by the kernel* — `Abs.safe_run` (the condition implies the invariant: offset in range, stack
consistent with the state, key-slice registers ordered before every handler call, termination measure decreasing)
→ certificate (generated table = abstract machine) → `Stack.runA_eq_runL` (Go slice stack).
The hand-written readers are total by their specification theorems (C05, C06, C13); see MANIFEST for what
remains observed only.
-/
namespace RJson.C10
open RJson.Ragel RJson.Abs

theorem gen_total {τ} (f : C14.Fn) (data : Bytes) (hsm : Small data) (h : Handler τ) (hv : Havoc Nat) (stack : Array Nat)
    (dst : Bytes) (hs : τ) :
    Good data (runA f.machine data h hv stack dst hs).1 ∧ (runA f.machine data h hv stack dst hs).1.kind ≠ .badDepth := by
  have hbd := C14.fn_noBD f data h dst hs
  rw [runA_eq_runL _ data h hv stack dst hs hbd]
  refine ⟨?_, hbd⟩
  cases f with
  | skipValue => simp only [C14.Fn.machine]; rw [Certs.SkipValue.run_eq]; exact machine_total .skip data hsm h dst hs
  | skipValueFast => simp only [C14.Fn.machine]; rw [Certs.SkipValueFast.run_eq]; exact machine_total .fast data hsm h dst hs
  | handleArrayValues => simp only [C14.Fn.machine]; rw [Certs.HandleArrayValues.run_eq]; exact machine_total .harr data hsm h dst hs
  | handleObjectValues => simp only [C14.Fn.machine]; rw [Certs.HandleObjectValues.run_eq]; exact machine_total .hobj data hsm h dst hs

/-- `SkipValue`, `SkipValueFast`, `Valid` never panic; offsets reported without error are inside the input -/
theorem skipValue_total (data : Bytes) (hsm : Small data) (stack : Array Nat) :
    (Model.skipValue data stack).1.panicked = false ∧
      ((Model.skipValue data stack).1.err = none → 0 ≤ (Model.skipValue data stack).1.p ∧ (Model.skipValue data stack).1.p ≤ (data.size : Int)) := by
  have key := gen_total .skipValue data hsm noHandler (fun _ _ => none) stack #[] ()
  simp only [C14.Fn.machine] at key
  simp only [Model.skipValue, Model.runPlain]
  generalize runA Gen.SkipValue.machine data noHandler (fun _ _ => none) stack #[] () = rp at key
  obtain ⟨res, st⟩ := rp
  obtain ⟨⟨h1, h2, h3⟩, h4⟩ := key
  simp only at h1 h2 h3 h4 ⊢
  cases hk : res.kind <;> simp_all [Model.ofResult]

theorem skipValueFast_total (data : Bytes) (hsm : Small data) (stack : Array Nat) :
    (Model.skipValueFast data stack).1.panicked = false ∧
      ((Model.skipValueFast data stack).1.err = none →
        0 ≤ (Model.skipValueFast data stack).1.p ∧ (Model.skipValueFast data stack).1.p ≤ (data.size : Int)) := by
  have key := gen_total .skipValueFast data hsm noHandler (fun _ _ => none) stack #[] ()
  simp only [C14.Fn.machine] at key
  simp only [Model.skipValueFast, Model.runPlain]
  generalize runA Gen.SkipValueFast.machine data noHandler (fun _ _ => none) stack #[] () = rp at key
  obtain ⟨res, st⟩ := rp
  obtain ⟨⟨h1, h2, h3⟩, h4⟩ := key
  simp only at h1 h2 h3 h4 ⊢
  cases hk : res.kind <;> simp_all [Model.ofResult]

end RJson.C10
