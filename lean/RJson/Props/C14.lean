import RJson.Proofs.AbsDepth
import RJson.Certs.SkipValue
import RJson.Certs.SkipValueFast
import RJson.Certs.HandleArrayValues
import RJson.Certs.HandleObjectValues
import RJson.Model.Api
/-!
# C14 — a reused Buffer never changes results, even when shared with the handler

The generated machines are run by `Ragel.runA` with the return-state stack as a Go slice: any initial length
and contents (`stack₀` — what an earlier call left in the `Buffer`), grown by `prepush`, and overwritten
arbitrarily after every handler call (`hv` — a handler that re-enters the library with the same `Buffer`).
For each of the four machines behind the five buffer-taking functions the result is the same for every
`stack₀` and `hv`, in particular the same as with a nil buffer (`#[]`). `session_irrelevant` lifts this to
every finite sequence of calls that thread one buffer.

Route: kernel-checked simulation certificate (generated table = abstract machine) → the abstract machines only
run handlers at depth 0 (`Abs.run_noBD`) → `Ragel.runA_eq_runL`.
-/
namespace RJson.C14
open RJson.Ragel

theorem skipValue_noBD {τ} (data : Bytes) (h : Handler τ) (dst : Bytes) (hs : τ) :
    (runL Gen.SkipValue.machine data h dst hs).kind ≠ .badDepth := by
  rw [Certs.SkipValue.run_eq]; exact Abs.run_noBD _ _ _ _ _

theorem skipValueFast_noBD {τ} (data : Bytes) (h : Handler τ) (dst : Bytes) (hs : τ) :
    (runL Gen.SkipValueFast.machine data h dst hs).kind ≠ .badDepth := by
  rw [Certs.SkipValueFast.run_eq]; exact Abs.run_noBD _ _ _ _ _

theorem handleArrayValues_noBD {τ} (data : Bytes) (h : Handler τ) (dst : Bytes) (hs : τ) :
    (runL Gen.HandleArrayValues.machine data h dst hs).kind ≠ .badDepth := by
  rw [Certs.HandleArrayValues.run_eq]; exact Abs.run_noBD _ _ _ _ _

theorem handleObjectValues_noBD {τ} (data : Bytes) (h : Handler τ) (dst : Bytes) (hs : τ) :
    (runL Gen.HandleObjectValues.machine data h dst hs).kind ≠ .badDepth := by
  rw [Certs.HandleObjectValues.run_eq]; exact Abs.run_noBD _ _ _ _ _

/-- the machines, indexed by the API function that runs them -/
inductive Fn | skipValue | skipValueFast | handleArrayValues | handleObjectValues
  deriving DecidableEq, Repr

def Fn.machine : Fn → PDM Nat
  | .skipValue => Gen.SkipValue.machine
  | .skipValueFast => Gen.SkipValueFast.machine
  | .handleArrayValues => Gen.HandleArrayValues.machine
  | .handleObjectValues => Gen.HandleObjectValues.machine

theorem fn_noBD {τ} (f : Fn) (data : Bytes) (h : Handler τ) (dst : Bytes) (hs : τ) :
    (runL f.machine data h dst hs).kind ≠ .badDepth := by
  cases f
  · exact skipValue_noBD data h dst hs
  · exact skipValueFast_noBD data h dst hs
  · exact handleArrayValues_noBD data h dst hs
  · exact handleObjectValues_noBD data h dst hs

/-- one call: same result for every buffer content and every re-entrant interference -/
theorem buffer_irrelevant {τ} (f : Fn) (data : Bytes) (h : Handler τ) (hv₁ hv₂ : Havoc Nat)
    (stack₁ stack₂ : Array Nat) (dst : Bytes) (hs : τ) :
    (runA f.machine data h hv₁ stack₁ dst hs).1 = (runA f.machine data h hv₂ stack₂ dst hs).1 :=
  runA_stack_irrelevant _ data h hv₁ hv₂ stack₁ stack₂ dst hs (fn_noBD f data h dst hs)

/-- in particular the same as with no buffer at all -/
theorem buffer_eq_nil {τ} (f : Fn) (data : Bytes) (h : Handler τ) (hv : Havoc Nat) (stack : Array Nat) (dst : Bytes) (hs : τ) :
    (runA f.machine data h hv stack dst hs).1 = (runA f.machine data h (fun _ _ => none) #[] dst hs).1 :=
  buffer_irrelevant f data h hv _ stack #[] dst hs

/-- `Valid` (skipValue + trailing whitespace) through the model of rjson.go -/
theorem valid_buffer_irrelevant (data : Bytes) (stack : Array Nat) :
    (Model.valid data stack).1 = (Model.valid data #[]).1 := by
  have h := buffer_irrelevant .skipValue data noHandler (fun _ _ => none) (fun _ _ => none) stack #[] #[] ()
  simp only [Fn.machine] at h
  simp only [Model.valid, Model.runPlain, h]

theorem skipValue_buffer_irrelevant (data : Bytes) (stack : Array Nat) :
    (Model.skipValue data stack).1 = (Model.skipValue data #[]).1 := by
  have h := buffer_irrelevant .skipValue data noHandler (fun _ _ => none) (fun _ _ => none) stack #[] #[] ()
  simp only [Fn.machine] at h
  simp only [Model.skipValue, Model.runPlain, h]

theorem skipValueFast_buffer_irrelevant (data : Bytes) (stack : Array Nat) :
    (Model.skipValueFast data stack).1 = (Model.skipValueFast data #[]).1 := by
  have h := buffer_irrelevant .skipValueFast data noHandler (fun _ _ => none) (fun _ _ => none) stack #[] #[] ()
  simp only [Fn.machine] at h
  simp only [Model.skipValueFast, Model.runPlain, h]

/-- a session: calls that thread one buffer (the stack stored back by a call is handed to the next) -/
structure Call (τ : Type) where
  fn : Fn
  data : Bytes
  handler : Handler τ
  havoc : Havoc Nat
  hs : τ

def runSession {τ} : List (Call τ) → Array Nat → List (Result τ)
  | [], _ => []
  | c :: rest, stack =>
    let (res, stack') := runA c.fn.machine c.data c.handler c.havoc stack #[] c.hs
    res :: runSession rest stack'

/-- every call of every session returns what it returns with no buffer -/
theorem session_irrelevant {τ} (calls : List (Call τ)) (stack₀ : Array Nat) :
    runSession calls stack₀ =
      calls.map (fun c => (runA c.fn.machine c.data c.handler (fun _ _ => none) #[] #[] c.hs).1) := by
  induction calls generalizing stack₀ with
  | nil => rfl
  | cons c rest ih =>
    simp only [runSession, List.map_cons]
    rw [ih]
    congr 1
    exact buffer_eq_nil c.fn c.data c.handler c.havoc stack₀ #[] c.hs



end RJson.C14
