import RJson.Proofs.TreeTotal
/-!
# C10 — the generic decoder is total: `ReadValue`, `ReadObject`, `ReadArray` never panic

For **every** input shorter than 2^62 bytes, the model of `ReadValue` / `ReadObject` / `ReadArray` (regenerated handler
tables at every nesting level, hand model of complex_readers.go) returns normally — the handler machines stop with a
result, an error or the handler's own error; the key handed to `HandleObjectValue` is a well-formed string body; all
scalar readers are total (strings: C06, literals: C13, numbers: `C10.readFloat64_total`); the recursion of the readers
never exceeds the fuel the model gives it (a child reader starts one level deeper on a strictly shorter suffix and
never beyond the depth limit). With `C03.read*_offset` a reported offset with a nil error lies within the input.
-/
namespace RJson.C10
open RJson.Ragel RJson.Spec RJson.Abs RJson.Model RJson.VR RJson.Tree

theorem fuel_covers (data sub : Bytes) (hsub : sub.size ≤ data.size) :
    Model.readerFuel data + 1 ≥ Gen.valueReaderMaxDepth + 2 ∨ Model.readerFuel data ≥ sub.size + 1 := by
  have hmax : Gen.valueReaderMaxDepth = 10000 := rfl
  simp only [Model.readerFuel]
  omega

/-- **`ReadObject` never panics** -/
theorem readObject_total (data : Bytes) (hsm : Small data) : (Model.readObject data).panicked = false :=
  (readers_nopanic (Model.readerFuel data) 1 data hsm (by decide) (fuel_covers data data (le_refl _))).1

/-- **`ReadArray` never panics** -/
theorem readArray_total (data : Bytes) (hsm : Small data) : (Model.readArray data).panicked = false :=
  (readers_nopanic (Model.readerFuel data) 1 data hsm (by decide) (fuel_covers data data (le_refl _))).2

/-- **`ReadValue` never panics** -/
theorem readValue_total (data : Bytes) (hsm : Small data) : (Model.readValue data).panicked = false := by
  simp only [Model.readValue]
  cases hnt : nextTokenType data with
  | mk tp rest =>
    obtain ⟨p, terr⟩ := rest
    simp only []
    cases terr with
    | some e => rfl
    | none =>
      simp only []
      have hsmS := small_extract data hsm (p - 1) data.size
      have hsz : (data.extract (p - 1) data.size).size ≤ data.size := by simp
      have hlev := readers_nopanic (Model.readerFuel data) 1 (data.extract (p - 1) data.size) hsmS (by decide)
        (fuel_covers data _ hsz)
      by_cases h6 : (tp == 6) = true
      · simp only [h6, if_true]; exact hlev.1
      · simp only [h6, Bool.false_eq_true, if_false]
        by_cases h8 : (tp == 8) = true
        · simp only [h8, if_true]; exact hlev.2
        · simp only [h8, Bool.false_eq_true, if_false]
          exact readSimpleValue_nopanic _ hsmS tp

end RJson.C10
