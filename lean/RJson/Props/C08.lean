import RJson.Proofs.Resume
import RJson.Props.C02
import RJson.Props.C11
import RJson.Props.C05
/-!
# C08 — offsets compose: every offset a reader reports is a correct place to resume

* **Resume points.** Whenever a reader succeeds, the offset it reports is the end of the first value of its input as
  defined by the reference scanner without depth limit (`Spec.valueEnd none`): `SkipValue` (`skipValue_resume`),
  `SkipValueFast` (`skipValueFast_resume`, when `SkipValue` succeeds), the string readers (`readString_resume`), the
  six integer readers (`readInt_resume` with C05), the literal readers (`lit_resume` with C13), and the handler
  traversals for every well-behaved handler (`handleArray_resume`, `handleObject_resume`).
* **Composition.** A handler that answers with the offset of such a reader (or 0, or an error) is well-behaved
  (`WB_of_valueEnd`); in particular handlers built from `SkipValue` (`skipH_WB`), from `ReadString`
  (`stringH_WB`) and from a *nested* `HandleArrayValues` / `HandleObjectValues` whose own handler is
  well-behaved (`nestedArr_WB`, `nestedObj_WB`) — so decoders assembled from these pieces in the documented
  style are well-behaved at every level, each traversal visits every member exactly once (C07) and ends where
  direct skipping of the container ends.
-/
namespace RJson.C08
open RJson.Ragel RJson.Spec RJson.Abs

theorem not_ws_of_valueStart (b : UInt8) (h : isValueStart b = true) : isWs b = false := by
  have hall : allBelow (fun n => !(isValueStart (UInt8.ofNat n)) || !(isWs (UInt8.ofNat n))) 256 = true := by decide +kernel
  have := forall_byte (P := fun b => !(isValueStart b) || !(isWs b)) hall b
  simpa [h] using this

/-- a handler that reports (when it reports no error) 0 or the end of the first value of its input is well-behaved -/
theorem WB_of_valueEnd {τ} (h : Handler τ)
    (hres : ∀ (hs : τ) (field : Bytes) (v : List UInt8), (∀ b rest, v = b :: rest → isValueStart b = true) →
      v.length < 4611686018427387904 → (h hs field v.toArray).2.2 = none →
      (h hs field v.toArray).2.1 = 0 ∨ ∃ n : Nat, valueEnd none v = some n ∧ (h hs field v.toArray).2.1 = (n : Int)) :
    WB h := by
  intro hs field v hvs hlen he
  rcases hres hs field v hvs hlen he with hz | ⟨n, hve, hp⟩
  · exact .inl hz
  · right
    cases v with
    | nil => simp [valueEnd, skipWs, scanValue] at hve
    | cons b rest =>
      have hnws := not_ws_of_valueStart b (hvs b rest rfl)
      have hsk : skipWs (b :: rest) = b :: rest := by simp [skipWs, hnws]
      simp only [valueEnd, hsk] at hve
      cases hs' : scanValue none (2 * (b :: rest).length + 2) 0 (b :: rest) with
      | none => rw [hs'] at hve; cases hve
      | some r =>
        rw [hs'] at hve
        injection hve with hve
        exact ⟨r, rfl, by rw [hp, hve]⟩

/-! ## resume points of the skip functions -/

theorem skipValue_resume (data : Bytes) (hsm : Small data) (stack : Array Nat)
    (hok : (Model.skipValue data stack).1.err = none) :
    ∃ n : Nat, valueEnd none data.toList = some n ∧ (Model.skipValue data stack).1.p = (n : Int) := by
  have h2 := C02.skipValue_spec data hsm stack
  cases hv : valueEnd (some Gen.skipMaxDepth) data.toList with
  | none => rw [hv] at h2; exact absurd hok h2.1
  | some n =>
    rw [hv] at h2
    exact ⟨n, valueEnd_limit _ _ _ hv, h2.2.2⟩

theorem skipValueFast_resume (data : Bytes) (hsm : Small data) (stack stack' : Array Nat)
    (hok : (Model.skipValue data stack).1.err = none) :
    ∃ n : Nat, valueEnd none data.toList = some n ∧ (Model.skipValueFast data stack').1.p = (n : Int) := by
  obtain ⟨n, hn, hp⟩ := skipValue_resume data hsm stack hok
  exact ⟨n, hn, by rw [(C11.fast_agrees data hsm stack stack' hok).2.2, hp]⟩

/-! ## handlers built from readers -/

/-- skip every member with `SkipValue` and count them -/
def skipH (stack : Array Nat) : Handler Nat := fun cnt _ suffix =>
  let r := (Model.skipValue suffix stack).1
  if r.err.isNone && !r.panicked then (cnt + 1, r.p, none) else (cnt, 0, some 1)

theorem skipH_WB (stack : Array Nat) : WB (skipH stack) := by
  apply WB_of_valueEnd
  intro hs field v _ hlen he
  right
  simp only [skipH] at he ⊢
  by_cases hc : ((Model.skipValue v.toArray stack).1.err.isNone && !(Model.skipValue v.toArray stack).1.panicked) = true
  · simp only [hc, if_true] at he ⊢
    have hok : (Model.skipValue v.toArray stack).1.err = none := by
      simp only [Bool.and_eq_true, Option.isNone_iff_eq_none] at hc; exact hc.1
    obtain ⟨n, hn, hp⟩ := skipValue_resume v.toArray (by unfold Small; simpa using hlen) stack hok
    exact ⟨n, by simpa using hn, hp⟩
  · simp [hc] at he

/-- collect every member that is a string with `ReadString` (an error for anything else) -/
def stringH : Handler (List Bytes) := fun acc _ suffix =>
  let r := Model.readString suffix
  if r.err.isNone && !r.panicked then (acc ++ [r.val], r.p, none) else (acc, 0, some 1)

theorem stringH_WB : WB stringH := by
  apply WB_of_valueEnd
  intro hs field v _ hlen he
  right
  simp only [stringH] at he ⊢
  by_cases hc : ((Model.readString v.toArray).err.isNone && !(Model.readString v.toArray).panicked) = true
  · simp only [hc, if_true] at he ⊢
    have hok : (Model.readString v.toArray).err = none := by
      simp only [Bool.and_eq_true, Option.isNone_iff_eq_none] at hc; exact hc.1
    have key := C06.readString_spec v.toArray (by unfold Small; simpa using hlen)
    cases hr : Spec.readString v.toArray.toList with
    | none => rw [hr] at key; exact absurd hok key.1
    | some pr =>
      obtain ⟨c, n⟩ := pr
      rw [hr] at key
      exact ⟨n, by have := readString_resume _ c n hr; simpa using this, key.2.2.1⟩
  · simp [hc] at he

/-! ## traversals: resume points and nesting -/

theorem agrees_ok {τ} (h : Handler τ) (data : List UInt8) (hs : τ) (res : Result τ) (o : Option (List Member × Nat))
    (ha : C07.Agrees h data hs res o) (hk : res.kind = .ok) : ∃ ms n, o = some (ms, n) ∧ res.p = (n : Int) := by
  cases o with
  | none => exact absurd hk ha
  | some pr =>
    obtain ⟨ms, n⟩ := pr
    simp only [C07.Agrees] at ha
    cases he : (replay h data ms hs 0).2.2 with
    | none => rw [he] at ha; exact ⟨ms, n, rfl, ha.2.1⟩
    | some id => rw [he] at ha; rw [ha.1] at hk; cases hk

/-- a successful array traversal with a well-behaved handler ends where the array ends -/
theorem handleArray_resume {τ} (h : Handler τ) (hwb : WB h) (data : Bytes) (hsm : Small data) (hv : Havoc Nat)
    (stack : Array Nat) (hs : τ) (hk : (runA Gen.HandleArrayValues.machine data h hv stack #[] hs).1.kind = .ok) :
    ∃ n : Nat, valueEnd none data.toList = some n ∧ (runA Gen.HandleArrayValues.machine data h hv stack #[] hs).1.p = (n : Int) := by
  obtain ⟨ms, n, ho, hp⟩ := agrees_ok h _ hs _ _ (C07.handleArrayValues_spec h hwb data hsm hv stack hs) hk
  exact ⟨n, traverseArray_resume _ ms n ho, hp⟩

theorem handleObject_resume {τ} (h : Handler τ) (hwb : WB h) (data : Bytes) (hsm : Small data) (hv : Havoc Nat)
    (stack : Array Nat) (hs : τ) (hk : (runA Gen.HandleObjectValues.machine data h hv stack #[] hs).1.kind = .ok) :
    ∃ n : Nat, valueEnd none data.toList = some n ∧ (runA Gen.HandleObjectValues.machine data h hv stack #[] hs).1.p = (n : Int) := by
  obtain ⟨ms, n, ho, hp⟩ := agrees_ok h _ hs _ _ (C07.handleObjectValues_spec h hwb data hsm hv stack hs) hk
  exact ⟨n, traverseObject_resume _ ms n ho, hp⟩

/-- a handler that traverses a nested array with its own (well-behaved) handler -/
def nestedArr {τ} (inner : Handler τ) (hv : Havoc Nat) (stack : Array Nat) : Handler τ := fun hs _ suffix =>
  let res := (runA Gen.HandleArrayValues.machine suffix inner hv stack #[] hs).1
  if res.kind == .ok then (res.hs, res.p, none) else (res.hs, 0, some 1)

def nestedObj {τ} (inner : Handler τ) (hv : Havoc Nat) (stack : Array Nat) : Handler τ := fun hs _ suffix =>
  let res := (runA Gen.HandleObjectValues.machine suffix inner hv stack #[] hs).1
  if res.kind == .ok then (res.hs, res.p, none) else (res.hs, 0, some 1)

theorem nestedArr_WB {τ} (inner : Handler τ) (hwb : WB inner) (hv : Havoc Nat) (stack : Array Nat) : WB (nestedArr inner hv stack) := by
  apply WB_of_valueEnd
  intro hs field v _ hlen he
  right
  simp only [nestedArr] at he ⊢
  by_cases hc : ((runA Gen.HandleArrayValues.machine v.toArray inner hv stack #[] hs).1.kind == .ok) = true
  · simp only [hc, if_true] at he ⊢
    obtain ⟨n, hn, hp⟩ := handleArray_resume inner hwb v.toArray (by unfold Small; simpa using hlen) hv stack hs (by simpa using hc)
    exact ⟨n, by simpa using hn, hp⟩
  · simp [hc] at he

theorem nestedObj_WB {τ} (inner : Handler τ) (hwb : WB inner) (hv : Havoc Nat) (stack : Array Nat) : WB (nestedObj inner hv stack) := by
  apply WB_of_valueEnd
  intro hs field v _ hlen he
  right
  simp only [nestedObj] at he ⊢
  by_cases hc : ((runA Gen.HandleObjectValues.machine v.toArray inner hv stack #[] hs).1.kind == .ok) = true
  · simp only [hc, if_true] at he ⊢
    obtain ⟨n, hn, hp⟩ := handleObject_resume inner hwb v.toArray (by unfold Small; simpa using hlen) hv stack hs (by simpa using hc)
    exact ⟨n, by simpa using hn, hp⟩
  · simp [hc] at he

/-- example of a two-level decoder: an array of arrays of values, every leaf skipped with `SkipValue` -/
theorem two_level_WB (hv : Havoc Nat) (stack stack' : Array Nat) : WB (nestedArr (skipH stack) hv stack') :=
  nestedArr_WB _ (skipH_WB stack) hv stack'

end RJson.C08
