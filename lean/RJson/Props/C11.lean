import RJson.Proofs.FastSkip
import RJson.Props.C02
/-!
# C11 — SkipValueFast agrees with SkipValue on every well-formed value

`fast_agrees`: for every input (shorter than 2^62 bytes) and all buffers, if the model of `SkipValue` (regenerated
`skipValue` table) succeeds, then the model of `SkipValueFast` (regenerated `skipValueFast` table) succeeds with
the same offset and without panic. Route: C02 (`SkipValue` succeeds ⇒ the scanner recognises a value) →
`Abs.abs_fast_scan` (the fast abstract machine steps over every value the scanner recognises: it tracks only
strings and the bracket kind of the innermost tracked container, and never exceeds the depth limit because its
stack is no deeper than the value's nesting) → certificate → slice removal (C14).
-/
namespace RJson.C11
open RJson.Ragel RJson.Spec

theorem skipValueFast_run (data : Bytes) (stack : Array Nat) :
    (Model.runPlain Gen.SkipValueFast.machine data stack).1 = runL Gen.SkipValueFast.machine data noHandler #[] () :=
  runA_eq_runL _ data noHandler _ stack #[] () (C14.skipValueFast_noBD data noHandler #[] ())

/-- the fast machine on inputs whose first value the scanner recognises -/
theorem skipValueFast_on_values (data : Bytes) (hsm : Small data) (stack : Array Nat) (n : Nat)
    (hv : valueEnd (some Gen.skipMaxDepth) data.toList = some n) :
    (Model.skipValueFast data stack).1.err = none ∧ (Model.skipValueFast data stack).1.panicked = false ∧
      (Model.skipValueFast data stack).1.p = (n : Int) := by
  simp only [valueEnd] at hv
  cases hsv : scanValue (some Gen.skipMaxDepth) (2 * data.toList.length + 2) 0 (skipWs data.toList) with
  | none => rw [hsv] at hv; cases hv
  | some rest =>
    rw [hsv] at hv
    injection hv with hv
    have key := Abs.abs_fast_scan data hsm noHandler #[] () rest hsv
    rw [← Certs.SkipValueFast.run_eq] at key
    have hrun := skipValueFast_run data stack
    simp only [Model.skipValueFast]
    generalize Model.runPlain Gen.SkipValueFast.machine data stack = rp at hrun
    obtain ⟨res, st⟩ := rp
    simp only at hrun
    subst hrun
    obtain ⟨hk, p, hat, hp⟩ := key
    have hl := hat.length
    have hle := hat.le
    simp only [Array.length_toList] at hv
    simp only [Model.ofResult, hk, hp]
    refine ⟨trivial, trivial, ?_⟩
    omega

/-- **C11** -/
theorem fast_agrees (data : Bytes) (hsm : Small data) (stack stack' : Array Nat)
    (hok : (Model.skipValue data stack).1.err = none) :
    (Model.skipValueFast data stack').1.err = none ∧ (Model.skipValueFast data stack').1.panicked = false ∧
      (Model.skipValueFast data stack').1.p = (Model.skipValue data stack).1.p := by
  have h2 := C02.skipValue_spec data hsm stack
  cases hv : valueEnd (some Gen.skipMaxDepth) data.toList with
  | none =>
    rw [hv] at h2
    exact absurd hok h2.1
  | some n =>
    rw [hv] at h2
    obtain ⟨_, _, hp⟩ := h2
    rw [hp]
    exact skipValueFast_on_values data hsm stack' n hv

end RJson.C11
