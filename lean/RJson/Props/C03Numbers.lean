import RJson.Props.C03Complete
import RJson.Props.C04Short
import RJson.Props.C04All
/-!
# C03 — the number leaves of the decoded tree are the correctly rounded values

`Tree.treeOf` takes a number leaf from `Tree.numOf`, i.e. from `ParseJSONFloatPrefix`. With `C04.parse_correct_short`:
for every number literal with at most 60 mantissa digits the leaf is the binary64 nearest to the literal's exact
decimal value (ties to even), and the leaf is absent — the whole value is rejected — exactly when that rounded value
overflows; with `C04.parse_correct_all` (`numOf_all`) the same holds for every number literal. So `C03.readValue_tree` /
`readValue_complete` speak about the mathematically specified tree, not merely about "what the float parser returns".
-/
namespace RJson.C03
open RJson.Spec RJson.Tree

theorem numOf_short (v rest : List UInt8) (hscan : scanNumber v = some rest)
    (hlen : C04.mantissaDigits (v.take (v.length - rest.length)) ≤ 60) :
    numOf v = if (C04.rounded (v.take (v.length - rest.length))).2 then none
              else some (C04.rounded (v.take (v.length - rest.length))).1 := by
  have key := C04.parse_correct_short v.toArray rest (by simpa using hscan) (by simpa using hlen)
  simp only [List.toList_toArray] at key
  obtain ⟨_, he, hb⟩ := key
  simp only [numOf]
  cases hr : (C04.rounded (v.take (v.length - rest.length))).2 with
  | true => rw [hr] at he; simp [he]
  | false =>
    rw [hr] at he
    simp only [he, Bool.false_eq_true, if_false]
    rw [hb he]

/-- **every number leaf is the correctly rounded value** (`C04.parse_correct_all`): no bound on the digits -/
theorem numOf_all (v rest : List UInt8) (hscan : scanNumber v = some rest) :
    numOf v = if (C04.rounded (v.take (v.length - rest.length))).2 then none
              else some (C04.rounded (v.take (v.length - rest.length))).1 := by
  have key := C04.parse_correct_all v.toArray rest (by simpa using hscan)
  simp only [List.toList_toArray] at key
  obtain ⟨_, he, hb⟩ := key
  simp only [numOf]
  cases hr : (C04.rounded (v.take (v.length - rest.length))).2 with
  | true => rw [hr] at he; simp [he]
  | false =>
    rw [hr] at he
    simp only [he, Bool.false_eq_true, if_false]
    rw [hb he]

end RJson.C03
