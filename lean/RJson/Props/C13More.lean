import RJson.Props.C03
import RJson.Props.C13Types
/-!
# C13 (type exclusivity, continued): `ReadFloat64` and the `ValueReader` container readers
-/
namespace RJson.C13More
open RJson.Spec RJson.Model RJson.Ragel

/-- `ReadFloat64` only succeeds on a number token -/
theorem readFloat64_type (data : Bytes) (he : (Model.readFloat64 data).err = none) (hpk : (Model.readFloat64 data).panicked = false) :
    ∃ p, Spec.nextTokenType data.toList = some (3, p) := by
  have hcw := countWhitespace_spec data
  have hwl := skipWs_length_le' data.toList
  simp only [Array.length_toList] at hwl
  simp only [Model.readFloat64, hcw] at he hpk
  by_cases hend : (data.size - (skipWs data.toList).length == data.size) = true
  · simp [hend] at he
  · simp only [hend, Bool.false_eq_true, if_false] at he hpk
    have hperr : (FP.parse (data.extract (data.size - (skipWs data.toList).length) data.size)).err = false := by
      cases hh : (FP.parse (data.extract (data.size - (skipWs data.toList).length) data.size)).err with
      | false => rfl
      | true => simp [hh] at he
    obtain ⟨rest, hs, _⟩ := FloatSyntax.parse_ok_syntax _ hperr
    have hl : (data.extract (data.size - (skipWs data.toList).length) data.size).toList = skipWs data.toList := by
      rw [Abs.extract_toList, List.take_of_length_le (by simp)]
      have := C13Aux.drop_skipWs data.toList
      simpa using this
    rw [hl] at hs
    cases hsk : skipWs data.toList with
    | nil => rw [hsk] at hs; simp [scanNumber, scanNum1] at hs
    | cons b t =>
      rw [hsk] at hs
      refine ⟨data.toList.length - t.length, ?_⟩
      have hb : (b == 45 || isDigit b) = true := by
        by_cases h45 : b = 45
        · subst h45; rfl
        · rw [Spec.scanNumber_other b t h45] at hs
          by_cases h48 : b = 48
          · subst h48; rfl
          · rw [Spec.scanNum1_other b t h48] at hs
            split at hs
            · next h19 =>
              simp only [Bool.and_eq_true, decide_eq_true_eq] at h19
              have : isDigit b = true := by
                simp only [isDigit, Bool.and_eq_true, decide_eq_true_eq]
                refine ⟨?_, h19.2⟩
                have := h19.1
                rw [UInt8.le_iff_toNat_le] at this ⊢
                have e1 : (49 : UInt8).toNat = 49 := rfl
                have e2 : (48 : UInt8).toNat = 48 := rfl
                omega
              simp [this]
            · cases hs
      have hvs := value_start_number b t rest hs
      simp only [Spec.nextTokenType, hsk, Spec.tokenType, hb, if_true, hvs.2.2.1, hvs.2.2.2.2.2, Bool.false_eq_true, if_false]

/-- `ReadObject` / `ReadArray` only succeed on `{` / `[` (in particular not on `null`) -/
theorem readObject_type (data : Bytes) (hsm : Small data) (he : (Model.readObject data).err = none)
    (hpk : (Model.readObject data).panicked = false) : ∃ p, Spec.nextTokenType data.toList = some (6, p) := by
  obtain ⟨rest, hsk⟩ := C03.readObject_type data hsm he hpk
  exact ⟨data.toList.length - rest.length, by simp [Spec.nextTokenType, hsk, Spec.tokenType, isDigit]⟩

theorem readArray_type (data : Bytes) (hsm : Small data) (he : (Model.readArray data).err = none)
    (hpk : (Model.readArray data).panicked = false) : ∃ p, Spec.nextTokenType data.toList = some (8, p) := by
  obtain ⟨rest, hsk⟩ := C03.readArray_type data hsm he hpk
  exact ⟨data.toList.length - rest.length, by simp [Spec.nextTokenType, hsk, Spec.tokenType, isDigit]⟩

end RJson.C13More
