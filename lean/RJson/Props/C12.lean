import RJson.Model.Api
import RJson.Gen.Facts
/-!
# C12 — Decode functions write the target only on success and leave it alone on null

`decode` is the model of the one body shape all `Decode*` functions share; `Gen.Facts.decodeFns` is the list of
`Decode*` functions found in the current `decode.go` with, for each, whether its body has that shape
(`decodeFns_canonical` re-checks this on every run, as does `nullOrBust_canonical`).
The theorems hold for *every* reader `rd`, every input and every prior content of the target.
-/
namespace RJson.C12
open RJson.Model

/-- the reader succeeds: the Decode function returns the reader's offset and stores the value -/
theorem decode_success {α} (rd : Bytes → R α) (data : Bytes) (t : α) (h : (rd data).err = none) (hp : (rd data).panicked = false) :
    decode rd data t = rd data := by
  simp [decode, h, hp]

/-- the reader fails and the input begins with `null`: offset just after `null`, no error, target unchanged -/
theorem decode_null {α} (rd : Bytes → R α) (data : Bytes) (t : α) (e : Err)
    (h : (rd data).err = some e) (hp : (rd data).panicked = false)
    (hn : (readNull data).err = none) (hnp : (readNull data).panicked = false) :
    (decode rd data t).val = t ∧ (decode rd data t).err = none ∧ (decode rd data t).p = (readNull data).p := by
  simp [decode, h, hp, hn, hnp]

/-- every other case: the reader's error, target unchanged -/
theorem decode_error {α} (rd : Bytes → R α) (data : Bytes) (t : α) (e e' : Err)
    (h : (rd data).err = some e) (hp : (rd data).panicked = false)
    (hn : (readNull data).err = some e') (hnp : (readNull data).panicked = false) :
    (decode rd data t).val = t ∧ (decode rd data t).err = some e := by
  simp [decode, h, hp, hn, hnp]

/-- in all cases the target afterwards is either the value the reader returned successfully or the old target -/
theorem decode_target {α} (rd : Bytes → R α) (data : Bytes) (t : α) :
    (decode rd data t).val = t ∨ ((rd data).err = none ∧ (decode rd data t).val = (rd data).val) := by
  unfold decode
  by_cases hp : (rd data).panicked = true
  · simp [hp]
  · simp only [hp, Bool.false_eq_true, if_false]
    cases h : (rd data).err with
    | none => right; simp
    | some e =>
      left
      by_cases hnp : (readNull data).panicked = true
      · simp [hnp]
      · simp only [hnp, Bool.false_eq_true, if_false]
        cases (readNull data).err <;> simp

/-- every `Decode*` function of the current decode.go has the canonical body -/
theorem decodeFns_canonical : Gen.Facts.decodeFns.all (fun f => f.2.2) = true := by decide

theorem nullOrBust_canonical : Gen.Facts.nullOrBustCanonical = true := by decide

/-- all nine readers are covered (a removed or renamed Decode function changes this list) -/
theorem decodeFns_readers :
    Gen.Facts.decodeFns.map (fun f => (f.1, f.2.1)) =
      [("DecodeBool", "ReadBool"), ("DecodeFloat64", "ReadFloat64"), ("DecodeInt", "ReadInt"), ("DecodeInt32", "ReadInt32"),
       ("DecodeInt64", "ReadInt64"), ("DecodeString", "ReadString"), ("DecodeUint", "ReadUint"), ("DecodeUint32", "ReadUint32"),
       ("DecodeUint64", "ReadUint64")] := by decide

/-- non-vacuity: `null` with a sentinel target through the int64 instance -/
example : (decode readInt64 #[110, 117, 108, 108] (-77)).val = -77 ∧ (decode readInt64 #[110, 117, 108, 108] (-77)).err = none := by decide

end RJson.C12
