import RJson.Proofs.TreeSpec
import RJson.Props.C03Tree
import RJson.Props.C17Collide
/-!
# C17 ∘ C03 — trees returned by `ReadValue` have distinct keys; on valid UTF-8 the map helper returns them unchanged

`treeOf_distinctKeys`: every tree the reference decoder `Tree.treeOf` yields has pairwise distinct keys in every object at
every depth (objects are built by `mapSet`, which either replaces the entry of an existing key or appends a new one:
`foldlM_mapSet_inv`). With `C03.readValue_tree` this holds for whatever the model of `ReadValue` returns
(`readValue_distinctKeys`) — so the "no two equal keys" half of `ValidTree` is automatic for decoded documents, and
`stdTreeF_readValue_valid`: when every string and key of the decoded tree is valid UTF-8 (`ValidStrings`), the slice / map
helper returns the tree unchanged.
-/
namespace RJson.C17
open RJson.Model RJson.Spec RJson.Tree RJson.Ragel RJson.Abs

/-- no object within `d` levels has two equal keys -/
def DistinctKeys : Nat → Model.JVal → Prop
  | 0, _ => True
  | d+1, .arr xs => ∀ x ∈ xs, DistinctKeys d x
  | d+1, .obj kvs => kvs.toList.Pairwise (fun a b => a.1 ≠ b.1) ∧ ∀ kv ∈ kvs, DistinctKeys d kv.2
  | _+1, _ => True

theorem mapM_mem {α β} (g : α → Option β) : ∀ (ms : List α) (xs : List β), ms.mapM g = some xs →
    ∀ x ∈ xs, ∃ m ∈ ms, g m = some x := by
  intro ms
  induction ms with
  | nil => intro xs h x hx; simp at h; subst h; cases hx
  | cons a ms ih =>
    intro xs h x hx
    rw [List.mapM_cons] at h
    cases ha : g a with
    | none => rw [ha] at h; simp at h
    | some va =>
      rw [ha] at h
      cases hr : ms.mapM g with
      | none => rw [hr] at h; simp at h
      | some r =>
        rw [hr] at h
        simp at h
        subst h
        rcases List.mem_cons.mp hx with h1 | h1
        · subst h1; exact ⟨a, by simp, ha⟩
        · obtain ⟨m, hm, hg⟩ := ih r hr x h1
          exact ⟨m, by simp [hm], hg⟩

theorem foldlM_mapSet_inv {α} (g : α → Option Model.JVal) (key : α → Bytes) (V : Model.JVal → Prop)
    (hV : ∀ m v, g m = some v → V v) : ∀ (ms : List α) (init r : Array (Bytes × Model.JVal)),
    ms.foldlM (fun acc m => (g m).map (fun v => mapSet acc (key m) v)) init = some r →
    (init.map (·.1)).toList.Nodup → (∀ a ∈ init, V a.2) →
    (r.map (·.1)).toList.Nodup ∧ ∀ a ∈ r, V a.2 := by
  intro ms
  induction ms with
  | nil => intro init r h h1 h2; simp at h; subst h; exact ⟨h1, h2⟩
  | cons a ms ih =>
    intro init r h h1 h2
    rw [List.foldlM_cons] at h
    cases ha : g a with
    | none => rw [ha] at h; simp at h
    | some va =>
      rw [ha] at h
      simp only [Option.map_some, Option.bind_eq_bind, Option.bind_some] at h
      apply ih _ r h
      · rcases mapSet_keys init (key a) va with hk | ⟨hne, hk⟩
        · rw [hk]; exact h1
        · rw [hk]
          simp only [Array.toList_push, List.nodup_append, List.nodup_cons, List.not_mem_nil, not_false_eq_true,
            List.nodup_nil, and_self, List.mem_cons, or_false, true_and]
          refine ⟨h1, ?_⟩
          intro x hx b hb
          subst hb
          simp only [Array.toList_map, List.mem_map, Array.mem_toList_iff] at hx
          obtain ⟨y, hy, rfl⟩ := hx
          exact hne y hy
      · intro x hx
        rcases mapSet_mem init _ _ x hx with hh | hh
        · exact h2 x hh
        · subst hh; exact hV a va ha

theorem distinctKeys_scalar (d : Nat) (v : Model.JVal) (h : (∀ xs, v ≠ .arr xs) ∧ (∀ kvs, v ≠ .obj kvs)) : DistinctKeys d v := by
  cases d with
  | zero => trivial
  | succ d =>
    cases v with
    | arr xs => exact absurd rfl (h.1 xs)
    | obj kvs => exact absurd rfl (h.2 kvs)
    | str s => trivial
    | null => trivial
    | bool b => trivial
    | num n => trivial

theorem treeOf_scalar_kind (f : Nat) (data : List UInt8) (b : UInt8) (k : List UInt8) (hsk : skipWs data = b :: k)
    (h91 : (b == 91) = false) (h123 : (b == 123) = false) (v : Model.JVal) (h : treeOf f data = some v) :
    (∀ xs, v ≠ .arr xs) ∧ (∀ kvs, v ≠ .obj kvs) := by
  rw [treeOf_scalar f data b k hsk h91 h123] at h
  repeat' split at h
  all_goals first
    | (simp at h; done)
    | (simp at h; subst h; exact ⟨fun _ => by simp, fun _ => by simp⟩)
    | (simp at h; obtain ⟨a, _, rfl⟩ := h; exact ⟨fun _ => by simp, fun _ => by simp⟩)

/-- every tree the reference decoder (hence, by C03, `ReadValue`) returns has pairwise distinct keys in every object -/
theorem treeOf_distinctKeys : ∀ (f : Nat) (data : List UInt8) (v : Model.JVal), treeOf f data = some v →
    ∀ d, DistinctKeys d v := by
  intro f
  induction f with
  | zero =>
    intro data v h d
    cases hsk : skipWs data with
    | nil => simp [treeOf, hsk] at h
    | cons b k =>
      by_cases h91 : (b == 91) = true
      · have : b = 91 := by simpa using h91
        subst this
        simp [treeOf, hsk] at h
      · by_cases h123 : (b == 123) = true
        · have : b = 123 := by simpa using h123
          subst this
          simp [treeOf, hsk] at h
        · exact distinctKeys_scalar d v (treeOf_scalar_kind 0 data b k hsk (by simpa using h91) (by simpa using h123) v h)
  | succ f ih =>
    intro data v h d
    cases hsk : skipWs data with
    | nil => simp [treeOf, hsk] at h
    | cons b k =>
      by_cases h91 : (b == 91) = true
      · have : b = 91 := by simpa using h91
        subst this
        rw [treeOf_arr f data k hsk] at h
        split at h
        · rename_i ms e hm
          cases hmm : ms.mapM (fun m => treeOf f (data.drop m.off)) with
          | none => rw [hmm] at h; simp at h
          | some xs =>
            rw [hmm] at h
            simp at h
            subst h
            cases d with
            | zero => trivial
            | succ d =>
              simp only [DistinctKeys]
              intro x hx
              obtain ⟨m, _, hg⟩ := mapM_mem _ ms xs hmm x (by simpa using hx)
              exact ih _ x hg d
        · simp at h
      · by_cases h123 : (b == 123) = true
        · have : b = 123 := by simpa using h123
          subst this
          rw [treeOf_obj f data k hsk] at h
          split at h
          · rename_i ms e hm
            cases hmm : ms.foldlM (fun acc m => (treeOf f (data.drop m.off)).map (fun v => mapSet acc (keyOf m) v)) #[] with
            | none => rw [hmm] at h; simp at h
            | some r =>
              rw [hmm] at h
              simp at h
              subst h
              cases d with
              | zero => trivial
              | succ d =>
                have hinv := foldlM_mapSet_inv (fun m => treeOf f (data.drop m.off)) keyOf (fun v => DistinctKeys d v)
                  (fun m v hv => ih _ v hv d) ms #[] r hmm (by simp) (by simp)
                simp only [DistinctKeys]
                refine ⟨?_, hinv.2⟩
                have := hinv.1
                rw [Array.toList_map, List.Nodup, List.pairwise_map] at this
                exact this
          · simp at h
        · exact distinctKeys_scalar d v (treeOf_scalar_kind (f+1) data b k hsk (by simpa using h91) (by simpa using h123) v h)

/-- every string value and key within `f` levels is valid UTF-8 -/
def ValidStrings : Nat → Model.JVal → Prop
  | 0, _ => True
  | _+1, .str s => utf8Valid (s.toList.length + 1) s.toList = true
  | f+1, .arr xs => ∀ x ∈ xs, ValidStrings f x
  | f+1, .obj kvs => ∀ kv ∈ kvs, utf8Valid (kv.1.toList.length + 1) kv.1.toList = true ∧ ValidStrings f kv.2
  | _+1, _ => True

theorem validTree_of : ∀ (f : Nat) (v : Model.JVal), ValidStrings f v → DistinctKeys f v → ValidTree f v := by
  intro f
  induction f with
  | zero => intro v _ _; trivial
  | succ f ih =>
    intro v hs hd
    cases v with
    | arr xs =>
      simp only [ValidStrings, DistinctKeys, ValidTree] at hs hd ⊢
      exact fun x hx => ih x (hs x hx) (hd x hx)
    | obj kvs =>
      simp only [ValidStrings, DistinctKeys, ValidTree] at hs hd ⊢
      exact ⟨hd.1, fun kv hkv => ⟨(hs kv hkv).1, ih kv.2 (hs kv hkv).2 (hd.2 kv hkv)⟩⟩
    | str s => exact hs
    | null => trivial
    | bool b => trivial
    | num n => trivial

/-- whatever the model of `ReadValue` returns has pairwise distinct keys in every object, at every depth -/
theorem readValue_distinctKeys (data : Bytes) (hsm : Small data) (he : (Model.readValue data).err = none)
    (hpk : (Model.readValue data).panicked = false) (d : Nat) : DistinctKeys d (Model.readValue data).val :=
  treeOf_distinctKeys _ _ _ (C03.readValue_tree data hsm he hpk _ (Nat.le_refl _)) d

/-- a decoded document all of whose strings and keys are valid UTF-8 is returned unchanged by the slice / map helper -/
theorem stdTreeF_readValue_valid (data : Bytes) (hsm : Small data) (he : (Model.readValue data).err = none)
    (hpk : (Model.readValue data).panicked = false) (f : Nat) (hv : ValidStrings f (Model.readValue data).val) :
    stdTreeF f (Model.readValue data).val = (Model.readValue data).val :=
  stdTreeF_valid f _ (validTree_of f _ hv (readValue_distinctKeys data hsm he hpk f))

/-- non-vacuity: `{"a":null,"b":[{"a":null}]}` — equal keys in different objects are fine -/
example : DistinctKeys 4 (.obj #[(#[97], .null), (#[98], .arr #[.obj #[(#[97], .null)]])]) := by
  simp [DistinctKeys]

end RJson.C17
