import RJson.Proofs.Ints
import RJson.Props.C13
/-!
# C05 — integer readers are exact and range-checked

`readUint64_spec`: for every input the model of `ReadUint64` (two-phase loop with `uint64` wrap-around
modelled) succeeds exactly when, after optional whitespace, the input starts with an integer literal
`0 | [1-9][0-9]*` that is not followed by `.`/`e`/`E` and whose mathematical value is below 2^64; it then
returns exactly that value and the offset just after the last digit. `readUint32_spec`, `readUint_spec`
narrow the range. The core is `Ints.readUint64From_spec` (the reader at an arbitrary offset), which the signed
readers call after the sign.
-/
namespace RJson.C05
open RJson.Model RJson.Spec RJson.Ints

/-- the observable outcome of an unsigned reader: `(value, offset)` on success -/
def outcomeU (r : R UInt64) : Option (Int × Nat) :=
  if r.err.isNone && !r.panicked then some ((r.val.toNat : Int), r.p.toNat) else none

theorem uintToken_minus (t : List UInt8) : uintToken (45 :: t) = none := by
  simp [uintToken, uintDigitsOf]

theorem uintToken_rest_le (l : List UInt8) (v : Nat) (rest : List UInt8) (h : uintToken l = some (v, rest)) :
    rest.length ≤ l.length := by
  unfold uintToken at h
  generalize uintDigitsOf l = ds at h
  by_cases he : ds.isEmpty = true
  · simp [he] at h
  · simp only [he, Bool.false_eq_true, if_false] at h
    split at h
    · split at h
      · cases h
      · injection h with h; injection h with _ h2; rw [← h2]; simp
    · injection h with h; injection h with _ h2; rw [← h2]; simp

/-- unsigned readers with an upper bound: the shared statement -/
theorem unsigned_spec (data : Bytes) (hi : Nat) (hhi : hi < two64) (r : R UInt64)
    (hr : r = (let r0 := readUint64 data; if r0.err.isNone && r0.val.toNat > hi then { val := 0, p := r0.p, err := some .invalidUInt } else r0)) :
    outcomeU r = Spec.readInt 0 hi false data.toList := by
  have hA := readUint64From_spec data 0 (by omega)
  simp only [List.drop_zero] at hA
  unfold Spec.readInt
  generalize hl : skipWs data.toList = l at hA
  have hlen := skipWs_length_le data.toList
  rw [hl] at hlen
  cases l with
  | nil =>
    simp only [uintToken, uintDigitsOf, intToken] at hA ⊢
    simp only [Agrees, List.isEmpty_nil, if_true, Option.map_none] at hA ⊢
    subst hr
    simp [outcomeU, readUint64, hA.1, Option.isSome_iff_ne_none.mp hA.1]
  | cons b tl =>
    by_cases hm : b = 45
    · subst hm
      rw [uintToken_minus] at hA
      simp only [Agrees] at hA
      subst hr
      have hne : (readUint64 data).err.isNone = false := by
        simp only [readUint64]; cases h : (readUint64From data 0).err <;> simp_all
      simp only [outcomeU, hne, Bool.false_and, Bool.false_eq_true, if_false, intToken]
      cases uintToken tl with
      | none => simp
      | some x => simp
    · have hit : intToken (b :: tl) = (uintToken (b :: tl)).map (fun (v, rest) => ((v : Int), false, rest)) := by
        unfold intToken
        split
        · next h => simp at h; exact absurd h.1 hm
        · rfl
      rw [hit]
      cases hu : uintToken (b :: tl) with
      | none =>
        rw [hu] at hA
        simp only [Agrees] at hA
        subst hr
        have hne : (readUint64 data).err.isNone = false := by
          simp only [readUint64]; cases h : (readUint64From data 0).err <;> simp_all
        simp [outcomeU, hne]
      | some x =>
        obtain ⟨v, rest⟩ := x
        rw [hu] at hA
        have hrl := uintToken_rest_le _ _ _ hu
        simp only [Agrees] at hA
        simp only [Option.map_some, Bool.false_and, Bool.false_or]
        by_cases hv : v < two64
        · simp only [hv, if_true, Nat.sub_zero] at hA
          obtain ⟨he, hval, hp, hpk⟩ := hA
          subst hr
          simp only [readUint64, he, Option.isNone_none, Bool.true_and, hval, decide_eq_true_eq]
          by_cases hbig : v > hi
          · have : ((v : Int) < 0 || (v : Int) > hi) = true := by simp; omega
            simp [hbig, outcomeU, this]
          · have : ((v : Int) < 0 || (v : Int) > hi) = false := by simp; omega
            simp only [hbig, if_false, outcomeU, he, hpk, Option.isNone_none, Bool.not_false, Bool.and_self, if_true, hval, hp, this, Bool.false_eq_true]
            simp only [Option.some.injEq, Prod.mk.injEq, true_and]
            simp only [List.length_cons] at hlen hrl
            simp
        · simp only [hv, if_false] at hA
          subst hr
          have hne : (readUint64 data).err.isNone = false := by
            simp only [readUint64]; cases h : (readUint64From data 0).err <;> simp_all
          have : ((v : Int) < 0 || (v : Int) > hi) = true := by simp; omega
          simp only [outcomeU, hne, Bool.false_and, Bool.false_eq_true, if_false, this, if_true]

theorem readUint64_spec (data : Bytes) :
    outcomeU (readUint64 data) = Spec.readInt 0 18446744073709551615 false data.toList := by
  apply unsigned_spec data 18446744073709551615 (by decide)
  simp only []
  have : ¬ ((readUint64 data).val.toNat > 18446744073709551615) := by
    have := (readUint64 data).val.toNat_lt
    omega
  simp [this]

theorem readUint_spec (data : Bytes) :
    outcomeU (readUint data) = Spec.readInt 0 18446744073709551615 false data.toList := readUint64_spec data

theorem readUint32_spec (data : Bytes) :
    outcomeU (readUint32 data) = Spec.readInt 0 4294967295 false data.toList := by
  apply unsigned_spec data 4294967295 (by decide)
  simp only [readUint32]
  have : ((readUint64 data).val > 4294967295) = ((readUint64 data).val.toNat > 4294967295) := by
    rw [gt_iff_lt, UInt64.lt_iff_toNat_lt]; rfl
  simp only [this]

/-! ## signed readers -/

def outcomeI (r : R Int) : Option (Int × Nat) :=
  if r.err.isNone && !r.panicked then some (r.val, r.p.toNat) else none

theorem skipWs_of_not_ws (b : UInt8) (t : List UInt8) (h : isWs b = false) : skipWs (b :: t) = b :: t := by
  simp [skipWs, h]

theorem skipWs_idem (l : List UInt8) : skipWs (skipWs l) = skipWs l := by
  induction l with
  | nil => rfl
  | cons b t ih =>
    simp only [skipWs]
    split
    · exact ih
    · next h => simp [skipWs, h]

theorem uintToken_ws (c : UInt8) (t : List UInt8) (h : isWs c = true) : uintToken (c :: t) = none := by
  have h48 : c ≠ 48 := by intro hc; subst hc; simp [isWs] at h
  have hnd : ¬ ((49 : UInt8) ≤ c ∧ c ≤ 57) := by
    intro hd
    have hall : allBelow (fun n => !(isWs (UInt8.ofNat n)) || !(decide ((49 : UInt8) ≤ UInt8.ofNat n) && decide (UInt8.ofNat n ≤ 57))) 256 = true := by decide +kernel
    have := forall_byte (P := fun b => !(isWs b) || !(decide ((49 : UInt8) ≤ b) && decide (b ≤ 57))) hall c
    simp [h, hd.1, hd.2] at this
  simp only [uintToken, uintDigitsOf]
  simp [hnd]

/-- `ReadInt64` after the whitespace scan -/
theorem readInt64At_spec (data : Bytes) (p : Nat) (hp2 : p ≤ data.size) (hdrop : data.toList.drop p = skipWs data.toList) :
    outcomeI (readInt64At data p) = Spec.readInt (-9223372036854775808) 9223372036854775807 true data.toList := by
  unfold readInt64At Spec.readInt
  simp only []
  rw [← hdrop]
  have hlenl : (data.toList.drop p).length = data.size - p := by simp
  cases hl : data.toList.drop p with
  | nil =>
    have hpe : p = data.size := (drop_nil_iff data p hp2).mp hl
    simp [hpe, intToken, uintToken, uintDigitsOf, outcomeI]
  | cons b t =>
    obtain ⟨hb, hplt, ht⟩ := get_of_drop data p b t hl
    have hne : (p == data.size) = false := by simp; omega
    have hbnws : isWs b = false := by
      have : skipWs data.toList = b :: t := by rw [← hdrop, hl]
      exact C13.skipWs_head_not_ws this
    simp only [hne, Bool.false_eq_true, if_false, hb]
    by_cases hm : b = 45
    · -- a minus sign
      subst hm
      simp only [beq_self_eq_true, if_true, Bool.true_and, intToken]
      cases ht2 : t with
      | nil =>
        have hpe : p + 1 = data.size := by
          rw [ht2] at ht; exact (drop_nil_iff data (p + 1) (by omega)).mp ht
        simp [hpe, uintToken, uintDigitsOf, outcomeI]
      | cons c t' =>
        rw [ht2] at ht
        obtain ⟨hc, hp1lt, _⟩ := get_of_drop data (p + 1) c t' ht
        have hne1 : (p + 1 == data.size) = false := by simp; omega
        simp only [hne1, Bool.false_or, hc, RJson.whitespace_table_exact]
        by_cases hcw : isWs c = true
        · simp [hcw, uintToken_ws c t' hcw, outcomeI]
        · have hcw' : isWs c = false := by simpa using hcw
          simp only [hcw', Bool.false_eq_true, if_false]
          have hA := readUint64From_spec data (p + 1) (by omega)
          rw [ht, skipWs_of_not_ws c t' hcw'] at hA
          have hlen2 : (c :: t').length = data.size - (p + 1) := by rw [← ht]; simp
          cases hu : uintToken (c :: t') with
          | none =>
            rw [hu] at hA
            simp only [Agrees] at hA
            cases he : (readUint64From data (p + 1)).err with
            | none => rw [he] at hA; simp at hA
            | some e => simp [outcomeI]
          | some x =>
            obtain ⟨v, rest⟩ := x
            rw [hu] at hA
            have hrl := uintToken_rest_le _ _ _ hu
            simp only [Agrees] at hA
            simp only [Option.map_some, Bool.true_and, Bool.not_true, Bool.false_or]
            by_cases hv : v < two64
            · simp only [hv, if_true] at hA
              obtain ⟨he, hval, hpp, hpk⟩ := hA
              simp only [he, hval]
              by_cases hbig : v > 9223372036854775808
              · have : (-(v : Int) < -9223372036854775808 || -(v : Int) > 9223372036854775807) = true := by simp; omega
                (simp [hbig, outcomeI, this] <;> omega)
              · have : (-(v : Int) < -9223372036854775808 || -(v : Int) > 9223372036854775807) = false := by simp; omega
                simp only [hbig, if_false, outcomeI, Option.isNone_none, Bool.not_false, Bool.and_self, if_true, this, Bool.false_eq_true, hpp]
                simp only [Option.some.injEq, Prod.mk.injEq, true_and]
                simp only [List.length_cons] at hlen2 hrl hlenl
                have hdl : data.toList.length = data.size := by simp
                rw [hdl]
                omega
            · simp only [hv, if_false] at hA
              have : (-(v : Int) < -9223372036854775808 || -(v : Int) > 9223372036854775807) = true := by
                simp [two64] at hv ⊢; omega
              cases he : (readUint64From data (p + 1)).err with
              | none => rw [he] at hA; simp at hA
              | some e => (simp [outcomeI, this] <;> (simp [two64] at hv; omega))
    · -- no sign
      have hnm : (b == 45) = false := by simpa using hm
      simp only [hnm, Bool.false_and, Bool.false_eq_true, if_false]
      have hA := readUint64From_spec data p (by omega)
      rw [hl, skipWs_of_not_ws b t hbnws] at hA
      have hit : intToken (b :: t) = (uintToken (b :: t)).map (fun (v, rest) => ((v : Int), false, rest)) := by
        unfold intToken
        split
        · next h => simp at h; exact absurd h.1 hm
        · rfl
      rw [hit]
      have hlen2 : (b :: t).length = data.size - p := by rw [← hl]; simp
      cases hu : uintToken (b :: t) with
      | none =>
        rw [hu] at hA
        simp only [Agrees] at hA
        cases he : (readUint64From data p).err with
        | none => rw [he] at hA; simp at hA
        | some e => simp [outcomeI]
      | some x =>
        obtain ⟨v, rest⟩ := x
        rw [hu] at hA
        have hrl := uintToken_rest_le _ _ _ hu
        simp only [Agrees] at hA
        simp only [Option.map_some, Bool.false_and, Bool.false_or]
        by_cases hv : v < two64
        · simp only [hv, if_true] at hA
          obtain ⟨he, hval, hpp, hpk⟩ := hA
          simp only [he, hval]
          by_cases hbig : v ≥ 9223372036854775808
          · have : ((v : Int) < -9223372036854775808 || (v : Int) > 9223372036854775807) = true := by simp; omega
            (simp [hbig, outcomeI, this] <;> omega)
          · have : ((v : Int) < -9223372036854775808 || (v : Int) > 9223372036854775807) = false := by simp; omega
            simp only [hbig, if_false, outcomeI, Option.isNone_none, Bool.not_false, Bool.and_self, if_true, this, Bool.false_eq_true, hpp]
            simp only [Option.some.injEq, Prod.mk.injEq, true_and]
            simp only [List.length_cons] at hlen2 hrl hlenl
            have hdl : data.toList.length = data.size := by simp
            rw [hdl]
            omega
        · simp only [hv, if_false] at hA
          have : ((v : Int) < -9223372036854775808 || (v : Int) > 9223372036854775807) = true := by
            simp [two64] at hv ⊢; omega
          cases he : (readUint64From data p).err with
          | none => rw [he] at hA; simp at hA
          | some e => (simp [outcomeI, this] <;> (simp [two64] at hv; omega))

/-- `ReadInt64`: exact value in `[-2^63, 2^63 - 1]`, offset after the last digit -/
theorem readInt64_spec (data : Bytes) :
    outcomeI (readInt64 data) = Spec.readInt (-9223372036854775808) 9223372036854775807 true data.toList := by
  have hws := ws_scan data 0 (by omega)
  simp only [List.drop_zero] at hws
  exact readInt64At_spec data _ hws.2.1 hws.2.2

/-- a narrower range only adds a range test to the wider reader's result -/
theorem readInt_narrow (lo hi lo' hi' : Int) (signed : Bool) (l : List UInt8) (h1 : lo ≤ lo') (h2 : hi' ≤ hi) :
    Spec.readInt lo' hi' signed l =
      match Spec.readInt lo hi signed l with
      | some (v, e) => if v < lo' || v > hi' then none else some (v, e)
      | none => none := by
  unfold Spec.readInt
  cases intToken (skipWs l) with
  | none => rfl
  | some x =>
    obtain ⟨v, neg, rest⟩ := x
    simp only []
    by_cases hn : (neg && !signed) = true
    · simp [hn]
    · have hn' : (neg && !signed) = false := by simpa using hn
      simp only [hn', Bool.false_or]
      by_cases ha : v < lo
      · have : v < lo' := by omega
        simp [ha, this]
      · by_cases hb : v > hi
        · have : v > hi' := by omega
          simp [ha, hb, this]
        · simp [ha, hb]

theorem readInt32_spec (data : Bytes) :
    outcomeI (readInt32 data) = Spec.readInt (-2147483648) 2147483647 true data.toList := by
  rw [readInt_narrow (-9223372036854775808) 9223372036854775807 (-2147483648) 2147483647 true _ (by decide) (by decide)]
  rw [← readInt64_spec]
  unfold readInt32
  generalize readInt64 data = r
  obtain ⟨val, p, err, pk⟩ := r
  cases err with
  | some e => simp [outcomeI]
  | none =>
    cases pk with
    | true => simp only [outcomeI]; split <;> simp
    | false =>
      simp only [outcomeI, Option.isNone_none, Bool.not_false, Bool.and_self, if_true]
      by_cases hr : (val > 2147483647 || val < -2147483648) = true
      · have hr2 : (val < -2147483648 || val > 2147483647) = true := by
          simp only [Bool.or_eq_true, decide_eq_true_eq] at hr ⊢; omega
        simp [hr, hr2]
      · have hr2 : (val < -2147483648 || val > 2147483647) = false := by
          simp only [Bool.or_eq_true, decide_eq_true_eq, not_or] at hr
          simp only [Bool.or_eq_false_iff, decide_eq_false_iff_not]; omega
        simp [hr, hr2]

theorem readInt_spec (data : Bytes) :
    outcomeI (readInt data) = Spec.readInt (-9223372036854775808) 9223372036854775807 true data.toList := readInt64_spec data

/-- non-vacuity: the largest uint64, followed by a byte that ends the token -/
example : outcomeU (readUint64 " 18446744073709551615,".toUTF8.data) = some (18446744073709551615, 21) := by decide

end RJson.C05
