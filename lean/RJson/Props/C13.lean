import RJson.Proofs.Basic
/-!
# C13 — token classification (theorems about the model of `token.go`, on the regenerated tables)

* `C13.token_table_exact`, `C13.whitespace_table_exact`: the 256-entry tables read from the compiled
  package are exactly the JSON token table / the four whitespace bytes.
* `C13.nextTokenType_spec`, `C13.nextToken_spec`: for every input the model of `NextTokenType`/`NextToken`
  skips exactly the whitespace prefix, classifies the next byte by the fixed table, reports its index + 1, and
  reports end-of-input exactly for empty / all-whitespace input.
The literal readers and type-exclusivity are in `Props/C13Literals.lean`.
-/
namespace RJson.C13

theorem token_table_exact (b : UInt8) : Model.tokenType b = Spec.tokenType b := RJson.token_table_exact b
theorem whitespace_table_exact (b : UInt8) : isWsT b = (b == 32 || b == 9 || b == 10 || b == 13) := by
  rw [RJson.whitespace_table_exact]; rfl

theorem drop_skipWs (l : List UInt8) : l.drop (l.length - (Spec.skipWs l).length) = Spec.skipWs l := by
  induction l with
  | nil => simp [Spec.skipWs]
  | cons b rest ih =>
    simp only [Spec.skipWs]
    split
    · have := skipWs_length_le rest
      rw [show (b :: rest).length - (Spec.skipWs rest).length = (rest.length - (Spec.skipWs rest).length) + 1 by simp; omega]
      simpa using ih
    · simp

theorem skipWs_head_not_ws {l : List UInt8} {b : UInt8} {rest : List UInt8} (h : Spec.skipWs l = b :: rest) : isWs b = false := by
  induction l with
  | nil => simp [Spec.skipWs] at h
  | cons c tl ih =>
    simp only [Spec.skipWs] at h
    split at h
    · exact ih h
    · next hc => simp at h; rw [← h.1]; simpa using hc

/-- position and byte found by the whitespace scan of the model -/
theorem scan_found (data : Bytes) {b : UInt8} {rest : List UInt8} (h : Spec.skipWs data.toList = b :: rest) :
    countWhitespace data = data.size - (rest.length + 1) ∧ countWhitespace data < data.size ∧
      data[countWhitespace data]! = b := by
  have hc := countWhitespace_spec data
  have hle := skipWs_length_le data.toList
  rw [h] at hc hle
  simp at hle
  refine ⟨by simpa using hc, by simp at hc; omega, ?_⟩
  have hd := drop_skipWs data.toList
  rw [h] at hd
  simp only [Array.length_toList, List.length_cons] at hd
  have hlt : countWhitespace data < data.size := by simp at hc; omega
  have : data[countWhitespace data]? = some b := by
    rw [getElem?_eq_drop_head, hc]
    simp only [List.length_cons]
    rw [hd]; rfl
  simp [getElem!_def, this]

theorem scan_eof (data : Bytes) (h : Spec.skipWs data.toList = []) : countWhitespace data = data.size := by
  have hc := countWhitespace_spec data
  rw [h] at hc
  simpa using hc

theorem nextTokenType_spec (data : Bytes) :
    Model.nextTokenType data =
      match Spec.nextTokenType data.toList with
      | none => (0, data.size, some .eof)
      | some (tp, p) => (tp, p, none) := by
  unfold Model.nextTokenType Spec.nextTokenType
  by_cases h0 : data.size = 0
  · have : data.toList = [] := by
      have : data = #[] := Array.eq_empty_of_size_eq_zero h0
      simp [this]
    simp [h0, this, Spec.skipWs]
  · have hne : (data.size == 0) = false := by simpa using h0
    simp only [hne, Bool.false_eq_true, if_false]
    -- first byte
    have hpos : 0 < data.size := Nat.pos_of_ne_zero h0
    obtain ⟨b0, tl, hl⟩ : ∃ b0 tl, data.toList = b0 :: tl := by
      cases hd : data.toList with
      | nil => exact absurd (by rw [← Array.length_toList, hd]; rfl) h0
      | cons b0 tl => exact ⟨b0, tl, rfl⟩
    have hb0 : data[0]! = b0 := by
      have : data[0]? = some b0 := by rw [getElem?_eq_drop_head]; simp [hl]
      simp [getElem!_def, this]
    have hsize : data.size = tl.length + 1 := by
      have := congrArg List.length hl; simpa using this
    by_cases hw : isWs b0 = true
    · -- leading whitespace: the slow path
      have hsp : Spec.tokenType b0 = 0 := by
        revert hw; revert b0
        intro b0 _ _ hw
        have : allBelow (fun n => !(isWs (UInt8.ofNat n)) || Spec.tokenType (UInt8.ofNat n) == 0) 256 = true := by decide +kernel
        have := forall_byte (P := fun b => !(isWs b) || Spec.tokenType b == 0) this b0
        simpa [hw] using this
      simp only [hb0, token_table_exact, hsp, bne_self_eq_false, Bool.false_eq_true, if_false,
        RJson.whitespace_table_exact, hw, Bool.not_true]
      cases hs : Spec.skipWs data.toList with
      | nil =>
        have := scan_eof data hs
        simp [this]
      | cons b rest =>
        obtain ⟨hc, hlt, hb⟩ := scan_found data hs
        have hnlt : ¬ (countWhitespace data ≥ data.size) := by omega
        simp only [hnlt, if_false, hb, token_table_exact]
        have hle := skipWs_length_le data.toList
        rw [hs] at hle; simp at hle
        simp only [hc, Array.length_toList]
        congr 2
        omega
    · -- the first byte is not whitespace: `skipWs` is the identity
      have hw' : isWs b0 = false := by simpa using hw
      have hs : Spec.skipWs data.toList = b0 :: tl := by rw [hl]; simp [Spec.skipWs, hw']
      simp only [hs, hb0, token_table_exact, RJson.whitespace_table_exact, hw', Bool.not_false, if_true]
      have h1 : data.size - tl.length = 1 := by omega
      by_cases ht : Spec.tokenType b0 = 0
      · simp [ht, h1]
      · simp [ht, h1]

theorem nextToken_spec (data : Bytes) :
    Model.nextToken data =
      match Spec.nextToken data.toList with
      | none => (0, data.size, some .eof)
      | some (b, valid, p) => (b, p, if valid then none else some .noValidToken) := by
  unfold Model.nextToken Spec.nextToken
  by_cases h0 : data.size = 0
  · have : data.toList = [] := by
      have : data = #[] := Array.eq_empty_of_size_eq_zero h0
      simp [this]
    simp [h0, this, Spec.skipWs]
  · have hne : (data.size == 0) = false := by simpa using h0
    simp only [hne, Bool.false_eq_true, if_false]
    obtain ⟨b0, tl, hl⟩ : ∃ b0 tl, data.toList = b0 :: tl := by
      cases hd : data.toList with
      | nil => exact absurd (by rw [← Array.length_toList, hd]; rfl) h0
      | cons b0 tl => exact ⟨b0, tl, rfl⟩
    have hb0 : data[0]! = b0 := by
      have : data[0]? = some b0 := by rw [getElem?_eq_drop_head]; simp [hl]
      simp [getElem!_def, this]
    have hsize : data.size = tl.length + 1 := by
      have := congrArg List.length hl; simpa using this
    by_cases hw : isWs b0 = true
    · have hsp : Spec.tokenType b0 = 0 := by
        have : allBelow (fun n => !(isWs (UInt8.ofNat n)) || Spec.tokenType (UInt8.ofNat n) == 0) 256 = true := by decide +kernel
        have := forall_byte (P := fun b => !(isWs b) || Spec.tokenType b == 0) this b0
        simpa [hw] using this
      simp only [hb0, token_table_exact, hsp, bne_self_eq_false, Bool.false_eq_true, if_false,
        RJson.whitespace_table_exact, hw, Bool.not_true]
      cases hs : Spec.skipWs data.toList with
      | nil =>
        have := scan_eof data hs
        simp [this]
      | cons b rest =>
        obtain ⟨hc, hlt, hb⟩ := scan_found data hs
        have hnlt : ¬ (countWhitespace data ≥ data.size) := by omega
        simp only [hnlt, if_false, hb, token_table_exact]
        have hle := skipWs_length_le data.toList
        rw [hs] at hle; simp at hle
        have hp : countWhitespace data + 1 = data.toList.length - rest.length := by
          simp only [hc, Array.length_toList]; omega
        by_cases ht : Spec.tokenType b = 0
        · simp [ht, hp]
        · simp [ht, hp]
    · have hw' : isWs b0 = false := by simpa using hw
      have hs : Spec.skipWs data.toList = b0 :: tl := by rw [hl]; simp [Spec.skipWs, hw']
      simp only [hs, hb0, token_table_exact, RJson.whitespace_table_exact, hw']
      have h1 : data.size - tl.length = 1 := by omega
      by_cases ht : Spec.tokenType b0 = 0
      · simp [ht, h1]
      · simp [ht, h1]

/-- non-vacuity: a concrete input exercising the slow path -/
example : Model.nextTokenType #[32, 10, 91, 49] = (8, 3, none) := by decide

end RJson.C13
