import RJson.Proofs.DecFloatAll
import RJson.Proofs.DecSetApprox
import RJson.Props.C04Slow
/-!
# C04 — every number literal is converted to the correctly rounded binary64, with no side condition

For **every** input whose head is a JSON number literal — any number of digits, any exponent, any bytes after it — and
the hand model of `internal/fp` over the regenerated tables:

* `ParseSlow.slow_correct_all`: the multiprecision path (`decimal.set`, the `powtab` scaling loops, the denormal
  adjustment, the final shift, `RoundedInteger`, the assembly) returns `Spec.roundDec` of the literal's exact value —
  **also when digits are dropped**, in `set` (more than 800 significant digits) or in any shift (the exact product or
  quotient needs more than 800). What the decimal keeps in that case (`Dec.Rep`): it is a lower bound of the true
  value, the sticky `trunc` flag says whether it is a strict one, and no integer or half-integer of the final scale
  (no point of the dyadic grid `2^T·ℕ`, `T` = −1 at the rounding step) lies between the two — because all those points
  have at most 800 significant digits wherever the run passes (`Dec.dy_grid`, `Dec.rep_step`). So the rounding step
  sees the integer part and the side of one half that the true value has, and the flag turns "exactly one half, but
  something was dropped" into "above one half" (`Dec.roundedInteger_rep`, `Dec.floatBits_all`).
* `parse_correct_all`, `readFloat64_correct_all`: whichever path answers (exact, Eisel-Lemire, its double check, the
  multiprecision path), the reported length is the literal's, the error flag is the overflow flag of the correctly
  rounded exact value and the bits are its bits (ties to even, sign of zero kept).

This is C04 as stated, for the model; `C04.parse_correct` (exact runs) and `C04.parse_correct_short` (≤ 60 mantissa
digits) are special cases kept for the record.
-/
namespace RJson.ParseSlow
open RJson.FP RJson.Spec RJson.NumShape RJson.FloatValue RJson.FloatSyntax RJson.Ragel RJson.Abs RJson.HelpersSpec RJson.Dec
open RJson.ParseFast RJson.RoundRat RJson.EL

/-- **the slow path on a literal of any length, every run** -/
theorem slow_correct_all (lit : Bytes) (neg : Bool) (ip fp : List UInt8) (ec : UInt8) (sg eds : List UInt8)
    (h : Shape lit.toList neg ip fp ec sg eds []) :
    ∃ a, Decimal.set lit = some a ∧
      a.floatBits = some (roundDec neg (digitsVal (ip ++ fp) 0) (sgnOf sg * (digitsVal eds 0 : ℤ) - fp.length)) := by
  obtain ⟨a, δ, hset, hg, hneg, d0, d1, hval, hfl, hz⟩ := set_approx lit neg ip fp ec sg eds h
  refine ⟨a, hset, ?_⟩
  have hds : allDigits (ip ++ fp) := by
    intro b hb
    rcases List.mem_append.mp hb with h1 | h1
    · exact h.ipDigits b h1
    · exact h.fpDigits b h1
  have hD := digitsVal_lt _ hds
  have hL : (ip ++ fp).length ≤ lit.size := by
    have := congrArg List.length h.eq
    have hfl : fp.length ≤ (fracL fp).length := by cases fp <;> simp [fracL]
    simp only [Array.length_toList, List.length_append] at this ⊢
    omega
  have hsgn : sgnOf sg = 1 ∨ sgnOf sg = -1 := by
    unfold sgnOf; split
    · right; rfl
    · left; rfl
  obtain ⟨n, d, hd, hv⟩ : ∃ n d : ℕ, d ≠ 0 ∧ (n : ℚ) / d =
      (digitsVal (ip ++ fp) 0 : ℚ) * 10 ^ ((clipAcc (10000 + lit.size) eds 0 : ℤ) * sgnOf sg - (fp.length : ℤ)) := by
    generalize (clipAcc (10000 + lit.size) eds 0 : ℤ) * sgnOf sg - (fp.length : ℤ) = z
    by_cases hz : z ≥ 0
    · refine ⟨digitsVal (ip ++ fp) 0 * 10 ^ z.toNat, 1, by omega, ?_⟩
      push_cast
      rw [zpow_split 10 (by norm_num) z]; simp [hz]
    · refine ⟨digitsVal (ip ++ fp) 0, 10 ^ (-z).toNat, by positivity, ?_⟩
      push_cast
      rw [zpow_split 10 (by norm_num) z]; simp [hz]; ring
  rw [floatBits_all a hg n d hd δ d0 d1 (by rw [hv, hval]) hfl hz, hneg]
  congr 1
  exact roundRat_clip neg _ (ip ++ fp).length fp.length (10000 + lit.size) eds (sgnOf sg) hsgn hD (by simp) (by omega) n d hd hv

end RJson.ParseSlow

namespace RJson.C04
open RJson.Spec RJson.FP RJson.NumShape RJson.Abs RJson.Ragel

/-- **the slow path, every run** -/
theorem parse_slow_correct_all (data : Bytes) (rest : List UInt8) (hscan : scanNumber data.toList = some rest)
    (hpath : (parse data).path ≠ .exact ∧ (parse data).path ≠ .eisel ∧ (parse data).path ≠ .eiselTrunc) :
    ∃ a, Decimal.set (data.extract 0 (data.size - rest.length)) = some a ∧
        ((parse data).path = .slow ∨ (parse data).path = .slowRange) ∧
        (parse data).err = (rounded (data.toList.take (data.toList.length - rest.length))).2 ∧
        ((parse data).err = false → (parse data).bits = (rounded (data.toList.take (data.toList.length - rest.length))).1) := by
  obtain ⟨neg, ip, fp, ec, sg, eds, hs⟩ := shape_of_scan _ _ hscan
  obtain ⟨hok, hp, _, _, _, _⟩ := ParseFast.readFloat_fields data neg ip fp ec sg eds rest hs
  obtain ⟨hpos, hlast⟩ := ParseFast.last_is_digit data neg ip fp ec sg eds rest hs
  have htd : (decide (data.size - rest.length > 0) && data[data.size - rest.length - 1]! == 46) = false := by
    have : (data[data.size - rest.length - 1]! == 46) = false := by
      apply beq_eq_false_iff_ne.mpr
      intro h46; rw [h46] at hlast; exact absurd hlast (by decide)
    rw [this, Bool.and_false]
  -- the literal
  have hsl := ParseSlow.shape_lit hs
  have hsz : data.toList.length = data.size := by simp
  rw [hsz, ← lit_toList] at hsl
  obtain ⟨a, hset, hfb⟩ := ParseSlow.slow_correct_all _ neg ip fp ec sg eds hsl
  refine ⟨a, hset, ?_⟩
  have hnv : rounded (data.toList.take (data.toList.length - rest.length)) =
      roundDec neg (digitsVal (ip ++ fp) 0) (sgnOf sg * (digitsVal eds 0 : ℤ) - fp.length) := by
    simp only [rounded, numberValue_shape hs]
  rw [hnv]
  generalize roundDec neg (digitsVal (ip ++ fp) 0) (sgnOf sg * (digitsVal eds 0 : ℤ) - fp.length) = r at hfb ⊢
  obtain ⟨rb, rovf⟩ := r
  obtain ⟨h1, h2, h3⟩ := hpath
  simp only [parse, hok, Bool.not_true, Bool.false_eq_true, if_false, hp, htd] at h1 h2 h3 ⊢
  split
  · rename_i f hf; rw [hf] at h1; exact absurd rfl h1
  · rename_i hf
    rw [hf] at h2 h3
    split
    · rename_i f path hel
      rw [hel] at h2 h3
      simp only [] at h2 h3
      -- the Eisel-Lemire match only produces `.eisel` / `.eiselTrunc`
      exfalso
      split at hel
      · split at hel
        · injection hel with hel; injection hel with _ hpth; exact h2 hpth.symm
        · split at hel
          · split at hel
            · injection hel with hel; injection hel with _ hpth; exact h3 hpth.symm
            · cases hel
          · cases hel
      · cases hel
    · rw [hset]
      simp only [hfb]
      cases rovf with
      | true => simp
      | false => simp


/-- **`ParseJSONFloatPrefix` is correctly rounded on every number literal**: whichever path answers, error flag and
    bits are those of the correctly rounded exact value -/
theorem parse_correct_all (data : Bytes) (rest : List UInt8) (hscan : scanNumber data.toList = some rest) :
    (parse data).n = data.size - rest.length ∧
    (parse data).err = (rounded (data.toList.take (data.toList.length - rest.length))).2 ∧
    ((parse data).err = false → (parse data).bits = (rounded (data.toList.take (data.toList.length - rest.length))).1) := by
  obtain ⟨_, _, hn, _⟩ := parse_accepts_number data rest hscan
  refine ⟨hn, ?_⟩
  by_cases hfast : (parse data).path = .exact ∨ (parse data).path = .eisel ∨ (parse data).path = .eiselTrunc
  · obtain ⟨he, _, hv⟩ := parse_fast_correct data rest hscan hfast
    simp only [rounded, hv, he]
    exact ⟨trivial, fun _ => trivial⟩
  · have hp : (parse data).path ≠ .exact ∧ (parse data).path ≠ .eisel ∧ (parse data).path ≠ .eiselTrunc :=
      ⟨fun h => hfast (.inl h), fun h => hfast (.inr (.inl h)), fun h => hfast (.inr (.inr h))⟩
    obtain ⟨a, _, hres⟩ := parse_slow_correct_all data rest hscan hp
    exact hres.2


/-- **`ReadFloat64`** (leading whitespace, then a number literal): value, end offset and error are what
    `Spec.readFloat` specifies — an error exactly when the correctly rounded value overflows -/
theorem readFloat64_correct_all (data : Bytes) (rest : List UInt8) (hscan : scanNumber (skipWs data.toList) = some rest) :
    (Model.readFloat64 data).p = ((data.size - rest.length : ℕ) : ℤ) ∧
    match Spec.readFloat data.toList with
    | some (v, n) => (Model.readFloat64 data).err = none ∧ (Model.readFloat64 data).val = v ∧ n = data.size - rest.length
    | none => (Model.readFloat64 data).err = some .other := by
  have hcw := countWhitespace_spec data
  have hwl := skipWs_length_le' data.toList
  simp only [Array.length_toList] at hwl
  have hsub : (data.extract (countWhitespace data) data.size).toList = skipWs data.toList := by
    rw [extract_toList, List.take_of_length_le (by simp), hcw]
    have := C13Aux.drop_skipWs data.toList
    simpa using this
  have hsz : (data.extract (countWhitespace data) data.size).size = (skipWs data.toList).length := by
    have := congrArg List.length hsub
    simpa using this
  rw [← hsub] at hscan
  obtain ⟨hn, he, hv⟩ := parse_correct_all _ rest hscan
  obtain ⟨_, _, _, hpos⟩ := parse_accepts_number _ rest hscan
  rw [hsz] at hn hpos
  rw [hsub] at he hv hscan
  have hrl : rest.length < (skipWs data.toList).length := by omega
  have hne : (countWhitespace data == data.size) = false := by
    rw [hcw]; simp; omega
  simp only [Model.readFloat64, hne, Bool.false_eq_true, if_false, hn]
  refine ⟨by rw [hcw]; congr 1; omega, ?_⟩
  simp only [Spec.readFloat, hscan]
  simp only [rounded] at he hv
  generalize hnv : numberValue ((skipWs data.toList).take ((skipWs data.toList).length - rest.length)) = nv at he hv ⊢
  obtain ⟨ng, m, e⟩ := nv
  simp only [] at he hv ⊢
  generalize roundDec ng m e = r at he hv ⊢
  obtain ⟨rb, rovf⟩ := r
  simp only [] at he hv ⊢
  cases rovf with
  | true => simp [he]
  | false =>
    simp only [Bool.false_eq_true, if_false]
    simp [he, hv he]


/-- non-vacuity: the only hypothesis is that the input starts with a number literal -/
example : scanNumber "-12.50e+3,".toUTF8.data.toList = some [44] := by decide +kernel

/- The case the exact-run theorems do not reach — e.g. `9007199254740993.` followed by 782 zeros and a `1`: read without
   truncation (800 significant digits), multiprecision path, its right shifts drop non-zero digits, result
   `0x4340000000000001` — is too slow to replay inside the kernel (800-element array updates); the correspondence run
   exercises it (`FloatPath` reports `slow/truncated-run`; literal classes `midpoint+fittail`, `midpoint+longtail`). -/

end RJson.C04
