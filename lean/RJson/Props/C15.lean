import RJson.Props.C14
import RJson.Props.C06
import RJson.Model.ValueReader
import RJson.Proofs.ReaderStateSim
/-!
# C15 (partial) — a reused ValueReader matches a fresh one: the state that the model can carry

A `ValueReader` keeps, between calls: its stack `Buffer`, two scratch byte slices (`stringBuf`, `fieldNameBuf`,
truncated to length 0 before every use), size hints for the next map / slice, its depth (0 at rest) and a pool of
child readers. The hand model of complex_readers.go (`Model.ValueReader`) is *stateless*: it runs the handler
tables on a list stack and reads strings into an empty scratch buffer. What justifies that:

* `reader_buffer_irrelevant`: the traversals a reader performs give the same result on the reader's own stack
  buffer, whatever an earlier call (successful, failed, aborted by a handler error, at any depth) left in it, as on
  the list stack of the model — for the reader's own handlers `arrHandler` / `objHandler` of any level;
* `session_irrelevant` (C14): any sequence of such calls threading one buffer;
* `stringBuf_irrelevant`: a string read into a scratch buffer that was truncated to length 0 does not depend on
  what the buffer held before (content; capacity is not modelled).

Not carried by the model, hence observed only (reuse suite of the correspondence run: histories of successful and
failing calls on one reader against fresh readers, mutation of earlier results): the size hints, the depth field of
pooled children, the `sync.Pool`, and that returned maps / slices are never written again.
-/
namespace RJson.C15
open RJson.Ragel RJson.Model

/-- array traversals of a reader on its own (reused) stack buffer = the model's list-stack run -/
theorem reader_buffer_irrelevant_arr (prev : Readers) (depth : Nat) (data : Bytes) (hv : Havoc Nat) (stack : Array Nat) :
    (runA Gen.HandleArrayValues.machine data (arrHandler prev depth) hv stack #[] {}).1 =
      runL Gen.HandleArrayValues.machine data (arrHandler prev depth) #[] {} :=
  runA_eq_runL Gen.HandleArrayValues.machine data (arrHandler prev depth) hv stack #[] ({} : ArrHS)
    (C14.handleArrayValues_noBD data (arrHandler prev depth) #[] ({} : ArrHS))

theorem reader_buffer_irrelevant_obj (prev : Readers) (depth : Nat) (data : Bytes) (hv : Havoc Nat) (stack : Array Nat) :
    (runA Gen.HandleObjectValues.machine data (objHandler prev depth) hv stack #[] {}).1 =
      runL Gen.HandleObjectValues.machine data (objHandler prev depth) #[] {} :=
  runA_eq_runL Gen.HandleObjectValues.machine data (objHandler prev depth) hv stack #[] ({} : ObjHS)
    (C14.handleObjectValues_noBD data (objHandler prev depth) #[] ({} : ObjHS))

/-- a string read into a truncated scratch buffer: the result is the one with an empty buffer, whatever the buffer
    held before truncation (`old` plays no role once the length is 0) -/
theorem stringBuf_irrelevant (data : Bytes) (old : Bytes) :
    Model.readStringBytes data (old.extract 0 0) = Model.readStringBytes data #[] := by
  have : old.extract 0 0 = #[] := by
    apply Array.ext'
    simp
  rw [this]

/-! ## the state that survives a call: depth, size hints, pooled children -/

/-- one call on a reader at rest, in any state of its size hints and with any pool contents: the result is the one a
    brand-new reader gives, and the reader is at rest again (depth 0) afterwards — also after an error, a
    depth-limit exit or a handler abort -/
theorem call_fresh (orc : Oracle) (op : VOp) (h : VRState) (hd : h.depth = 0) (tick : Nat) (data : Bytes) :
    (sCall orc op h tick data).1 = freshCall op data ∧ (sCall orc op h tick data).2.1.depth = 0 := by
  cases op with
  | value =>
    obtain ⟨a, b⟩ := ReaderState.sReadValue_eq orc h hd tick data
    exact ⟨a, by show (sReadValue orc h tick data).2.1.depth = 0; rw [b]; exact hd⟩
  | object => exact ReaderState.sReadObject_eq orc h hd tick data
  | array => exact ReaderState.sReadArray_eq orc h hd tick data

/-- **every history of calls on one reader**: each result equals what a brand-new reader returns for that input -/
theorem history_fresh (orc : Oracle) : ∀ (ops : List (VOp × Bytes)) (h : VRState) (tick : Nat), h.depth = 0 →
    (runHistory orc h tick ops).1 = ops.map (fun o => freshCall o.1 o.2) ∧ (runHistory orc h tick ops).2.1.depth = 0 := by
  intro ops
  induction ops with
  | nil => intro h tick hd; exact ⟨rfl, hd⟩
  | cons o rest ih =>
    intro h tick hd
    obtain ⟨op, data⟩ := o
    obtain ⟨a, b⟩ := call_fresh orc op h hd tick data
    simp only [runHistory, List.map_cons]
    generalize sCall orc op h tick data = c at a b
    obtain ⟨r, h', tick'⟩ := c
    simp only [] at a b ⊢
    obtain ⟨c1, c2⟩ := ih h' tick' b
    generalize runHistory orc h' tick' rest = rr at c1 c2
    obtain ⟨rs, hf, tf⟩ := rr
    simp only [] at c1 c2 ⊢
    exact ⟨by rw [a, c1], c2⟩

/-- non-vacuity: a reader with stale hints and a pool full of readers with stale depths -/
example : ({ depth := 0, newMapSize := 7, lastMapSize := 30000, maxMapSize := 12, newSliceSize := 3, lastSliceSize := 99 } : VRState).depth = 0 := rfl

end RJson.C15
