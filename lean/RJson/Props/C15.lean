import RJson.Props.C14
import RJson.Props.C06
import RJson.Model.ValueReader
/-!
# C15 (partial) — a reused ValueReader matches a fresh one: the state that the model can carry

A `ValueReader` keeps, between calls: its stack `Buffer`, two scratch byte slices (`stringBuf`, `fieldNameBuf`,
truncated to length 0 before every use), size hints for the next map / slice, its depth (0 at rest) and a pool of
child readers. The hand model of complex_readers.go (`Model.ValueReader`) is *stateless*: it runs the handler
tables on a list stack and reads strings into an empty scratch buffer. What justifies that:

* `reader_buffer_irrelevant`: the traversals a reader performs give the same result on the reader's own stack
  buffer, whatever an earlier call (successful, failed, aborted by a handler error, at any depth) left in it, as on
  the list stack of the model — for the reader's own handlers `arrHandler` / `objHandler` of any level;
* `session_irrelevant` (C14): any sequence of such calls threading one buffer;
* `stringBuf_irrelevant`: a string read into a scratch buffer that was truncated to length 0 does not depend on
  what the buffer held before (content; capacity is not modelled).

Not carried by the model, hence observed only (reuse suite of the correspondence run: histories of successful and
failing calls on one reader against fresh readers, mutation of earlier results): the size hints, the depth field of
pooled children, the `sync.Pool`, and that returned maps / slices are never written again.
-/
namespace RJson.C15
open RJson.Ragel RJson.Model

/-- array traversals of a reader on its own (reused) stack buffer = the model's list-stack run -/
theorem reader_buffer_irrelevant_arr (prev : Readers) (depth : Nat) (data : Bytes) (hv : Havoc Nat) (stack : Array Nat) :
    (runA Gen.HandleArrayValues.machine data (arrHandler prev depth) hv stack #[] {}).1 =
      runL Gen.HandleArrayValues.machine data (arrHandler prev depth) #[] {} :=
  runA_eq_runL Gen.HandleArrayValues.machine data (arrHandler prev depth) hv stack #[] ({} : ArrHS)
    (C14.handleArrayValues_noBD data (arrHandler prev depth) #[] ({} : ArrHS))

theorem reader_buffer_irrelevant_obj (prev : Readers) (depth : Nat) (data : Bytes) (hv : Havoc Nat) (stack : Array Nat) :
    (runA Gen.HandleObjectValues.machine data (objHandler prev depth) hv stack #[] {}).1 =
      runL Gen.HandleObjectValues.machine data (objHandler prev depth) #[] {} :=
  runA_eq_runL Gen.HandleObjectValues.machine data (objHandler prev depth) hv stack #[] ({} : ObjHS)
    (C14.handleObjectValues_noBD data (objHandler prev depth) #[] ({} : ObjHS))

/-- a string read into a truncated scratch buffer: the result is the one with an empty buffer, whatever the buffer
    held before truncation (`old` plays no role once the length is 0) -/
theorem stringBuf_irrelevant (data : Bytes) (old : Bytes) :
    Model.readStringBytes data (old.extract 0 0) = Model.readStringBytes data #[] := by
  have : old.extract 0 0 = #[] := by
    apply Array.ext'
    simp
  rw [this]

end RJson.C15
