import RJson.Proofs.ParseSlowAny
import RJson.Props.C04Fast
/-!
# C04 — the multiprecision slow path, and the conversion as a whole

For **every** input whose head is a JSON number literal (any number of digits, any exponent, any bytes after it) and the
hand model of `internal/fp` over the regenerated tables (`powtab`, `leftcheats`, `pow10tab`, `float64pow10`):

* `parse_slow_correct`: when the fast paths decline, `decimal.set` accepts the literal (never the slow-path syntax
  error) and, when the multiprecision run is exact (`Decimal.exactRun`: the sticky truncation flag of the 800-digit
  decimal never comes on — neither in `set`, which may drop zeros only, nor in a shift), `floatBits` does not panic, and error flag and bits are those of `Spec.roundDec` of the
  literal's exact value `Spec.numberValue`: overflow is reported exactly when the correctly rounded value is infinite;
* `parse_correct`: the same for whichever path answers (exact, Eisel-Lemire, Eisel-Lemire double check, slow).

Behind it: `Dec.set_spec` (the decimal built from the text), `Dec.leftShift_spec` / `Dec.rightShift_spec` /
`Dec.shift_spec` (the shifts multiply / divide by powers of two exactly and never index out of range; the
`leftcheats` prediction is exact: `Dec.cheat_all`, kernel-decided over the regenerated table), `Dec.scaled_spec` (the
`powtab` scaling loops), `Dec.roundedInteger_spec` (round half even), `Dec.finish_spec` (carry, denormal flag,
assembly), `Dec.floatBits_spec`, `ParseSlow.roundRat_clip` (the exponent clipped beyond `10000 + len` rounds like the true one).

Not proved: runs in which the truncation flag comes on (more than 800 significant digits needed at some point: the
literal has more than 800 significant digits, or a right shift produces more than 800), where the code rounds a truncated
decimal with its `trunc` tie-break; those stay with the correspondence run against `Spec.readFloat`.
-/
namespace RJson.C04
open RJson.Spec RJson.FP RJson.NumShape RJson.Abs RJson.Ragel

/-- the literal's exact value, correctly rounded: `(bits, overflow)` -/
def rounded (lit : List UInt8) : Nat × Bool :=
  roundDec (numberValue lit).1 (numberValue lit).2.1 (numberValue lit).2.2

theorem lit_toList (data : Bytes) (n : Nat) : (data.extract 0 n).toList = data.toList.take n := by
  rw [extract_toList]; simp

/-- **the slow path** -/
theorem parse_slow_correct (data : Bytes) (rest : List UInt8) (hscan : scanNumber data.toList = some rest)
    (hpath : (parse data).path ≠ .exact ∧ (parse data).path ≠ .eisel ∧ (parse data).path ≠ .eiselTrunc) :
    ∃ a, Decimal.set (data.extract 0 (data.size - rest.length)) = some a ∧
      (a.exactRun = true →
        ((parse data).path = .slow ∨ (parse data).path = .slowRange) ∧
        (parse data).err = (rounded (data.toList.take (data.toList.length - rest.length))).2 ∧
        ((parse data).err = false → (parse data).bits = (rounded (data.toList.take (data.toList.length - rest.length))).1)) := by
  obtain ⟨neg, ip, fp, ec, sg, eds, hs⟩ := shape_of_scan _ _ hscan
  obtain ⟨hok, hp, _, _, _, _⟩ := ParseFast.readFloat_fields data neg ip fp ec sg eds rest hs
  obtain ⟨hpos, hlast⟩ := ParseFast.last_is_digit data neg ip fp ec sg eds rest hs
  have htd : (decide (data.size - rest.length > 0) && data[data.size - rest.length - 1]! == 46) = false := by
    have : (data[data.size - rest.length - 1]! == 46) = false := by
      apply beq_eq_false_iff_ne.mpr
      intro h46; rw [h46] at hlast; exact absurd hlast (by decide)
    rw [this, Bool.and_false]
  -- the literal
  have hsl := ParseSlow.shape_lit hs
  have hsz : data.toList.length = data.size := by simp
  rw [hsz, ← lit_toList] at hsl
  obtain ⟨a, hset, hfb⟩ := ParseSlow.slow_correct_any _ neg ip fp ec sg eds hsl
  refine ⟨a, hset, fun hex => ?_⟩
  have hfb := hfb hex
  have hnv : rounded (data.toList.take (data.toList.length - rest.length)) =
      roundDec neg (digitsVal (ip ++ fp) 0) (sgnOf sg * (digitsVal eds 0 : ℤ) - fp.length) := by
    simp only [rounded, numberValue_shape hs]
  rw [hnv]
  generalize roundDec neg (digitsVal (ip ++ fp) 0) (sgnOf sg * (digitsVal eds 0 : ℤ) - fp.length) = r at hfb ⊢
  obtain ⟨rb, rovf⟩ := r
  obtain ⟨h1, h2, h3⟩ := hpath
  simp only [parse, hok, Bool.not_true, Bool.false_eq_true, if_false, hp, htd] at h1 h2 h3 ⊢
  split
  · rename_i f hf; rw [hf] at h1; exact absurd rfl h1
  · rename_i hf
    rw [hf] at h2 h3
    split
    · rename_i f path hel
      rw [hel] at h2 h3
      simp only [] at h2 h3
      -- the Eisel-Lemire match only produces `.eisel` / `.eiselTrunc`
      exfalso
      split at hel
      · split at hel
        · injection hel with hel; injection hel with _ hpth; exact h2 hpth.symm
        · split at hel
          · split at hel
            · injection hel with hel; injection hel with _ hpth; exact h3 hpth.symm
            · cases hel
          · cases hel
      · cases hel
    · rw [hset]
      simp only [hfb]
      cases rovf with
      | true => simp
      | false => simp

/-- **`ParseJSONFloatPrefix` as a whole**: whichever path answers (the slow one
    under the exactness of its run), error flag and bits are those of the correctly rounded exact value -/
theorem parse_correct (data : Bytes) (rest : List UInt8) (hscan : scanNumber data.toList = some rest)
    (hex : ∀ a, Decimal.set (data.extract 0 (data.size - rest.length)) = some a → a.exactRun = true) :
    (parse data).n = data.size - rest.length ∧
    (parse data).err = (rounded (data.toList.take (data.toList.length - rest.length))).2 ∧
    ((parse data).err = false → (parse data).bits = (rounded (data.toList.take (data.toList.length - rest.length))).1) := by
  obtain ⟨_, _, hn, _⟩ := parse_accepts_number data rest hscan
  refine ⟨hn, ?_⟩
  by_cases hfast : (parse data).path = .exact ∨ (parse data).path = .eisel ∨ (parse data).path = .eiselTrunc
  · obtain ⟨he, _, hv⟩ := parse_fast_correct data rest hscan hfast
    simp only [rounded, hv, he]
    exact ⟨trivial, fun _ => trivial⟩
  · have hp : (parse data).path ≠ .exact ∧ (parse data).path ≠ .eisel ∧ (parse data).path ≠ .eiselTrunc :=
      ⟨fun h => hfast (.inl h), fun h => hfast (.inr (.inl h)), fun h => hfast (.inr (.inr h))⟩
    obtain ⟨a, hset, hres⟩ := parse_slow_correct data rest hscan hp
    exact (hres (hex a hset)).2

/-- **`ReadFloat64`** (leading whitespace, then a number literal): value, end offset and error are what
    `Spec.readFloat` specifies — an error exactly when the correctly rounded value overflows -/
theorem readFloat64_correct (data : Bytes) (rest : List UInt8) (hscan : scanNumber (skipWs data.toList) = some rest)
    (hex : ∀ a, Decimal.set ((data.extract (countWhitespace data) data.size).extract 0 ((skipWs data.toList).length - rest.length)) = some a →
      a.exactRun = true) :
    (Model.readFloat64 data).p = ((data.size - rest.length : ℕ) : ℤ) ∧
    match Spec.readFloat data.toList with
    | some (v, n) => (Model.readFloat64 data).err = none ∧ (Model.readFloat64 data).val = v ∧ n = data.size - rest.length
    | none => (Model.readFloat64 data).err = some .other := by
  have hcw := countWhitespace_spec data
  have hwl := skipWs_length_le' data.toList
  simp only [Array.length_toList] at hwl
  have hsub : (data.extract (countWhitespace data) data.size).toList = skipWs data.toList := by
    rw [extract_toList, List.take_of_length_le (by simp), hcw]
    have := C13Aux.drop_skipWs data.toList
    simpa using this
  have hsz : (data.extract (countWhitespace data) data.size).size = (skipWs data.toList).length := by
    have := congrArg List.length hsub
    simpa using this
  rw [← hsub] at hscan
  obtain ⟨hn, he, hv⟩ := parse_correct _ rest hscan (by rw [hsz]; exact hex)
  obtain ⟨_, _, _, hpos⟩ := parse_accepts_number _ rest hscan
  rw [hsz] at hn hpos
  rw [hsub] at he hv hscan
  have hrl : rest.length < (skipWs data.toList).length := by omega
  have hne : (countWhitespace data == data.size) = false := by
    rw [hcw]; simp; omega
  simp only [Model.readFloat64, hne, Bool.false_eq_true, if_false, hn]
  refine ⟨by rw [hcw]; congr 1; omega, ?_⟩
  simp only [Spec.readFloat, hscan]
  simp only [rounded] at he hv
  generalize hnv : numberValue ((skipWs data.toList).take ((skipWs data.toList).length - rest.length)) = nv at he hv ⊢
  obtain ⟨ng, m, e⟩ := nv
  simp only [] at he hv ⊢
  generalize roundDec ng m e = r at he hv ⊢
  obtain ⟨rb, rovf⟩ := r
  simp only [] at he hv ⊢
  cases rovf with
  | true => simp [he]
  | false =>
    simp only [Bool.false_eq_true, if_false]
    simp [he, hv he]

/-- non-vacuity: a literal (2^53 + 1, a halfway case) that all fast paths decline and whose multiprecision run is exact -/
example : (parse "9007199254740993".toUTF8.data).path = .slow ∧
    (Decimal.set ("9007199254740993".toUTF8.data.extract 0 16)).map Decimal.exactRun = some true := by
  decide +kernel

end RJson.C04
