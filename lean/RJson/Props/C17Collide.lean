import RJson.Props.C17Keys
/-!
# C17 — the collision test of the correspondence run is exactly the hypothesis of `stdTreeF_obj_distinct`

`Model.stdCollides` (the predicate with which the driver recognises the case the property excludes: two keys of one object
become equal after replacement) tests whether rebuilding the object under the sanitised keys yields fewer entries than there
were members. `rebuild_size`: it never yields more, and it yields exactly as many precisely when the sanitised keys are
pairwise distinct (`size_eq_iff_distinct`). So "no collision reported at this object" is the same as the hypothesis under
which every key and value is replaced in order (`stdTreeF_obj_of_size`).
-/
namespace RJson.C17
open RJson.Model RJson.Spec

theorem mapSet_cases (acc : Array (Bytes × Model.JVal)) (k : Bytes) (v : Model.JVal) :
    (mapSet acc k v).size = acc.size ∨ ((∀ a ∈ acc, a.1 ≠ k) ∧ mapSet acc k v = acc.push (k, v)) := by
  rcases mapSet_keys acc k v with h | ⟨hne, _⟩
  · left
    have := congrArg Array.size h
    simpa using this
  · right
    exact ⟨hne, mapSet_fresh acc k v hne⟩

theorem rebuild_size (g : Bytes → Bytes) (hf : Model.JVal → Model.JVal) :
    ∀ (l : List (Bytes × Model.JVal)) (acc : Array (Bytes × Model.JVal)),
      (l.foldl (fun acc kv => mapSet acc (g kv.1) (hf kv.2)) acc).size ≤ acc.size + l.length ∧
      ((l.foldl (fun acc kv => mapSet acc (g kv.1) (hf kv.2)) acc).size = acc.size + l.length →
        l.Pairwise (fun a b => g a.1 ≠ g b.1) ∧ ∀ a ∈ acc, ∀ b ∈ l, a.1 ≠ g b.1) := by
  intro l
  induction l with
  | nil => intro acc; simp
  | cons kv rest ih =>
    intro acc
    simp only [List.foldl_cons, List.length_cons]
    have ih' := ih (mapSet acc (g kv.1) (hf kv.2))
    rcases mapSet_cases acc (g kv.1) (hf kv.2) with hs | ⟨hne, hpush⟩
    · rw [hs] at ih'
      refine ⟨by omega, ?_⟩
      intro heq
      omega
    · rw [hpush] at ih' ⊢
      simp only [Array.size_push] at ih'
      refine ⟨by omega, ?_⟩
      intro heq
      have := ih'.2 (by omega)
      refine ⟨List.pairwise_cons.mpr ⟨fun b hb => this.2 (g kv.1, hf kv.2) (by simp) b hb, this.1⟩, ?_⟩
      intro a ha b hb
      rw [List.mem_cons] at hb
      rcases hb with rfl | hb
      · exact hne a ha
      · exact this.2 a (by simp [ha]) b hb

/-- rebuilding under the sanitised keys keeps the number of members exactly when no two of them collide -/
theorem size_eq_iff_distinct (kvs : Array (Bytes × Model.JVal)) :
    (kvs.foldl (fun acc kv => mapSet acc (stdLibCompatibleString kv.1) Model.JVal.null) #[]).size = kvs.size ↔
      kvs.toList.Pairwise (fun a b => stdLibCompatibleString a.1 ≠ stdLibCompatibleString b.1) := by
  rw [← Array.foldl_toList]
  constructor
  · intro h
    exact ((rebuild_size stdLibCompatibleString (fun _ => Model.JVal.null) kvs.toList #[]).2 (by simpa using h)).1
  · intro h
    rw [rebuild_map stdLibCompatibleString (fun _ => Model.JVal.null) kvs.toList #[] h (by simp)]
    simp

/-- the object case of `stdTreeF` under the driver's own no-collision test -/
theorem stdTreeF_obj_of_size (f : Nat) (kvs : Array (Bytes × Model.JVal))
    (h : ¬ (kvs.foldl (fun acc kv => mapSet acc (stdLibCompatibleString kv.1) Model.JVal.null) #[]).size < kvs.size) :
    stdTreeF (f + 1) (.obj kvs) = .obj (kvs.map (fun kv => (stdLibCompatibleString kv.1, stdTreeF f kv.2))) := by
  apply stdTreeF_obj_distinct
  rw [← size_eq_iff_distinct]
  have := (rebuild_size stdLibCompatibleString (fun _ => Model.JVal.null) kvs.toList #[]).1
  rw [Array.foldl_toList] at this
  simp only [Array.size_empty, Array.length_toList, Nat.zero_add] at this
  omega

/-- ... stated with `stdCollides` itself -/
theorem stdTreeF_obj_of_not_collides (f d : Nat) (kvs : Array (Bytes × Model.JVal))
    (h : stdCollides (d + 1) (.obj kvs) = false) :
    stdTreeF (f + 1) (.obj kvs) = .obj (kvs.map (fun kv => (stdLibCompatibleString kv.1, stdTreeF f kv.2))) := by
  apply stdTreeF_obj_of_size
  simp only [stdCollides, Bool.or_eq_false_iff, decide_eq_false_iff_not] at h
  exact h.1

end RJson.C17
