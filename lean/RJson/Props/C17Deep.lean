import RJson.Props.C17Tree
/-!
# C17 — the helpers at every depth of object-free trees

`stdTreeF_strings*` (Props/C17Tree.lean) speak about one array of strings. Here, for arrays nested to any depth (no objects
below the root within the fuel, `objFree`): a second application changes nothing (`stdTreeF_idem_objFree`), and a tree all of
whose strings are valid UTF-8 is returned unchanged (`stdTreeF_valid_objFree`). Objects are left out because rebuilding a map
by assignment is the identity only without duplicate keys; which of two colliding keys survives is outside the model.
-/
namespace RJson.C17
open RJson.Model RJson.Spec

/-- no object within `fuel` levels -/
def objFree : Nat → Model.JVal → Bool
  | 0, _ => true
  | f+1, .arr xs => xs.all (objFree f)
  | _+1, .obj _ => false
  | _+1, _ => true

/-- every string within `fuel` levels is valid UTF-8 (and there is no object) -/
def validTree : Nat → Model.JVal → Bool
  | 0, _ => true
  | _+1, .str s => utf8Valid (s.toList.length + 1) s.toList
  | f+1, .arr xs => xs.all (validTree f)
  | _+1, .obj _ => false
  | _+1, _ => true

theorem objFree_stdTreeF : ∀ (f : Nat) (v : Model.JVal), objFree f v = true → objFree f (stdTreeF f v) = true := by
  intro f
  induction f with
  | zero => intro v _; rfl
  | succ f ih =>
    intro v h
    cases v with
    | arr xs =>
      simp only [objFree, Array.all_eq_true'] at h
      simp only [stdTreeF, objFree, Array.all_eq_true', Array.mem_map]
      rintro _ ⟨x, hx, rfl⟩
      exact ih x (h x hx)
    | obj kvs => simp [objFree] at h
    | str s => rfl
    | null => rfl
    | bool b => rfl
    | num n => rfl

/-- a second application changes nothing, at every depth -/
theorem stdTreeF_idem_objFree : ∀ (f : Nat) (v : Model.JVal), objFree f v = true →
    stdTreeF f (stdTreeF f v) = stdTreeF f v := by
  intro f
  induction f with
  | zero => intro v _; rfl
  | succ f ih =>
    intro v h
    cases v with
    | arr xs =>
      simp only [objFree, Array.all_eq_true'] at h
      simp only [stdTreeF, Array.map_map]
      congr 1
      apply Array.map_congr_left
      intro x hx
      exact ih x (h x hx)
    | obj kvs => simp [objFree] at h
    | str s => simp only [stdTreeF, stdString_idem]
    | null => rfl
    | bool b => rfl
    | num n => rfl

/-- the identity on trees whose strings are all valid UTF-8, at every depth -/
theorem stdTreeF_valid_objFree : ∀ (f : Nat) (v : Model.JVal), validTree f v = true → stdTreeF f v = v := by
  intro f
  induction f with
  | zero => intro v _; rfl
  | succ f ih =>
    intro v h
    cases v with
    | arr xs =>
      simp only [validTree, Array.all_eq_true'] at h
      simp only [stdTreeF]
      congr 1
      conv => rhs; rw [← Array.map_id xs]
      apply Array.map_congr_left
      intro x hx
      exact ih x (h x hx)
    | obj kvs => simp [validTree] at h
    | str s =>
      simp only [validTree] at h
      simp only [stdTreeF, stdString_valid s h]
    | null => rfl
    | bool b => rfl
    | num n => rfl

/-- non-vacuity: `[["é"], "x"]` is a valid tree two levels deep -/
example : validTree 3 (.arr #[.arr #[.str #[0xC3, 0xA9]], .str #[120]]) = true := by decide +kernel

end RJson.C17
