import RJson.Proofs.Interp
import RJson.Props.C14
/-!
# C09 — a handler error stops the traversal and is returned unchanged

`Ragel.watch h` records the first error the handler returns and whether the handler is called again
afterwards. For both handler machines, every document, every handler, every buffer content and re-entrant
interference: the handler is never called again after returning an error, and the traversal returns that very
error (`Kind.herr id` with the handler's own `id` — the interpreter has no operation that could alter it),
whatever offset accompanied it.
-/
namespace RJson.C09
open RJson.Ragel

theorem handler_error_stops {τ} (f : C14.Fn) (data : Bytes) (h : Handler τ) (hv : Havoc Nat) (stack₀ : Array Nat) (hs : τ) :
    let res := (runA f.machine data (watch h) hv stack₀ #[] { inner := hs }).1
    res.hs.again = false ∧ ∀ id, res.hs.failed = some id → res.kind = .herr id := by
  intro res
  have heq : res = runL f.machine data (watch h) #[] { inner := hs } :=
    runA_eq_runL _ _ _ _ _ _ _ (C14.fn_noBD f data (watch h) #[] _)
  rw [heq]
  exact run_watch f.machine data h #[] hs

theorem handleArrayValues_error {τ} (data : Bytes) (h : Handler τ) (hv : Havoc Nat) (stack₀ : Array Nat) (hs : τ) :
    let res := (runA Gen.HandleArrayValues.machine data (watch h) hv stack₀ #[] { inner := hs }).1
    res.hs.again = false ∧ ∀ id, res.hs.failed = some id → res.kind = .herr id :=
  handler_error_stops .handleArrayValues data h hv stack₀ hs

theorem handleObjectValues_error {τ} (data : Bytes) (h : Handler τ) (hv : Havoc Nat) (stack₀ : Array Nat) (hs : τ) :
    let res := (runA Gen.HandleObjectValues.machine data (watch h) hv stack₀ #[] { inner := hs }).1
    res.hs.again = false ∧ ∀ id, res.hs.failed = some id → res.kind = .herr id :=
  handler_error_stops .handleObjectValues data h hv stack₀ hs

/-- the same for any machine table at all (the property does not depend on the JSON grammar) -/
theorem any_machine {σ τ} (M : PDM σ) (data : Bytes) (h : Handler τ) (dst : Bytes) (hs : τ) :
    let res := runL M data (watch h) dst { inner := hs }
    res.hs.again = false ∧ ∀ id, res.hs.failed = some id → res.kind = .herr id :=
  run_watch M data h dst hs

end RJson.C09
