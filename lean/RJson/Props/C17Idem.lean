import RJson.Props.C17Objects
/-!
# C17 — the slice / map helper is idempotent on every tree

`stdTreeF_idem`: for every tree — arrays and objects nested to any depth, keys that collide after replacement included — a
second application of the helper changes nothing. After the first application every object has pairwise distinct keys that
are already sanitised and values that are already sanitised (`rebuild_inv`, from `mapSet_keys` / `mapSet_mem`: an assignment
either keeps the key list or appends a new key), so the second rebuild appends the members in order (`rebuild_id`).
-/
namespace RJson.C17
open RJson.Model RJson.Spec

theorem mapSet_mem (acc : Array (Bytes × Model.JVal)) (k : Bytes) (v : Model.JVal) :
    ∀ a ∈ mapSet acc k v, a ∈ acc ∨ a = (k, v) := by
  intro a ha
  unfold mapSet at ha
  split at ha
  · rw [Array.set!_eq_setIfInBounds] at ha
    exact Array.mem_or_eq_of_mem_setIfInBounds ha
  · rw [Array.mem_push] at ha; exact ha

theorem mapSet_keys (acc : Array (Bytes × Model.JVal)) (k : Bytes) (v : Model.JVal) :
    (mapSet acc k v).map (·.1) = acc.map (·.1) ∨
    ((∀ a ∈ acc, a.1 ≠ k) ∧ (mapSet acc k v).map (·.1) = (acc.map (·.1)).push k) := by
  unfold mapSet
  split
  · rename_i i hi
    left
    rw [Array.findIdx?_eq_some_iff_getElem] at hi
    obtain ⟨hlt, hp, _⟩ := hi
    rw [Array.set!_eq_setIfInBounds]
    apply Array.ext
    · simp
    · intro j h1 h2
      simp only [Array.getElem_map]
      rw [Array.getElem_setIfInBounds]
      split
      · rename_i hij; subst hij; have hp' := hp; simp only [beq_iff_eq] at hp'; exact hp'.symm
      · rfl
  · rename_i hn
    right
    rw [Array.findIdx?_eq_none_iff] at hn
    exact ⟨fun a ha => by simpa using hn a ha, by simp⟩

theorem rebuild_inv (g : Bytes → Bytes) (hf : Model.JVal → Model.JVal) (K : Bytes → Prop) (V : Model.JVal → Prop) :
    ∀ (l : List (Bytes × Model.JVal)) (acc : Array (Bytes × Model.JVal)),
      (acc.map (·.1)).toList.Nodup → (∀ a ∈ acc, K a.1 ∧ V a.2) → (∀ kv ∈ l, K (g kv.1) ∧ V (hf kv.2)) →
      ((l.foldl (fun acc kv => mapSet acc (g kv.1) (hf kv.2)) acc).map (·.1)).toList.Nodup ∧
      ∀ a ∈ l.foldl (fun acc kv => mapSet acc (g kv.1) (hf kv.2)) acc, K a.1 ∧ V a.2 := by
  intro l
  induction l with
  | nil => intro acc h1 h2 _; exact ⟨h1, h2⟩
  | cons kv rest ih =>
    intro acc h1 h2 h3
    simp only [List.foldl_cons]
    apply ih
    · rcases mapSet_keys acc (g kv.1) (hf kv.2) with h | ⟨hne, h⟩
      · rw [h]; exact h1
      · rw [h]
        simp only [Array.toList_push, List.nodup_append, List.nodup_cons, List.not_mem_nil, not_false_eq_true,
          List.nodup_nil, and_self, List.mem_cons, or_false, true_and]
        refine ⟨h1, ?_⟩
        intro a ha b hb
        subst hb
        simp only [Array.toList_map, List.mem_map, Array.mem_toList_iff] at ha
        obtain ⟨x, hx, rfl⟩ := ha
        exact hne x hx
    · intro a ha
      rcases mapSet_mem acc _ _ a ha with h | h
      · exact h2 a h
      · subst h; exact h3 kv (by simp)
    · intro x hx; exact h3 x (by simp [hx])

/-- the slice / map helper is idempotent on every tree — arrays and objects at every depth, colliding keys included
    (after the first application the keys of every object are distinct and already sanitised) -/
theorem stdTreeF_idem : ∀ (f : Nat) (v : Model.JVal), stdTreeF f (stdTreeF f v) = stdTreeF f v := by
  intro f
  induction f with
  | zero => intro v; rfl
  | succ f ih =>
    intro v
    cases v with
    | arr xs =>
      simp only [stdTreeF, Array.map_map]
      congr 1
      apply Array.map_congr_left
      intro x _
      exact ih x
    | obj kvs =>
      simp only [stdTreeF]
      congr 1
      rw [← Array.foldl_toList (xs := kvs)]
      have hinv := rebuild_inv stdLibCompatibleString (stdTreeF f)
        (fun k => stdLibCompatibleString k = k) (fun v => stdTreeF f v = v) kvs.toList #[]
        (by simp) (by simp) (fun kv _ => ⟨stdString_idem kv.1, ih kv.2⟩)
      generalize kvs.toList.foldl (fun acc kv => mapSet acc (stdLibCompatibleString kv.1) (stdTreeF f kv.2)) #[] = r at hinv
      rw [← Array.foldl_toList (xs := r)]
      rw [rebuild_id stdLibCompatibleString (stdTreeF f) r.toList #[]
        (fun kv hkv => (hinv.2 kv (by simpa using hkv)).1)
        (fun kv hkv => (hinv.2 kv (by simpa using hkv)).2)
        (by
          have := hinv.1
          rw [Array.toList_map, List.Nodup, List.pairwise_map] at this
          exact this)
        (by simp)]
      simp
    | str s => simp only [stdTreeF, stdString_idem]
    | null => rfl
    | bool b => rfl
    | num n => rfl

end RJson.C17
