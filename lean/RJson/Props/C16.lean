import RJson.Proofs.Dst
import RJson.Model.Api
/-!
# C16 — destination buffers get append semantics (logic part)

For `UnescapeStringContent`, `ReadStringBytes` (both paths: plain copy and the escape machine) and
`StdLibCompatibleStringBytes`: the result with destination `pre ++ dst` is `pre` followed by the result with
destination `dst`, with the same offset and the same error — for every input and every `pre`, `dst`.
The machine part is `Ragel.run_dst_prefix`, valid for any table. Input immutability and ownership of returned
strings / trees are facts about Go memory: observed by the correspondence run (canaries, overwrites), partly
supported by the regenerated fact that no function assigns through an input parameter.
-/
namespace RJson.C16
open RJson.Model RJson.Ragel

/-- the observable part of a result whose value is a byte slice -/
def AppendRel (pre : Bytes) (a b : R Bytes) : Prop :=
  b.err = a.err ∧ b.p = a.p ∧ b.panicked = a.panicked ∧ (a.err = none → a.panicked = false → b.val = pre ++ a.val)

theorem ofResult_eq {τ} (a b : Result τ) (h : b.kind = a.kind) : ofResult b = ofResult a := by
  simp [ofResult, h]

theorem machine_append (M : PDM Nat) (data pre dst : Bytes) :
    let a := runNoStack M data dst
    let b := runNoStack M data (pre ++ dst)
    ofResult b = ofResult a ∧ b.p = a.p ∧ (a.kind = .ok → b.dst = pre ++ a.dst) := by
  intro a b
  obtain ⟨hk, hp, _, _, _, hd⟩ := run_dst_prefix M data noHandler pre dst ()
  refine ⟨ofResult_eq _ _ hk, hp, ?_⟩
  intro hok
  rcases hd with hd | ⟨h0, _, _⟩
  · exact hd
  · exact absurd hok h0

theorem ofResult_ok {τ} (a : Result τ) (h1 : (ofResult a).1 = none) (h2 : (ofResult a).2 = false) : a.kind = .ok := by
  unfold ofResult at h1 h2
  cases hk : a.kind <;> simp_all

/-- `UnescapeStringContent(data, pre ++ dst)` = `pre` in front of `UnescapeStringContent(data, dst)` -/
theorem unescapeStringContent_append (data pre dst : Bytes) :
    AppendRel pre (unescapeStringContent data dst) (unescapeStringContent data (pre ++ dst)) := by
  obtain ⟨h1, h2, h3⟩ := machine_append Gen.UnescapeStringContent.machine data pre dst
  simp only [unescapeStringContent, AppendRel]
  refine ⟨by rw [h1], h2, by rw [h1], ?_⟩
  intro he hpk
  exact h3 (ofResult_ok _ he hpk)

/-- the escape machine behind `ReadStringBytes` -/
theorem appendRemainder_append (data : Bytes) (off : Nat) (pre dst : Bytes) :
    AppendRel pre (appendRemainder data off dst) (appendRemainder data off (pre ++ dst)) := by
  obtain ⟨h1, h2, h3⟩ := machine_append Gen.AppendRemainderOfString.machine (data.extract off data.size) pre dst
  simp only [appendRemainder, AppendRel]
  refine ⟨by rw [h1], h2, by rw [h1], ?_⟩
  intro he hpk
  exact h3 (ofResult_ok _ he hpk)

/-- `ReadStringBytes(data, pre ++ buf)` = `pre` in front of `ReadStringBytes(data, buf)` on success;
    same offset and same error in every case -/
theorem readStringBytes_append (data pre buf : Bytes) :
    AppendRel pre (readStringBytes data buf) (readStringBytes data (pre ++ buf)) := by
  unfold readStringBytes
  simp only []
  split
  · exact ⟨rfl, rfl, rfl, fun h => by cases h⟩
  · split
    · exact ⟨rfl, rfl, rfl, fun h => by cases h⟩
    · exact ⟨rfl, rfl, rfl, fun _ _ => by simp [Array.append_assoc]⟩
    · next p _ =>
      obtain ⟨h1, h2, h3, h4⟩ := appendRemainder_append data p pre buf
      exact ⟨h1, by simp only [h2], h3, h4⟩
    · next p _ =>
      have := appendRemainder_append data p pre (buf ++ data.extract (countWhitespace data + 1) p)
      rw [← Array.append_assoc] at this
      obtain ⟨h1, h2, h3, h4⟩ := this
      exact ⟨h1, by simp only [h2], h3, h4⟩

theorem sanitizeLoop_append (data : Bytes) (pre : Bytes) : ∀ (fuel i : Nat) (out : Bytes),
    sanitizeLoop data fuel i (pre ++ out) = pre ++ sanitizeLoop data fuel i out := by
  intro fuel
  induction fuel with
  | zero => intros; rfl
  | succ fuel ih =>
    intro i out
    simp only [sanitizeLoop]
    split
    · rw [Array.append_assoc]; exact ih _ _
    · rfl

/-- `StdLibCompatibleStringBytes(s, pre ++ buf)` = `pre` in front of `StdLibCompatibleStringBytes(s, buf)` -/
theorem stdLibCompatibleStringBytes_append (s pre buf : Bytes) :
    stdLibCompatibleStringBytes s (pre ++ buf) = pre ++ stdLibCompatibleStringBytes s buf :=
  sanitizeLoop_append s pre _ _ _

/-- and it is `buf` followed by what `StdLibCompatibleString` produces -/
theorem stdLibCompatibleStringBytes_eq (s buf : Bytes) :
    stdLibCompatibleStringBytes s buf = buf ++ stdLibCompatibleString s := by
  have := stdLibCompatibleStringBytes_append s buf #[]
  simpa [stdLibCompatibleString] using this

end RJson.C16
