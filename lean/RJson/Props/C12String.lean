import RJson.Props.C12
import RJson.Props.C06
import RJson.Props.C13Literals
/-!
# C12 — `DecodeString`, end to end

With `C06.readString_spec` and `C13.readNull_spec`: JSON whitespace, then a well-formed string token — the target becomes
its decoded content, offset just after the closing quote; else whitespace and `null` — target untouched, offset after
`null`; else an error, target untouched.
-/
namespace RJson.C12
open RJson.Model RJson.Spec RJson.Abs RJson.Ragel

/-- what `DecodeString(data, &target)` is specified to do: `(target afterwards, offset or none for an error)` -/
def specDecodeString (data : List UInt8) (t : Bytes) : Bytes × Option Nat :=
  match Spec.readString data with
  | some (content, n) => (content.toArray, some n)
  | none =>
    match scanLit [110, 117, 108, 108] (skipWs data) with
    | some rest => (t, some (data.length - rest.length))
    | none => (t, none)

/-- **`DecodeString` does what the text says**, for every input shorter than 2^62 bytes and every prior target -/
theorem decodeString_spec (data : Bytes) (hsm : Small data) (t : Bytes) :
    (decode readString data t).panicked = false ∧
    (decode readString data t).val = (specDecodeString data.toList t).1 ∧
    match (specDecodeString data.toList t).2 with
    | some n => (decode readString data t).err = none ∧ (decode readString data t).p = (n : Int)
    | none => (decode readString data t).err.isSome = true := by
  have hs := C06.readString_spec data hsm
  simp only [specDecodeString]
  cases hr : Spec.readString data.toList with
  | some cn =>
    obtain ⟨content, n⟩ := cn
    rw [hr] at hs
    simp only [] at hs ⊢
    obtain ⟨s1, s2, s3, s4⟩ := hs
    rw [decode_success readString data t s1 s2]
    exact ⟨s2, s4, s1, s3⟩
  | none =>
    rw [hr] at hs
    simp only [] at hs ⊢
    obtain ⟨s1, s2, _⟩ := hs
    obtain ⟨e, he⟩ : ∃ e, (readString data).err = some e := by
      cases h : (readString data).err with
      | some e => exact ⟨e, rfl⟩
      | none => exact absurd h s1
    have hn := C13.readNull_spec data hsm
    cases hl : scanLit [110, 117, 108, 108] (skipWs data.toList) with
    | some rest =>
      rw [hl] at hn
      simp only [] at hn ⊢
      obtain ⟨n1, n2, n3⟩ := hn
      obtain ⟨d1, d2, d3⟩ := decode_null readString data t e he s2 n1 n3
      refine ⟨?_, d1, d2, ?_⟩
      · simp [decode, he, s2, n1, n3]
      · rw [d3, n2]; simp
    | none =>
      rw [hl] at hn
      simp only [] at hn ⊢
      obtain ⟨n1, n3⟩ := hn
      obtain ⟨d1, d2⟩ := decode_error readString data t e .notNull he s2 n1 n3
      refine ⟨?_, d1, by rw [d2]; rfl⟩
      simp [decode, he, s2, n1, n3]

end RJson.C12
