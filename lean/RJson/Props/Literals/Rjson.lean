import RJson.Gen.Facts
/-!
# The constants the hand models copy from the hand-written Go are the constants of the current source

`gofacts` lists, for every function of the hand-written Go (internal/fp, simple_readers.go, token.go,
machine_helpers.go, complex_readers.go, decode.go, rjson.go), its integer / float / character literals and, behind `;;`, its operators and jump statements (`<`, `>=`, `+=`,
`break`, `return`, …; unary ones prefixed with `u`) — each list sorted, so that reordering statements does not matter; strings
such as error texts are left out. The hand models in `Model/*.lean`
were written against exactly these constants — `310` / `330` in `floatBits`, `22` and `15` in `atof64exact`, `0x1f` in
the string readers, the digit bounds of the integer readers, ... A changed, added or removed literal or operator (a `<` that became `<=`, a dropped `break`) fails the
comparison below on the next run, before any input is tried; named constants and tables are regenerated separately
(`Gen/Tables.lean`).
-/
namespace RJson.Literals

theorem literalsRjson_expected : Gen.Facts.literalsRjson =
    [("ArrayValueHandlerFunc.HandleArrayValue", " ;; return"), ("HandleArrayValues", " ;; == return return"), ("HandleObjectValues", " ;; == return return"), ("ObjectValueHandlerFunc.HandleObjectValue", " ;; return"), ("SkipValue", " ;; == return return"), ("SkipValueFast", " ;; == return return"), ("StdLibCompatibleMap", " ;; return"), ("StdLibCompatibleSlice", " ;; return"), ("StdLibCompatibleString", "0 ;; += < return"), ("StdLibCompatibleStringBytes", " ;; * + += - - < < return"), ("UnescapeStringContent", " ;; return"), ("Valid", " ;; != + == > >= return return return"), ("countWhitespace", "0 ;; ++ < return return u!"), ("skipValueCompat", " ;; != return return return u! u&")] := by decide +kernel

end RJson.Literals
