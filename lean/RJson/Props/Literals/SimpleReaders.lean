import RJson.Gen.Facts
/-!
# The constants the hand models copy from the hand-written Go are the constants of the current source

`gofacts` lists, for every function of the hand-written Go (internal/fp, simple_readers.go, token.go,
machine_helpers.go, complex_readers.go, decode.go, rjson.go), its integer / float / character literals and, behind `;;`, its operators and jump statements (`<`, `>=`, `+=`,
`break`, `return`, …; unary ones prefixed with `u`) — each list sorted, so that reordering statements does not matter; strings
such as error texts are left out. The hand models in `Model/*.lean`
were written against exactly these constants — `310` / `330` in `floatBits`, `22` and `15` in `atof64exact`, `0x1f` in
the string readers, the digit bounds of the integer readers, ... A changed, added or removed literal or operator (a `<` that became `<=`, a dropped `break`) fails the
comparison below on the next run, before any input is tried; named constants and tables are regenerated separately
(`Gen/Tables.lean`).
-/
namespace RJson.Literals

theorem literalsSimpleReaders_expected : Gen.Facts.literalsSimpleReaders =
    [("ReadBool", " ;; return"), ("ReadFloat64", "0 ;; + == return return"), ("ReadInt", "0 0 32 64 ;; return return return"), ("ReadInt32", "0 0 ;; != < > return return return ||"), ("ReadInt64", "'-' 0 0 0 0 0 1 63 ;; != ++ += << == == == > >= return return return return return return return u- ||"), ("ReadNull", " ;; return"), ("ReadString", "'\"' '\"' '\\\\' 0 0x1f 1 ;; != != != != + ++ ++ += += < <= == return return return return return ||"), ("ReadStringBytes", "'\"' '\"' '\\\\' 0x1f 1 ;; != + ++ ++ += += < <= == return return return return return ||"), ("ReadUint", "0 0 32 64 ;; return return return"), ("ReadUint32", "0 ;; && == > return"), ("ReadUint64", "'.' '.' '0' '0' '0' '0' '9' '9' 'E' 'E' 'e' 'e' 0 0 0 0 0 0 0 0 0 0 1 1 1 10 10 10 18 18 64 ;; * *= + ++ ++ ++ += += - - - - - - / < < < < < << == == == == == == == > > > break break return return return return return return return return return return || || ||"), ("readBoolCompat", "0 0 ;; != return return return u!"), ("readFloat64Compat", "0 0 0 0 ;; != return return return u! u&"), ("readInt32Compat", "0 0 0 0 ;; != return return return u! u&"), ("readInt64Compat", "0 0 0 0 ;; != return return return u! u&"), ("readIntCompat", "0 0 0 0 ;; != return return return u! u&"), ("readNullCompat", "0 0 ;; != != return return return"), ("readStringBytesCompat", "0 0 ;; != return return return u! u&"), ("readStringCompat", "0 0 ;; != return return return u! u&"), ("readUint32Compat", "0 0 0 0 ;; != return return return u! u&"), ("readUint64Compat", "0 0 0 0 ;; != return return return u! u&"), ("readUintCompat", "0 0 0 0 ;; != return return return u! u&")] := by decide +kernel

end RJson.Literals
