import RJson.Gen.Facts
/-!
# The constants the hand models copy from the hand-written Go are the constants of the current source

`gofacts` lists, for every function of the hand-written Go (internal/fp, simple_readers.go, token.go,
machine_helpers.go, complex_readers.go, decode.go, rjson.go), its integer / float / character literals (sorted, so that
reordering statements does not matter; strings such as error texts are left out). The hand models in `Model/*.lean`
were written against exactly these constants — `310` / `330` in `floatBits`, `22` and `15` in `atof64exact`, `0x1f` in
the string readers, the digit bounds of the integer readers, ... A changed, added or removed literal fails the
comparison below on the next run, before any input is tried; named constants and tables are regenerated separately
(`Gen/Tables.lean`).
-/
namespace RJson.Literals

theorem literalsSimpleReaders_expected : Gen.Facts.literalsSimpleReaders =
    [("ReadBool", ""), ("ReadFloat64", "0"), ("ReadInt", "0 0 32 64"), ("ReadInt32", "0 0"), ("ReadInt64", "'-' 0 0 0 0 0 1 63"), ("ReadNull", ""), ("ReadString", "'\"' '\"' '\\\\' 0 0x1f 1"), ("ReadStringBytes", "'\"' '\"' '\\\\' 0x1f 1"), ("ReadUint", "0 0 32 64"), ("ReadUint32", "0"), ("ReadUint64", "'.' '.' '0' '0' '0' '0' '9' '9' 'E' 'E' 'e' 'e' 0 0 0 0 0 0 0 0 0 0 1 1 1 10 10 10 18 18 64"), ("readBoolCompat", "0 0"), ("readFloat64Compat", "0 0 0 0"), ("readInt32Compat", "0 0 0 0"), ("readInt64Compat", "0 0 0 0"), ("readIntCompat", "0 0 0 0"), ("readNullCompat", "0 0"), ("readStringBytesCompat", "0 0"), ("readStringCompat", "0 0"), ("readUint32Compat", "0 0 0 0"), ("readUint64Compat", "0 0 0 0"), ("readUintCompat", "0 0 0 0")] := by decide +kernel

end RJson.Literals
