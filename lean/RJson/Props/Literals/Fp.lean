import RJson.Gen.Facts
/-!
# The constants the hand models copy from the hand-written Go are the constants of the current source

`gofacts` lists, for every function of the hand-written Go (internal/fp, simple_readers.go, token.go,
machine_helpers.go, complex_readers.go, decode.go, rjson.go), its integer / float / character literals and, behind `;;`, its operators and jump statements (`<`, `>=`, `+=`,
`break`, `return`, …; unary ones prefixed with `u`) — each list sorted, so that reordering statements does not matter; strings
such as error texts are left out. The hand models in `Model/*.lean`
were written against exactly these constants — `310` / `330` in `floatBits`, `22` and `15` in `atof64exact`, `0x1f` in
the string readers, the digit bounds of the integer readers, ... A changed, added or removed literal or operator (a `<` that became `<=`, a dropped `break`) fails the
comparison below on the next run, before any input is tried; named constants and tables are regenerated separately
(`Gen/Tables.lean`).
-/
namespace RJson.Literals

theorem literalsFp_expected : Gen.Facts.literalsFp =
    [("ParseJSONFloatPrefix", "'.' 0 0 0 0 0 0 0 1 1 ;; != && && + - == == > return return return return return return return return u! u! u! u!"), ("atof64exact", "0 0 0 0 15 1e15 1e15 22 22 22 22 22 ;; != && && * *= + - / < < <= == > > > >= >> return return return return return return u- u- u- u- ||"), ("decimal.RoundedInteger", "'0' 0 0 0xFFFFFFFFFFFFFFFF 10 10 20 ;; && * *= + ++ ++ ++ - < < < > return return"), ("decimal.Shift", "0 0 0 ;; += -= < < == > > u- u-"), ("decimal.floatBits", "'5' 0 0 0 0 0 0 0 0 0 0 1 1 1 1 1 1 1 1 1 1 1 1 1 1 1 1 2 27 27 310 330 ;; & & & && + + + + ++ += += - - - - - - - - - -- -= < < < < << << << << << << << << << << == == == == > > >= >= >= >= >>= goto goto goto goto goto goto return u- u- u- u- u- |= |= ||"), ("decimal.set", "'+' '-' '-' '.' '0' '0' '0' '0' '0' '0' '9' '9' '9' 'E' 'e' 0 0 0 0 0 0 1 1 1 10 10000 ;; != != && && && * * + + + + ++ ++ ++ ++ ++ ++ ++ += - -- < < < < < < < <= == == == == == == == == == > > >= >= >= break break continue continue continue return return return return return return return u! u! u! u- || || || ||"), ("eiselLemire64", "0 0 0 0 0 0 0 0 0 0 0x000FFFFF_FFFFFFFF 0x1FF 0x1FF 0x1FF 0x1FF 0x1FF 0x7FF 0x80000000_00000000 0x80000000_00000000 1 1 1 1 1 1 1 1 1 1023 16 217706 3 52 53 63 64 9 ;; & & & & & & && && && && && * + + + + + + + ++ ++ += - - - - - -= < < < < < << <<= == == == == == == == > >= >> >> >> >> >>= >>= ^ return return return return return return | |= ||"), ("leftShift", "'0' '0' '0' 0 0 0 0 0 10 10 10 10 ;; != != * * + + + += += += - - - -- -- -- -- -- / / < < << > >= >="), ("prefixIsLessThan", "0 ;; != ++ < < >= return return return"), ("readFloat", "'+' '-' '-' '.' '.' '.' '.' '0' '0' '0' '0' '0' '0' '0' '0' '1' '1' '2' '2' '3' '3' '4' '4' '5' '5' '6' '6' '7' '7' '8' '8' '9' '9' '9' '9' 'E' 'e' 0 0 0 0 0 0 0 0 0 0 0 0 0 0 0 0 0 0 0 1 1 1 10 10 10 10 10000 19 ;; != && && && * * *= *= *= + + ++ ++ ++ ++ ++ ++ ++ ++ ++ ++ ++ ++ ++ ++ ++ ++ ++ ++ += += += += - - - - - - < < < < < <= == == == == == == == == == == == == > >= >= >= >= break continue continue continue goto goto goto goto goto goto return return return return return return return return u! u! u- || || ||"), ("rightShift", "'0' '0' '0' '0' 0 0 0 0 0 0 0 0 1 1 1 10 10 10 10 ;; &= &= * * *= *= + + + + ++ ++ ++ ++ ++ - - - - -= < < << == == == > > >= >> >> >> >> break return"), ("shouldRoundUp", "'0' '5' '5' 0 0 0 1 1 2 ;; != % && && + - - < == == > >= >= return return return return ||"), ("trim", "'0' 0 0 0 1 ;; && - -- == == >")] := by decide +kernel

end RJson.Literals
