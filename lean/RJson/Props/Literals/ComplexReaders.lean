import RJson.Gen.Facts
/-!
# The constants the hand models copy from the hand-written Go are the constants of the current source

`gofacts` lists, for every function of the hand-written Go (internal/fp, simple_readers.go, token.go,
machine_helpers.go, complex_readers.go, decode.go, rjson.go), its integer / float / character literals (sorted, so that
reordering statements does not matter; strings such as error texts are left out). The hand models in `Model/*.lean`
were written against exactly these constants — `310` / `330` in `floatBits`, `22` and `15` in `atof64exact`, `0x1f` in
the string readers, the digit bounds of the integer readers, ... A changed, added or removed literal fails the
comparison below on the next run, before any input is tried; named constants and tables are regenerated separately
(`Gen/Tables.lean`).
-/
namespace RJson.Literals

theorem literalsComplexReaders_expected : Gen.Facts.literalsComplexReaders =
    [("ReadArray", ""), ("ReadObject", ""), ("ReadValue", ""), ("ValueReader.HandleArrayValue", ""), ("ValueReader.HandleObjectValue", "'\\\\' 0 0 0"), ("ValueReader.ReadArray", "0 0 0 0 0 1"), ("ValueReader.ReadObject", "0 0 0 0 1"), ("ValueReader.ReadValue", ""), ("ValueReader.borrowValueReader", "0 1 1"), ("ValueReader.readSimpleValue", "0"), ("ValueReader.returnValueReader", "0"), ("readArrayCompat", "'['"), ("readObjectCompat", "'{'"), ("readValueCompat", "")] := by decide +kernel

end RJson.Literals
