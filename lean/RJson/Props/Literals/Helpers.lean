import RJson.Gen.Facts
/-!
# The constants the hand models copy from the hand-written Go are the constants of the current source

`gofacts` lists, for every function of the hand-written Go (internal/fp, simple_readers.go, token.go,
machine_helpers.go, complex_readers.go, decode.go, rjson.go), its integer / float / character literals (sorted, so that
reordering statements does not matter; strings such as error texts are left out). The hand models in `Model/*.lean`
were written against exactly these constants — `310` / `330` in `floatBits`, `22` and `15` in `atof64exact`, `0x1f` in
the string readers, the digit bounds of the integer readers, ... A changed, added or removed literal fails the
comparison below on the next run, before any input is tried; named constants and tables are regenerated separately
(`Gen/Tables.lean`).
-/
namespace RJson.Literals

theorem literalsHelpers_expected : Gen.Facts.literalsHelpers =
    [("errUnexpectedByteInString", ""), ("getu4", "'0' '0' '9' 'A' 'A' 'F' '\\\\' 'a' 'a' 'f' 'u' 0 1 1 1 10 10 16 2 6 6"), ("growBytesSliceCapacity", ""), ("skipFloatDec", "1 1 1 1 1"), ("skipFloatExp", "0 1 1 1"), ("unescapeUnicodeChar", "0 0 12 4 4 6 6")] := by decide +kernel

end RJson.Literals
