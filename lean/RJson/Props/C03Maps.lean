import RJson.Props.C17Decoded
/-!
# C03 — objects are maps: distinct keys, and the last duplicate wins

The model keeps an object as an array of (key, value) entries built by `Model.mapSet` in document order. This file shows that
the array is a finite map with Go's assignment semantics:
* `mapSet_toList`: `mapSet` is assignment on an association list (`lset`: replace the first entry with that key, else append),
  and `lget_lset`: a lookup after an assignment sees the new value under that key and the old map elsewhere;
* `fold_last` / `fold_last_empty`: after assigning a list of members in order, looking a key up gives the value of its LAST
  occurrence; `object_last_wins` states it for the monadic fold inside `Tree.treeOf`, i.e. (by `C03.readValue_tree`) for
  every object `ReadValue` returns: "the last duplicate key winning";
* together with `C17.treeOf_distinctKeys` (every key occurs once in the result) the entry array is determined up to nothing:
  one entry per distinct key, in order of first occurrence, carrying the tree of the last occurrence.
-/
namespace RJson.C03
open RJson.Model RJson.Spec

/-- assignment on an association list: replace the first entry with key `k`, else append -/
def lset : List (Bytes × Model.JVal) → Bytes → Model.JVal → List (Bytes × Model.JVal)
  | [], k, v => [(k, v)]
  | a :: t, k, v => if a.1 == k then (k, v) :: t else a :: lset t k v

theorem lset_list (k : Bytes) (v : Model.JVal) : ∀ (l : List (Bytes × Model.JVal)),
    (match l.findIdx? (fun kv => kv.1 == k) with
      | some i => l.set i (k, v)
      | none => l ++ [(k, v)]) = lset l k v := by
  intro l
  induction l with
  | nil => rfl
  | cons a t ih =>
    rw [List.findIdx?_cons]
    by_cases hp : (a.1 == k) = true
    · simp [hp, lset]
    · simp only [hp, Bool.false_eq_true, if_false, lset]
      cases hf : t.findIdx? (fun kv => kv.1 == k) with
      | none => rw [hf] at ih; simp at ih ⊢; exact ih
      | some i => rw [hf] at ih; simp at ih ⊢; exact ih

theorem mapSet_toList (acc : Array (Bytes × Model.JVal)) (k : Bytes) (v : Model.JVal) :
    (mapSet acc k v).toList = lset acc.toList k v := by
  rw [← lset_list]
  unfold mapSet
  obtain ⟨l⟩ := acc
  simp only [List.findIdx?_toArray]
  cases l.findIdx? (fun kv => kv.1 == k) with
  | none => simp
  | some i => simp [Array.set!_eq_setIfInBounds]

/-- lookup in an object: the value of the entry with key `k` -/
def lget (l : List (Bytes × Model.JVal)) (k : Bytes) : Option Model.JVal := (l.find? (fun kv => kv.1 == k)).map (·.2)

theorem lget_lset (k k' : Bytes) (v : Model.JVal) : ∀ (l : List (Bytes × Model.JVal)),
    lget (lset l k v) k' = if k == k' then some v else lget l k' := by
  intro l
  induction l with
  | nil => simp [lset, lget, List.find?]
  | cons a t ih =>
    simp only [lset]
    by_cases hp : (a.1 == k) = true
    · have hak : a.1 = k := by simpa using hp
      simp only [hp, if_true]
      by_cases hk : (k == k') = true
      · simp [lget, List.find?, hk]
      · simp only [hk, Bool.false_eq_true, if_false]
        simp only [lget, List.find?_cons, hk, hak]
    · simp only [hp, Bool.false_eq_true, if_false]
      simp only [lget, List.find?_cons] at ih ⊢
      by_cases hq : (a.1 == k') = true
      · simp only [hq]
        have : (k == k') = false := by
          have h1 : a.1 = k' := by simpa using hq
          have h2 : ¬ a.1 = k := by simpa using hp
          simp; intro h; exact h2 (h1.trans h.symm)
        simp [this]
      · simp only [hq]; exact ih

/-- the value of the LAST member with key `k` -/
def lastOf (l : List (Bytes × Model.JVal)) (k : Bytes) : Option Model.JVal := (l.reverse.find? (fun kv => kv.1 == k)).map (·.2)

/-- building an object by assignment in document order: looking a key up gives the value of its last occurrence
    (or what the map held before, when it does not occur) -/
theorem fold_last (k : Bytes) : ∀ (l : List (Bytes × Model.JVal)) (acc : Array (Bytes × Model.JVal)),
    lget (l.foldl (fun acc kv => mapSet acc kv.1 kv.2) acc).toList k = (lastOf l k).or (lget acc.toList k) := by
  intro l
  induction l with
  | nil => intro acc; simp [lastOf]
  | cons a t ih =>
    intro acc
    simp only [List.foldl_cons]
    rw [ih, mapSet_toList, lget_lset]
    simp only [lastOf, List.reverse_cons, List.find?_append, List.find?_cons, List.find?_nil]
    cases t.reverse.find? (fun kv => kv.1 == k) with
    | some x => simp
    | none =>
      by_cases hk : (a.1 == k) = true
      · simp [hk]
      · simp [hk]

/-- from the empty map: exactly the last occurrence -/
theorem fold_last_empty (k : Bytes) (l : List (Bytes × Model.JVal)) :
    lget (l.foldl (fun acc kv => mapSet acc kv.1 kv.2) #[]).toList k = lastOf l k := by
  rw [fold_last]; simp [lget]

/-- the monadic fold of `Tree.treeOf` (it fails as soon as a member has no tree) is, when it succeeds, the plain fold
    over the members' keys and trees -/
theorem foldlM_eq_foldl {α} (g : α → Option Model.JVal) (key : α → Bytes) :
    ∀ (ms : List α) (init r : Array (Bytes × Model.JVal)),
    ms.foldlM (fun acc m => (g m).map (fun v => mapSet acc (key m) v)) init = some r →
    ∃ vs : List Model.JVal, ms.mapM g = some vs ∧
      r = ((ms.map key).zip vs).foldl (fun acc kv => mapSet acc kv.1 kv.2) init := by
  intro ms
  induction ms with
  | nil => intro init r h; simp at h; subst h; exact ⟨[], by simp, by simp⟩
  | cons a ms ih =>
    intro init r h
    rw [List.foldlM_cons] at h
    cases ha : g a with
    | none => rw [ha] at h; simp at h
    | some va =>
      rw [ha] at h
      simp only [Option.map_some, Option.bind_eq_bind, Option.bind_some] at h
      obtain ⟨vs, hvs, hr⟩ := ih _ r h
      refine ⟨va :: vs, ?_, ?_⟩
      · rw [List.mapM_cons, ha, hvs]; rfl
      · rw [hr]; simp

/-- objects of `Tree.treeOf` (hence of `ReadValue`, C03.readValue_tree): looking a key up in the result gives the tree of
    the LAST member carrying that key -/
theorem object_last_wins {α} (g : α → Option Model.JVal) (key : α → Bytes) (ms : List α) (r : Array (Bytes × Model.JVal))
    (h : ms.foldlM (fun acc m => (g m).map (fun v => mapSet acc (key m) v)) #[] = some r) (k : Bytes) :
    ∃ vs : List Model.JVal, ms.mapM g = some vs ∧ lget r.toList k = lastOf ((ms.map key).zip vs) k := by
  obtain ⟨vs, hvs, hr⟩ := foldlM_eq_foldl g key ms #[] r h
  exact ⟨vs, hvs, by rw [hr, fold_last_empty]⟩

/-- non-vacuity: `a ↦ 1, b ↦ 2, a ↦ 3` looks `a` up as 3 -/
example : lastOf [(#[97], .num 1), (#[98], .num 2), (#[97], .num 3)] #[97] = some (.num 3) := by
  simp [lastOf]

end RJson.C03
