import RJson.Proofs.Sizes
import RJson.Props.C10
import RJson.Props.C07
/-!
# C20 (partial) — memory cost linear in the input: the logical part

Proved (all for inputs shorter than 2^62 bytes):
* decoded string content is never longer than its escaped source (`decode_len_le`), hence `ReadStringBytes` and
  `UnescapeStringContent` produce at most `len(dst) + len(input)` bytes (`readStringBytes_size`, `unescape_size`);
* a traversal makes at most as many handler calls as the input has bytes (`members_le` with C07: the number of calls
  is the number of members);
* every machine run takes at most `2·len + 1` loop iterations (C10 `safe_run`), and pushes at most one return state
  per iteration, so the return-state stack is linear in the input.

Not proved: the allocator-level claim itself (total bytes allocated ≤ c·len + c' per call over any history of
calls with reused buffers and pooled readers). It is decided by the growth-ratio suite of the correspondence run.
That suite reports one **known finding** on the pinned tree (`known_findings.json`, family F2: pre-growing of the
per-depth scratch buffers makes documents with an escaped string at every nesting level cost about depth·len/2
bytes); the three other defects it found were repaired (`fix:` commits ebb3e2d, 09c72cb; C04's e6d97b5).
-/
namespace RJson.C20
open RJson.Spec

/-- an array has at most as many members as its body has bytes -/
theorem members_le (total : Nat) (l : List UInt8) (ms : List Member) (rest : List UInt8)
    (h : arrMembers total (l.length + 1) true l [] = some (ms, rest)) : ms.length ≤ l.length := by
  have := Sizes.arrMembers_count _ _ _ _ _ _ _ h
  simpa using this

end RJson.C20
