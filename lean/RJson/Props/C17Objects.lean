import RJson.Props.C17Deep
/-!
# C17 — the map helper is the identity on valid UTF-8, objects included

`ValidTree f v`: within `f` levels every string value and every key of `v` is valid UTF-8 and no object has two equal keys
(what a tree returned by `ReadValue` satisfies for its keys: they are the keys of a Go map). Then `stdTreeF f v = v`
(`stdTreeF_valid`): rebuilding each object by assignment under unchanged, pairwise distinct keys appends the members in order
(`rebuild_id`).
-/
namespace RJson.C17
open RJson.Model RJson.Spec

theorem mapSet_fresh (acc : Array (Bytes × Model.JVal)) (k : Bytes) (v : Model.JVal)
    (h : ∀ a ∈ acc, a.1 ≠ k) : mapSet acc k v = acc.push (k, v) := by
  unfold mapSet
  have : acc.findIdx? (fun kv => kv.1 == k) = none := by
    rw [Array.findIdx?_eq_none_iff]
    intro x hx
    simpa using h x hx
  rw [this]

theorem rebuild_id (g : Bytes → Bytes) (hf : Model.JVal → Model.JVal) :
    ∀ (l : List (Bytes × Model.JVal)) (acc : Array (Bytes × Model.JVal)),
      (∀ kv ∈ l, g kv.1 = kv.1) → (∀ kv ∈ l, hf kv.2 = kv.2) →
      l.Pairwise (fun a b => a.1 ≠ b.1) → (∀ a ∈ acc, ∀ b ∈ l, a.1 ≠ b.1) →
      l.foldl (fun acc kv => mapSet acc (g kv.1) (hf kv.2)) acc = acc ++ l.toArray := by
  intro l
  induction l with
  | nil => intro acc _ _ _ _; simp
  | cons kv rest ih =>
    intro acc hg hh hd hacc
    simp only [List.foldl_cons]
    rw [hg kv (by simp), hh kv (by simp)]
    rw [mapSet_fresh acc kv.1 kv.2 (fun a ha => hacc a ha kv (by simp))]
    rw [List.pairwise_cons] at hd
    rw [ih (acc.push (kv.1, kv.2)) (fun x hx => hg x (by simp [hx])) (fun x hx => hh x (by simp [hx])) hd.2]
    · simp
    · intro a ha b hb
      rw [Array.mem_push] at ha
      rcases ha with ha | ha
      · exact hacc a ha b (by simp [hb])
      · subst ha; exact hd.1 b hb

/-- every string and key within `fuel` levels is valid UTF-8, and no object has two equal keys -/
def ValidTree : Nat → Model.JVal → Prop
  | 0, _ => True
  | _+1, .str s => utf8Valid (s.toList.length + 1) s.toList = true
  | f+1, .arr xs => ∀ x ∈ xs, ValidTree f x
  | f+1, .obj kvs => kvs.toList.Pairwise (fun a b => a.1 ≠ b.1) ∧
      ∀ kv ∈ kvs, utf8Valid (kv.1.toList.length + 1) kv.1.toList = true ∧ ValidTree f kv.2
  | _+1, _ => True

/-- the identity on trees whose strings and keys are all valid UTF-8 — arrays and objects at every depth -/
theorem stdTreeF_valid : ∀ (f : Nat) (v : Model.JVal), ValidTree f v → stdTreeF f v = v := by
  intro f
  induction f with
  | zero => intro v _; rfl
  | succ f ih =>
    intro v h
    cases v with
    | arr xs =>
      simp only [ValidTree] at h
      simp only [stdTreeF]
      congr 1
      conv => rhs; rw [← Array.map_id xs]
      apply Array.map_congr_left
      intro x hx
      exact ih x (h x hx)
    | obj kvs =>
      simp only [ValidTree] at h
      simp only [stdTreeF]
      congr 1
      rw [← Array.foldl_toList]
      rw [rebuild_id stdLibCompatibleString (stdTreeF f) kvs.toList #[]
        (fun kv hkv => stdString_valid kv.1 (h.2 kv (by simpa using hkv)).1)
        (fun kv hkv => ih kv.2 (h.2 kv (by simpa using hkv)).2)
        h.1 (by simp)]
      simp
    | str s =>
      simp only [ValidTree] at h
      simp only [stdTreeF, stdString_valid s h]
    | null => rfl
    | bool b => rfl
    | num n => rfl

/-- non-vacuity: `{"é":["x"],"k":null}` -/
example : ValidTree 3 (.obj #[(#[0xC3, 0xA9], .arr #[.str #[120]]), (#[107], .null)]) := by
  simp only [ValidTree]
  refine ⟨by decide, ?_⟩
  intro kv hkv
  simp at hkv
  rcases hkv with rfl | rfl
  · refine ⟨by decide +kernel, ?_⟩
    intro x hx
    simp at hx
    subst hx
    show utf8Valid _ _ = true
    decide +kernel
  · exact ⟨by decide +kernel, trivial⟩

end RJson.C17
