import RJson.Proofs.TreeComplete
import RJson.Props.C03Tree
/-!
# C03 — completeness of generic decoding: every value that has a tree is decoded, to that tree

`Tree.treeOf f text = some v` says that the first value of `text` is well-formed (reference scanner), nested at most `f`
deep, and that every number in it converts without overflow (`FP.parse` reports no error; that this is exactly "the
correctly rounded value is finite" is C04). For every input shorter than 2^62 bytes and every `f ≤ 10 000`
(`valueReaderMaxDepth`), the model of `ReadValue` / `ReadObject` / `ReadArray` (regenerated handler tables at every
level) then **succeeds and returns `v`** — with `C03.read*_tree` (success ⇒ the tree) this is the "succeeds exactly
when" of the property, on the model.

Behind it: `Tree.readers_complete` (induction over the nesting with the machine specification `C07.abs_*_spec`: a
traversal whose handler never fails is accepted), `Tree.readSimpleValue_complete` (scalars: `C06`, `C13`, and the float
parser's totality `C10.parse_total`), `Tree.treeOf_shrink` (a text is not nested deeper than it is long, so the readers'
own fuel `readerFuel` suffices).
-/
namespace RJson.C03
open RJson.Ragel RJson.Spec RJson.Abs RJson.Model RJson.VR RJson.Tree

/-- the nesting budget brought within the readers' fuel -/
theorem budget (data : Bytes) (sub : List UInt8) (hsub : sub.length ≤ data.size) (f : Nat) (hf : f ≤ Gen.valueReaderMaxDepth)
    (v : Model.JVal) (ht : treeOf f sub = some v) :
    ∃ g, g ≤ Model.readerFuel data ∧ 1 + g ≤ Gen.valueReaderMaxDepth + 1 ∧ treeOf g sub = some v := by
  have hmax : Gen.valueReaderMaxDepth = 10000 := rfl
  by_cases hfs : f ≤ sub.length
  · exact ⟨f, by simp only [Model.readerFuel]; omega, by omega, ht⟩
  · exact ⟨sub.length, by simp only [Model.readerFuel]; omega, by omega,
      treeOf_shrink_to f sub.length (by omega) sub v (le_refl _) ht⟩

/-- **`ReadArray` accepts every array that has a tree, and returns it** -/
theorem readArray_complete (data : Bytes) (hsm : Small data) (f : Nat) (hf : f ≤ Gen.valueReaderMaxDepth) (v : Model.JVal)
    (ht : treeOf f data.toList = some v) (k : List UInt8) (hsk : skipWs data.toList = 91 :: k) :
    (Model.readArray data).err = none ∧ (Model.readArray data).panicked = false ∧ (Model.readArray data).val = v := by
  obtain ⟨g, hg1, hg2, htg⟩ := budget data data.toList (by simp) f hf v ht
  obtain ⟨he, hpk⟩ := (readers_complete (Model.readerFuel data) g hg1 1 data hsm hg2 v htg).2 k hsk
  refine ⟨he, hpk, ?_⟩
  have h1 := readArray_tree data hsm he hpk (Model.readerFuel data) (le_refl _)
  have h2 := treeOf_mono_le g (Model.readerFuel data) hg1 _ _ htg
  rw [h1] at h2
  injection h2

/-- **`ReadObject` accepts every object that has a tree, and returns it** -/
theorem readObject_complete (data : Bytes) (hsm : Small data) (f : Nat) (hf : f ≤ Gen.valueReaderMaxDepth) (v : Model.JVal)
    (ht : treeOf f data.toList = some v) (k : List UInt8) (hsk : skipWs data.toList = 123 :: k) :
    (Model.readObject data).err = none ∧ (Model.readObject data).panicked = false ∧ (Model.readObject data).val = v := by
  obtain ⟨g, hg1, hg2, htg⟩ := budget data data.toList (by simp) f hf v ht
  obtain ⟨he, hpk⟩ := (readers_complete (Model.readerFuel data) g hg1 1 data hsm hg2 v htg).1 k hsk
  refine ⟨he, hpk, ?_⟩
  have h1 := readObject_tree data hsm he hpk (Model.readerFuel data) (le_refl _)
  have h2 := treeOf_mono_le g (Model.readerFuel data) hg1 _ _ htg
  rw [h1] at h2
  injection h2

/-- **`ReadValue` accepts every value that has a tree, and returns it** -/
theorem readValue_complete (data : Bytes) (hsm : Small data) (f : Nat) (hf : f ≤ Gen.valueReaderMaxDepth) (v : Model.JVal)
    (ht : treeOf f (skipWs data.toList) = some v) :
    (Model.readValue data).err = none ∧ (Model.readValue data).panicked = false ∧ (Model.readValue data).val = v := by
  have hwl := skipWs_length_le' data.toList
  simp only [Array.length_toList] at hwl
  obtain ⟨g, hg1, hg2, htg⟩ := budget data (skipWs data.toList) hwl f hf v ht
  have hok : (Model.readValue data).err = none ∧ (Model.readValue data).panicked = false := by
    have hnt := C13.nextTokenType_spec data
    simp only [Model.readValue]
    rw [hnt]
    cases hsk : skipWs data.toList with
    | nil => rw [hsk] at htg; cases g <;> simp [treeOf, skipWs] at htg
    | cons b t =>
      simp only [Spec.nextTokenType, hsk]
      rw [hsk] at hwl
      simp only [List.length_cons] at hwl
      have hk : data.toList.length - t.length - 1 = data.size - (skipWs data.toList).length := by
        rw [hsk]; simp only [Array.length_toList, List.length_cons]; omega
      have hk' : data.toList.length - t.length - 1 + 1 - 1 = data.size - (skipWs data.toList).length := by
        rw [← hk]; omega
      have hsub : (data.extract (data.size - (skipWs data.toList).length) data.size).toList = b :: t := by
        rw [extract_toList, List.take_of_length_le (by simp)]
        have := C13Aux.drop_skipWs data.toList
        rw [hsk] at this ⊢
        simpa using this
      have hsmS := small_extract data hsm (data.size - (skipWs data.toList).length) data.size
      have hws : isWs b = false := skipWs_cons_of _ b t hsk
      have hsk2 : skipWs (data.extract (data.size - (skipWs data.toList).length) data.size).toList = b :: t := by
        rw [hsub]; exact C05.skipWs_of_not_ws b t hws
      have htg2 : treeOf g (data.extract (data.size - (skipWs data.toList).length) data.size).toList = some v := by
        rw [hsub, ← hsk]; exact htg
      rw [hk]
      obtain ⟨_, _, _, _, i6, i8⟩ := tokenType_inv b
      by_cases h6 : (Spec.tokenType b == 6) = true
      · have hb := i6 h6
        subst hb
        obtain ⟨he, hpk⟩ := (readers_complete (Model.readerFuel data) g hg1 1 _ hsmS hg2 v htg2).1 t hsk2
        simp only [h6, if_true]
        exact ⟨he, hpk⟩
      · simp only [h6, Bool.false_eq_true, if_false]
        by_cases h8 : (Spec.tokenType b == 8) = true
        · have hb := i8 h8
          subst hb
          obtain ⟨he, hpk⟩ := (readers_complete (Model.readerFuel data) g hg1 1 _ hsmS hg2 v htg2).2 t hsk2
          simp only [h8, if_true]
          exact ⟨he, hpk⟩
        · simp only [h8, Bool.false_eq_true, if_false]
          have h91 : (b == 91) = false := by
            by_contra hcon
            have : b = 91 := by simpa using hcon
            subst this
            rw [tokenType_91] at h8; exact h8 rfl
          have h123 : (b == 123) = false := by
            by_contra hcon
            have : b = 123 := by simpa using hcon
            subst this
            rw [tokenType_123] at h6; exact h6 rfl
          exact readSimpleValue_complete g _ hsmS b t hsk2 h91 h123 v htg2
  refine ⟨hok.1, hok.2, ?_⟩
  have h1 := readValue_tree data hsm hok.1 hok.2 (Model.readerFuel data) (le_refl _)
  have h2 := treeOf_mono_le g (Model.readerFuel data) hg1 _ _ htg
  rw [h1] at h2
  injection h2

end RJson.C03
