import RJson.Proofs.DecExact
import RJson.Props.C04Slow
/-!
# C04 — every literal with at most 60 mantissa digits is converted correctly, unconditionally

For **every** input whose head is a JSON number literal with at most 60 digits in its mantissa (integer and fraction
digits together, leading zeros included; any exponent; any bytes after the literal) and the hand model of `internal/fp`
over the regenerated tables:

* `slow_run_exact`: if the multiprecision slow path is taken, its run is exact (`Decimal.exactRun`): `decimal.set`
  drops nothing (at most 800 digits), and no shift drops a non-zero digit because every value `D·10^E·2^s` the run
  passes through (`-1056 ≤ s ≤ 1200`, from the bounds on the scaling loops) has at most 800 significant digits
  (`D·2^s < 10^60·10^362`, `D·5^|s| < 10^60·10^739`);
* `parse_correct_short`, `readFloat64_correct_short`: so whichever path answers, the reported length is the
  literal's, the error flag is the overflow flag of `Spec.roundDec` of the literal's exact value and the bits are its
  bits — the correctly rounded binary64 (ties to even, sign of zero kept), **with no side condition**.

This covers every number a JSON encoder emits for a float64, int64 or any decimal type of up to 60 digits; longer
mantissas are covered by `C04.parse_correct` under the executable exactness condition, and by the correspondence run.
-/
namespace RJson.C04
open RJson.Spec RJson.FP RJson.NumShape RJson.Abs RJson.Ragel RJson.Dec

/-- the slow path of a literal with at most 60 mantissa digits never drops a non-zero digit -/
theorem slow_run_exact (lit : Bytes) (neg : Bool) (ip fp : List UInt8) (ec : UInt8) (sg eds : List UInt8)
    (h : Shape lit.toList neg ip fp ec sg eds []) (hlen : ip.length + fp.length ≤ 60) :
    ∀ a, Decimal.set lit = some a → a.exactRun = true := by
  intro a ha
  obtain ⟨a', hset, hg, _, htr, hval⟩ := set_spec lit neg ip fp ec sg eds h (by omega)
  rw [hset] at ha
  injection ha with ha
  subst ha
  apply exactRun_of_fits a' hg htr
  rw [hval]
  apply fitsAll_of_digits
  have hds : allDigits (ip ++ fp) := by
    intro b hb
    rcases List.mem_append.mp hb with h1 | h1
    · exact h.ipDigits b h1
    · exact h.fpDigits b h1
  have := ParseFast.digitsVal_lt _ hds
  have hle : (10 : ℕ) ^ (ip ++ fp).length ≤ 10 ^ 60 := Nat.pow_le_pow_right (by norm_num) (by simp only [List.length_append]; omega)
  omega

/-- number of mantissa digits of the literal at the head of the input: all digit bytes before the exponent marker -/
def mantissaDigits (lit : List UInt8) : Nat :=
  (lit.takeWhile (fun b => !(b == 101 || b == 69))).countP isDigit

theorem mantissaDigits_shape {l : List UInt8} {neg : Bool} {ip fp : List UInt8} {ec : UInt8} {sg eds : List UInt8}
    (h : Shape l neg ip fp ec sg eds []) : mantissaDigits l = ip.length + fp.length := by
  have hne : ∀ ds : List UInt8, allDigits ds → ∀ b ∈ ds, (!(b == 101 || b == 69)) = true := by
    intro ds hds b hb
    have := hds b hb
    by_cases h101 : b = 101
    · subst h101; exact absurd this (by decide)
    · by_cases h69 : b = 69
      · subst h69; exact absurd this (by decide)
      · simp [h101, h69]
  have hcount : ∀ ds : List UInt8, allDigits ds → ds.countP isDigit = ds.length := by
    intro ds hds
    exact List.countP_eq_length.mpr (fun b hb => hds b hb)
  have htw : ∀ (pre suf : List UInt8), (∀ b ∈ pre, (!(b == 101 || b == 69)) = true) →
      (pre ++ suf).takeWhile (fun b => !(b == 101 || b == 69)) = pre ++ suf.takeWhile (fun b => !(b == 101 || b == 69)) := by
    intro pre suf hp
    exact List.takeWhile_append_of_pos hp
  have hexp : (expL ec sg eds ++ []).takeWhile (fun b => !(b == 101 || b == 69)) = [] := by
    cases eds with
    | nil => simp [expL]
    | cons d ds =>
      simp only [expL, List.append_nil, List.takeWhile_cons]
      simp [h.ecE]
  simp only [mantissaDigits]
  rw [h.eq]
  have hsign : ∀ b ∈ (if neg then [(45 : UInt8)] else []), (!(b == 101 || b == 69)) = true := by
    intro b hb
    cases neg with
    | true => simp at hb; subst hb; decide
    | false => simp at hb
  rw [htw _ _ hsign, htw _ _ (hne ip h.ipDigits)]
  have hfrac : (fracL fp ++ (expL ec sg eds ++ [])).takeWhile (fun b => !(b == 101 || b == 69)) = fracL fp := by
    cases hfp : fp with
    | nil => simp only [fracL, List.nil_append]; exact hexp
    | cons d ds =>
      have hall : ∀ b ∈ fracL (d :: ds), (!(b == 101 || b == 69)) = true := by
        intro b hb
        simp only [fracL, List.mem_cons] at hb
        rcases hb with rfl | hb
        · decide
        · exact hne (d :: ds) (by rw [← hfp]; exact h.fpDigits) b (by simpa using hb)
      rw [htw _ _ hall, hexp, List.append_nil]
  rw [hfrac]
  rw [List.countP_append, List.countP_append, hcount ip h.ipDigits]
  have h1 : (if neg then [(45 : UInt8)] else []).countP isDigit = 0 := by cases neg <;> decide
  have h2 : (fracL fp).countP isDigit = fp.length := by
    cases hfp : fp with
    | nil => rfl
    | cons d ds =>
      simp only [fracL, List.countP_cons]
      have : isDigit 46 = false := by decide
      rw [this]
      have := hcount (d :: ds) (by rw [← hfp]; exact h.fpDigits)
      simp only [List.countP_cons] at this
      simp only [Bool.false_eq_true, if_false, Nat.add_zero]
      exact this
  rw [h1, h2]
  omega

/-- **`ParseJSONFloatPrefix` on a literal with at most 60 mantissa digits is correctly rounded, unconditionally** -/
theorem parse_correct_short (data : Bytes) (rest : List UInt8) (hscan : scanNumber data.toList = some rest)
    (hlen : mantissaDigits (data.toList.take (data.toList.length - rest.length)) ≤ 60) :
    (parse data).n = data.size - rest.length ∧
    (parse data).err = (rounded (data.toList.take (data.toList.length - rest.length))).2 ∧
    ((parse data).err = false → (parse data).bits = (rounded (data.toList.take (data.toList.length - rest.length))).1) := by
  apply parse_correct data rest hscan
  obtain ⟨neg, ip, fp, ec, sg, eds, hs⟩ := shape_of_scan _ _ hscan
  have hsl := ParseSlow.shape_lit hs
  rw [mantissaDigits_shape hsl] at hlen
  have hsz : data.toList.length = data.size := by simp
  rw [hsz, ← lit_toList] at hsl
  exact slow_run_exact _ neg ip fp ec sg eds hsl hlen

/-- **`ReadFloat64`** (leading whitespace, then a literal with at most 60 mantissa digits): exactly what `Spec.readFloat`
    specifies, unconditionally -/
theorem readFloat64_correct_short (data : Bytes) (rest : List UInt8) (hscan : scanNumber (skipWs data.toList) = some rest)
    (hlen : mantissaDigits ((skipWs data.toList).take ((skipWs data.toList).length - rest.length)) ≤ 60) :
    (Model.readFloat64 data).p = ((data.size - rest.length : ℕ) : ℤ) ∧
    match Spec.readFloat data.toList with
    | some (v, n) => (Model.readFloat64 data).err = none ∧ (Model.readFloat64 data).val = v ∧ n = data.size - rest.length
    | none => (Model.readFloat64 data).err = some .other := by
  apply readFloat64_correct data rest hscan
  obtain ⟨neg, ip, fp, ec, sg, eds, hs⟩ := shape_of_scan _ _ hscan
  have hsl := ParseSlow.shape_lit hs
  rw [mantissaDigits_shape hsl] at hlen
  have hcw := countWhitespace_spec data
  have hsub : (data.extract (countWhitespace data) data.size).toList = skipWs data.toList := by
    rw [extract_toList, List.take_of_length_le (by simp), hcw]
    have := C13Aux.drop_skipWs data.toList
    simpa using this
  have hl2 : ((data.extract (countWhitespace data) data.size).extract 0 ((skipWs data.toList).length - rest.length)).toList =
      (skipWs data.toList).take ((skipWs data.toList).length - rest.length) := by
    rw [lit_toList, hsub]
  rw [← hl2] at hsl
  exact slow_run_exact _ neg ip fp ec sg eds hsl hlen

/-- non-vacuity: `mantissaDigits` of `-0.001250e+12` is 7 -/
example : mantissaDigits "-0.001250e+12".toUTF8.data.toList = 7 := by decide +kernel

end RJson.C04
