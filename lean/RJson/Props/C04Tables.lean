import RJson.Model.FP
import RJson.Proofs.AllBelow
/-!
# C04 — facts about the regenerated float tables, decided by the kernel on every run

* every row of `detailedPowersOfTen` is the 128-bit truncation of the power of ten it stands for:
  `2^127 ≤ M < 2^128` and `M = ⌊10^q · 2^(127 - k(q))⌋` with `k(q) = ⌊217706·q / 65536⌋` (the exponent
  estimate `eiselLemire64` uses) — a single flipped bit in any of the 696 rows breaks this;
* `float64pow10[i]` is exactly `10^i` for `i ≤ 22`;
* `leftcheats[k] = (number of decimal digits of 2^k, decimal digits of 5^k)`, `powtab`, and the format constants.
-/
namespace RJson.C04
open RJson.FP

/-- `⌊10^q · 2^e⌋` for integers `q`, `e` -/
def scaledPow10 (q e : Int) : Nat :=
  let num := (if q ≥ 0 then 10 ^ q.toNat else 1) * (if e ≥ 0 then 2 ^ e.toNat else 1)
  let den := (if q ≥ 0 then 1 else 10 ^ (-q).toNat) * (if e ≥ 0 then 1 else 2 ^ (-e).toNat)
  num / den

/-- the binary exponent estimate of `eiselLemire64`: `(217706 * q) >> 16` (arithmetic shift) -/
def k2 (q : Int) : Int := (217706 * q) / 65536

def rowValue (i : Nat) : Nat := (pow10Row i).2 * two64 + (pow10Row i).1

def rowOK (i : Nat) : Bool :=
  let q : Int := (i : Int) + Gen.pow10MinExp
  let m := rowValue i
  decide (2 ^ 127 ≤ m) && decide (m < 2 ^ 128) && (m == scaledPow10 q (127 - k2 q))

theorem el_table_rows : Gen.pow10Rows = 696 ∧ Gen.pow10MinExp = -348 ∧ Gen.pow10MaxExp = 347 := by decide

set_option maxRecDepth 100000 in
theorem el_table_exact : allBelow rowOK 696 = true := by decide +kernel

theorem el_row_exact (i : Nat) (hi : i < 696) :
    2 ^ 127 ≤ rowValue i ∧ rowValue i < 2 ^ 128 ∧
      rowValue i = scaledPow10 ((i : Int) - 348) (127 - k2 ((i : Int) - 348)) := by
  have h := allBelow_spec el_table_exact i hi
  simp only [rowOK, Bool.and_eq_true, decide_eq_true_eq, beq_iff_eq] at h
  have hm : Gen.pow10MinExp = -348 := el_table_rows.2.1
  rw [hm] at h
  exact ⟨h.1.1, h.1.2, h.2⟩

/-- `float64pow10[i]` is exactly `10^i` (the rational value `num/den` of the bit pattern equals `10^i`) -/
theorem float64pow10_exact : Gen.float64pow10Bits.size = 23 ∧
    allBelow (fun i => let r := Spec.bitsToRat (float64pow10 i); !r.1 && (r.2.1 == 10 ^ i * r.2.2) && decide (0 < r.2.2)) 23 = true := by
  constructor
  · decide
  · decide +kernel

def numDigits (n : Nat) : Nat := (Nat.toDigits 10 n).length

/-- `leftcheats[k]`: the number of digits a shift by `k` adds, and the digits of `5^k` -/
theorem leftcheats_exact : Gen.leftCheats.size = 61 ∧ Gen.leftCheats[0]! = (0, "") ∧
    allBelow (fun k => k == 0 || (Gen.leftCheats[k]! == (numDigits (2 ^ k), String.ofList (Nat.toDigits 10 (5 ^ k))))) 61 = true := by
  refine ⟨by decide, by decide, ?_⟩
  decide +kernel

theorem powtab_exact : Gen.powtab = #[1, 3, 6, 9, 13, 16, 19, 23, 26] := by decide

theorem format_constants : Gen.fpMantBits = 52 ∧ Gen.fpExpBits = 11 ∧ Gen.fpBias = -1023 ∧ Gen.fpMaxShift = 60 ∧ Gen.fpDecimalDigits = 800 := by decide

theorem fp_digits_table : Gen.fpDigitsBits = Gen.digitsBits := by decide

end RJson.C04
