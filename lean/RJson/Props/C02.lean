import RJson.Proofs.SkipTop
import RJson.Props.C14
/-!
# C02 — SkipValue returns the exact end of the first value, or an error

`skipValue_spec`: for every input (shorter than 2^62 bytes) and every buffer, the model of `SkipValue`
— the *regenerated* `skipValue` table run by the slice-stack interpreter — succeeds exactly when the
reference scanner finds a complete value after optional whitespace (`Spec.valueEnd`, maximal munch, nesting
limited by the regenerated `skipMaxDepth`), and then returns the offset of the first byte after it; it never
panics. Route: C14 (`runA = runL`) → kernel-checked certificate (generated table = abstract machine) →
`Abs.abs_skip_spec` (abstract machine = scanner, by induction over the scanner's recursion).
-/
namespace RJson.C02
open RJson.Ragel RJson.Spec

/-- the generated machine, list-stack semantics, against the scanner -/
theorem gen_skip_spec {τ} (data : Bytes) (hsm : Small data) (h : Handler τ) (dst : Bytes) (hs : τ) :
    match valueEnd (some Gen.skipMaxDepth) data.toList with
    | some n => (runL Gen.SkipValue.machine data h dst hs).kind = .ok ∧ (runL Gen.SkipValue.machine data h dst hs).p = (n : Int)
    | none => ∃ e, (runL Gen.SkipValue.machine data h dst hs).kind = .err e := by
  rw [Certs.SkipValue.run_eq]
  exact Abs.abs_skip_spec data hsm h dst hs

theorem skipValue_run (data : Bytes) (stack : Array Nat) :
    (Model.runPlain Gen.SkipValue.machine data stack).1 = runL Gen.SkipValue.machine data noHandler #[] () :=
  runA_eq_runL _ data noHandler _ stack #[] () (C14.skipValue_noBD data noHandler #[] ())

/-- **C02** -/
theorem skipValue_spec (data : Bytes) (hsm : Small data) (stack : Array Nat) :
    match valueEnd (some Gen.skipMaxDepth) data.toList with
    | some n => (Model.skipValue data stack).1.err = none ∧ (Model.skipValue data stack).1.panicked = false ∧
        (Model.skipValue data stack).1.p = (n : Int)
    | none => (Model.skipValue data stack).1.err ≠ none ∧ (Model.skipValue data stack).1.panicked = false := by
  have key := gen_skip_spec data hsm noHandler #[] ()
  have hrun := skipValue_run data stack
  simp only [Model.skipValue]
  generalize Model.runPlain Gen.SkipValue.machine data stack = rp at hrun
  obtain ⟨res, st⟩ := rp
  simp only at hrun
  subst hrun
  cases hv : valueEnd (some Gen.skipMaxDepth) data.toList with
  | some n =>
    rw [hv] at key
    obtain ⟨hk, hp⟩ := key
    simp [Model.ofResult, hk, hp]
  | none =>
    rw [hv] at key
    obtain ⟨e, hk⟩ := key
    simp [Model.ofResult, hk]

/-- the offset is within the input and the value is a proper prefix of what follows the whitespace -/
theorem valueEnd_le (mdv : Option Nat) (l : List UInt8) (n : Nat) (h : valueEnd mdv l = some n) : n ≤ l.length := by
  simp only [valueEnd] at h
  split at h
  · injection h with h; omega
  · cases h

/-- non-vacuity: ` [1,{"a":-0.5e+3}] x` ends at 18; a truncated document and one nested too deeply are rejected -/
example : valueEnd (some 10000) [32,91,49,44,123,34,97,34,58,45,48,46,53,101,43,51,125,93,32,120] = some 18 := by decide +kernel
example : valueEnd (some 10000) [91,49,44,123,34,97,34,58,45,48,46] = none := by decide +kernel
example : valueEnd (some 2) [91,91,91,49,93,93,93] = none := by decide +kernel
example : valueEnd (some 3) [91,91,91,49,93,93,93] = some 7 := by decide +kernel

end RJson.C02
