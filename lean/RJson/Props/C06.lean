import RJson.Proofs.StrRead
/-!
# C06 — string tokens are validated and decoded per RFC 8259 with raw bytes preserved

For every input (shorter than 2^62 bytes) and every destination buffer:

* `readStringBytes_spec` / `readString_spec`: the models of `ReadStringBytes` / `ReadString` — whitespace, the fast
  pre-scan of simple_readers.go, then the *regenerated* `appendRemainderOfString` table with the hand models of
  `getu4` / `unescapeUnicodeChar` — succeed exactly when the first token is a well-formed JSON string
  (`Spec.scanStringBody`: closing quote present, no raw byte below 0x20, only the RFC 8259 escapes) and then return
  the offset just after the closing quote and `Spec.decodeString` of the bytes between the quotes appended to the
  destination: surrogate pairs combined, unpaired surrogates replaced by U+FFFD, every unescaped byte copied
  unchanged.
* `unescapeStringContent_spec`: the model of `UnescapeStringContent` (regenerated `unescapeStringContent` table) on
  the bytes between the quotes of a well-formed string consumes all of them and yields the same
  `Spec.decodeString`; `unescape_of_token` ties the two together.
-/
namespace RJson.C06
open RJson.Ragel RJson.Spec RJson.AbsSmall RJson.StrMachine RJson.StrRead RJson.Abs

/-- **C06, ReadStringBytes** -/
theorem readStringBytes_spec (data : Bytes) (hsm : Small data) (buf : Bytes) :
    match Spec.readString data.toList with
    | some (content, n) => (Model.readStringBytes data buf).err = none ∧ (Model.readStringBytes data buf).panicked = false ∧
        (Model.readStringBytes data buf).p = (n : Int) ∧ (Model.readStringBytes data buf).val = buf ++ content.toArray
    | none => (Model.readStringBytes data buf).err ≠ none ∧ (Model.readStringBytes data buf).panicked = false :=
  StrRead.readStringBytes_spec data hsm buf

/-- **C06, ReadString** -/
theorem readString_spec (data : Bytes) (hsm : Small data) :
    match Spec.readString data.toList with
    | some (content, n) => (Model.readString data).err = none ∧ (Model.readString data).panicked = false ∧
        (Model.readString data).p = (n : Int) ∧ (Model.readString data).val = content.toArray
    | none => (Model.readString data).err ≠ none ∧ (Model.readString data).panicked = false ∧ (Model.readString data).val = #[] := by
  have key := StrRead.readStringBytes_spec data hsm #[]
  simp only [Model.readString]
  cases hr : Spec.readString data.toList with
  | none =>
    rw [hr] at key
    obtain ⟨he, hp⟩ := key
    have : (Model.readStringBytes data #[]).err.isSome = true := by
      cases hh : (Model.readStringBytes data #[]).err with
      | none => exact absurd hh he
      | some _ => rfl
    simp [this, he, hp]
  | some pr =>
    obtain ⟨content, n⟩ := pr
    rw [hr] at key
    obtain ⟨he, hpk, hp, hv⟩ := key
    simp [he, hpk, hp, hv]

/-- **C06, UnescapeStringContent** on the bytes between the quotes of a well-formed string -/
theorem unescapeStringContent_spec (body : Bytes) (hsm : Small body) (dst : Bytes) (hwf : WFBody body.toList) :
    (Model.unescapeStringContent body dst).err = none ∧ (Model.unescapeStringContent body dst).panicked = false ∧
      (Model.unescapeStringContent body dst).p = (body.size : Int) ∧
      (Model.unescapeStringContent body dst).val = dst ++ (decodeString (body.toList.length + 1) body.toList).toArray := by
  have key := unescape_run body hsm noHandler body.toList.length body.toList (Nat.le_refl _) none (fuelFor body) 0
    (initRegs dst ()) (At.start body) rfl (by simp [fuelFor]; omega) trivial rfl hwf
  have hrun : Model.runNoStack Gen.UnescapeStringContent.machine body dst =
      contL (smachine .unescape) body noHandler (fuelFor body) .start [] (initRegs dst ()) := by
    simp only [Model.runNoStack]
    rw [Certs.UnescapeStringContent.run_eq, runL_eq_contL]
    rfl
  have hst : stOf none = .start := rfl
  rw [hst] at key
  simp only [Model.unescapeStringContent, hrun]
  obtain ⟨hk, hp, hd⟩ := key
  have hd' := hd (body.toList.length + 1) (Nat.le_refl _)
  have hi : (initRegs dst ()).dst = dst := rfl
  rw [hi] at hd'
  generalize contL (smachine .unescape) body noHandler (fuelFor body) .start [] (initRegs dst ()) = res at hk hp hd'
  simp [Model.ofResult, hk, hp, hd', pendL]

/-- the bytes between the quotes of a recognised string token form a well-formed body -/
theorem wfBody_of_split (l body rest : List UInt8) (h : splitString l = some (body, rest)) :
    WFBody body ∧ l = body ++ 34 :: rest := by
  simp only [splitString] at h
  cases hs : scanStringBody l with
  | none => rw [hs] at h; cases h
  | some r =>
    rw [hs] at h
    injection h with h; injection h with hb hr
    subst hr
    obtain ⟨pre, hpre⟩ := scanStringBody_closing l r hs
    have hbody : body = pre := by
      rw [← hb, ← hpre]
      exact take_append_len pre _ _ (by simp; omega)
    subst hbody
    exact ⟨⟨r, by rw [hpre]; exact hs⟩, hpre.symm⟩

/-- unescaping the bytes between the quotes on their own gives the content `ReadString` returns -/
theorem unescape_of_token (data : Bytes) (l body rest : List UInt8)
    (hsk : skipWs data.toList = 34 :: l) (hsp : splitString l = some (body, rest)) (hsm : Small body.toArray) (dst : Bytes) :
    Spec.readString data.toList = some (decodeString (body.length + 1) body, data.toList.length - rest.length) ∧
    (Model.unescapeStringContent body.toArray dst).err = none ∧
    (Model.unescapeStringContent body.toArray dst).p = (body.length : Int) ∧
    (Model.unescapeStringContent body.toArray dst).val = dst ++ (decodeString (body.length + 1) body).toArray := by
  have h1 : Spec.readString data.toList = some (decodeString (body.length + 1) body, data.toList.length - rest.length) := by
    rw [readString_34 _ l hsk, hsp]
  obtain ⟨hwf, _⟩ := wfBody_of_split l body rest hsp
  have key := unescapeStringContent_spec body.toArray hsm dst (by simpa using hwf)
  refine ⟨h1, key.1, ?_, ?_⟩
  · have := key.2.2.1; simpa using this
  · have := key.2.2.2; simpa using this

/-- non-vacuity: `"a\\n\\ud83d\\ude00\\ud800x"` decodes to a, LF, U+1F600 (4 bytes), U+FFFD, x -/
example : Spec.readString [32, 34, 97, 92, 110, 92, 117, 100, 56, 51, 100, 92, 117, 100, 101, 48, 48, 92, 117, 100, 56, 48, 48, 120, 34, 44] =
    some ([97, 10, 0xF0, 0x9F, 0x98, 0x80, 0xEF, 0xBF, 0xBD, 120], 25) := by decide +kernel

end RJson.C06
