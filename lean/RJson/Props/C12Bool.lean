import RJson.Props.C12
import RJson.Props.C13Literals
/-!
# C12 — `DecodeBool`, end to end

With `C13.readBool_spec` and `C13.readNull_spec`: JSON whitespace, then `true` / `false` — the target becomes that value,
offset just after the literal; else whitespace and `null` — target untouched, offset after `null`; else an error, target
untouched.
-/
namespace RJson.C12
open RJson.Model RJson.Spec RJson.Abs RJson.Ragel

/-- what `DecodeBool(data, &target)` is specified to do: `(target afterwards, offset or none for an error)` -/
def specDecodeBool (data : List UInt8) (t : Bool) : Bool × Option Nat :=
  match scanLit [116, 114, 117, 101] (skipWs data) with
  | some rest => (true, some (data.length - rest.length))
  | none =>
    match scanLit [102, 97, 108, 115, 101] (skipWs data) with
    | some rest => (false, some (data.length - rest.length))
    | none =>
      match scanLit [110, 117, 108, 108] (skipWs data) with
      | some rest => (t, some (data.length - rest.length))
      | none => (t, none)

/-- **`DecodeBool` does what the text says**, for every input shorter than 2^62 bytes and every prior target -/
theorem decodeBool_spec (data : Bytes) (hsm : Small data) (t : Bool) :
    (decode readBool data t).panicked = false ∧
    (decode readBool data t).val = (specDecodeBool data.toList t).1 ∧
    match (specDecodeBool data.toList t).2 with
    | some n => (decode readBool data t).err = none ∧ (decode readBool data t).p = (n : Int)
    | none => (decode readBool data t).err.isSome = true := by
  have hb := C13.readBool_spec data hsm
  simp only [specDecodeBool]
  cases ht : scanLit [116, 114, 117, 101] (skipWs data.toList) with
  | some rest =>
    rw [ht] at hb
    simp only [] at hb ⊢
    obtain ⟨b1, b2, b3, b4⟩ := hb
    rw [decode_success readBool data t b1 b4]
    exact ⟨b4, b2, b1, by rw [b3]; simp⟩
  | none =>
    rw [ht] at hb
    cases hf : scanLit [102, 97, 108, 115, 101] (skipWs data.toList) with
    | some rest =>
      rw [hf] at hb
      simp only [] at hb ⊢
      obtain ⟨b1, b2, b3, b4⟩ := hb
      rw [decode_success readBool data t b1 b4]
      exact ⟨b4, b2, b1, by rw [b3]; simp⟩
    | none =>
      rw [hf] at hb
      simp only [] at hb ⊢
      obtain ⟨he, hnp⟩ := hb
      have hn := C13.readNull_spec data hsm
      cases hl : scanLit [110, 117, 108, 108] (skipWs data.toList) with
      | some rest =>
        rw [hl] at hn
        simp only [] at hn ⊢
        obtain ⟨n1, n2, n3⟩ := hn
        obtain ⟨d1, d2, d3⟩ := decode_null readBool data t _ he hnp n1 n3
        refine ⟨?_, d1, d2, ?_⟩
        · simp [decode, he, hnp, n1, n3]
        · rw [d3, n2]; simp
      | none =>
        rw [hl] at hn
        simp only [] at hn ⊢
        obtain ⟨n1, n3⟩ := hn
        obtain ⟨d1, d2⟩ := decode_error readBool data t _ .notNull he hnp n1 n3
        refine ⟨?_, d1, by rw [d2]; rfl⟩
        simp [decode, he, hnp, n1, n3]

end RJson.C12
