import RJson.Proofs.Step
import RJson.Certs.ReadNull
import RJson.Certs.ReadBool
import RJson.Model.Api
import RJson.Model.AbsSmall
import RJson.Props.C13
/-!
# C13 — literal readers: `ReadNull` / `ReadBool` succeed exactly on the literals

Route: kernel-checked certificate (regenerated `readNull` / `readBool` tables = `AbsSmall.lmachine`), then a
symbolic run of the abstract machine against `Spec.skipWs` / `Spec.scanLit`.
Hypothesis `Small data`: the input is shorter than 2^62 bytes.
-/
namespace RJson.C13
open RJson.Ragel RJson.AbsSmall RJson.Abs RJson.Spec

def litVal (l : Lit) (old : Bool) : Bool := match l with | .t => true | .f => false | .n => old

/-- outcome of a successful literal read: position after the literal, error register untouched -/
def LitOK {τ} (res : Result τ) (r : Regs τ) (pend : Nat) (l : Lit) : Prop :=
  res = ({ r with p := (pend : Int), val := litVal l r.val } : Regs τ).finish

theorem done_cont {τ} (k : LKind) (data : Bytes) (h : Handler τ) (fuel p : Nat) (rest : List UInt8)
    (r : Regs τ) (hat : At data p rest) (hp : r.p = p) (hf : 1 ≤ fuel) :
    contL (lmachine k) data h fuel LS.done [] r = r.finish := by
  obtain ⟨fuel, rfl⟩ : ∃ f, fuel = f + 1 := ⟨fuel - 1, by omega⟩
  cases rest with
  | nil => rw [contL_nil (lmachine k) data h _ _ _ r p hp hat]; rfl
  | cons b rest =>
    rw [contL_cons (lmachine k) data h _ _ _ r p b rest hp hat]
    obtain ⟨hb, _, _⟩ := hat.cons_inv
    exact loopL_exit (lmachine k) data h fuel LS.done [] r b (by rw [hp]; exact hb) rfl

theorem lstep_lit_match (k : LKind) (l : Lit) (i : Nat) (x : UInt8) (hx : l.tail[i]? = some x) (hlast : i + 1 ≠ l.tail.length) :
    lstep k (LS.lit l i) x = ([], some (LS.lit l (i + 1))) := by
  simp [lstep, hx, hlast]

theorem lstep_lit_mismatch (k : LKind) (l : Lit) (i : Nat) (x b : UInt8) (hx : l.tail[i]? = some x) (hb : b ≠ x) :
    lstep k (LS.lit l i) b = ([.s (.errReturn (lerr k))], none) := by
  have : (b == x) = false := by simpa using hb
  simp [lstep, hx, this]

/-- running the literal states over the input -/
theorem lit_run {τ} (k : LKind) (l : Lit) (data : Bytes) (h : Handler τ) (hsm : Small data) :
    ∀ (n i fuel p : Nat) (rest : List UInt8) (r : Regs τ),
      i + n = l.tail.length → 0 < n → At data p rest → r.p = p → rest.length + 1 ≤ fuel →
      match scanLit (l.tail.drop i) rest with
      | some rest' => contL (lmachine k) data h fuel (LS.lit l i) [] r =
          ({ r with p := ((data.size - rest'.length : Nat) : Int), val := litVal l r.val } : Regs τ).finish
      | none => (contL (lmachine k) data h fuel (LS.lit l i) [] r).kind = .err (lerr k) := by
  intro n
  induction n with
  | zero => intro i fuel p rest r _ hn; omega
  | succ n ih =>
    intro i fuel p rest r hin _ hat hp hf
    obtain ⟨fuel, rfl⟩ : ∃ f, fuel = f + 1 := ⟨fuel - 1, by omega⟩
    have hi : i < l.tail.length := by omega
    have hx : l.tail[i]? = some l.tail[i] := by simp [hi]
    have hdrop : l.tail.drop i = l.tail[i] :: l.tail.drop (i + 1) := List.drop_eq_getElem_cons hi
    cases rest with
    | nil =>
      rw [contL_nil (lmachine k) data h _ _ _ r p hp hat]
      simp only [hdrop, scanLit, List.isPrefixOf]
      simp [lmachine, leof, runEof, execSimple, Regs.stop]
    | cons b rest =>
      rw [contL_cons (lmachine k) data h _ _ _ r p b rest hp hat]
      obtain ⟨hb, hlt, hat'⟩ := hat.cons_inv
      have hf' : rest.length + 1 ≤ fuel := by simp only [List.length_cons] at hf; omega
      by_cases hbx : b = l.tail[i]
      · subst hbx
        have hpre : scanLit (l.tail.drop i) (l.tail[i] :: rest) = scanLit (l.tail.drop (i + 1)) rest := by
          rw [hdrop]
          simp only [scanLit, List.isPrefixOf, beq_self_eq_true, Bool.true_and, List.length_cons, List.drop_succ_cons]
        rw [hpre]
        by_cases hlast : i + 1 = l.tail.length
        · -- the last byte of the literal
          have hnil : l.tail.drop (i + 1) = [] := List.drop_eq_nil_of_le (by omega)
          simp only [hnil, scanLit, List.isPrefixOf, if_true, List.length_nil, List.drop_zero]
          have hstep : (lmachine k).step (LS.lit l i) l.tail[i] =
              ((match l with | .t => [.s (.setBool true)] | .f => [.s (.setBool false)] | .n => []), some LS.done) := by
            simp only [lmachine, lstep, hx, beq_self_eq_true, if_true, hlast]
            cases l <;> rfl
          rw [loopL_succ (lmachine k) data h fuel _ [] r _ (by rw [hp]; exact hb), hstep]
          have hw : wrap64 (r.p + 1) = ((p + 1 : Nat) : Int) := by
            rw [hp, wrap64_id] <;> (unfold Small at hsm; omega)
          have hlen := hat'.length
          have hfin : ∀ (r' : Regs τ), r'.p = r.p → (if ({ r' with p := wrap64 (r'.p + 1) } : Regs τ).p == (data.size : Int) then
                runEof data (lmachine k).hasField h ((lmachine k).eof .done) { r' with p := wrap64 (r'.p + 1) }
              else loopL (lmachine k) data h fuel LS.done [] { r' with p := wrap64 (r'.p + 1) }) =
              ({ r' with p := ((p + 1 : Nat) : Int) } : Regs τ).finish := by
            intro r' hr'
            have := done_cont k data h fuel (p + 1) rest { r' with p := ((p + 1 : Nat) : Int) } hat' rfl (by omega)
            simp only [contL] at this
            rw [hr', hw]
            exact this
          have hpos : ((data.size - rest.length : Nat) : Int) = ((p + 1 : Nat) : Int) := by omega
          cases l with
          | t =>
            simp only [execActsL, execSimple, SAct.isHandler, Bool.false_and, Bool.false_eq_true, if_false]
            rw [hfin { r with val := true } rfl, hpos]; rfl
          | f =>
            simp only [execActsL, execSimple, SAct.isHandler, Bool.false_and, Bool.false_eq_true, if_false]
            rw [hfin { r with val := false } rfl, hpos]; rfl
          | n =>
            simp only [execActsL]
            rw [hfin r rfl, hpos]; rfl
        · rw [loopL_goto (lmachine k) data h fuel (LS.lit l i) (LS.lit l (i + 1)) [] r p _ rest hsm hp hat (lstep_lit_match k l i _ hx hlast)]
          have := ih (i + 1) fuel (p + 1) rest { r with p := ((p + 1 : Nat) : Int) } (by omega) (by omega) hat' rfl (by simp only [List.length_cons] at hf; omega)
          exact this
      · have hmis : scanLit (l.tail.drop i) (b :: rest) = none := by
          rw [hdrop]
          have : (l.tail[i] == b) = false := by simpa using (fun h => hbx h.symm)
          simp [scanLit, List.isPrefixOf, this]
        rw [hmis]
        rw [loopL_errReturn (lmachine k) data h fuel (LS.lit l i) [] r b (lerr k) none (by rw [hp]; exact hb) (lstep_lit_mismatch k l i _ b hx hbx)]
        rfl

theorem skipWs_cons_ws (b : UInt8) (l : List UInt8) (h : isWs b = true) : skipWs (b :: l) = skipWs l := by
  simp [skipWs, h]

/-- the whitespace loop, then dispatch on the first byte of the literal -/
theorem ws_run {τ} (k : LKind) (data : Bytes) (h : Handler τ) (hsm : Small data) :
    ∀ (l : List UInt8) (fuel p : Nat) (r : Regs τ), At data p l → r.p = p → l.length + 1 ≤ fuel →
      ∃ (fuel' p' : Nat), At data p' (skipWs l) ∧ (skipWs l).length + 1 ≤ fuel' ∧
        contL (lmachine k) data h fuel LS.ws [] r = contL (lmachine k) data h fuel' LS.ws [] { r with p := (p' : Int) } := by
  intro l
  induction l with
  | nil =>
    intro fuel p r hat hp hf
    exact ⟨fuel, p, hat, hf, by rw [← hp]⟩
  | cons b rest ih =>
    intro fuel p r hat hp hf
    by_cases hw : isWs b = true
    · obtain ⟨fuel, rfl⟩ : ∃ f, fuel = f + 1 := ⟨fuel - 1, by omega⟩
      obtain ⟨_, _, hat'⟩ := hat.cons_inv
      have hstep : (lmachine k).step LS.ws b = ([], some LS.ws) := by simp [lmachine, lstep, hw]
      rw [contL_cons (lmachine k) data h _ _ _ r p b rest hp hat,
        loopL_goto (lmachine k) data h fuel LS.ws LS.ws [] r p b rest hsm hp hat hstep, skipWs_cons_ws b rest hw]
      simp only [List.length_cons] at hf
      obtain ⟨f', p', h1, h2, h3⟩ := ih fuel (p + 1) { r with p := ((p + 1 : Nat) : Int) } hat' rfl (by omega)
      exact ⟨f', p', h1, h2, h3⟩
    · have hw' : isWs b = false := by simpa using hw
      refine ⟨fuel, p, ?_, ?_, by rw [← hp]⟩
      · simpa [skipWs, hw'] using hat
      · simpa [skipWs, hw'] using hf

theorem ofNat_sub_len (data : Bytes) (rest : List UInt8) : (((data.size - rest.length : Nat) : Int)) = ((data.size - rest.length : Nat) : Int) := rfl

/-- `ReadNull`: whitespace, then exactly the literal `null`; offset just after it -/
theorem readNull_spec (data : Bytes) (hsm : Small data) :
    match scanLit [110, 117, 108, 108] (skipWs data.toList) with
    | some rest => (Model.readNull data).err = none ∧ (Model.readNull data).p = ((data.size - rest.length : Nat) : Int) ∧ (Model.readNull data).panicked = false
    | none => (Model.readNull data).err = some .notNull ∧ (Model.readNull data).panicked = false := by
  simp only [Model.readNull, Model.runNoStack]
  rw [Certs.ReadNull.run_eq, runL_eq_contL]
  obtain ⟨fuel', p', hat, hf, heq⟩ := ws_run .null data noHandler hsm data.toList (fuelFor data) 0 (initRegs #[] ()) (At.start data) rfl (by simp [fuelFor]; omega)
  have hstart : (lmachine LKind.null).start = LS.ws := rfl
  rw [hstart, heq]
  generalize hl : skipWs data.toList = l at hat hf
  cases l with
  | nil =>
    rw [contL_nil (lmachine .null) data noHandler _ _ _ _ p' rfl hat]
    simp [scanLit, List.isPrefixOf, lmachine, leof, runEof, execSimple, Regs.stop, Model.ofResult, lerr]
  | cons b rest =>
    rw [contL_cons (lmachine .null) data noHandler _ _ _ _ p' b rest rfl hat]
    obtain ⟨fuel', rfl⟩ : ∃ f, fuel' = f + 1 := ⟨fuel' - 1, by omega⟩
    obtain ⟨hb, hlt, hat'⟩ := hat.cons_inv
    have hnws : isWs b = false := skipWs_head_not_ws hl
    by_cases hn : b = 110
    · subst hn
      have hstep : (lmachine LKind.null).step LS.ws 110 = ([], some (LS.lit .n 0)) := by decide
      rw [loopL_goto (lmachine .null) data noHandler fuel' LS.ws (LS.lit .n 0) [] _ p' 110 rest hsm rfl hat hstep]
      have := lit_run .null .n data noHandler hsm 3 0 fuel' (p' + 1) rest { (initRegs #[] () : Regs Unit) with p := ((p' + 1 : Nat) : Int) } rfl (by omega) hat' rfl (by simp only [List.length_cons] at hf; omega)
      have hsl : scanLit [110, 117, 108, 108] (110 :: rest) = scanLit [117, 108, 108] rest := by
        simp [scanLit, List.isPrefixOf]
      rw [hsl]
      simp only [Lit.tail, List.drop_zero] at this
      generalize contL (lmachine LKind.null) data noHandler fuel' (LS.lit Lit.n 0) [] _ = res at this ⊢
      cases hs : scanLit [117, 108, 108] rest with
      | none =>
        rw [hs] at this
        simp only [] at this
        simp [Model.ofResult, this, lerr]
      | some rest' =>
        rw [hs] at this
        simp only [] at this
        subst this
        simp [Model.ofResult, Regs.finish, initRegs]
    · have hstep : (lmachine LKind.null).step LS.ws b = ([.s (.errReturn .notNull)], none) := by
        have h110 : (b == 110) = false := by simpa using hn
        simp [lmachine, lstep, hnws, h110, lerr]
      rw [loopL_errReturn (lmachine .null) data noHandler fuel' LS.ws [] _ b .notNull none hb hstep]
      have hsl : scanLit [110, 117, 108, 108] (b :: rest) = none := by
        have : ((110 : UInt8) == b) = false := by simpa using (fun h => hn h.symm)
        simp [scanLit, List.isPrefixOf, this]
      rw [hsl]
      simp [Model.ofResult, Regs.stop]

/-- `ReadBool`: whitespace, then exactly `true` or `false`; the value and the offset just after the literal -/
theorem readBool_spec (data : Bytes) (hsm : Small data) :
    match scanLit [116, 114, 117, 101] (skipWs data.toList), scanLit [102, 97, 108, 115, 101] (skipWs data.toList) with
    | some rest, _ => (Model.readBool data).err = none ∧ (Model.readBool data).val = true ∧
        (Model.readBool data).p = ((data.size - rest.length : Nat) : Int) ∧ (Model.readBool data).panicked = false
    | none, some rest => (Model.readBool data).err = none ∧ (Model.readBool data).val = false ∧
        (Model.readBool data).p = ((data.size - rest.length : Nat) : Int) ∧ (Model.readBool data).panicked = false
    | none, none => (Model.readBool data).err = some .notBool ∧ (Model.readBool data).panicked = false := by
  simp only [Model.readBool, Model.runNoStack]
  rw [Certs.ReadBool.run_eq, runL_eq_contL]
  obtain ⟨fuel', p', hat, hf, heq⟩ := ws_run .bool data noHandler hsm data.toList (fuelFor data) 0 (initRegs #[] ()) (At.start data) rfl (by simp [fuelFor]; omega)
  have hstart : (lmachine LKind.bool).start = LS.ws := rfl
  rw [hstart, heq]
  generalize hl : skipWs data.toList = l at hat hf
  cases l with
  | nil =>
    rw [contL_nil (lmachine .bool) data noHandler _ _ _ _ p' rfl hat]
    simp [scanLit, List.isPrefixOf, lmachine, leof, runEof, execSimple, Regs.stop, Model.ofResult, lerr]
  | cons b rest =>
    rw [contL_cons (lmachine .bool) data noHandler _ _ _ _ p' b rest rfl hat]
    obtain ⟨fuel', rfl⟩ : ∃ f, fuel' = f + 1 := ⟨fuel' - 1, by omega⟩
    obtain ⟨hb, hlt, hat'⟩ := hat.cons_inv
    have hnws : isWs b = false := skipWs_head_not_ws hl
    have hf' : rest.length + 1 ≤ fuel' := by simp only [List.length_cons] at hf; omega
    by_cases ht : b = 116
    · subst ht
      have hstep : (lmachine LKind.bool).step LS.ws 116 = ([], some (LS.lit .t 0)) := by decide
      rw [loopL_goto (lmachine .bool) data noHandler fuel' LS.ws (LS.lit .t 0) [] _ p' 116 rest hsm rfl hat hstep]
      have := lit_run .bool .t data noHandler hsm 3 0 fuel' (p' + 1) rest { (initRegs #[] () : Regs Unit) with p := ((p' + 1 : Nat) : Int) } rfl (by omega) hat' rfl hf'
      have hsl : scanLit [116, 114, 117, 101] (116 :: rest) = scanLit [114, 117, 101] rest := by
        simp [scanLit, List.isPrefixOf]
      have hsf : scanLit [102, 97, 108, 115, 101] (116 :: rest) = none := by
        simp [scanLit, List.isPrefixOf]
      rw [hsl, hsf]
      simp only [Lit.tail, List.drop_zero] at this
      generalize contL (lmachine LKind.bool) data noHandler fuel' (LS.lit Lit.t 0) [] _ = res at this ⊢
      cases hs : scanLit [114, 117, 101] rest with
      | none =>
        rw [hs] at this
        simp only [] at this
        simp [Model.ofResult, this, lerr]
      | some rest' =>
        rw [hs] at this
        simp only [] at this
        subst this
        simp [Model.ofResult, Regs.finish, initRegs, litVal]
    · by_cases hfb : b = 102
      · subst hfb
        have hstep : (lmachine LKind.bool).step LS.ws 102 = ([], some (LS.lit .f 0)) := by decide
        rw [loopL_goto (lmachine .bool) data noHandler fuel' LS.ws (LS.lit .f 0) [] _ p' 102 rest hsm rfl hat hstep]
        have := lit_run .bool .f data noHandler hsm 4 0 fuel' (p' + 1) rest { (initRegs #[] () : Regs Unit) with p := ((p' + 1 : Nat) : Int) } rfl (by omega) hat' rfl hf'
        have hsl : scanLit [102, 97, 108, 115, 101] (102 :: rest) = scanLit [97, 108, 115, 101] rest := by
          simp [scanLit, List.isPrefixOf]
        have hst : scanLit [116, 114, 117, 101] (102 :: rest) = none := by
          simp [scanLit, List.isPrefixOf]
        rw [hsl, hst]
        simp only [Lit.tail, List.drop_zero] at this
        generalize contL (lmachine LKind.bool) data noHandler fuel' (LS.lit Lit.f 0) [] _ = res at this ⊢
        cases hs : scanLit [97, 108, 115, 101] rest with
        | none =>
          rw [hs] at this
          simp only [] at this
          simp [Model.ofResult, this, lerr]
        | some rest' =>
          rw [hs] at this
          simp only [] at this
          subst this
          simp [Model.ofResult, Regs.finish, initRegs, litVal]
      · have hstep : (lmachine LKind.bool).step LS.ws b = ([.s (.errReturn .notBool)], none) := by
          have h116 : (b == 116) = false := by simpa using ht
          have h102 : (b == 102) = false := by simpa using hfb
          simp [lmachine, lstep, hnws, h116, h102, lerr]
        rw [loopL_errReturn (lmachine .bool) data noHandler fuel' LS.ws [] _ b .notBool none hb hstep]
        have hst : scanLit [116, 114, 117, 101] (b :: rest) = none := by
          have : ((116 : UInt8) == b) = false := by simpa using (fun h => ht h.symm)
          simp [scanLit, List.isPrefixOf, this]
        have hsf : scanLit [102, 97, 108, 115, 101] (b :: rest) = none := by
          have : ((102 : UInt8) == b) = false := by simpa using (fun h => hfb h.symm)
          simp [scanLit, List.isPrefixOf, this]
        rw [hst, hsf]
        simp [Model.ofResult, Regs.stop]

/-! ## type-exclusivity: a literal reader only succeeds on a token of its own type -/

theorem scanLit_head {lit : List UInt8} {c : UInt8} {l rest : List UInt8} (h : scanLit (c :: lit) l = some rest) :
    ∃ tl, l = c :: tl := by
  cases l with
  | nil => simp [scanLit, List.isPrefixOf] at h
  | cons b tl =>
    simp only [scanLit] at h
    split at h
    · next hp =>
      simp only [List.isPrefixOf, Bool.and_eq_true, beq_iff_eq] at hp
      exact ⟨tl, by rw [hp.1]⟩
    · cases h

theorem readNull_type (data : Bytes) (hsm : Small data) (hok : (Model.readNull data).err = none) :
    ∃ p, Spec.nextTokenType data.toList = some (1, p) := by
  have h := readNull_spec data hsm
  cases hs : scanLit [110, 117, 108, 108] (skipWs data.toList) with
  | none => rw [hs] at h; simp only [] at h; rw [h.1] at hok; cases hok
  | some rest =>
    obtain ⟨tl, htl⟩ := scanLit_head hs
    exact ⟨data.toList.length - tl.length, by simp [Spec.nextTokenType, htl, Spec.tokenType]⟩

theorem readBool_type (data : Bytes) (hsm : Small data) (hok : (Model.readBool data).err = none) :
    ∃ t p, (t = 4 ∨ t = 5) ∧ Spec.nextTokenType data.toList = some (t, p) := by
  have h := readBool_spec data hsm
  cases hs : scanLit [116, 114, 117, 101] (skipWs data.toList) with
  | some rest =>
    obtain ⟨tl, htl⟩ := scanLit_head hs
    exact ⟨4, data.toList.length - tl.length, .inl rfl, by simp [Spec.nextTokenType, htl, Spec.tokenType, isDigit]⟩
  | none =>
    cases hs2 : scanLit [102, 97, 108, 115, 101] (skipWs data.toList) with
    | some rest =>
      obtain ⟨tl, htl⟩ := scanLit_head hs2
      exact ⟨5, data.toList.length - tl.length, .inr rfl, by simp [Spec.nextTokenType, htl, Spec.tokenType, isDigit]⟩
    | none =>
      rw [hs, hs2] at h
      simp only [] at h
      rw [h.1] at hok; cases hok

end RJson.C13
