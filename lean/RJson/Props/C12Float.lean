import RJson.Props.C12
import RJson.Props.C13Literals
import RJson.Props.C08Decoders
/-!
# C12 — `DecodeFloat64`, end to end

The generic theorems of `Props/C12.lean` speak about any reader. For the float reader everything on the right-hand side
can be a specification: with `C04.readFloat64_correct_all` (the reader is correctly rounded on every number literal) and
`C13.readNull_spec` (the fallback accepts exactly JSON whitespace followed by `null`), `DecodeFloat64` is determined by
the text alone:

* the input starts (after JSON whitespace) with a number literal whose correctly rounded value is finite: the target
  becomes that value, the offset is the end of the literal, no error;
* otherwise, if it starts with `null`: target untouched, offset just after `null`, no error;
* otherwise: an error, target untouched.
-/
namespace RJson.C12
open RJson.Model RJson.Spec RJson.Abs RJson.Ragel

/-- what `DecodeFloat64(data, &target)` is specified to do: `(target afterwards, offset or none for an error)` -/
def specDecodeFloat (data : List UInt8) (t : Nat) : Nat × Option Nat :=
  match Spec.readFloat data with
  | some (x, n) => (x, some n)
  | none =>
    match scanLit [110, 117, 108, 108] (skipWs data) with
    | some rest => (t, some (data.length - rest.length))
    | none => (t, none)

/-- **`DecodeFloat64` does what the text says**, for every input shorter than 2^62 bytes and every prior target -/
theorem decodeFloat64_spec (data : Bytes) (hsm : Small data) (t : Nat) :
    (decode readFloat64 data t).panicked = false ∧
    (decode readFloat64 data t).val = (specDecodeFloat data.toList t).1 ∧
    match (specDecodeFloat data.toList t).2 with
    | some n => (decode readFloat64 data t).err = none ∧ (decode readFloat64 data t).p = (n : Int)
    | none => (decode readFloat64 data t).err.isSome = true := by
  have hm := C08.readFloat64_member data.toList
  have hpk := (C10.readFloat64_total data).1
  have hp := (C04.readFloat64_correct_all data)
  have harr : data.toList.toArray = data := by simp
  rw [harr] at hm
  simp only [specDecodeFloat]
  cases hr : Spec.readFloat data.toList with
  | some xn =>
    obtain ⟨x, n⟩ := xn
    rw [hr] at hm
    simp only [] at hm ⊢
    obtain ⟨h1, h2, h3⟩ := hm
    rw [decode_success readFloat64 data t h1 h2]
    refine ⟨h2, h3, h1, ?_⟩
    -- the offset: from the reader's theorem
    have hsc : ∃ rest, scanNumber (skipWs data.toList) = some rest := C08.readFloat64_ok_scan data h1
    obtain ⟨rest, hrest⟩ := hsc
    obtain ⟨hpos, hmatch⟩ := hp rest hrest
    rw [hr] at hmatch
    simp only [] at hmatch
    rw [hpos, hmatch.2.2]
  | none =>
    rw [hr] at hm
    simp only [] at hm ⊢
    have herr : ∃ e, (readFloat64 data).err = some e := by
      cases he : (readFloat64 data).err with
      | some e => exact ⟨e, rfl⟩
      | none => simp [he, hpk] at hm
    obtain ⟨e, he⟩ := herr
    have hn := C13.readNull_spec data hsm
    cases hl : scanLit [110, 117, 108, 108] (skipWs data.toList) with
    | some rest =>
      rw [hl] at hn
      simp only [] at hn ⊢
      obtain ⟨n1, n2, n3⟩ := hn
      obtain ⟨d1, d2, d3⟩ := decode_null readFloat64 data t e he hpk n1 n3
      refine ⟨?_, d1, d2, ?_⟩
      · simp [decode, he, hpk, n1, n3]
      · rw [d3, n2]; simp
    | none =>
      rw [hl] at hn
      simp only [] at hn ⊢
      obtain ⟨n1, n3⟩ := hn
      obtain ⟨d1, d2⟩ := decode_error readFloat64 data t e .notNull he hpk n1 n3
      refine ⟨?_, d1, by rw [d2]; rfl⟩
      simp [decode, he, hpk, n1, n3]

end RJson.C12
