import RJson.Props.C03Complete
/-!
# C08 — decoders assembled from the public API: `ReadFloat64` handlers and one complete decoder

* `floatH_WB`: a handler that reads each member with `ReadFloat64` is well-behaved (the reader stops at the end of the
  number, `VR.readFloat64_resume`), so by C07 a traversal with it visits every member once and ends where skipping the
  container ends — the resume point that `Props/C08.lean` left out;
* `decoder_levels_WB`: the member handlers of the generic decoder `ValueReader` — which is nothing but a decoder
  assembled from `HandleArrayValues` / `HandleObjectValues`, `NextTokenType` and the scalar readers — are
  well-behaved at every nesting level;
* `assembled_decoder_agrees`: that assembled decoder and the tree specification agree in both directions on every
  input (the statement of C03, restated here as the instance of C08's "a decoder reading every member reconstructs the
  value": success ⇒ the tree of the text; a tree within 10 000 levels ⇒ success with that tree).
-/
namespace RJson.C08
open RJson.Ragel RJson.Spec RJson.Abs RJson.Model RJson.VR RJson.Tree

/-- collect every member that is a number with `ReadFloat64` (an error for anything else) -/
def floatH : Handler (List Nat) := fun acc _ suffix =>
  let r := Model.readFloat64 suffix
  if r.err.isNone && !r.panicked then (acc ++ [r.val], r.p, none) else (acc, 0, some 1)

theorem floatH_WB : WB floatH := by
  apply WB_of_valueEnd
  intro hs field v _ hlen he
  right
  simp only [floatH] at he ⊢
  by_cases hc : ((Model.readFloat64 v.toArray).err.isNone && !(Model.readFloat64 v.toArray).panicked) = true
  · simp only [hc, if_true] at he ⊢
    simp only [Bool.and_eq_true, Option.isNone_iff_eq_none, Bool.not_eq_true'] at hc
    obtain ⟨n, hn, hp⟩ := readFloat64_resume v.toArray hc.1 hc.2
    exact ⟨n, by simpa using hn, hp⟩
  · simp [hc] at he

/-- the member handlers of the generic decoder are well-behaved at every level -/
theorem decoder_levels_WB (F depth : Nat) :
    WB (Model.arrHandler (Model.readers F) depth) ∧ WB (Model.objHandler (Model.readers F) depth) :=
  ⟨arrHandler_WB _ (readers_levelOK F) depth, objHandler_WB _ (readers_levelOK F) depth⟩

/-- the assembled decoder and the tree specification agree, in both directions, on every input shorter than 2^62 bytes -/
theorem assembled_decoder_agrees (data : Bytes) (hsm : Small data) :
    ((Model.readValue data).err = none → (Model.readValue data).panicked = false →
      treeOf (Model.readerFuel data) (skipWs data.toList) = some (Model.readValue data).val) ∧
    (∀ f v, f ≤ Gen.valueReaderMaxDepth → treeOf f (skipWs data.toList) = some v →
      (Model.readValue data).err = none ∧ (Model.readValue data).panicked = false ∧ (Model.readValue data).val = v) :=
  ⟨fun he hpk => C03.readValue_tree data hsm he hpk _ (le_refl _),
   fun f v hf ht => C03.readValue_complete data hsm f hf v ht⟩

end RJson.C08
