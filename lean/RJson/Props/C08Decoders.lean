import RJson.Props.C03Complete
import RJson.Props.C04All
/-!
# C08 — decoders assembled from the public API: `ReadFloat64` handlers and one complete decoder

* `floatH_WB`: a handler that reads each member with `ReadFloat64` is well-behaved (the reader stops at the end of the
  number, `VR.readFloat64_resume`), so by C07 a traversal with it visits every member once and ends where skipping the
  container ends — the resume point that `Props/C08.lean` left out;
* `decoder_levels_WB`: the member handlers of the generic decoder `ValueReader` — which is nothing but a decoder
  assembled from `HandleArrayValues` / `HandleObjectValues`, `NextTokenType` and the scalar readers — are
  well-behaved at every nesting level;
* `floatArray_decoder`: a second complete decoder — `HandleArrayValues` with the `ReadFloat64` handler — specified end to
  end: on every input whose array members are found by the reference traversal it returns, in order, the correctly
  rounded value of every member (C07 for the traversal, `C04.readFloat64_correct_all` for each member), and it fails
  exactly when some member is not a number in range;
* `assembled_decoder_agrees`: that assembled decoder and the tree specification agree in both directions on every
  input (the statement of C03, restated here as the instance of C08's "a decoder reading every member reconstructs the
  value": success ⇒ the tree of the text; a tree within 10 000 levels ⇒ success with that tree).
-/
namespace RJson.C08
open RJson.Ragel RJson.Spec RJson.Abs RJson.Model RJson.VR RJson.Tree

/- `Model.floatH` (Model/ValueReader.lean): collect every member that is a number with `ReadFloat64`, an error for
   anything else. -/

theorem floatH_WB : WB floatH := by
  apply WB_of_valueEnd
  intro hs field v _ hlen he
  right
  simp only [floatH] at he ⊢
  by_cases hc : ((Model.readFloat64 v.toArray).err.isNone && !(Model.readFloat64 v.toArray).panicked) = true
  · simp only [hc, if_true] at he ⊢
    simp only [Bool.and_eq_true, Option.isNone_iff_eq_none, Bool.not_eq_true'] at hc
    obtain ⟨n, hn, hp⟩ := readFloat64_resume v.toArray hc.1 hc.2
    exact ⟨n, by simpa using hn, hp⟩
  · simp [hc] at he

/-- the member handlers of the generic decoder are well-behaved at every level -/
theorem decoder_levels_WB (F depth : Nat) :
    WB (Model.arrHandler (Model.readers F) depth) ∧ WB (Model.objHandler (Model.readers F) depth) :=
  ⟨arrHandler_WB _ (readers_levelOK F) depth, objHandler_WB _ (readers_levelOK F) depth⟩

/-- the assembled decoder and the tree specification agree, in both directions, on every input shorter than 2^62 bytes -/
theorem assembled_decoder_agrees (data : Bytes) (hsm : Small data) :
    ((Model.readValue data).err = none → (Model.readValue data).panicked = false →
      treeOf (Model.readerFuel data) (skipWs data.toList) = some (Model.readValue data).val) ∧
    (∀ f v, f ≤ Gen.valueReaderMaxDepth → treeOf f (skipWs data.toList) = some v →
      (Model.readValue data).err = none ∧ (Model.readValue data).panicked = false ∧ (Model.readValue data).val = v) :=
  ⟨fun he hpk => C03.readValue_tree data hsm he hpk _ (le_refl _),
   fun f v hf ht => C03.readValue_complete data hsm f hf v ht⟩

/-! ## a complete decoder for arrays of numbers -/

/-- `ReadFloat64` succeeds only in front of a number literal -/
theorem readFloat64_ok_scan (data : Bytes) (he : (Model.readFloat64 data).err = none) :
    ∃ rest, scanNumber (skipWs data.toList) = some rest := by
  have hcw := countWhitespace_spec data
  have hsub : (data.extract (countWhitespace data) data.size).toList = skipWs data.toList := by
    rw [extract_toList, List.take_of_length_le (by simp), hcw]
    have := C13Aux.drop_skipWs data.toList
    simpa using this
  simp only [Model.readFloat64] at he
  by_cases hend : (countWhitespace data == data.size) = true
  · simp [hend] at he
  · simp only [hend, Bool.false_eq_true, if_false] at he
    have hperr : (FP.parse (data.extract (countWhitespace data) data.size)).err = false := by
      cases hh : (FP.parse (data.extract (countWhitespace data) data.size)).err with
      | false => rfl
      | true => simp [hh] at he
    obtain ⟨rest, hr, _⟩ := FloatSyntax.parse_ok_syntax _ hperr
    rw [hsub] at hr
    exact ⟨rest, hr⟩

/-- one member: `ReadFloat64` against the specification of the conversion -/
theorem readFloat64_member (v : List UInt8) :
    match Spec.readFloat v with
    | some (x, _) => (Model.readFloat64 v.toArray).err = none ∧ (Model.readFloat64 v.toArray).panicked = false ∧ (Model.readFloat64 v.toArray).val = x
    | none => ((Model.readFloat64 v.toArray).err.isNone && !(Model.readFloat64 v.toArray).panicked) = false := by
  have hpk := (C10.readFloat64_total v.toArray).1
  cases hs : scanNumber (skipWs v) with
  | some rest =>
    have key := (C04.readFloat64_correct_all v.toArray rest (by simpa using hs)).2
    simp only [List.toList_toArray] at key
    revert key
    cases Spec.readFloat v with
    | some xn =>
      obtain ⟨x, n⟩ := xn
      intro key
      exact ⟨key.1, hpk, key.2.1⟩
    | none =>
      intro key
      simp only [] at key ⊢
      simp [key]
  | none =>
    have hnone : Spec.readFloat v = none := by simp only [Spec.readFloat, hs]
    rw [hnone]
    simp only []
    cases he : (Model.readFloat64 v.toArray).err with
    | some e => simp
    | none =>
      obtain ⟨rest, hr⟩ := readFloat64_ok_scan v.toArray he
      simp only [List.toList_toArray] at hr
      rw [hs] at hr; cases hr

/-- what the decoder is specified to return: the correctly rounded value of every member, or nothing when some member is
    not a number in range -/
def specFloats (data : List UInt8) : List Member → Option (List Nat)
  | [] => some []
  | m :: ms =>
    match Spec.readFloat (data.drop m.off) with
    | none => none
    | some (x, _) => (specFloats data ms).map (x :: ·)

theorem replay_floatH (data : List UInt8) : ∀ (ms : List Member) (acc : List Nat) (n : Nat),
    match specFloats data ms with
    | some xs => replay floatH data ms acc n = (acc ++ xs, n + ms.length, none)
    | none => ∃ id, (replay floatH data ms acc n).2.2 = some id := by
  intro ms
  induction ms with
  | nil => intro acc n; simp [specFloats, replay]
  | cons m ms ih =>
    intro acc n
    have hm := readFloat64_member (data.drop m.off)
    simp only [specFloats, replay]
    cases hr : Spec.readFloat (data.drop m.off) with
    | none =>
      rw [hr] at hm
      simp only [] at hm ⊢
      simp only [floatH, hm, Bool.false_eq_true, if_false]
      exact ⟨1, rfl⟩
    | some xn =>
      obtain ⟨x, k⟩ := xn
      rw [hr] at hm
      simp only [] at hm ⊢
      obtain ⟨h1, h2, h3⟩ := hm
      have hc : ((Model.readFloat64 (data.drop m.off).toArray).err.isNone && !(Model.readFloat64 (data.drop m.off).toArray).panicked) = true := by
        simp [h1, h2]
      simp only [floatH, hc, if_true, h3]
      have := ih (acc ++ [x]) (n + 1)
      revert this
      cases specFloats data ms with
      | none => intro this; simpa using this
      | some xs =>
        intro this
        simp only [Option.map_some] at this ⊢
        rw [this]
        simp only [List.append_assoc, List.singleton_append, List.length_cons]
        congr 2
        omega

/-- **`HandleArrayValues` with the `ReadFloat64` handler is a correct decoder for arrays of numbers**: for every input
    whose members the reference traversal finds, the regenerated machine on the Go slice stack returns — in order — the
    correctly rounded binary64 of every member and stops behind the array; it ends with the handler's error exactly when
    some member is not a number in range -/
theorem floatArray_decoder (data : Bytes) (hsm : Small data) (hv : Havoc Nat) (stack : Array Nat) (ms : List Member) (n : Nat)
    (ht : traverseArray data.toList = some (ms, n)) :
    match specFloats data.toList ms with
    | some xs =>
      (runA Gen.HandleArrayValues.machine data floatH hv stack #[] []).1.kind = .ok ∧
      (runA Gen.HandleArrayValues.machine data floatH hv stack #[] []).1.p = (n : Int) ∧
      (runA Gen.HandleArrayValues.machine data floatH hv stack #[] []).1.hs = xs
    | none => ∃ id, (runA Gen.HandleArrayValues.machine data floatH hv stack #[] []).1.kind = .herr id := by
  have hag := C07.handleArrayValues_spec floatH floatH_WB data hsm hv stack []
  rw [ht] at hag
  simp only [C07.Agrees] at hag
  have hrep := replay_floatH data.toList ms [] 0
  revert hrep
  cases specFloats data.toList ms with
  | some xs =>
    intro hrep
    simp only [] at hrep ⊢
    rw [hrep] at hag
    simp only [List.nil_append] at hag
    exact ⟨hag.1, hag.2.1, hag.2.2.1⟩
  | none =>
    intro hrep
    simp only [] at hrep ⊢
    obtain ⟨id, hid⟩ := hrep
    rw [hid] at hag
    exact ⟨id, hag.1⟩

/-- non-vacuity: the reference traversal of `[1, 2.5e1 ,-0]` finds three members, and the specification gives 1, 25, -0 -/
example : (traverseArray "[1, 2.5e1 ,-0]".toUTF8.data.toList).map (fun r => (r.1.length, r.2)) = some (3, 14) := by decide +kernel

/-! ## a field-selective decoder -/

theorem fieldFloatH_WB (key : Bytes) : WB (fieldFloatH key) := by
  apply WB_of_valueEnd
  intro hs field v _ hlen he
  simp only [fieldFloatH] at he ⊢
  by_cases hk : (field == key) = true
  · simp only [hk, if_true] at he ⊢
    right
    by_cases hc : ((Model.readFloat64 v.toArray).err.isNone && !(Model.readFloat64 v.toArray).panicked) = true
    · simp only [hc, if_true] at he ⊢
      simp only [Bool.and_eq_true, Option.isNone_iff_eq_none, Bool.not_eq_true'] at hc
      obtain ⟨n, hn, hp⟩ := readFloat64_resume v.toArray hc.1 hc.2
      exact ⟨n, by simpa using hn, hp⟩
    · simp [hc] at he
  · left
    simp [hk]

/-- what the field-selective decoder is specified to return: the correctly rounded value of the last member named `key`
    (`none` inside: no such member), or nothing when such a member is not a number in range -/
def specField (data : List UInt8) (key : Bytes) : List Member → Option Nat → Option (Option Nat)
  | [], acc => some acc
  | m :: ms, acc =>
    if m.field.toArray == key then
      match Spec.readFloat (data.drop m.off) with
      | none => none
      | some (x, _) => specField data key ms (some x)
    else specField data key ms acc

theorem replay_fieldFloatH (data : List UInt8) (key : Bytes) : ∀ (ms : List Member) (acc : Option Nat) (n : Nat),
    match specField data key ms acc with
    | some r => replay (fieldFloatH key) data ms acc n = (r, n + ms.length, none)
    | none => ∃ id, (replay (fieldFloatH key) data ms acc n).2.2 = some id := by
  intro ms
  induction ms with
  | nil => intro acc n; simp [specField, replay]
  | cons m ms ih =>
    intro acc n
    simp only [specField, replay]
    by_cases hk : (m.field.toArray == key) = true
    · simp only [hk, if_true]
      have hm := readFloat64_member (data.drop m.off)
      cases hr : Spec.readFloat (data.drop m.off) with
      | none =>
        rw [hr] at hm
        simp only [] at hm ⊢
        simp only [fieldFloatH, hk, if_true, hm, Bool.false_eq_true, if_false]
        exact ⟨1, rfl⟩
      | some xn =>
        obtain ⟨x, k⟩ := xn
        rw [hr] at hm
        simp only [] at hm ⊢
        obtain ⟨h1, h2, h3⟩ := hm
        have hc : ((Model.readFloat64 (data.drop m.off).toArray).err.isNone && !(Model.readFloat64 (data.drop m.off).toArray).panicked) = true := by
          simp [h1, h2]
        simp only [fieldFloatH, hk, if_true, hc, h3]
        have := ih (some x) (n + 1)
        revert this
        cases specField data key ms (some x) with
        | none => intro this; simpa using this
        | some r =>
          intro this
          simp only [] at this ⊢
          rw [this]
          congr 2
          simp only [List.length_cons]; omega
    · simp only [hk, Bool.false_eq_true, if_false]
      simp only [fieldFloatH, hk, Bool.false_eq_true, if_false]
      have := ih acc (n + 1)
      revert this
      cases specField data key ms acc with
      | none => intro this; simpa using this
      | some r =>
        intro this
        simp only [] at this ⊢
        rw [this]
        congr 2
        simp only [List.length_cons]; omega

/-- **`HandleObjectValues` with the field-selective `ReadFloat64` handler**: for every input whose members the
    reference traversal finds, the regenerated machine on the Go slice stack returns the correctly rounded value of the
    last member whose raw name is `key` (nothing if there is none), skips every other member itself and stops behind the
    object; it ends with the handler's error exactly when such a member is not a number in range -/
theorem fieldFloat_decoder (key : Bytes) (data : Bytes) (hsm : Small data) (hv : Havoc Nat) (stack : Array Nat) (ms : List Member) (n : Nat)
    (ht : traverseObject data.toList = some (ms, n)) :
    match specField data.toList key ms none with
    | some r =>
      (runA Gen.HandleObjectValues.machine data (fieldFloatH key) hv stack #[] none).1.kind = .ok ∧
      (runA Gen.HandleObjectValues.machine data (fieldFloatH key) hv stack #[] none).1.p = (n : Int) ∧
      (runA Gen.HandleObjectValues.machine data (fieldFloatH key) hv stack #[] none).1.hs = r
    | none => ∃ id, (runA Gen.HandleObjectValues.machine data (fieldFloatH key) hv stack #[] none).1.kind = .herr id := by
  have hag := C07.handleObjectValues_spec (fieldFloatH key) (fieldFloatH_WB key) data hsm hv stack none
  rw [ht] at hag
  simp only [C07.Agrees] at hag
  have hrep := replay_fieldFloatH data.toList key ms none 0
  revert hrep
  cases specField data.toList key ms none with
  | some r =>
    intro hrep
    simp only [] at hrep ⊢
    rw [hrep] at hag
    exact ⟨hag.1, hag.2.1, hag.2.2.1⟩
  | none =>
    intro hrep
    simp only [] at hrep ⊢
    obtain ⟨id, hid⟩ := hrep
    rw [hid] at hag
    exact ⟨id, hag.1⟩

end RJson.C08
