import RJson.Proofs.TreeRead
/-!
# C03 — generic decoding returns the value tree of the text

`Tree.treeOf F text` (`Proofs/TreeSpec.lean`) is the value the first JSON value of `text` denotes, defined by
recursive descent over the *reference scanner* only (`F` bounds the nesting; any large enough `F` gives the same
tree, `Tree.treeOf_mono_le`):

* `"…"` ↦ `Spec.decodeString` of the bytes between the quotes; `true`/`false`/`null` ↦ themselves;
* `[…]` ↦ the trees of the members `Spec.traverseArray` finds, in document order;
* `{…}` ↦ the map built by assigning, in document order, each member of `Spec.traverseObject` under the decoding of
  its key (`Model.mapSet`: a later duplicate key replaces the earlier value, as a Go map assignment does);
* a number ↦ the float `ParseJSONFloatPrefix` (model `FP.parse`) makes of the literal — that this is the correctly
  rounded value is C04's business, not restated here.

What is proved, for every input shorter than 2^62 bytes, about the model of `ReadValue` / `ReadObject` /
`ReadArray` (the *regenerated* `HandleArrayValues` / `HandleObjectValues` tables driving the hand model of
`complex_readers.go`, at every nesting level):

* **whenever the call succeeds, the value it returns is exactly that tree** (`readValue_tree`, `readObject_tree`,
  `readArray_tree`) — together with `C03.read*_offset` (offset just after the value) and `C03.read*_type`.

Not proved: the converse (every well-formed value within the depth limit whose numbers fit is accepted), and the
relation to `encoding/json`; both are decided on samples by the correspondence run (`specTree`).
-/
namespace RJson.C03
open RJson.Ragel RJson.Spec RJson.Abs RJson.Model RJson.VR RJson.Tree

theorem readObject_tree (data : Bytes) (hsm : Small data) (he : (Model.readObject data).err = none)
    (hpk : (Model.readObject data).panicked = false) (F : Nat) (hF : Model.readerFuel data ≤ F) :
    treeOf F data.toList = some (Model.readObject data).val :=
  treeOf_mono_le _ F hF _ _ ((readers_tree (Model.readerFuel data) 1 data hsm).1 he hpk)

theorem readArray_tree (data : Bytes) (hsm : Small data) (he : (Model.readArray data).err = none)
    (hpk : (Model.readArray data).panicked = false) (F : Nat) (hF : Model.readerFuel data ≤ F) :
    treeOf F data.toList = some (Model.readArray data).val :=
  treeOf_mono_le _ F hF _ _ ((readers_tree (Model.readerFuel data) 1 data hsm).2 he hpk)

/-- `ReadValue`: the tree of the text from its first non-whitespace byte on -/
theorem readValue_tree (data : Bytes) (hsm : Small data) (he : (Model.readValue data).err = none)
    (hpk : (Model.readValue data).panicked = false) (F : Nat) (hF : Model.readerFuel data ≤ F) :
    treeOf F (skipWs data.toList) = some (Model.readValue data).val := by
  apply treeOf_mono_le _ F hF
  have hnt := C13.nextTokenType_spec data
  simp only [Model.readValue] at he hpk ⊢
  rw [hnt] at he hpk ⊢
  cases hs : Spec.nextTokenType data.toList with
  | none => rw [hs] at he; simp at he
  | some pr =>
    obtain ⟨tp, p⟩ := pr
    rw [hs] at he hpk
    simp only [] at he hpk ⊢
    simp only [Spec.nextTokenType] at hs
    have hwl := skipWs_length_le' data.toList
    cases hsk : skipWs data.toList with
    | nil => rw [hsk] at hs; cases hs
    | cons b t =>
      rw [hsk] at hs hwl
      injection hs with hs; injection hs with htp hp
      simp only [Array.length_toList, List.length_cons] at hp hwl
      have hk : p - 1 = data.size - (skipWs data.toList).length := by rw [hsk]; simp only [List.length_cons]; omega
      have hsub : (data.extract (p - 1) data.size).toList = b :: t := by
        rw [extract_toList, List.take_of_length_le (by simp), hk]
        have := C13Aux.drop_skipWs data.toList
        rw [hsk] at this ⊢
        simpa using this
      have hsmS := small_extract data hsm (p - 1) data.size
      have hws : isWs b = false := skipWs_cons_of _ b t hsk
      have hsk2 : skipWs (data.extract (p - 1) data.size).toList = b :: t := by
        rw [hsub]; exact C05.skipWs_of_not_ws b t hws
      rw [← hsub]
      by_cases h6 : (tp == 6) = true
      · simp only [h6, if_true] at he hpk ⊢
        have := (readers_tree (Model.readerFuel data) 1 _ hsmS).1 he hpk
        rw [this]
        simp [he]
      · simp only [h6, Bool.false_eq_true, if_false] at he hpk ⊢
        by_cases h8 : (tp == 8) = true
        · simp only [h8, if_true] at he hpk ⊢
          have := (readers_tree (Model.readerFuel data) 1 _ hsmS).2 he hpk
          rw [this]
          simp [he]
        · simp only [h8, Bool.false_eq_true, if_false] at he hpk ⊢
          rw [← htp] at he hpk ⊢
          have := readSimpleValue_tree (Model.readerFuel data) _ hsmS b t hsk2 he hpk
          rw [this]
          simp [he]

end RJson.C03
