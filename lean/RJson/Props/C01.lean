import RJson.Props.C02
import RJson.Proofs.Basic
/-!
# C01 — Valid accepts exactly the RFC 8259 documents

`valid_spec`: for every input (shorter than 2^62 bytes) and every buffer, the model of `Valid` — the
regenerated `skipValue` table run on the slice stack, followed by the hand model of the trailing-whitespace
test of rjson.go — returns exactly `Spec.validDoc skipMaxDepth`: one well-formed value surrounded by optional
whitespace, nested at most `skipMaxDepth` deep (the regenerated constant; `skipMaxDepth_value` pins it to 10 000).
It never panics and the verdict does not depend on the buffer.
-/
namespace RJson.C01
open RJson.Ragel RJson.Spec

theorem skipMaxDepth_value : Gen.skipMaxDepth = 10000 := by decide

/-- **C01** -/
theorem valid_spec (data : Bytes) (hsm : Small data) (stack : Array Nat) :
    (Model.valid data stack).1 = some (validDoc Gen.skipMaxDepth data.toList) := by
  have hrun := C02.skipValue_run data stack
  simp only [Model.valid]
  rw [hrun, Certs.SkipValue.run_eq]
  have key := Abs.abs_skip_scan data hsm noHandler #[] ()
  simp only [validDoc]
  generalize runL (Abs.machine .skip) data noHandler #[] () = res at key
  cases hsv : scanValue (some Gen.skipMaxDepth) (2 * data.toList.length + 2) 0 (skipWs data.toList) with
  | none =>
    rw [hsv] at key
    obtain ⟨e, hk⟩ := key
    simp [Model.validOf, Model.ofResult, hk]
  | some rest =>
    rw [hsv] at key
    obtain ⟨hk, p, hat, hp⟩ := key
    have hle := hat.le
    have hl := hat.length
    have hcw := countWsFrom_spec data data.size p hle (by omega)
    rw [hat.eq] at hcw
    have hnot : ¬ ((p : Int) > (data.size : Int)) := by omega
    have hwl := skipWs_length_le' rest
    simp only [Model.validOf, Model.ofResult, hk, hp, Bool.false_eq_true, if_false, Option.isSome_none, hnot,
      Int.toNat_natCast, hcw]
    congr 1
    clear hcw
    generalize skipWs rest = w at hwl ⊢
    cases w with
    | nil => simp
    | cons b t =>
      simp only [List.length_cons] at hwl ⊢
      simp only [List.isEmpty_cons, decide_eq_false_iff_not]
      omega

/-- the verdict does not depend on the buffer -/
theorem valid_buffer_irrelevant (data : Bytes) (stack₁ stack₂ : Array Nat) :
    (Model.valid data stack₁).1 = (Model.valid data stack₂).1 := by
  rw [C14.valid_buffer_irrelevant data stack₁, C14.valid_buffer_irrelevant data stack₂]

/-- non-vacuity: ` {"a":[1,2.5e-3,"xé"]} ` is a document; with a trailing comma, a leading zero or trailing garbage it is not -/
example : validDoc 10000 [32,123,34,97,34,58,91,49,44,50,46,53,101,45,51,44,34,120,92,117,48,48,101,57,34,93,125,32] = true := by decide +kernel
example : validDoc 10000 [91,49,44,93] = false := by decide +kernel
example : validDoc 10000 [48,49] = false := by decide +kernel
example : validDoc 10000 [91,93,32,120] = false := by decide +kernel

end RJson.C01
