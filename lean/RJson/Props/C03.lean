import RJson.Proofs.ValueReaderResume
/-!
# C03 (partial) — generic decoding: success only on a well-formed first value, offset just after it, containers only

What is proved about the hand model of `complex_readers.go` (`Model.readValue`, `readObject`, `readArray`, which
run the *regenerated* handler tables with the reader as its own handler, level by level):

* `readValue_offset`, `readObject_offset`, `readArray_offset`: whenever the call succeeds, the input's first value
  is well-formed for the reference scanner (no depth limit) and the reported offset is the index just after it;
* `readObject_type`, `readArray_type`: `ReadObject` / `ReadArray` succeed only when the first token is `{` / `[`
  (every other value type, `null` included, is rejected).

Not proved (decided by the specification comparison `specTree` of the correspondence run): that the returned tree
is the one `Spec.readValue` describes (strings decoded, numbers correctly rounded — C04 —, last duplicate key wins),
that every well-formed value within the depth limit whose numbers fit is accepted, and the relation to encoding/json.
-/
namespace RJson.C03
open RJson.Ragel RJson.Spec RJson.Abs RJson.Model RJson.VR

theorem readValue_offset (data : Bytes) (hsm : Small data) (he : (Model.readValue data).err = none)
    (hpk : (Model.readValue data).panicked = false) :
    ∃ n : Nat, valueEnd none data.toList = some n ∧ (Model.readValue data).p = (n : Int) :=
  readValue_resume data hsm he hpk

theorem readObject_offset (data : Bytes) (hsm : Small data) (he : (Model.readObject data).err = none)
    (hpk : (Model.readObject data).panicked = false) :
    ∃ n : Nat, valueEnd none data.toList = some n ∧ (Model.readObject data).p = (n : Int) :=
  readObject_resume data hsm he hpk

theorem readArray_offset (data : Bytes) (hsm : Small data) (he : (Model.readArray data).err = none)
    (hpk : (Model.readArray data).panicked = false) :
    ∃ n : Nat, valueEnd none data.toList = some n ∧ (Model.readArray data).p = (n : Int) :=
  readArray_resume data hsm he hpk

theorem firstIsNull_of (data : Bytes) (rest : List UInt8) (h : skipWs data.toList = 110 :: rest) : Model.firstIsNull data = true := by
  simp only [Model.firstIsNull, C13.nextTokenType_spec, Spec.nextTokenType, h]
  rfl

/-- a successful traversal of something that is not a container saw `null` and made no handler call -/
theorem null_no_calls {τ} (h : Handler τ) (data : List UInt8) (hs : τ) (res : Result τ)
    (ha : C07.Agrees h data hs res (match scanLit [110, 117, 108, 108] (skipWs data) with
        | some r => some ([], data.length - r.length)
        | none => none)) (hk : res.kind = .ok) :
    res.hs = hs ∧ ∃ rest, skipWs data = 110 :: rest := by
  cases hs' : scanLit [110, 117, 108, 108] (skipWs data) with
  | none => rw [hs'] at ha; exact absurd hk ha
  | some r =>
    rw [hs'] at ha
    simp only [C07.Agrees, replay] at ha
    obtain ⟨tl, htl⟩ := C13.scanLit_head hs'
    exact ⟨ha.2.2.1, tl, htl⟩

theorem objReader_type (prev : Readers) (hprev : LevelOK prev) (depth : Nat) (data : Bytes) (hsm : Small data)
    (he : (Model.objReader prev depth data).err = none) (hpk : (Model.objReader prev depth data).panicked = false) :
    ∃ rest, skipWs data.toList = 123 :: rest := by
  by_cases h123 : ∃ rest, skipWs data.toList = 123 :: rest
  · exact h123
  · exfalso
    have hne : ∀ rest, skipWs data.toList ≠ 123 :: rest := fun rest hh => h123 ⟨rest, hh⟩
    simp only [Model.objReader] at he hpk
    have hwb := objHandler_WB prev hprev depth
    have hag := C07.abs_object_spec _ hwb data hsm #[] ({} : ObjHS)
    rw [← Certs.HandleObjectValues.run_eq] at hag
    rw [C07.traverseObject_other _ hne] at hag
    have hst := run_herr_state Gen.HandleObjectValues.machine data (Model.objHandler prev depth) #[] {}
    cases hk : (runL Gen.HandleObjectValues.machine data (Model.objHandler prev depth) #[] {}).kind with
    | ok =>
      rw [hk] at he
      simp only [] at he
      obtain ⟨hhs, rest, hsk⟩ := null_no_calls _ _ _ _ hag hk
      have hfn := firstIsNull_of data rest hsk
      rw [hhs, hfn] at he
      simp at he
    | err e => rw [hk] at he; simp at he
    | herr id =>
      rw [hk] at he hpk
      simp only [] at he hpk
      obtain ⟨hs0, f, s0, hid, hhs⟩ := hst id hk
      rcases objHandler_cases prev depth hs0 f s0 with ⟨_, h1⟩ | ⟨h2, _⟩
      · rcases h1 with h1 | h1
        · rw [hhs] at he; exact h1 he
        · rw [hhs, h1] at hpk; cases hpk
      · rw [h2] at hid; cases hid
    | panic => rw [hk] at hpk; simp at hpk
    | fuel => rw [hk] at hpk; simp at hpk
    | badDepth => rw [hk] at hpk; simp at hpk

theorem arrReader_type (prev : Readers) (hprev : LevelOK prev) (depth : Nat) (data : Bytes) (hsm : Small data)
    (he : (Model.arrReader prev depth data).err = none) (hpk : (Model.arrReader prev depth data).panicked = false) :
    ∃ rest, skipWs data.toList = 91 :: rest := by
  by_cases h91 : ∃ rest, skipWs data.toList = 91 :: rest
  · exact h91
  · exfalso
    have hne : ∀ rest, skipWs data.toList ≠ 91 :: rest := fun rest hh => h91 ⟨rest, hh⟩
    simp only [Model.arrReader] at he hpk
    have hwb := arrHandler_WB prev hprev depth
    have hag := C07.abs_array_spec _ hwb data hsm #[] ({} : ArrHS)
    rw [← Certs.HandleArrayValues.run_eq] at hag
    rw [C07.traverseArray_other _ hne] at hag
    have hst := run_herr_state Gen.HandleArrayValues.machine data (Model.arrHandler prev depth) #[] {}
    cases hk : (runL Gen.HandleArrayValues.machine data (Model.arrHandler prev depth) #[] {}).kind with
    | ok =>
      rw [hk] at he
      simp only [] at he
      obtain ⟨hhs, rest, hsk⟩ := null_no_calls _ _ _ _ hag hk
      have hfn := firstIsNull_of data rest hsk
      rw [hhs, hfn] at he
      simp at he
    | err e => rw [hk] at he; simp at he
    | herr id =>
      rw [hk] at he hpk
      simp only [] at he hpk
      obtain ⟨hs0, f, s0, hid, hhs⟩ := hst id hk
      rcases arrHandler_err_state prev depth hs0 f s0 id hid with h1 | h1
      · rw [hhs] at he; exact h1 he
      · rw [hhs, h1] at hpk; cases hpk
    | panic => rw [hk] at hpk; simp at hpk
    | fuel => rw [hk] at hpk; simp at hpk
    | badDepth => rw [hk] at hpk; simp at hpk

theorem readObject_type (data : Bytes) (hsm : Small data) (he : (Model.readObject data).err = none)
    (hpk : (Model.readObject data).panicked = false) : ∃ rest, skipWs data.toList = 123 :: rest :=
  objReader_type _ (readers_levelOK _) 1 data hsm he hpk

theorem readArray_type (data : Bytes) (hsm : Small data) (he : (Model.readArray data).err = none)
    (hpk : (Model.readArray data).panicked = false) : ∃ rest, skipWs data.toList = 91 :: rest :=
  arrReader_type _ (readers_levelOK _) 1 data hsm he hpk

end RJson.C03
