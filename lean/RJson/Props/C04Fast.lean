import RJson.Proofs.ParseFast
import RJson.Model.ValueReader
/-!
# C04 — number-to-float64 conversion: every fast-path answer is correctly rounded

For **every** input whose head is a JSON number literal (`Spec.scanNumber`; any number of digits, any exponent, any
bytes after the literal) and the hand model of `internal/fp` over the *regenerated* tables:

* `parse_accepts_number`: `readFloat` accepts the literal and `ParseJSONFloatPrefix` reports the literal's
  (non-zero) length, so never the syntax error (which reports length 0): completeness of the syntax side; the
  converse is `FloatSyntax.parse_ok_syntax`;
* `parse_fast_correct`: whenever the answer comes from the exact path (`atof64exact`), from Eisel-Lemire, or from
  Eisel-Lemire on a truncated mantissa with the `mantissa + 1` double check, there is no error and the bits are
  `Spec.roundDec` of the literal's exact value `Spec.numberValue` — the float nearest to the exact decimal value with
  ties to even, sign of zero kept (what `Spec.readFloat`, the oracle of the correspondence run, specifies);
* `readFloat64_fast_correct`: the same for `ReadFloat64` with its leading whitespace and end offset.

Behind it: `EL.eisel_correct` (Eisel-Lemire is correctly rounded for all 2^64 mantissas and all 696 exponents
whenever it answers; uses `C04.el_row_exact`, the kernel-decided exactness of every table row), `Exact.atof64exact_correct`
(exact powers of ten `C04.float64pow10_exact`, one correct rounding), `RoundMono.roundRat_sandwich` (monotonicity of
rounding, for the truncated case), `FloatValue.readFloat_shape` (mantissa / exponent / truncation flag of every literal).

Not proved: the multiprecision slow path (`decimal.set`, shifts with `leftcheats`, `floatBits`), taken only when all
fast paths decline (halfway cases, some >19-digit literals, exponents outside the table, subnormal results); it is
covered by the tables' exactness (`C04Tables`) and the specification comparison of the correspondence run.
-/
namespace RJson.C04
open RJson.Spec RJson.FP RJson.NumShape RJson.Abs RJson.Ragel

/-- every JSON number is accepted by `readFloat`; `ParseJSONFloatPrefix` reports its length and no syntax error -/
theorem parse_accepts_number (data : Bytes) (rest : List UInt8) (hscan : scanNumber data.toList = some rest) :
    (readFloat data).ok = true ∧ (readFloat data).p = data.size - rest.length ∧
      (parse data).n = data.size - rest.length ∧ 0 < data.size - rest.length := by
  obtain ⟨neg, ip, fp, ec, sg, eds, hs⟩ := shape_of_scan _ _ hscan
  obtain ⟨hok, hp, _, _, _, _⟩ := ParseFast.readFloat_fields data neg ip fp ec sg eds rest hs
  obtain ⟨hpos, hlast⟩ := ParseFast.last_is_digit data neg ip fp ec sg eds rest hs
  refine ⟨hok, hp, ?_, hpos⟩
  have htd : (decide (data.size - rest.length > 0) && data[data.size - rest.length - 1]! == 46) = false := by
    have : (data[data.size - rest.length - 1]! == 46) = false := by
      apply beq_eq_false_iff_ne.mpr
      intro h46; rw [h46] at hlast; exact absurd hlast (by decide)
    rw [this, Bool.and_false]
  simp only [parse, hok, Bool.not_true, Bool.false_eq_true, if_false, hp, htd]
  split
  · rfl
  · split
    · rfl
    · split
      · rfl
      · split
        · rfl
        · split <;> rfl

/-- **fast-path answers are the correctly rounded value of the literal** -/
theorem parse_fast_correct (data : Bytes) (rest : List UInt8) (hscan : scanNumber data.toList = some rest)
    (hpath : (parse data).path = .exact ∨ (parse data).path = .eisel ∨ (parse data).path = .eiselTrunc) :
    (parse data).err = false ∧ (parse data).n = data.size - rest.length ∧
      roundDec (numberValue (data.toList.take (data.toList.length - rest.length))).1
        (numberValue (data.toList.take (data.toList.length - rest.length))).2.1
        (numberValue (data.toList.take (data.toList.length - rest.length))).2.2 = ((parse data).bits, false) := by
  obtain ⟨neg, ip, fp, ec, sg, eds, hs⟩ := shape_of_scan _ _ hscan
  rw [numberValue_shape hs]
  exact ParseFast.parse_fast data neg ip fp ec sg eds rest hs hpath

/-- **`ReadFloat64`**: leading whitespace, then the literal; on the fast paths the result is what `Spec.readFloat` specifies -/
theorem readFloat64_fast_correct (data : Bytes) (rest : List UInt8) (hscan : scanNumber (skipWs data.toList) = some rest)
    (hpath : (parse (data.extract (countWhitespace data) data.size)).path = .exact ∨
      (parse (data.extract (countWhitespace data) data.size)).path = .eisel ∨
      (parse (data.extract (countWhitespace data) data.size)).path = .eiselTrunc) :
    (Model.readFloat64 data).err = none ∧ (Model.readFloat64 data).panicked = false ∧
      (Model.readFloat64 data).p = ((data.size - rest.length : ℕ) : ℤ) ∧
      Spec.readFloat data.toList = some ((Model.readFloat64 data).val, data.size - rest.length) := by
  have hcw := countWhitespace_spec data
  have hwl := skipWs_length_le' data.toList
  simp only [Array.length_toList] at hwl
  have hsub : (data.extract (countWhitespace data) data.size).toList = skipWs data.toList := by
    rw [extract_toList, List.take_of_length_le (by simp), hcw]
    have := C13Aux.drop_skipWs data.toList
    simpa using this
  have hsz : (data.extract (countWhitespace data) data.size).size = (skipWs data.toList).length := by
    have := congrArg List.length hsub
    simpa using this
  rw [← hsub] at hscan
  obtain ⟨he, hn, hv⟩ := parse_fast_correct _ rest hscan hpath
  obtain ⟨_, _, _, hpos⟩ := parse_accepts_number _ rest hscan
  rw [hsz] at hn hpos
  have hrl : rest.length < (skipWs data.toList).length := by omega
  -- the model
  have hne : (countWhitespace data == data.size) = false := by
    rw [hcw]; simp; omega
  have hpanic : ((parse (data.extract (countWhitespace data) data.size)).path == Path.panic) = false := by
    rcases hpath with h | h | h <;> rw [h] <;> rfl
  simp only [Model.readFloat64, hne, Bool.false_eq_true, if_false, he, hpanic, hn]
  refine ⟨trivial, trivial, ?_, ?_⟩
  · rw [hcw]; congr 1; omega
  · -- the specification
    rw [hsub] at hscan hv
    simp only [Spec.readFloat, hscan]
    generalize hnv : numberValue ((skipWs data.toList).take ((skipWs data.toList).length - rest.length)) = nv at hv ⊢
    obtain ⟨ng, m, e⟩ := nv
    simp only [] at hv ⊢
    rw [hv]
    simp

end RJson.C04
