import RJson.Props.C17Idem
/-!
# C17 — the fuel of `stdTreeF` does not matter once it covers the nesting

The Go helpers recurse without a bound; the model takes a fuel. `Covers f v`: `v` is nested less than `f` deep. Then every
larger fuel gives the same tree (`stdTreeF_fuel_succ`, `stdTreeF_fuel_le`), so the driver's choice of fuel (above the nesting
of the tree at hand) is immaterial, and the theorems above, stated per fuel, speak about the one function the code computes.
-/
namespace RJson.C17
open RJson.Model RJson.Spec

/-- `v` is nested less than `f` levels deep -/
def Covers : Nat → Model.JVal → Prop
  | 0, _ => False
  | f+1, .arr xs => ∀ x ∈ xs, Covers f x
  | f+1, .obj kvs => ∀ kv ∈ kvs, Covers f kv.2
  | _+1, _ => True

theorem foldl_congr_mem {α β} (g h : β → α → β) : ∀ (l : List α) (b : β),
    (∀ acc, ∀ a ∈ l, g acc a = h acc a) → l.foldl g b = l.foldl h b := by
  intro l
  induction l with
  | nil => intro b _; rfl
  | cons a rest ih =>
    intro b hgh
    simp only [List.foldl_cons]
    rw [hgh b a (by simp)]
    exact ih _ (fun acc x hx => hgh acc x (by simp [hx]))

theorem stdTreeF_fuel_succ : ∀ (f : Nat) (v : Model.JVal), Covers f v → stdTreeF (f + 1) v = stdTreeF f v := by
  intro f
  induction f with
  | zero => intro v h; exact absurd h (by simp [Covers])
  | succ f ih =>
    intro v h
    cases v with
    | arr xs =>
      simp only [Covers] at h
      simp only [stdTreeF]
      congr 1
      apply Array.map_congr_left
      intro x hx
      exact ih x (h x hx)
    | obj kvs =>
      simp only [Covers] at h
      simp only [stdTreeF]
      congr 1
      rw [← Array.foldl_toList, ← Array.foldl_toList]
      apply foldl_congr_mem
      intro acc kv hkv
      rw [ih kv.2 (h kv (by simpa using hkv))]
    | str s => rfl
    | null => rfl
    | bool b => rfl
    | num n => rfl

theorem covers_succ : ∀ (f : Nat) (v : Model.JVal), Covers f v → Covers (f + 1) v := by
  intro f
  induction f with
  | zero => intro v h; exact absurd h (by simp [Covers])
  | succ f ih =>
    intro v h
    cases v with
    | arr xs => simp only [Covers] at h ⊢; exact fun x hx => ih x (h x hx)
    | obj kvs => simp only [Covers] at h ⊢; exact fun kv hkv => ih kv.2 (h kv hkv)
    | str s => trivial
    | null => trivial
    | bool b => trivial
    | num n => trivial

/-- any fuel above the nesting gives the same tree -/
theorem stdTreeF_fuel_le (f : Nat) (v : Model.JVal) (h : Covers f v) : ∀ d, stdTreeF (f + d) v = stdTreeF f v := by
  intro d
  induction d generalizing f with
  | zero => rfl
  | succ d ih =>
    rw [show f + (d + 1) = (f + 1) + d by omega, ih (f + 1) (covers_succ f v h), stdTreeF_fuel_succ f v h]

/-- non-vacuity: `[{"k":["x"]}]` is covered by fuel 4 -/
example : Covers 4 (.arr #[.obj #[(#[107], .arr #[.str #[120]])]]) := by
  simp [Covers]

end RJson.C17
