import RJson.Props.C17Fuel
/-!
# C17 — objects whose keys stay distinct: every key and every value replaced, order kept

`stdTreeF_obj_distinct`: when the sanitised keys of an object are pairwise distinct (no collision — the case the property
speaks about), the map helper returns the object with `stdLibCompatibleString` applied to every key and the helper applied to
every value, in the same order (`rebuild_map`, the general form of `rebuild_id`). `stdTreeF_obj_valid_keys`: in particular
when the keys are distinct and valid UTF-8 they are kept as they are and only the values change.
-/
namespace RJson.C17
open RJson.Model RJson.Spec

theorem rebuild_map (g : Bytes → Bytes) (hf : Model.JVal → Model.JVal) :
    ∀ (l : List (Bytes × Model.JVal)) (acc : Array (Bytes × Model.JVal)),
      l.Pairwise (fun a b => g a.1 ≠ g b.1) → (∀ a ∈ acc, ∀ b ∈ l, a.1 ≠ g b.1) →
      l.foldl (fun acc kv => mapSet acc (g kv.1) (hf kv.2)) acc
        = acc ++ (l.map (fun kv => (g kv.1, hf kv.2))).toArray := by
  intro l
  induction l with
  | nil => intro acc _ _; simp
  | cons kv rest ih =>
    intro acc hd hacc
    simp only [List.foldl_cons]
    rw [mapSet_fresh acc (g kv.1) (hf kv.2) (fun a ha => hacc a ha kv (by simp))]
    rw [List.pairwise_cons] at hd
    rw [ih (acc.push (g kv.1, hf kv.2)) hd.2]
    · simp
    · intro a ha b hb
      rw [Array.mem_push] at ha
      rcases ha with ha | ha
      · exact hacc a ha b (by simp [hb])
      · subst ha; exact hd.1 b hb

/-- no collision: every key sanitised, every value processed, order kept -/
theorem stdTreeF_obj_distinct (f : Nat) (kvs : Array (Bytes × Model.JVal))
    (hd : kvs.toList.Pairwise (fun a b => stdLibCompatibleString a.1 ≠ stdLibCompatibleString b.1)) :
    stdTreeF (f + 1) (.obj kvs) = .obj (kvs.map (fun kv => (stdLibCompatibleString kv.1, stdTreeF f kv.2))) := by
  simp only [stdTreeF]
  congr 1
  rw [← Array.foldl_toList, rebuild_map stdLibCompatibleString (stdTreeF f) kvs.toList #[] hd (by simp)]
  apply Array.ext'
  simp

/-- distinct keys that are valid UTF-8 are kept; only the values change -/
theorem stdTreeF_obj_valid_keys (f : Nat) (kvs : Array (Bytes × Model.JVal))
    (hd : kvs.toList.Pairwise (fun a b => a.1 ≠ b.1))
    (hv : ∀ kv ∈ kvs, utf8Valid (kv.1.toList.length + 1) kv.1.toList = true) :
    stdTreeF (f + 1) (.obj kvs) = .obj (kvs.map (fun kv => (kv.1, stdTreeF f kv.2))) := by
  rw [stdTreeF_obj_distinct]
  · congr 1
    apply Array.map_congr_left
    intro kv hkv
    rw [stdString_valid kv.1 (hv kv hkv)]
  · refine hd.imp_of_mem ?_
    intro a b ha hb hab
    rw [stdString_valid a.1 (hv a (by simpa using ha)), stdString_valid b.1 (hv b (by simpa using hb))]
    exact hab

/-- non-vacuity: `{"a\xff":"\xfe","b":1}` — the keys stay distinct -/
example : stdTreeF 2 (.obj #[(#[97, 0xff], .str #[0xfe]), (#[98], .null)])
    = .obj #[(#[97, 0xef, 0xbf, 0xbd], .str #[0xef, 0xbf, 0xbd]), (#[98], .null)] := by
  have h1 : stdLibCompatibleString #[97, 0xff] = #[97, 0xef, 0xbf, 0xbd] := by decide +kernel
  have h2 : stdLibCompatibleString #[98] = #[98] := by decide +kernel
  have h3 : stdLibCompatibleString #[0xfe] = #[0xef, 0xbf, 0xbd] := by decide +kernel
  rw [stdTreeF_obj_distinct]
  · simp [h1, h2, h3, stdTreeF]
  · simp [h1, h2]

end RJson.C17
