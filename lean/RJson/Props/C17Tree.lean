import RJson.Props.C17
import RJson.Model.ValueReader
/-!
# C17 — the slice / map helpers: the string helper at every string and key

`Model.stdTreeF` is the model of `StdLibCompatibleSlice` / `StdLibCompatibleMap` on value trees (tied to the code by the
correspondence run: `ReadValue` followed by the helper, on documents with ill-formed bytes in strings and keys at every
depth). About the model:

* it applies `stdLibCompatibleString` — by `C17.stdLibCompatibleString_spec` the specification `Spec.sanitizeAll` — to every
  string value (`stdTreeF_str`), maps over arrays (`stdTreeF_arr`) and rebuilds objects by assignment under the replaced
  keys (`stdTreeF_obj`), leaving `null`, booleans and numbers alone (`stdTreeF_scalar`);
* an array of strings becomes the array of sanitised strings (`stdTreeF_strings`), each of them unchanged by a second
  application (`stdString_idem`) and unchanged altogether when it was valid UTF-8 (`stdString_valid`).

Which of two colliding keys survives is Go's map iteration order and outside the model (`stdCollides` detects the case;
the property excludes it).
-/
namespace RJson.C17
open RJson.Model RJson.Spec

theorem stdTreeF_str (f : Nat) (s : Bytes) : stdTreeF (f + 1) (.str s) = .str (stdLibCompatibleString s) := rfl

theorem stdTreeF_arr (f : Nat) (xs : Array Model.JVal) : stdTreeF (f + 1) (.arr xs) = .arr (xs.map (stdTreeF f)) := rfl

theorem stdTreeF_obj (f : Nat) (kvs : Array (Bytes × Model.JVal)) :
    stdTreeF (f + 1) (.obj kvs) =
      .obj (kvs.foldl (fun acc kv => mapSet acc (stdLibCompatibleString kv.1) (stdTreeF f kv.2)) #[]) := rfl

theorem stdTreeF_scalar (f : Nat) :
    stdTreeF f .null = .null ∧ (∀ b, stdTreeF f (.bool b) = .bool b) ∧ (∀ n, stdTreeF f (.num n) = .num n) := by
  cases f <;> exact ⟨rfl, fun _ => rfl, fun _ => rfl⟩

/-- the string helper is idempotent -/
theorem stdString_idem (s : Bytes) : stdLibCompatibleString (stdLibCompatibleString s) = stdLibCompatibleString s := by
  rw [stdLibCompatibleString_spec, stdLibCompatibleString_spec]
  simp only [List.toList_toArray]
  rw [sanitizeAll_idem]

/-- ... and the identity on valid UTF-8 -/
theorem stdString_valid (s : Bytes) (h : utf8Valid (s.toList.length + 1) s.toList = true) : stdLibCompatibleString s = s := by
  rw [stdLibCompatibleString_spec, sanitizeAll_valid _ h]

/-- an array of strings: every element sanitised, nothing else changed -/
theorem stdTreeF_strings (f : Nat) (ss : Array Bytes) :
    stdTreeF (f + 2) (.arr (ss.map .str)) = .arr (ss.map (fun s => .str (stdLibCompatibleString s))) := by
  rw [stdTreeF_arr]
  congr 1
  rw [Array.map_map]
  rfl

/-- a second application changes nothing on an array of strings -/
theorem stdTreeF_strings_idem (f : Nat) (ss : Array Bytes) :
    stdTreeF (f + 2) (stdTreeF (f + 2) (.arr (ss.map .str))) = stdTreeF (f + 2) (.arr (ss.map .str)) := by
  rw [stdTreeF_strings]
  have : (ss.map (fun s => Model.JVal.str (stdLibCompatibleString s))) = (ss.map stdLibCompatibleString).map .str := by
    rw [Array.map_map]; rfl
  rw [this, stdTreeF_strings]
  simp [Array.map_map, Function.comp, stdString_idem]

/-- non-vacuity: `["x\xffy"]` -/
example : stdTreeF 2 (.arr (#[#[120, 0xff, 121]].map .str)) = .arr #[.str #[120, 0xef, 0xbf, 0xbd, 121]] := by
  rw [stdTreeF_strings]
  have : stdLibCompatibleString #[120, 0xff, 121] = #[120, 0xef, 0xbf, 0xbd, 121] := by decide +kernel
  simp [this]

end RJson.C17
