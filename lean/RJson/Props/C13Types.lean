import RJson.Props.C05
import RJson.Props.C06
import RJson.Props.C07
import RJson.Props.C13Literals
/-!
# C13 (type exclusivity) — a typed reader only succeeds on a token of its own type

From the specification theorems of the readers: whenever the specification of a reader yields a value, the first
non-whitespace byte has the reader's token type in `Spec.tokenType` (which is the regenerated `tokenTypes` table,
C13 `token_table_exact`). Integer readers (C05) need a number token, string readers (C06) a string token, handler
traversals (C07) an array / object token or `null`. The literal readers are in `C13Literals`.
-/
namespace RJson.C13Types
open RJson.Spec

theorem uintToken_head (l : List UInt8) (v : Nat) (rest : List UInt8) (h : uintToken l = some (v, rest)) :
    ∃ b t, l = b :: t ∧ isDigit b = true := by
  cases l with
  | nil => simp [uintToken, uintDigitsOf] at h
  | cons b t =>
    refine ⟨b, t, rfl, ?_⟩
    simp only [uintToken] at h
    by_cases hb : b = 48
    · subst hb; decide
    · by_cases h19 : (49 ≤ b && b ≤ 57) = true
      · simp only [Bool.and_eq_true, decide_eq_true_eq] at h19
        simp only [isDigit, Bool.and_eq_true, decide_eq_true_eq]
        refine ⟨?_, h19.2⟩
        have := h19.1
        rw [UInt8.le_iff_toNat_le] at this ⊢
        have e1 : (49 : UInt8).toNat = 49 := rfl
        have e2 : (48 : UInt8).toNat = 48 := rfl
        omega
      · have hd : uintDigitsOf (b :: t) = [] := by
          simp only [uintDigitsOf]
          split <;> simp_all
        simp [hd] at h

/-- an integer literal starts with `-` or a digit: a number token -/
theorem readInt_type (lo hi : Int) (signed : Bool) (data : List UInt8) (v : Int) (n : Nat)
    (h : Spec.readInt lo hi signed data = some (v, n)) : ∃ p, Spec.nextTokenType data = some (3, p) := by
  simp only [Spec.readInt] at h
  cases hi' : intToken (skipWs data) with
  | none => rw [hi'] at h; cases h
  | some tr =>
    obtain ⟨v', neg, rest⟩ := tr
    have hhead : ∃ b t, skipWs data = b :: t ∧ (b == 45 || isDigit b) = true := by
      simp only [intToken] at hi'
      split at hi'
      · next t heq => exact ⟨45, t, heq, by decide⟩
      · next l' _ =>
        cases hu : uintToken (skipWs data) with
        | none => rw [hu] at hi'; cases hi'
        | some pr =>
          obtain ⟨b, t, hl, hd⟩ := uintToken_head _ pr.1 pr.2 hu
          exact ⟨b, t, hl, by simp [hd]⟩
    obtain ⟨b, t, hl, hb⟩ := hhead
    refine ⟨data.length - t.length, ?_⟩
    simp only [Spec.nextTokenType, hl, Spec.tokenType, hb, if_true]
    have h1 : (b == 110) = false := by
      rcases Bool.or_eq_true _ _ |>.mp hb with h | h
      · have : b = 45 := by simpa using h
        subst this; decide
      · by_cases hh : b = 110
        · subst hh; exact absurd h (by decide)
        · simpa using hh
    have h2 : (b == 34) = false := by
      rcases Bool.or_eq_true _ _ |>.mp hb with h | h
      · have : b = 45 := by simpa using h
        subst this; decide
      · by_cases hh : b = 34
        · subst hh; exact absurd h (by decide)
        · simpa using hh
    simp [h1, h2]

/-- a string token starts with a quote -/
theorem readString_type (data : List UInt8) (c : List UInt8) (n : Nat) (h : Spec.readString data = some (c, n)) :
    ∃ p, Spec.nextTokenType data = some (2, p) := by
  cases hsk : skipWs data with
  | nil => rw [StrRead.readString_other data (by intro l hh; rw [hsk] at hh; cases hh)] at h; cases h
  | cons b t =>
    by_cases hb : b = 34
    · subst hb
      exact ⟨data.length - t.length, by simp [Spec.nextTokenType, hsk, Spec.tokenType]⟩
    · rw [StrRead.readString_other data (by intro l hh; rw [hsk] at hh; injection hh with h1 _; exact hb h1)] at h
      cases h

/-- the model of `ReadString` only succeeds on a string token -/
theorem model_readString_type (data : Bytes) (hsm : Ragel.Small data) (hok : (Model.readString data).err = none) :
    ∃ p, Spec.nextTokenType data.toList = some (2, p) := by
  have key := C06.readString_spec data hsm
  cases hr : Spec.readString data.toList with
  | none => rw [hr] at key; exact absurd hok key.1
  | some pr => exact readString_type _ pr.1 pr.2 (by rw [hr])

/-- an array traversal only succeeds on `[` or `null` -/
theorem traverseArray_type (data : List UInt8) (ms : List Member) (n : Nat) (h : traverseArray data = some (ms, n)) :
    ∃ t p, (t = 8 ∨ t = 1) ∧ Spec.nextTokenType data = some (t, p) := by
  by_cases h91 : ∃ rest, skipWs data = 91 :: rest
  · obtain ⟨rest, hsk⟩ := h91
    exact ⟨8, data.length - rest.length, .inl rfl, by simp [Spec.nextTokenType, hsk, Spec.tokenType, isDigit]⟩
  · have hne : ∀ rest, skipWs data ≠ 91 :: rest := fun rest hh => h91 ⟨rest, hh⟩
    rw [C07.traverseArray_other _ hne] at h
    cases hs : scanLit [110, 117, 108, 108] (skipWs data) with
    | none => rw [hs] at h; cases h
    | some r =>
      obtain ⟨tl, htl⟩ := C13.scanLit_head hs
      exact ⟨1, data.length - tl.length, .inr rfl, by simp [Spec.nextTokenType, htl, Spec.tokenType]⟩

/-- an object traversal only succeeds on `{` or `null` -/
theorem traverseObject_type (data : List UInt8) (ms : List Member) (n : Nat) (h : traverseObject data = some (ms, n)) :
    ∃ t p, (t = 6 ∨ t = 1) ∧ Spec.nextTokenType data = some (t, p) := by
  by_cases h123 : ∃ rest, skipWs data = 123 :: rest
  · obtain ⟨rest, hsk⟩ := h123
    exact ⟨6, data.length - rest.length, .inl rfl, by simp [Spec.nextTokenType, hsk, Spec.tokenType, isDigit]⟩
  · have hne : ∀ rest, skipWs data ≠ 123 :: rest := fun rest hh => h123 ⟨rest, hh⟩
    rw [C07.traverseObject_other _ hne] at h
    cases hs : scanLit [110, 117, 108, 108] (skipWs data) with
    | none => rw [hs] at h; cases h
    | some r =>
      obtain ⟨tl, htl⟩ := C13.scanLit_head hs
      exact ⟨1, data.length - tl.length, .inr rfl, by simp [Spec.nextTokenType, htl, Spec.tokenType]⟩

end RJson.C13Types
