import RJson.Proofs.Sim
import RJson.Certs.SkipValueFast.Chunk0
import RJson.Certs.SkipValueFast.Chunk1
import RJson.Certs.SkipValueFast.Chunk2
import RJson.Certs.SkipValueFast.Chunk3
import RJson.Certs.SkipValueFast.Chunk4
import RJson.Certs.SkipValueFast.Chunk5
import RJson.Certs.SkipValueFast.Chunk6
/-! GENERATED: assembles the chunk certificates of skipValueFast into `checkSim` and applies `sim_sound`. -/
namespace RJson.Certs.SkipValueFast
open RJson.Ragel

theorem start_ok : ((Gen.SkipValueFastLabels.labels Gen.SkipValueFast.machine.start).contains (Abs.machine .fast).start && (Gen.SkipValueFast.machine.maxDepth == (Abs.machine .fast).maxDepth) && (Gen.SkipValueFast.machine.hasField == (Abs.machine .fast).hasField)) = true := by
  decide +kernel

theorem states_ok : ∀ s, s < Gen.SkipValueFast.nstates → checkState Gen.SkipValueFast.machine (Abs.machine .fast) Gen.SkipValueFastLabels.labels s = true := by
  intro s hs
  by_cases h0 : s < 12
  · exact checkRange_spec chunk0 s (by omega) (by omega)
  by_cases h1 : s < 24
  · exact checkRange_spec chunk1 s (by omega) (by omega)
  by_cases h2 : s < 36
  · exact checkRange_spec chunk2 s (by omega) (by omega)
  by_cases h3 : s < 48
  · exact checkRange_spec chunk3 s (by omega) (by omega)
  by_cases h4 : s < 60
  · exact checkRange_spec chunk4 s (by omega) (by omega)
  by_cases h5 : s < 72
  · exact checkRange_spec chunk5 s (by omega) (by omega)
  exact checkRange_spec chunk6 s (by omega) (by simp [Gen.SkipValueFast.nstates] at hs; omega)

theorem sim : checkSim Gen.SkipValueFast.nstates Gen.SkipValueFast.machine (Abs.machine .fast) Gen.SkipValueFastLabels.labels = true :=
  checkSim_of_parts start_ok states_ok

/-- the generated machine and the abstract machine are indistinguishable for the interpreter -/
theorem run_eq {τ : Type} (data : Bytes) (h : Handler τ) (dst : Bytes) (hs : τ) :
    runL Gen.SkipValueFast.machine data h dst hs = runL (Abs.machine .fast) data h dst hs :=
  sim_sound Gen.SkipValueFast.nstates _ _ _ Gen.SkipValueFastLabels.labels_bound sim data h dst hs

end RJson.Certs.SkipValueFast
