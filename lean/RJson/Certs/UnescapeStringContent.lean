import RJson.Proofs.Sim
import RJson.Certs.UnescapeStringContent.Chunk0
import RJson.Certs.UnescapeStringContent.Chunk1
/-! GENERATED: assembles the chunk certificates of unescapeStringContent into `checkSim` and applies `sim_sound`. -/
namespace RJson.Certs.UnescapeStringContent
open RJson.Ragel

theorem start_ok : ((Gen.UnescapeStringContentLabels.labels Gen.UnescapeStringContent.machine.start).contains (AbsSmall.smachine .unescape).start && (Gen.UnescapeStringContent.machine.maxDepth == (AbsSmall.smachine .unescape).maxDepth) && (Gen.UnescapeStringContent.machine.hasField == (AbsSmall.smachine .unescape).hasField)) = true := by
  decide +kernel

theorem states_ok : ∀ s, s < Gen.UnescapeStringContent.nstates → checkState Gen.UnescapeStringContent.machine (AbsSmall.smachine .unescape) Gen.UnescapeStringContentLabels.labels s = true := by
  intro s hs
  by_cases h0 : s < 12
  · exact checkRange_spec chunk0 s (by omega) (by omega)
  exact checkRange_spec chunk1 s (by omega) (by simp [Gen.UnescapeStringContent.nstates] at hs; omega)

theorem sim : checkSim Gen.UnescapeStringContent.nstates Gen.UnescapeStringContent.machine (AbsSmall.smachine .unescape) Gen.UnescapeStringContentLabels.labels = true :=
  checkSim_of_parts start_ok states_ok

/-- the generated machine and the abstract machine are indistinguishable for the interpreter -/
theorem run_eq {τ : Type} (data : Bytes) (h : Handler τ) (dst : Bytes) (hs : τ) :
    runL Gen.UnescapeStringContent.machine data h dst hs = runL (AbsSmall.smachine .unescape) data h dst hs :=
  sim_sound Gen.UnescapeStringContent.nstates _ _ _ Gen.UnescapeStringContentLabels.labels_bound sim data h dst hs

end RJson.Certs.UnescapeStringContent
