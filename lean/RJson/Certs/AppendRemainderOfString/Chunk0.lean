import RJson.Proofs.Sim
import RJson.Gen.AppendRemainderOfString
import RJson.Gen.AppendRemainderOfStringLabels
/-! GENERATED certificate chunk: generated states [0, 12) of appendRemainderOfString against the abstract machine -/
namespace RJson.Certs.AppendRemainderOfString
open RJson.Ragel

set_option maxRecDepth 100000 in
theorem chunk0 : checkRange (checkState Gen.AppendRemainderOfString.machine (AbsSmall.smachine .append) Gen.AppendRemainderOfStringLabels.labels) 0 12 = true := by
  decide +kernel

end RJson.Certs.AppendRemainderOfString
