import RJson.Proofs.Sim
import RJson.Gen.AppendRemainderOfString
import RJson.Gen.AppendRemainderOfStringLabels
/-! GENERATED certificate chunk: generated states [12, 18) of appendRemainderOfString against the abstract machine -/
namespace RJson.Certs.AppendRemainderOfString
open RJson.Ragel

set_option maxRecDepth 100000 in
theorem chunk1 : checkRange (checkState Gen.AppendRemainderOfString.machine (AbsSmall.smachine .append) Gen.AppendRemainderOfStringLabels.labels) 12 6 = true := by
  decide +kernel

end RJson.Certs.AppendRemainderOfString
