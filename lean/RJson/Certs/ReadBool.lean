import RJson.Proofs.Sim
import RJson.Certs.ReadBool.Chunk0
/-! GENERATED: assembles the chunk certificates of readBool into `checkSim` and applies `sim_sound`. -/
namespace RJson.Certs.ReadBool
open RJson.Ragel

theorem start_ok : ((Gen.ReadBoolLabels.labels Gen.ReadBool.machine.start).contains (AbsSmall.lmachine .bool).start && (Gen.ReadBool.machine.maxDepth == (AbsSmall.lmachine .bool).maxDepth) && (Gen.ReadBool.machine.hasField == (AbsSmall.lmachine .bool).hasField)) = true := by
  decide +kernel

theorem states_ok : ∀ s, s < Gen.ReadBool.nstates → checkState Gen.ReadBool.machine (AbsSmall.lmachine .bool) Gen.ReadBoolLabels.labels s = true := by
  intro s hs
  exact checkRange_spec chunk0 s (by omega) (by simp [Gen.ReadBool.nstates] at hs; omega)

theorem sim : checkSim Gen.ReadBool.nstates Gen.ReadBool.machine (AbsSmall.lmachine .bool) Gen.ReadBoolLabels.labels = true :=
  checkSim_of_parts start_ok states_ok

/-- the generated machine and the abstract machine are indistinguishable for the interpreter -/
theorem run_eq {τ : Type} (data : Bytes) (h : Handler τ) (dst : Bytes) (hs : τ) :
    runL Gen.ReadBool.machine data h dst hs = runL (AbsSmall.lmachine .bool) data h dst hs :=
  sim_sound Gen.ReadBool.nstates _ _ _ Gen.ReadBoolLabels.labels_bound sim data h dst hs

end RJson.Certs.ReadBool
