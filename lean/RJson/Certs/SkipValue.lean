import RJson.Proofs.Sim
import RJson.Certs.SkipValue.Chunk0
import RJson.Certs.SkipValue.Chunk1
import RJson.Certs.SkipValue.Chunk2
import RJson.Certs.SkipValue.Chunk3
import RJson.Certs.SkipValue.Chunk4
import RJson.Certs.SkipValue.Chunk5
import RJson.Certs.SkipValue.Chunk6
import RJson.Certs.SkipValue.Chunk7
import RJson.Certs.SkipValue.Chunk8
import RJson.Certs.SkipValue.Chunk9
import RJson.Certs.SkipValue.Chunk10
import RJson.Certs.SkipValue.Chunk11
import RJson.Certs.SkipValue.Chunk12
import RJson.Certs.SkipValue.Chunk13
import RJson.Certs.SkipValue.Chunk14
import RJson.Certs.SkipValue.Chunk15
import RJson.Certs.SkipValue.Chunk16
/-! GENERATED: assembles the chunk certificates of skipValue into `checkSim` and applies `sim_sound`. -/
namespace RJson.Certs.SkipValue
open RJson.Ragel

theorem start_ok : ((Gen.SkipValueLabels.labels Gen.SkipValue.machine.start).contains (Abs.machine .skip).start && (Gen.SkipValue.machine.maxDepth == (Abs.machine .skip).maxDepth) && (Gen.SkipValue.machine.hasField == (Abs.machine .skip).hasField)) = true := by
  decide +kernel

theorem states_ok : ∀ s, s < Gen.SkipValue.nstates → checkState Gen.SkipValue.machine (Abs.machine .skip) Gen.SkipValueLabels.labels s = true := by
  intro s hs
  by_cases h0 : s < 12
  · exact checkRange_spec chunk0 s (by omega) (by omega)
  by_cases h1 : s < 24
  · exact checkRange_spec chunk1 s (by omega) (by omega)
  by_cases h2 : s < 36
  · exact checkRange_spec chunk2 s (by omega) (by omega)
  by_cases h3 : s < 48
  · exact checkRange_spec chunk3 s (by omega) (by omega)
  by_cases h4 : s < 60
  · exact checkRange_spec chunk4 s (by omega) (by omega)
  by_cases h5 : s < 72
  · exact checkRange_spec chunk5 s (by omega) (by omega)
  by_cases h6 : s < 84
  · exact checkRange_spec chunk6 s (by omega) (by omega)
  by_cases h7 : s < 96
  · exact checkRange_spec chunk7 s (by omega) (by omega)
  by_cases h8 : s < 108
  · exact checkRange_spec chunk8 s (by omega) (by omega)
  by_cases h9 : s < 120
  · exact checkRange_spec chunk9 s (by omega) (by omega)
  by_cases h10 : s < 132
  · exact checkRange_spec chunk10 s (by omega) (by omega)
  by_cases h11 : s < 144
  · exact checkRange_spec chunk11 s (by omega) (by omega)
  by_cases h12 : s < 156
  · exact checkRange_spec chunk12 s (by omega) (by omega)
  by_cases h13 : s < 168
  · exact checkRange_spec chunk13 s (by omega) (by omega)
  by_cases h14 : s < 180
  · exact checkRange_spec chunk14 s (by omega) (by omega)
  by_cases h15 : s < 192
  · exact checkRange_spec chunk15 s (by omega) (by omega)
  exact checkRange_spec chunk16 s (by omega) (by simp [Gen.SkipValue.nstates] at hs; omega)

theorem sim : checkSim Gen.SkipValue.nstates Gen.SkipValue.machine (Abs.machine .skip) Gen.SkipValueLabels.labels = true :=
  checkSim_of_parts start_ok states_ok

/-- the generated machine and the abstract machine are indistinguishable for the interpreter -/
theorem run_eq {τ : Type} (data : Bytes) (h : Handler τ) (dst : Bytes) (hs : τ) :
    runL Gen.SkipValue.machine data h dst hs = runL (Abs.machine .skip) data h dst hs :=
  sim_sound Gen.SkipValue.nstates _ _ _ Gen.SkipValueLabels.labels_bound sim data h dst hs

end RJson.Certs.SkipValue
