import RJson.Proofs.Sim
import RJson.Gen.HandleObjectValues
import RJson.Gen.HandleObjectValuesLabels
/-! GENERATED certificate chunk: generated states [120, 132) of handleObjectValues against the abstract machine -/
namespace RJson.Certs.HandleObjectValues
open RJson.Ragel

set_option maxRecDepth 100000 in
theorem chunk10 : checkRange (checkState Gen.HandleObjectValues.machine (Abs.machine .hobj) Gen.HandleObjectValuesLabels.labels) 120 12 = true := by
  decide +kernel

end RJson.Certs.HandleObjectValues
