import RJson.Proofs.Sim
import RJson.Certs.AppendRemainderOfString.Chunk0
import RJson.Certs.AppendRemainderOfString.Chunk1
/-! GENERATED: assembles the chunk certificates of appendRemainderOfString into `checkSim` and applies `sim_sound`. -/
namespace RJson.Certs.AppendRemainderOfString
open RJson.Ragel

theorem start_ok : ((Gen.AppendRemainderOfStringLabels.labels Gen.AppendRemainderOfString.machine.start).contains (AbsSmall.smachine .append).start && (Gen.AppendRemainderOfString.machine.maxDepth == (AbsSmall.smachine .append).maxDepth) && (Gen.AppendRemainderOfString.machine.hasField == (AbsSmall.smachine .append).hasField)) = true := by
  decide +kernel

theorem states_ok : ∀ s, s < Gen.AppendRemainderOfString.nstates → checkState Gen.AppendRemainderOfString.machine (AbsSmall.smachine .append) Gen.AppendRemainderOfStringLabels.labels s = true := by
  intro s hs
  by_cases h0 : s < 12
  · exact checkRange_spec chunk0 s (by omega) (by omega)
  exact checkRange_spec chunk1 s (by omega) (by simp [Gen.AppendRemainderOfString.nstates] at hs; omega)

theorem sim : checkSim Gen.AppendRemainderOfString.nstates Gen.AppendRemainderOfString.machine (AbsSmall.smachine .append) Gen.AppendRemainderOfStringLabels.labels = true :=
  checkSim_of_parts start_ok states_ok

/-- the generated machine and the abstract machine are indistinguishable for the interpreter -/
theorem run_eq {τ : Type} (data : Bytes) (h : Handler τ) (dst : Bytes) (hs : τ) :
    runL Gen.AppendRemainderOfString.machine data h dst hs = runL (AbsSmall.smachine .append) data h dst hs :=
  sim_sound Gen.AppendRemainderOfString.nstates _ _ _ Gen.AppendRemainderOfStringLabels.labels_bound sim data h dst hs

end RJson.Certs.AppendRemainderOfString
