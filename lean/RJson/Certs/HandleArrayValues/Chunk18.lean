import RJson.Proofs.Sim
import RJson.Gen.HandleArrayValues
import RJson.Gen.HandleArrayValuesLabels
/-! GENERATED certificate chunk: generated states [216, 228) of handleArrayValues against the abstract machine -/
namespace RJson.Certs.HandleArrayValues
open RJson.Ragel

set_option maxRecDepth 100000 in
theorem chunk18 : checkRange (checkState Gen.HandleArrayValues.machine (Abs.machine .harr) Gen.HandleArrayValuesLabels.labels) 216 12 = true := by
  decide +kernel

end RJson.Certs.HandleArrayValues
