import RJson.Proofs.Sim
import RJson.Gen.HandleArrayValues
import RJson.Gen.HandleArrayValuesLabels
/-! GENERATED certificate chunk: generated states [108, 120) of handleArrayValues against the abstract machine -/
namespace RJson.Certs.HandleArrayValues
open RJson.Ragel

set_option maxRecDepth 100000 in
theorem chunk9 : checkRange (checkState Gen.HandleArrayValues.machine (Abs.machine .harr) Gen.HandleArrayValuesLabels.labels) 108 12 = true := by
  decide +kernel

end RJson.Certs.HandleArrayValues
