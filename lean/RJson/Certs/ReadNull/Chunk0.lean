import RJson.Proofs.Sim
import RJson.Gen.ReadNull
import RJson.Gen.ReadNullLabels
/-! GENERATED certificate chunk: generated states [0, 7) of readNull against the abstract machine -/
namespace RJson.Certs.ReadNull
open RJson.Ragel

set_option maxRecDepth 100000 in
theorem chunk0 : checkRange (checkState Gen.ReadNull.machine (AbsSmall.lmachine .null) Gen.ReadNullLabels.labels) 0 7 = true := by
  decide +kernel

end RJson.Certs.ReadNull
