import RJson.Proofs.Sim
import RJson.Gen.UnescapeStringContent
import RJson.Gen.UnescapeStringContentLabels
/-! GENERATED certificate chunk: generated states [0, 12) of unescapeStringContent against the abstract machine -/
namespace RJson.Certs.UnescapeStringContent
open RJson.Ragel

set_option maxRecDepth 100000 in
theorem chunk0 : checkRange (checkState Gen.UnescapeStringContent.machine (AbsSmall.smachine .unescape) Gen.UnescapeStringContentLabels.labels) 0 12 = true := by
  decide +kernel

end RJson.Certs.UnescapeStringContent
