import RJson.Proofs.Sim
import RJson.Gen.UnescapeStringContent
import RJson.Gen.UnescapeStringContentLabels
/-! GENERATED certificate chunk: generated states [12, 18) of unescapeStringContent against the abstract machine -/
namespace RJson.Certs.UnescapeStringContent
open RJson.Ragel

set_option maxRecDepth 100000 in
theorem chunk1 : checkRange (checkState Gen.UnescapeStringContent.machine (AbsSmall.smachine .unescape) Gen.UnescapeStringContentLabels.labels) 12 6 = true := by
  decide +kernel

end RJson.Certs.UnescapeStringContent
