import RJson.Proofs.Sim
import RJson.Certs.HandleArrayValues.Chunk0
import RJson.Certs.HandleArrayValues.Chunk1
import RJson.Certs.HandleArrayValues.Chunk2
import RJson.Certs.HandleArrayValues.Chunk3
import RJson.Certs.HandleArrayValues.Chunk4
import RJson.Certs.HandleArrayValues.Chunk5
import RJson.Certs.HandleArrayValues.Chunk6
import RJson.Certs.HandleArrayValues.Chunk7
import RJson.Certs.HandleArrayValues.Chunk8
import RJson.Certs.HandleArrayValues.Chunk9
import RJson.Certs.HandleArrayValues.Chunk10
import RJson.Certs.HandleArrayValues.Chunk11
import RJson.Certs.HandleArrayValues.Chunk12
import RJson.Certs.HandleArrayValues.Chunk13
import RJson.Certs.HandleArrayValues.Chunk14
import RJson.Certs.HandleArrayValues.Chunk15
import RJson.Certs.HandleArrayValues.Chunk16
import RJson.Certs.HandleArrayValues.Chunk17
import RJson.Certs.HandleArrayValues.Chunk18
import RJson.Certs.HandleArrayValues.Chunk19
import RJson.Certs.HandleArrayValues.Chunk20
/-! GENERATED: assembles the chunk certificates of handleArrayValues into `checkSim` and applies `sim_sound`. -/
namespace RJson.Certs.HandleArrayValues
open RJson.Ragel

theorem start_ok : ((Gen.HandleArrayValuesLabels.labels Gen.HandleArrayValues.machine.start).contains (Abs.machine .harr).start && (Gen.HandleArrayValues.machine.maxDepth == (Abs.machine .harr).maxDepth) && (Gen.HandleArrayValues.machine.hasField == (Abs.machine .harr).hasField)) = true := by
  decide +kernel

theorem states_ok : ∀ s, s < Gen.HandleArrayValues.nstates → checkState Gen.HandleArrayValues.machine (Abs.machine .harr) Gen.HandleArrayValuesLabels.labels s = true := by
  intro s hs
  by_cases h0 : s < 12
  · exact checkRange_spec chunk0 s (by omega) (by omega)
  by_cases h1 : s < 24
  · exact checkRange_spec chunk1 s (by omega) (by omega)
  by_cases h2 : s < 36
  · exact checkRange_spec chunk2 s (by omega) (by omega)
  by_cases h3 : s < 48
  · exact checkRange_spec chunk3 s (by omega) (by omega)
  by_cases h4 : s < 60
  · exact checkRange_spec chunk4 s (by omega) (by omega)
  by_cases h5 : s < 72
  · exact checkRange_spec chunk5 s (by omega) (by omega)
  by_cases h6 : s < 84
  · exact checkRange_spec chunk6 s (by omega) (by omega)
  by_cases h7 : s < 96
  · exact checkRange_spec chunk7 s (by omega) (by omega)
  by_cases h8 : s < 108
  · exact checkRange_spec chunk8 s (by omega) (by omega)
  by_cases h9 : s < 120
  · exact checkRange_spec chunk9 s (by omega) (by omega)
  by_cases h10 : s < 132
  · exact checkRange_spec chunk10 s (by omega) (by omega)
  by_cases h11 : s < 144
  · exact checkRange_spec chunk11 s (by omega) (by omega)
  by_cases h12 : s < 156
  · exact checkRange_spec chunk12 s (by omega) (by omega)
  by_cases h13 : s < 168
  · exact checkRange_spec chunk13 s (by omega) (by omega)
  by_cases h14 : s < 180
  · exact checkRange_spec chunk14 s (by omega) (by omega)
  by_cases h15 : s < 192
  · exact checkRange_spec chunk15 s (by omega) (by omega)
  by_cases h16 : s < 204
  · exact checkRange_spec chunk16 s (by omega) (by omega)
  by_cases h17 : s < 216
  · exact checkRange_spec chunk17 s (by omega) (by omega)
  by_cases h18 : s < 228
  · exact checkRange_spec chunk18 s (by omega) (by omega)
  by_cases h19 : s < 240
  · exact checkRange_spec chunk19 s (by omega) (by omega)
  exact checkRange_spec chunk20 s (by omega) (by simp [Gen.HandleArrayValues.nstates] at hs; omega)

theorem sim : checkSim Gen.HandleArrayValues.nstates Gen.HandleArrayValues.machine (Abs.machine .harr) Gen.HandleArrayValuesLabels.labels = true :=
  checkSim_of_parts start_ok states_ok

/-- the generated machine and the abstract machine are indistinguishable for the interpreter -/
theorem run_eq {τ : Type} (data : Bytes) (h : Handler τ) (dst : Bytes) (hs : τ) :
    runL Gen.HandleArrayValues.machine data h dst hs = runL (Abs.machine .harr) data h dst hs :=
  sim_sound Gen.HandleArrayValues.nstates _ _ _ Gen.HandleArrayValuesLabels.labels_bound sim data h dst hs

end RJson.Certs.HandleArrayValues
