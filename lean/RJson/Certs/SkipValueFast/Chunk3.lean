import RJson.Proofs.Sim
import RJson.Gen.SkipValueFast
import RJson.Gen.SkipValueFastLabels
/-! GENERATED certificate chunk: generated states [36, 48) of skipValueFast against the abstract machine -/
namespace RJson.Certs.SkipValueFast
open RJson.Ragel

set_option maxRecDepth 100000 in
theorem chunk3 : checkRange (checkState Gen.SkipValueFast.machine (Abs.machine .fast) Gen.SkipValueFastLabels.labels) 36 12 = true := by
  decide +kernel

end RJson.Certs.SkipValueFast
