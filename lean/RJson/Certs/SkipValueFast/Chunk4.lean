import RJson.Proofs.Sim
import RJson.Gen.SkipValueFast
import RJson.Gen.SkipValueFastLabels
/-! GENERATED certificate chunk: generated states [48, 60) of skipValueFast against the abstract machine -/
namespace RJson.Certs.SkipValueFast
open RJson.Ragel

set_option maxRecDepth 100000 in
theorem chunk4 : checkRange (checkState Gen.SkipValueFast.machine (Abs.machine .fast) Gen.SkipValueFastLabels.labels) 48 12 = true := by
  decide +kernel

end RJson.Certs.SkipValueFast
