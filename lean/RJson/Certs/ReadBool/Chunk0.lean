import RJson.Proofs.Sim
import RJson.Gen.ReadBool
import RJson.Gen.ReadBoolLabels
/-! GENERATED certificate chunk: generated states [0, 12) of readBool against the abstract machine -/
namespace RJson.Certs.ReadBool
open RJson.Ragel

set_option maxRecDepth 100000 in
theorem chunk0 : checkRange (checkState Gen.ReadBool.machine (AbsSmall.lmachine .bool) Gen.ReadBoolLabels.labels) 0 12 = true := by
  decide +kernel

end RJson.Certs.ReadBool
