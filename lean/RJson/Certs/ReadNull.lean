import RJson.Proofs.Sim
import RJson.Certs.ReadNull.Chunk0
/-! GENERATED: assembles the chunk certificates of readNull into `checkSim` and applies `sim_sound`. -/
namespace RJson.Certs.ReadNull
open RJson.Ragel

theorem start_ok : ((Gen.ReadNullLabels.labels Gen.ReadNull.machine.start).contains (AbsSmall.lmachine .null).start && (Gen.ReadNull.machine.maxDepth == (AbsSmall.lmachine .null).maxDepth) && (Gen.ReadNull.machine.hasField == (AbsSmall.lmachine .null).hasField)) = true := by
  decide +kernel

theorem states_ok : ∀ s, s < Gen.ReadNull.nstates → checkState Gen.ReadNull.machine (AbsSmall.lmachine .null) Gen.ReadNullLabels.labels s = true := by
  intro s hs
  exact checkRange_spec chunk0 s (by omega) (by simp [Gen.ReadNull.nstates] at hs; omega)

theorem sim : checkSim Gen.ReadNull.nstates Gen.ReadNull.machine (AbsSmall.lmachine .null) Gen.ReadNullLabels.labels = true :=
  checkSim_of_parts start_ok states_ok

/-- the generated machine and the abstract machine are indistinguishable for the interpreter -/
theorem run_eq {τ : Type} (data : Bytes) (h : Handler τ) (dst : Bytes) (hs : τ) :
    runL Gen.ReadNull.machine data h dst hs = runL (AbsSmall.lmachine .null) data h dst hs :=
  sim_sound Gen.ReadNull.nstates _ _ _ Gen.ReadNullLabels.labels_bound sim data h dst hs

end RJson.Certs.ReadNull
