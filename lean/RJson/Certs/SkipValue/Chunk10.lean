import RJson.Proofs.Sim
import RJson.Gen.SkipValue
import RJson.Gen.SkipValueLabels
/-! GENERATED certificate chunk: generated states [120, 132) of skipValue against the abstract machine -/
namespace RJson.Certs.SkipValue
open RJson.Ragel

set_option maxRecDepth 100000 in
theorem chunk10 : checkRange (checkState Gen.SkipValue.machine (Abs.machine .skip) Gen.SkipValueLabels.labels) 120 12 = true := by
  decide +kernel

end RJson.Certs.SkipValue
