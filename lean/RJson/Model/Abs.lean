import RJson.Model.Ragel
import RJson.Gen.Tables
/-!
# Abstract machines (hand-written, independent of the generated tables)

Byte-at-a-time pushdown machines with *structured* states (context × position × token sub-state), written from
RFC 8259 and from the Ragel sources' action vocabulary. They are run by the same interpreter as the generated
tables (`Ragel.runL`), and `Proofs/Sim.lean` + the kernel-checked certificates of `Props/*` show that the
generated tables behave exactly like them. `Proofs/AbsScanner*.lean` relates them to the functional scanner.
-/
namespace RJson.Abs
open RJson.Ragel

inductive Lit | t | f | n
  deriving DecidableEq, Repr, Inhabited

/-- the bytes of a literal after its first byte -/
def Lit.tail : Lit → List UInt8
  | .t => [114, 117, 101]
  | .f => [97, 108, 115, 101]
  | .n => [117, 108, 108]

inductive Tok
  | str | esc | u (k : Nat)                                -- string body / after `\` / after `\u` + k hex digits
  | lit (l : Lit) (i : Nat)                                -- `i` bytes of the literal's tail matched so far
  | minus | zero | int                                     -- integer part
  | fracStart | frac | expStart | expSign | exp            -- fraction / exponent (machines without the helper scanners)
  deriving DecidableEq, Repr, Inhabited

inductive Ctx
  | top                -- skip machines: the value being skipped (stack empty)
  | arr | obj          -- inside a skipped array / object (validating sub-machines)
  | farr | fobj        -- inside a fast-skipped array / object
  | hTop               -- handler machines: before / after the traversed container
  | hArr | hObj        -- handler machines: members of the traversed container
  deriving DecidableEq, Repr, Inhabited

inductive Pos
  | want (first : Bool)        -- a value is expected (`first`: directly after the opening bracket)
  | tok (t : Tok)              -- inside a value token
  | after                      -- a value is complete
  | wantKey (first : Bool)     -- a key is expected
  | key (t : Tok)              -- inside a key string
  | keyClosed                  -- directly after the key's closing quote
  | afterKey                   -- whitespace after the key
  | done                       -- the container closed (final state of a sub-machine / of the traversal)
  | body                       -- fast machines: inside the container, outside strings
  deriving DecidableEq, Repr, Inhabited

structure AS where
  ctx : Ctx
  pos : Pos
  deriving DecidableEq, Repr, Inhabited

inductive Kind | skip | fast | harr | hobj
  deriving DecidableEq, Repr

def isHexB (b : UInt8) : Bool := (48 ≤ b && b ≤ 57) || (97 ≤ b && b ≤ 102) || (65 ≤ b && b ≤ 70)
def isEscB (b : UInt8) : Bool := b == 34 || b == 92 || b == 47 || b == 98 || b == 102 || b == 110 || b == 114 || b == 116
def isDig19 (b : UInt8) : Bool := 49 ≤ b && b ≤ 57

abbrev Tr := List (Act AS) × Option AS

/-- the error transition of a context -/
def errTr (k : Kind) (c : Ctx) : Tr :=
  match c with
  | .top => ([.s (.errReturn .noValidToken)], none)
  | .arr | .farr => ([.s (.setErr .invalidArray), .s .brk], none)
  | .obj | .fobj => ([.s (.setErr .invalidObject), .s .brk], none)
  | .hTop | .hArr | .hObj => ([.s (.errReturn (if k == .hobj then .invalidObject else .invalidArray))], none)

/-- eof actions of the non-final states of a context -/
def eofActs (k : Kind) (c : Ctx) : List SAct :=
  match c with
  | .top => [.errReturn .noValidToken]
  | .arr | .farr => [.setErr .unexpectedEOF, .brk, .setErr .invalidArray, .brk]
  | .obj | .fobj => [.setErr .unexpectedEOF, .brk, .setErr .invalidObject, .brk]
  | .hTop | .hArr | .hObj => [.errReturn (if k == .hobj then .invalidObject else .invalidArray)]

/-- the canonical `try_handler` action (overflow-free range guard) -/
def handlerAct (k : Kind) : SAct :=
  let (flo, fhi) : GExpr × GExpr := if k == .hobj then (.add .fs (.lit 1), .sub .fe (.lit 1)) else (.lit 0, .lit 0)
  .handler (.add .p .pp) ⟨.lt, .pp, .lit 0⟩ ⟨.ne, .pp, .lit 0⟩ ⟨.gt, .pp, .sub .pe .p⟩
    (.sub (.sub (.add .p .pp) (.lit 1)) (.lit 1)) flo fhi

def handlerSimpleAct (k : Kind) : SAct :=
  let (flo, fhi) : GExpr × GExpr := if k == .hobj then (.add .fs (.lit 1), .sub .fe (.lit 1)) else (.lit 0, .lit 0)
  .handlerSimple .p flo fhi

/-- does the context belong to the main machine of a handler traversal (where members are offered to the handler)? -/
def Ctx.handled : Ctx → Bool
  | .hArr | .hObj => true
  | _ => false

/-- skip machines use the hand-written scanners for fractions and exponents -/
def usesHelpers (k : Kind) (c : Ctx) : Bool :=
  match k, c with
  | .skip, _ => true
  | .harr, .arr | .harr, .obj | .hobj, .arr | .hobj, .obj => true
  | _, _ => false

/-- the sub-machine contexts entered by `[` and `{` from context `c` -/
def subCtx (k : Kind) (c : Ctx) : Ctx × Ctx :=
  match k, c with
  | .fast, _ => (.farr, .fobj)
  | _, _ => (.arr, .obj)

/-- prepush has the depth limit only in the skip machines -/
def hasLimit (k : Kind) : Bool := k == .skip || k == .fast

/-- what follows a complete value in context `c` -/
def afterTr (k : Kind) (c : Ctx) (b : UInt8) : Tr :=
  match c with
  | .top => ([], none)                                             -- final state: leave without consuming
  | .arr =>
    if isWs b then ([], some ⟨.arr, .after⟩)
    else if b == 44 then ([], some ⟨.arr, .want false⟩)
    else if b == 93 then ([.ret], some ⟨.arr, .done⟩)
    else errTr k c
  | .obj =>
    if isWs b then ([], some ⟨.obj, .after⟩)
    else if b == 44 then ([], some ⟨.obj, .wantKey false⟩)
    else if b == 125 then ([.ret], some ⟨.obj, .done⟩)
    else errTr k c
  | .hArr =>
    if isWs b then ([], some ⟨.hArr, .after⟩)
    else if b == 44 then ([], some ⟨.hArr, .want false⟩)
    else if b == 93 then ([], some ⟨.hTop, .done⟩)
    else errTr k c
  | .hObj =>
    if isWs b then ([], some ⟨.hObj, .after⟩)
    else if b == 44 then ([], some ⟨.hObj, .wantKey false⟩)
    else if b == 125 then ([], some ⟨.hTop, .done⟩)
    else errTr k c
  | .hTop => ([], none)
  | .farr | .fobj => errTr k c

/-- a value starts at byte `b` in context `c` (whitespace and closing brackets already dealt with) -/
def startValue (k : Kind) (c : Ctx) (b : UInt8) : Tr :=
  let pre : List (Act AS) := if c.handled then [.s (handlerSimpleAct k)] else []
  let preH : List (Act AS) := if c.handled then [.s (handlerAct k)] else []
  if b == 34 then (preH, some ⟨c, .tok .str⟩)
  else if b == 116 then (pre, some ⟨c, .tok (.lit .t 0)⟩)
  else if b == 102 then (pre, some ⟨c, .tok (.lit .f 0)⟩)
  else if b == 110 then (pre, some ⟨c, .tok (.lit .n 0)⟩)
  else if b == 45 then (pre, some ⟨c, .tok .minus⟩)
  else if b == 48 then (pre, some ⟨c, .tok .zero⟩)
  else if isDig19 b then (pre, some ⟨c, .tok .int⟩)
  else if b == 91 then
    (preH ++ [.call (hasLimit k) ⟨c, .after⟩ ⟨(subCtx k c).1, if k == .fast then .body else .want true⟩], some ⟨c, .after⟩)
  else if b == 123 then
    (preH ++ [.call (hasLimit k) ⟨c, .after⟩ ⟨(subCtx k c).2, if k == .fast then .body else .wantKey true⟩], some ⟨c, .after⟩)
  else errTr k c

/-- inside a string (value or key): `closed` is the state after the closing quote -/
def strTr (k : Kind) (c : Ctx) (mk : Tok → Pos) (closed : AS) (t : Tok) (b : UInt8) : Tr :=
  match t with
  | .str =>
    if b == 34 then ([], some closed)
    else if b == 92 then ([], some ⟨c, mk .esc⟩)
    else if b < 32 then errTr k c
    else ([], some ⟨c, mk .str⟩)
  | .esc =>
    if b == 117 then ([], some ⟨c, mk (.u 0)⟩)
    else if isEscB b then ([], some ⟨c, mk .str⟩)
    else errTr k c
  | .u n =>
    if isHexB b then ([], some ⟨c, mk (if n ≥ 3 then .str else .u (n + 1))⟩) else errTr k c
  | _ => errTr k c

def step (k : Kind) (s : AS) (b : UInt8) : Tr :=
  let c := s.ctx
  match s.pos with
  | .want first =>
    if c == .hTop then
      -- before the traversed container: whitespace, `null`, or the opening bracket
      if isWs b then ([], some ⟨.hTop, .want true⟩)
      else if b == 110 then ([], some ⟨.hTop, .tok (.lit .n 0)⟩)
      else if k == .harr && b == 91 then ([], some ⟨.hArr, .want true⟩)
      else if k == .hobj && b == 123 then ([], some ⟨.hObj, .wantKey true⟩)
      else errTr k c
    else if isWs b then ([], some ⟨c, .want first⟩)
    else if first && b == 93 && c == .arr then ([.ret], some ⟨.arr, .done⟩)
    else if first && b == 93 && c == .hArr then ([], some ⟨.hTop, .done⟩)
    else startValue k c b
  | .tok t =>
    match t with
    | .str | .esc | .u _ => strTr k c .tok ⟨c, if c == .farr || c == .fobj then .body else .after⟩ t b
    | .lit l i =>
      match l.tail[i]? with
      | some x =>
        if b == x then
          (if i + 1 == l.tail.length then ([], some ⟨c, .after⟩) else ([], some ⟨c, .tok (.lit l (i + 1))⟩))
        else errTr k c
      | none => errTr k c
    | .minus =>
      if b == 48 then ([], some ⟨c, .tok .zero⟩) else if isDig19 b then ([], some ⟨c, .tok .int⟩) else errTr k c
    | .zero | .int =>
      if t == .int && isDigit b then ([], some ⟨c, .tok .int⟩)
      else if b == 46 then
        (if usesHelpers k c then ([.s .floatDec], some ⟨c, .after⟩) else ([], some ⟨c, .tok .fracStart⟩))
      else if b == 101 || b == 69 then
        (if usesHelpers k c then ([.s .floatExp], some ⟨c, .after⟩) else ([], some ⟨c, .tok .expStart⟩))
      else afterTr k c b
    | .fracStart => if isDigit b then ([], some ⟨c, .tok .frac⟩) else errTr k c
    | .frac =>
      if isDigit b then ([], some ⟨c, .tok .frac⟩)
      else if b == 101 || b == 69 then ([], some ⟨c, .tok .expStart⟩)
      else afterTr k c b
    | .expStart =>
      if b == 43 || b == 45 then ([], some ⟨c, .tok .expSign⟩)
      else if isDigit b then ([], some ⟨c, .tok .exp⟩) else errTr k c
    | .expSign => if isDigit b then ([], some ⟨c, .tok .exp⟩) else errTr k c
    | .exp => if isDigit b then ([], some ⟨c, .tok .exp⟩) else afterTr k c b
  | .after => afterTr k c b
  | .wantKey first =>
    if isWs b then ([], some ⟨c, .wantKey first⟩)
    else if b == 34 then ((if c == .hObj then [.s .fieldStart] else []), some ⟨c, .key .str⟩)
    else if first && b == 125 && c == .obj then ([.ret], some ⟨.obj, .done⟩)
    else if first && b == 125 && c == .hObj then ([], some ⟨.hTop, .done⟩)
    else errTr k c
  | .key t => strTr k c .key ⟨c, if c == .hObj then .keyClosed else .afterKey⟩ t b
  | .keyClosed =>
    if isWs b then ([.s .fieldEnd], some ⟨c, .afterKey⟩)
    else if b == 58 then ([.s .fieldEnd], some ⟨c, .want false⟩)
    else errTr k c
  | .afterKey =>
    if isWs b then ([], some ⟨c, .afterKey⟩)
    else if b == 58 then ([], some ⟨c, .want false⟩)
    else errTr k c
  | .done => ([], none)
  | .body =>
    -- fast machines: only the bracket kind of the container and strings matter
    if b == 34 then ([], some ⟨c, .tok .str⟩)
    else if c == .farr && b == 91 then ([.call true ⟨.farr, .body⟩ ⟨.farr, .body⟩], some ⟨.farr, .body⟩)
    else if c == .farr && b == 93 then ([.ret], some ⟨.farr, .done⟩)
    else if c == .fobj && b == 123 then ([.call true ⟨.fobj, .body⟩ ⟨.fobj, .body⟩], some ⟨.fobj, .body⟩)
    else if c == .fobj && b == 125 then ([.ret], some ⟨.fobj, .done⟩)
    else ([], some ⟨c, .body⟩)

/-- is the state final (no eof action)? -/
def isFinal (s : AS) : Bool :=
  match s.ctx, s.pos with
  | .top, .after => true
  | .top, .tok .zero | .top, .tok .int | .top, .tok .frac | .top, .tok .exp => true
  | .hTop, .done => true
  | .hTop, .after => true
  | _, .done => true
  | _, _ => false

def eof (k : Kind) (s : AS) : List SAct := if isFinal s then [] else eofActs k s.ctx

def start (k : Kind) : AS :=
  match k with
  | .skip | .fast => ⟨.top, .want true⟩
  | .harr | .hobj => ⟨.hTop, .want true⟩

def machine (k : Kind) : PDM AS :=
  { step := step k, eof := eof k, start := start k,
    maxDepth := if hasLimit k then Gen.skipMaxDepth else 0,
    hasField := k == .hobj }

end RJson.Abs
