import RJson.Model.Api
import RJson.Model.FP
/-!
# Hand model of `complex_readers.go` (results only; allocation behaviour is in `Model.Cost`)

`ValueReader` is its own array/object handler and recurses through child readers whose `depth` is the
parent's plus one. The model is a pair of functions `(readObject depth data, readArray depth data)` defined by
recursion on fuel; the handler handed to the generated handler machines is a closure over the previous level.
-/
namespace RJson.Model
open RJson.Ragel

inductive JVal
  | null
  | bool (b : Bool)
  | num (bits : Nat)
  | str (s : Bytes)
  | arr (xs : Array JVal)
  | obj (kvs : Array (Bytes × JVal))     -- Go map: one entry per key, last write wins
  deriving Inhabited

/-- `ReadFloat64` -/
def readFloat64 (data : Bytes) : R Nat :=
  let p := countWhitespace data
  if p == data.size then { val := 0, p := p, err := some .invalidNumber }
  else
    let r := FP.parse (data.extract p data.size)
    { val := r.bits, p := (p + r.n : Nat), err := if r.err then some .other else none, panicked := r.path == .panic }

/-- map assignment `m[k] = v` -/
def mapSet (kvs : Array (Bytes × JVal)) (k : Bytes) (v : JVal) : Array (Bytes × JVal) :=
  match kvs.findIdx? (fun kv => kv.1 == k) with
  | some i => kvs.set! i (k, v)
  | none => kvs.push (k, v)

/-! ## `StdLibCompatibleSlice` / `StdLibCompatibleMap` (rjson.go): the string helper applied to every string value and key

`fuel` bounds the depth processed (deeper values are returned unchanged); any fuel above the nesting of the value gives
the same result. A Go map is built by assignment, so two keys that become equal collapse into one entry
(`stdCollides`; which value survives depends on Go's iteration order — the property excludes that case). -/

def stdTreeF : Nat → JVal → JVal
  | 0, v => v
  | _+1, .str s => .str (stdLibCompatibleString s)
  | f+1, .arr xs => .arr (xs.map (stdTreeF f))
  | f+1, .obj kvs => .obj (kvs.foldl (fun acc kv => mapSet acc (stdLibCompatibleString kv.1) (stdTreeF f kv.2)) #[])
  | _+1, v => v

/-- do two keys of one object (at any depth within `fuel`) become equal after replacement? -/
def stdCollides : Nat → JVal → Bool
  | 0, _ => false
  | f+1, .arr xs => xs.any (stdCollides f)
  | f+1, .obj kvs =>
    (kvs.foldl (fun acc kv => mapSet acc (stdLibCompatibleString kv.1) .null) #[]).size < kvs.size || kvs.any (fun kv => stdCollides f kv.2)
  | _+1, _ => false

/-- a handler written against the public API: read every array member with `ReadFloat64`, collect the bits, fail on
    anything else (`Props/C08Decoders.lean` proves the decoder built from it correct; the driver runs it as `FloatArray`) -/
def floatH : Handler (List Nat) := fun acc _ suffix =>
  let r := readFloat64 suffix
  if r.err.isNone && !r.panicked then (acc ++ [r.val], r.p, none) else (acc, 0, some 1)

/-- a field-selective handler written against the public API: read the member whose raw name is `key` with `ReadFloat64`
    (the last such member wins), decline every other member — the traversal then skips it itself -/
def fieldFloatH (key : Bytes) : Handler (Option Nat) := fun acc field suffix =>
  if field == key then
    let r := readFloat64 suffix
    if r.err.isNone && !r.panicked then (some r.val, r.p, none) else (acc, 0, some 1)
  else (acc, 0, none)

abbrev Readers := (Nat → Bytes → R JVal) × (Nat → Bytes → R JVal)

/-- `readSimpleValue(data, tknType)` -/
def readSimpleValue (data : Bytes) (tp : Nat) : R JVal :=
  if tp == 1 then let r := readNull data; { val := .null, p := r.p, err := r.err, panicked := r.panicked }
  else if tp == 2 then let r := readStringBytes data #[]; { val := .str r.val, p := r.p, err := r.err, panicked := r.panicked }
  else if tp == 3 then let r := readFloat64 data; { val := .num r.val, p := r.p, err := r.err, panicked := r.panicked }
  else if tp == 4 || tp == 5 then let r := readBool data; { val := .bool r.val, p := r.p, err := r.err, panicked := r.panicked }
  else { val := .null, p := 0, err := some .other }

/-- the part of `HandleArrayValue`/`HandleObjectValue` that reads the member's value; `depth` = depth of this reader -/
def handleMember (prev : Readers) (depth : Nat) (suffix : Bytes) : R JVal :=
  let (tp, p, terr) := nextTokenType suffix
  match terr with
  | some _ => { val := .null, p := p, err := some .other }
  | none =>
    let p := p - 1
    let data := suffix.extract p suffix.size
    if tp == 6 then
      if depth + 1 > Gen.valueReaderMaxDepth then { val := .null, p := p, err := some .maxDepth }
      else let r := prev.1 (depth + 1) data; { r with p := p + r.p }
    else if tp == 8 then
      if depth + 1 > Gen.valueReaderMaxDepth then { val := .null, p := p, err := some .maxDepth }
      else let r := prev.2 (depth + 1) data; { r with p := p + r.p }
    else let r := readSimpleValue data tp; { r with p := p + r.p }

structure ArrHS where
  vals : Array JVal := #[]
  err : Option Err := none
  panicked : Bool := false

structure ObjHS where
  kvs : Array (Bytes × JVal) := #[]
  err : Option Err := none
  panicked : Bool := false

def arrHandler (prev : Readers) (depth : Nat) : Handler ArrHS := fun hs _ suffix =>
  let r := handleMember prev depth suffix
  if r.panicked then ({ hs with panicked := true, err := some .other }, r.p, some 1)
  else match r.err with
  | some e => ({ hs with err := some e }, r.p, some 1)
  | none => ({ hs with vals := hs.vals.push r.val }, r.p, none)

/-- first backslash in `field`, if any -/
def findBackslash (field : Bytes) : Option Nat := field.findIdx? (· == 92)

/-- the key `HandleObjectValue` stores under: the raw field, unescaped from its first backslash on -/
def objKeyOf (field : Bytes) : R Bytes :=
  match findBackslash field with
  | some i => unescapeStringContent (field.extract i field.size) (field.extract 0 i)
  | none => { val := field, p := 0, err := none }

def objHandler (prev : Readers) (depth : Nat) : Handler ObjHS := fun hs field suffix =>
  let key : R Bytes := objKeyOf field
  if key.panicked then ({ hs with panicked := true, err := some .other }, 0, some 1)
  else match key.err with
  | some e => ({ hs with err := some e }, 0, some 1)
  | none =>
    let r := handleMember prev depth suffix
    if r.panicked then ({ hs with panicked := true, err := some .other }, r.p, some 1)
    else match r.err with
    | some e => ({ hs with err := some e }, r.p, some 1)
    | none => ({ hs with kvs := mapSet hs.kvs key.val r.val }, r.p, none)

def firstIsNull (data : Bytes) : Bool :=
  let (tp, _, terr) := nextTokenType data
  terr.isNone && tp == 1

/-- `(*ValueReader).ReadObject` for a reader of depth `depth` -/
def objReader (prev : Readers) (depth : Nat) (data : Bytes) : R JVal :=
  let res := runL Gen.HandleObjectValues.machine data (objHandler prev depth) #[] {}
  match res.kind with
  | .ok =>
    if res.hs.kvs.size == 0 && firstIsNull data then { val := .null, p := res.p, err := some .invalidObject }
    else { val := .obj res.hs.kvs, p := res.p, err := none }
  | .err e => { val := .null, p := res.p, err := some e }
  | .herr _ => { val := .null, p := res.p, err := res.hs.err, panicked := res.hs.panicked }
  | _ => { val := .null, p := res.p, err := none, panicked := true }

/-- `(*ValueReader).ReadArray` for a reader of depth `depth` -/
def arrReader (prev : Readers) (depth : Nat) (data : Bytes) : R JVal :=
  let res := runL Gen.HandleArrayValues.machine data (arrHandler prev depth) #[] {}
  match res.kind with
  | .ok =>
    if res.hs.vals.size == 0 && firstIsNull data then { val := .null, p := res.p, err := some .invalidArray }
    else { val := .arr res.hs.vals, p := res.p, err := none }
  | .err e => { val := .null, p := res.p, err := some e }
  | .herr _ => { val := .null, p := res.p, err := res.hs.err, panicked := res.hs.panicked }
  | _ => { val := .null, p := res.p, err := none, panicked := true }

def readers : Nat → Readers
  | 0 => (fun _ _ => { val := .null, p := 0, err := none, panicked := true },
          fun _ _ => { val := .null, p := 0, err := none, panicked := true })
  | fuel+1 => (objReader (readers fuel), arrReader (readers fuel))

def readerFuel (data : Bytes) : Nat := min data.size (Gen.valueReaderMaxDepth + 1) + 2

/-- `ReadObject(data)` / `(*ValueReader).ReadObject` on a reader at rest (depth 0 → 1) -/
def readObject (data : Bytes) : R JVal := (readers (readerFuel data)).1 1 data

def readArray (data : Bytes) : R JVal := (readers (readerFuel data)).2 1 data

/-- `ReadValue(data)` / `(*ValueReader).ReadValue` -/
def readValue (data : Bytes) : R JVal :=
  let (tp, p, terr) := nextTokenType data
  match terr with
  | some _ => { val := .null, p := p, err := some .other }
  | none =>
    let p := p - 1
    let sub := data.extract p data.size
    let r :=
      if tp == 6 then (readers (readerFuel data)).1 1 sub
      else if tp == 8 then (readers (readerFuel data)).2 1 sub
      else readSimpleValue sub tp
    { r with p := p + r.p, val := if r.err.isSome then .null else r.val }

/-! canonical rendering (object keys sorted bytewise) for the correspondence run -/

def bytesLt (a b : Bytes) : Bool :=
  let rec go : Nat → Nat → Bool
    | 0, _ => false
    | fuel+1, i =>
      match a[i]?, b[i]? with
      | none, none => false
      | none, some _ => true
      | some _, none => false
      | some x, some y => if x < y then true else if x > y then false else go fuel (i+1)
  go (a.size + 1) 0

partial def JVal.render : JVal → String
  | .null => "n"
  | .bool b => if b then "t" else "f"
  | .num bits => "d" ++ toString bits
  | .str s => "s" ++ (if s.size == 0 then "-" else bytesToHex s)
  | .arr xs => "[" ++ ",".intercalate (xs.toList.map JVal.render) ++ "]"
  | .obj kvs =>
    let sorted := kvs.qsort (fun a b => bytesLt a.1 b.1)
    "{" ++ ",".intercalate (sorted.toList.map (fun (k, v) => (if k.size == 0 then "-" else bytesToHex k) ++ ":" ++ v.render)) ++ "}"

end RJson.Model
