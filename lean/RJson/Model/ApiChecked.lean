import RJson.Model.Api
/-!
# The hand-written readers of `token.go` and `simple_readers.go` with every index and slice expression checked

`Model.Api` reads bytes with `data[p]!`, as the Go code does after its own length tests. Here each `data[p]` and each
`data[p:]` of the Go source is an explicit test: `none` means the Go statement would panic (index out of range / slice
bounds out of range). `Props/C10Ints.lean` proves that `none` never comes out and that the result is the one of
`Model.Api` — the functions the correspondence run executes.
-/
namespace RJson.Model

/-- `NextToken` -/
def nextTokenC (data : Bytes) : Option (UInt8 × Nat × Option TokErr) :=
  if data.size == 0 then some (0, 0, some .eof)
  else
    match data[0]? with
    | none => none
    | some b0 =>
      if tokenType b0 != 0 then some (b0, 1, none)
      else if !isWsT b0 then some (b0, 1, some .noValidToken)
      else
        let p := countWhitespace data
        if p ≥ data.size then some (0, p, some .eof)
        else
          match data[p]? with
          | none => none
          | some b => if tokenType b == 0 then some (b, p + 1, some .noValidToken) else some (b, p + 1, none)

/-- `NextTokenType` -/
def nextTokenTypeC (data : Bytes) : Option (Nat × Nat × Option TokErr) :=
  if data.size == 0 then some (0, 0, some .eof)
  else
    match data[0]? with
    | none => none
    | some b0 =>
      let tp := tokenType b0
      if tp != 0 then some (tp, 1, none)
      else if !isWsT b0 then some (tp, 1, none)
      else
        let p := countWhitespace data
        if p ≥ data.size then some (0, p, some .eof)
        else
          match data[p]? with
          | none => none
          | some b => some (tokenType b, p + 1, none)

/-- after a single `0`: `p++; if len(data[p:]) == 0 {…}; switch data[p] {…}` -/
def uintZeroC (data : Bytes) (off p : Nat) : Option (R UInt64) :=
  if p > data.size then none
  else if p == data.size then some { val := 0, p := (p - off : Nat), err := none }
  else
    match data[p]? with
    | none => none
    | some b =>
      if isDotOrExp b then some { val := 0, p := (p - off : Nat), err := some .invalidUInt }
      else some { val := 0, p := (p - off : Nat), err := none }

/-- after the digit loops: `if p == len(data) {…}; switch data[p] {…}` -/
def uintFinishC (data : Bytes) (off startP p : Nat) (val : UInt64) : Option (R UInt64) :=
  if p - startP == 0 then some { val := 0, p := (p - off : Nat), err := some .invalidUInt }
  else if p == data.size then some { val := val, p := (p - off : Nat), err := none }
  else
    match data[p]? with
    | none => none
    | some b =>
      if isDotOrExp b then some { val := 0, p := (p - off : Nat), err := some .invalidUInt }
      else some { val := val, p := (p - off : Nat), err := none }

/-- `ReadUint64(data[off:])`: the slice expression, then `data[p]` after the whitespace scan -/
def readUint64FromC (data : Bytes) (off : Nat) : Option (R UInt64) :=
  if off > data.size then none
  else
    let p := countWsFrom data data.size off
    if p == data.size then some { val := 0, p := (p - off : Nat), err := some .invalidUInt }
    else
      match data[p]? with
      | none => none
      | some b =>
        if b == 48 then uintZeroC data off (p + 1)
        else
          match uintDigits data p with
          | (pend, none) => some { val := 0, p := (pend - off : Nat), err := some .other }
          | (pend, some val) => uintFinishC data off p pend val

/-- `ReadInt64` after the whitespace scan stopped at `p`: `data[p] == '-'`, `whitespace[data[p]]`, `data[p:]` -/
def readInt64AtC (data : Bytes) (p : Nat) : Option (R Int) :=
  let len := data.size
  if p == len then some { val := 0, p := p, err := some .invalidInt }
  else
    match data[p]? with
    | none => none
    | some b0 =>
      let neg := b0 == 45
      let p := if neg then p + 1 else p
      let wsCheck : Option Bool :=
        if !neg then some false
        else if p == len then some true
        else match data[p]? with
          | none => none
          | some b => some (isWsT b)
      match wsCheck with
      | none => none
      | some true => some { val := 0, p := p, err := some .invalidInt }
      | some false =>
        match readUint64FromC data p with
        | none => none
        | some r =>
          let p' : Int := p + r.p
          match r.err with
          | some e => some { val := 0, p := p', err := some e }
          | none =>
            let u := r.val.toNat
            if neg then
              if u > 9223372036854775808 then some { val := 0, p := p', err := some .other }
              else some { val := -(u : Int), p := p', err := none }
            else if u ≥ 9223372036854775808 then some { val := 0, p := p', err := some .other }
            else some { val := u, p := p', err := none }

def readUint64C (data : Bytes) : Option (R UInt64) := readUint64FromC data 0
def readInt64C (data : Bytes) : Option (R Int) := readInt64AtC data (countWhitespace data)

/-- `ReadStringBytes`: `data[p] != '"'` after the whitespace scan, then `data[start:p]` / `data[p:]` where the pre-scan
    stopped (its own `data[p]` reads are inside `p < len(data)`) -/
def readStringBytesC (data buf : Bytes) : Option (R Bytes) :=
  let p := countWhitespace data
  if p == data.size then some { val := buf, p := p, err := some .other }
  else
    match data[p]? with
    | none => none
    | some b =>
      if b != 34 then some { val := buf, p := p, err := some .other }
      else
        let start := p + 1
        match strScan data (data.size - start) start with
        | .eof q => some { val := buf, p := q, err := some .other }
        | .quote q =>
          if start ≤ q ∧ q ≤ data.size then some { val := buf ++ data.extract start q, p := (q + 1 : Nat), err := none } else none
        | .control q =>
          if q ≤ data.size then
            let r := appendRemainder data q buf
            some { r with p := q + r.p }
          else none
        | .escape q =>
          if start ≤ q ∧ q ≤ data.size then
            let r := appendRemainder data q (buf ++ data.extract start q)
            some { r with p := q + r.p }
          else none

end RJson.Model
