import RJson.Model.Basic
import RJson.Gen.Tables
import RJson.Spec.Float
/-!
# Hand model of `internal/fp` (port of Go's strconv float parser)

Mirrors `readFloat`, `atof64exact`, `eiselLemire64`, `decimal.{set,Shift,floatBits,RoundedInteger}` and
`ParseJSONFloatPrefix`. `uint64` arithmetic is `% 2^64` on `Nat` where the Go code can wrap; the hardware
float operations `float64(uint64)`, `*`, `/` are *defined* as one correct rounding of the exact result
(IEEE-754, trusted base). Tables (`detailedPowersOfTen`, `leftcheats`, `powtab`, `float64pow10`, `digits`)
are the regenerated ones of `RJson.Gen.Tables`.
-/
namespace RJson.FP

def two64 : Nat := 18446744073709551616
def fpIsDigit (b : UInt8) : Bool := Gen.fpDigitsBits.testBit b.toNat

structure RF where
  mantissa : Nat
  exp : Int
  neg : Bool
  trunc : Bool
  p : Nat
  ok : Bool
  deriving Repr, DecidableEq

/-- the main digit loop of `readFloat`; result `(mantissa, nd, ndMant, dp, sawdot, trunc, p)` -/
def readFloatLoop (data : Bytes) : Nat → Nat → Nat → Nat → Nat → Int → Bool → Bool → (Nat × Nat × Nat × Int × Bool × Bool × Nat)
  | 0, p, man, nd, ndMant, dp, sawdot, trunc => (man, nd, ndMant, dp, sawdot, trunc, p)
  | fuel+1, p, man, nd, ndMant, dp, sawdot, trunc =>
    match data[p]? with
    | none => (man, nd, ndMant, dp, sawdot, trunc, p)
    | some b =>
      if fpIsDigit b then
        if ndMant ≥ 19 then readFloatLoop data fuel (p+1) man (nd+1) ndMant dp sawdot true
        else readFloatLoop data fuel (p+1) ((man * 10 + (b.toNat - 48)) % two64) (nd+1) (ndMant+1) dp sawdot trunc
      else if b == 46 then
        if sawdot then (man, nd, ndMant, dp, sawdot, trunc, p)
        else readFloatLoop data fuel (p+1) man nd ndMant nd true trunc
      else (man, nd, ndMant, dp, sawdot, trunc, p)

/-- exponent digits: `e` saturates once it reaches `10000 + len(data)` -/
def expDigits (data : Bytes) : Nat → Nat → Nat → Nat × Nat
  | 0, p, e => (p, e)
  | fuel+1, p, e =>
    match data[p]? with
    | none => (p, e)
    | some b => if 48 ≤ b && b ≤ 57 then expDigits data fuel (p+1) (if e < 10000 + data.size then e * 10 + (b.toNat - 48) else e) else (p, e)

def isNonZeroDigit (b : UInt8) : Bool := 49 ≤ b && b ≤ 57

/-- `finishUp:` of `readFloat` -/
def readFloatFinish (data : Bytes) (man nd ndMant : Nat) (dp : Int) (sawdot sawdigits neg trunc : Bool) (p : Nat) : RF :=
  let fail (p : Nat) : RF := { mantissa := man, exp := 0, neg := neg, trunc := trunc, p := p, ok := false }
  if !sawdigits then fail p
  else
    let dp : Int := if !sawdot then nd else dp
    let finish (dp : Int) (p : Nat) : RF :=
      { mantissa := man, exp := if man != 0 then dp - ndMant else 0, neg := neg, trunc := trunc, p := p, ok := true }
    match data[p]? with
    | some c =>
      if c == 101 || c == 69 then
        if p ≥ 1 && data[p-1]! == 46 then fail 0
        else
          let p := p + 1
          match data[p]? with
          | none => fail p
          | some s =>
            let (p, esign) : Nat × Int := if s == 43 then (p + 1, 1) else if s == 45 then (p + 1, -1) else (p, 1)
            match data[p]? with
            | none => fail p
            | some d0 =>
              if d0 < 48 || d0 > 57 then fail p
              else
                let (p', e) := expDigits data (data.size - p) p 0
                finish (dp + (e : Int) * esign) p'
      else finish dp p
    | none => finish dp p

/-- `readFloat(data)` -/
def readFloat (data : Bytes) : RF :=
  let pe := data.size
  if pe == 0 then { mantissa := 0, exp := 0, neg := false, trunc := false, p := 0, ok := false }
  else
    let neg := data[0]! == 45
    let p := if neg then 1 else 0
    if p == pe then { mantissa := 0, exp := 0, neg := false, trunc := false, p := p, ok := false }
    else
      let b := data[p]!
      if b == 46 then { mantissa := 0, exp := 0, neg := neg, trunc := false, p := p, ok := false }
      else if !(b == 48 || isNonZeroDigit b) then readFloatFinish data 0 0 0 0 false false neg false p
      else
        -- first digit
        let man : Nat := if b == 48 then 0 else b.toNat - 48
        let p := p + 1
        if p == pe then readFloatFinish data man 1 1 0 false true neg false p
        else
          let c := data[p]!
          if c == 46 then
            let (man, nd, ndMant, dp, sawdot, trunc, p') := readFloatLoop data (pe - (p+1)) (p+1) man 1 1 1 true false
            readFloatFinish data man nd ndMant dp sawdot true neg trunc p'
          else if c == 48 || isNonZeroDigit c then
            if man == 0 then readFloatFinish data man 1 1 0 false true neg false p
            else
              let man := (man * 10 + (c.toNat - 48)) % two64
              let (man, nd, ndMant, dp, sawdot, trunc, p') := readFloatLoop data (pe - (p+1)) (p+1) man 2 2 0 false false
              readFloatFinish data man nd ndMant dp sawdot true neg trunc p'
          else readFloatFinish data man 1 1 0 false true neg false p

/-! ## exact path -/

def float64pow10 (i : Nat) : Nat := Gen.float64pow10Bits[i]!

/-- value of a (finite, non-negative) double as a rational -/
def ratOfBits (bits : Nat) : Nat × Nat := let (_, n, d) := Spec.bitsToRat bits; (n, d)

/-- correctly rounded product of two finite doubles given by bits (sign handled by the caller) -/
def fmulAbs (a b : Nat) : Nat :=
  let (an, ad) := ratOfBits a
  let (bn, bd) := ratOfBits b
  (Spec.roundRat false (an * bn) (ad * bd)).1

def fdivAbs (a b : Nat) : Nat :=
  let (an, ad) := ratOfBits a
  let (bn, bd) := ratOfBits b
  (Spec.roundRat false (an * bd) (ad * bn)).1

/-- `a > b` for finite non-negative doubles -/
def fgtAbs (a b : Nat) : Bool :=
  let (an, ad) := ratOfBits a
  let (bn, bd) := ratOfBits b
  an * bd > bn * ad

/-- `atof64exact(mantissa, exp, neg)`: bits, or `none` when the fast path does not apply -/
def atof64exact (mantissa : Nat) (exp : Int) (neg : Bool) : Option Nat :=
  if mantissa / 2^52 != 0 then none
  else
    let f := (Spec.roundRat false mantissa 1).1      -- float64(mantissa), exact below 2^53
    let sgn := Spec.signBit neg
    if exp == 0 then some (sgn + f)
    else if exp > 0 && exp ≤ 15 + 22 then
      let fe : Nat × Int := if exp > 22 then (fmulAbs f (float64pow10 (exp - 22).toNat), (22 : Int)) else (f, exp)
      if fgtAbs fe.1 (float64pow10 15) then none
      else some (sgn + fmulAbs fe.1 (float64pow10 fe.2.toNat))
    else if exp < 0 && exp ≥ -22 then some (sgn + fdivAbs f (float64pow10 (-exp).toNat))
    else none

/-! ## Eisel-Lemire -/

def pow10Row (i : Nat) : Nat × Nat :=
  let row := (Gen.pow10Tab >>> (128 * i)) % 2^128
  (row % two64, row / two64)      -- (element [0] = low word, element [1] = high word)

def clz64 (x : Nat) : Nat := if x == 0 then 64 else 63 - Nat.log2 x

/-- "Multiplication" and "Wider Approximation": the (possibly widened) 128-bit product approximation `(hi, lo)` of
    `w` (normalised mantissa) times the table row, or `none` when the algorithm gives up -/
def elMerged (w rowLo rowHi : Nat) : Option (Nat × Nat) :=
  let x := w * rowHi
  let xHi := x / two64
  let xLo := x % two64
  let wide := xHi % 512 == 511 && (xLo + w) % two64 < w
  if wide then
    let y := w * rowLo
    let yHi := y / two64
    let yLo := y % two64
    let mergedLo := (xLo + yHi) % two64
    let mergedHi := if mergedLo < xLo then (xHi + 1) % two64 else xHi
    if mergedHi % 512 == 511 && (mergedLo + 1) % two64 == 0 && (yLo + w) % two64 < w then none
    else some (mergedHi, mergedLo)
  else some (xHi, xLo)

/-- "Shifting to 54 Bits", "Half-way Ambiguity", "From 54 to 53 Bits" and the exponent check -/
def elFinish (xHi xLo retExp2 : Nat) (neg : Bool) : Option Nat :=
  let msb := xHi / 2^63
  let retMantissa := xHi >>> (msb + 9)
  let retExp2 := (retExp2 + two64 - (1 ^^^ msb)) % two64
  if xLo == 0 && xHi % 512 == 0 && retMantissa % 4 == 1 then none
  else
    let retMantissa := (retMantissa + retMantissa % 2) / 2
    let me : Nat × Nat := if retMantissa / 2^53 > 0 then (retMantissa / 2, (retExp2 + 1) % two64) else (retMantissa, retExp2)
    if (me.2 + two64 - 1) % two64 ≥ 0x7FF - 1 then none
    else some ((me.2 * 2^52) % two64 ||| (me.1 % 2^52) ||| Spec.signBit neg)

/-- `eiselLemire64(man, exp10, neg)` -/
def eiselLemire64 (man : Nat) (exp10 : Int) (neg : Bool) : Option Nat :=
  if man == 0 then some (Spec.signBit neg)
  else if exp10 < Gen.pow10MinExp || Gen.pow10MaxExp < exp10 then none
  else
    let clz := clz64 man
    let w := (man <<< clz) % two64
    -- uint64(217706*exp10>>16 + 64 + 1023) - uint64(clz): a negative sum wraps around (it is *not* clamped to 0)
    let retExp2 : Nat := ((((217706 * exp10) >>> 16) + 64 + 1023 - (clz : Int)) % (two64 : Int)).toNat
    let row := pow10Row (exp10 - Gen.pow10MinExp).toNat
    match elMerged w row.1 row.2 with
    | none => none
    | some (xHi, xLo) => elFinish xHi xLo retExp2 neg

/-! ## decimal -/

structure Decimal where
  d : Array UInt8        -- ASCII digits; always `Gen.fpDecimalDigits` long; only `d[0..nd)` is meaningful
  nd : Nat
  dp : Int
  neg : Bool
  trunc : Bool

def Decimal.zero : Decimal := { d := Array.replicate Gen.fpDecimalDigits 0, nd := 0, dp := 0, neg := false, trunc := false }

def Decimal.digits (a : Decimal) : Bytes := a.d.extract 0 a.nd

/-- digit loop of `decimal.set`; `dropped` = integer digits that did not fit into `d`;
    returns `(a, sawdot, sawdigits, dropped, i)` or `none` for a second `.` -/
def setLoop (data : Bytes) : Nat → Nat → Decimal → Bool → Bool → Nat → Option (Decimal × Bool × Bool × Nat × Nat)
  | 0, i, a, sawdot, sawdigits, dropped => some (a, sawdot, sawdigits, dropped, i)
  | fuel+1, i, a, sawdot, sawdigits, dropped =>
    match data[i]? with
    | none => some (a, sawdot, sawdigits, dropped, i)
    | some b =>
      if b == 46 then
        if sawdot then none else setLoop data fuel (i+1) { a with dp := (a.nd + dropped : Nat) } true sawdigits dropped
      else if 48 ≤ b && b ≤ 57 then
        if b == 48 && a.nd == 0 then setLoop data fuel (i+1) { a with dp := a.dp - 1 } sawdot true dropped
        else if a.nd < a.d.size then setLoop data fuel (i+1) { a with d := a.d.set! a.nd b, nd := a.nd + 1 } sawdot true dropped
        else setLoop data fuel (i+1) (if b != 48 then { a with trunc := true } else a) sawdot true (if !sawdot then dropped + 1 else dropped)
      else some (a, sawdot, sawdigits, dropped, i)

/-- the optional exponent at the end of `decimal.set` (`i` = position after the mantissa) -/
def setExp (data : Bytes) (a : Decimal) (i : Nat) : Option Decimal :=
  match data[i]? with
  | some c =>
    if c == 101 || c == 69 then
      let i := i + 1
      match data[i]? with
      | none => none
      | some s =>
        let ie : Nat × Int := if s == 43 then (i + 1, 1) else if s == 45 then (i + 1, -1) else (i, 1)
        match data[ie.1]? with
        | none => none
        | some d0 =>
          if d0 < 48 || d0 > 57 then none
          else
            let pe := expDigits data (data.size - ie.1) ie.1 0
            if pe.1 != data.size then none else some { a with dp := a.dp + (pe.2 : Int) * ie.2 }
    else none          -- i != len(data)
  | none => some a

/-- `decimal.set(data)` on a zero decimal; `none` = `false` -/
def Decimal.set (data : Bytes) : Option Decimal :=
  if data.size == 0 then none
  else
    let neg := data[0]! == 45
    let a : Decimal := { Decimal.zero with neg := neg }
    match setLoop data data.size (if neg then 1 else 0) a false false 0 with
    | none => none
    | some (a, sawdot, sawdigits, dropped, i) =>
      if !sawdigits then none
      else
        let a := if !sawdot then { a with dp := (a.nd + dropped : Nat) } else a
        setExp data a i

/-- `trim` -/
def trimLoop (d : Array UInt8) : Nat → Nat
  | 0 => 0
  | nd+1 => if d[nd]! == 48 then trimLoop d nd else nd + 1

def Decimal.trim (a : Decimal) : Decimal :=
  let nd := trimLoop a.d a.nd
  { a with nd := nd, dp := if nd == 0 then 0 else a.dp }

/-- first loop of `rightShift`: pick up leading digits; returns `(r, n)` or `none` when `a == 0` -/
def rsPickup (a : Decimal) (k : Nat) : Nat → Nat → Nat → Option (Nat × Nat)
  | 0, r, n => some (r, n)
  | fuel+1, r, n =>
    if n >>> k == 0 then
      if r ≥ a.nd then
        if n == 0 then none
        else
          -- for n>>k == 0 { n *= 10; r++ }
          let rec pad : Nat → Nat → Nat → Nat × Nat
            | 0, r, n => (r, n)
            | f+1, r, n => if n >>> k == 0 then pad f (r+1) (n*10) else (r, n)
          some (pad 64 r n)
      else rsPickup a k fuel (r+1) (n * 10 + (a.d[r]!.toNat - 48))
    else some (r, n)

def rsMain (k mask : Nat) (nd : Nat) : Nat → Nat → Nat → Nat → Array UInt8 → (Nat × Nat × Array UInt8)
  | 0, _, w, n, d => (w, n, d)
  | fuel+1, r, w, n, d =>
    if r < nd then
      let c := d[r]!.toNat
      let dig := n >>> k
      let n := n &&& mask
      rsMain k mask nd fuel (r+1) (w+1) (n * 10 + c - 48) (d.set! w (UInt8.ofNat (dig + 48)))
    else (w, n, d)

def rsExtra (k mask : Nat) : Nat → Nat → Nat → Array UInt8 → Bool → (Nat × Array UInt8 × Bool)
  | 0, w, _, d, tr => (w, d, tr)
  | fuel+1, w, n, d, tr =>
    if n > 0 then
      let dig := n >>> k
      let n := n &&& mask
      if w < d.size then rsExtra k mask fuel (w+1) (n*10) (d.set! w (UInt8.ofNat (dig + 48))) tr
      else rsExtra k mask fuel w (n*10) d (tr || dig > 0)
    else (w, d, tr)

/-- `rightShift(a, k)` -/
def rightShift (a : Decimal) (k : Nat) : Decimal :=
  match rsPickup a k (a.nd + 1) 0 0 with
  | none => { a with nd := 0 }
  | some (r, n) =>
    let dp := a.dp - ((r : Int) - 1)
    let mask := 2^k - 1
    let (w, n, d) := rsMain k mask a.nd (a.nd + 1) r 0 n a.d
    let (w, d, tr) := rsExtra k mask 2000 w n d a.trunc
    ({ a with d := d, nd := w, dp := dp, trunc := tr }).trim

/-- `prefixIsLessThan(b, s)` -/
def prefixIsLessThan (b : Bytes) (s : Bytes) : Bool :=
  let rec go : Nat → Nat → Bool
    | 0, _ => false
    | fuel+1, i =>
      if i < s.size then
        if i ≥ b.size then true
        else if b[i]! != s[i]! then b[i]! < s[i]!
        else go fuel (i+1)
      else false
  go (s.size + 1) 0

def lsPut (d : Array UInt8) (w : Int) (rem : Nat) (tr : Bool) : Option (Array UInt8 × Bool) :=
  if w < 0 then none                                  -- index out of range
  else if w.toNat < d.size then some (d.set! w.toNat (UInt8.ofNat (rem + 48)), tr)
  else some (d, tr || rem != 0)

def lsMain (k : Nat) : Nat → Int → Nat → Array UInt8 → Bool → Option (Int × Nat × Array UInt8 × Bool)
  | 0, w, n, d, tr => some (w, n, d, tr)
  | r+1, w, n, d, tr =>
    let n := n + ((d[r]!.toNat - 48) <<< k)
    let quo := n / 10
    let rem := n - 10 * quo
    match lsPut d (w - 1) rem tr with
    | none => none
    | some (d, tr) => lsMain k r (w - 1) quo d tr

def lsExtra : Nat → Int → Nat → Array UInt8 → Bool → Option (Array UInt8 × Bool)
  | 0, _, _, d, tr => some (d, tr)
  | fuel+1, w, n, d, tr =>
    if n > 0 then
      let quo := n / 10
      let rem := n - 10 * quo
      match lsPut d (w - 1) rem tr with
      | none => none
      | some (d, tr) => lsExtra fuel (w - 1) quo d tr
    else some (d, tr)

/-- `leftShift(a, k)`; `none` = index-out-of-range panic (only possible with a wrong cheat table) -/
def leftShift (a : Decimal) (k : Nat) : Option Decimal :=
  match Gen.leftCheats[k]? with
  | none => none
  | some (delta0, cutoff) =>
    let less := prefixIsLessThan a.digits cutoff.toUTF8.data
    let delta : Int := (delta0 : Int) - (if less then 1 else 0)
    match lsMain k a.nd ((a.nd : Int) + delta) 0 a.d a.trunc with
    | none => none
    | some (w, n, d, tr) =>
      match lsExtra 64 w n d tr with
      | none => none
      | some (d, tr) =>
        let nd : Int := (a.nd : Int) + delta
        let nd : Nat := if nd ≥ (d.size : Int) then d.size else nd.toNat
        some ({ a with d := d, nd := nd, dp := a.dp + delta, trunc := tr }).trim

/-- `Shift(k)` -/
def Decimal.shift (a : Decimal) (k : Int) : Option Decimal :=
  let maxShift := Gen.fpMaxShift
  if a.nd == 0 then some a
  else if k > 0 then
    let rec goL : Nat → Decimal → Nat → Option Decimal
      | 0, _, _ => none
      | fuel+1, a, k =>
        if k > maxShift then
          match leftShift a maxShift with
          | none => none
          | some a => goL fuel a (k - maxShift)
        else leftShift a k
    goL 64 a k.toNat
  else if k < 0 then
    let rec goR : Nat → Decimal → Nat → Decimal
      | 0, a, _ => a
      | fuel+1, a, k =>
        if k > maxShift then goR fuel (rightShift a maxShift) (k - maxShift)
        else rightShift a k
    some (goR 64 a (-k).toNat)
  else some a

/-- `shouldRoundUp(a, nd)` -/
def shouldRoundUp (a : Decimal) (nd : Int) : Bool :=
  if nd < 0 || nd ≥ a.nd then false
  else
    let i := nd.toNat
    if a.d[i]! == 53 && i + 1 == a.nd then
      if a.trunc then true
      else i > 0 && (a.d[i-1]!.toNat - 48) % 2 != 0
    else a.d[i]! ≥ 53

/-- `RoundedInteger()` -/
def Decimal.roundedInteger (a : Decimal) : Nat :=
  if a.dp > 20 then 0xFFFFFFFFFFFFFFFF
  else
    let dp := a.dp.toNat
    let rec go : Nat → Nat → Nat → Nat
      | 0, _, n => n
      | fuel+1, i, n =>
        if (i : Int) < a.dp then
          if i < a.nd then go fuel (i+1) ((n * 10 + (a.d[i]!.toNat - 48)) % two64)
          else go fuel (i+1) ((n * 10) % two64)
        else n
    let n := go (dp + 1) 0 0
    if shouldRoundUp a a.dp then (n + 1) % two64 else n

def powtabAt (i : Nat) : Nat := if i ≥ Gen.powtab.size then 27 else Gen.powtab[i]!

/-- scale down: `for a.dp > 0` -/
def scaleDown : Nat → Decimal → Int → Option (Decimal × Int)
  | 0, _, _ => none
  | fuel+1, a, exp =>
    if a.dp > 0 then
      let n := powtabAt a.dp.toNat
      match a.shift (-(n : Int)) with
      | none => none
      | some a => scaleDown fuel a (exp + n)
    else some (a, exp)

/-- scale up: `for a.dp < 0 || a.dp == 0 && a.d[0] < '5'` -/
def scaleUp : Nat → Decimal → Int → Option (Decimal × Int)
  | 0, _, _ => none
  | fuel+1, a, exp =>
    if a.dp < 0 || (a.dp == 0 && a.d[0]! < 53) then
      let n := powtabAt (-a.dp).toNat
      match a.shift n with
      | none => none
      | some a => scaleUp fuel a (exp - n)
    else some (a, exp)

def assemble (mant : Nat) (exp : Int) (neg : Bool) : Nat :=
  let mantbits := Gen.fpMantBits
  let expbits := Gen.fpExpBits
  let bias := Gen.fpBias
  let bits := mant % 2^mantbits
  let e : Nat := ((exp - bias) % (2^expbits : Nat)).toNat
  bits ||| (e <<< mantbits) ||| (if neg then 1 <<< mantbits <<< expbits else 0)

/-- what the scaling part of `floatBits` hands to the rounding part -/
inductive Prep
  | early (r : Nat × Bool)            -- zero, obvious overflow / underflow
  | expOverflow (a : Decimal)         -- the exponent is too large once `a` has been scaled into [1/2, 1)
  | ready (a : Decimal) (exp : Int)   -- `a` after `a.Shift(1 + mantbits)`, binary exponent `exp`

/-- `floatBits()` up to and including `a.Shift(int(1 + flt.mantbits))`; `none` = panic / fuel -/
def Decimal.prepare (a : Decimal) : Option Prep :=
  let mantbits := Gen.fpMantBits
  let expbits := Gen.fpExpBits
  let bias := Gen.fpBias
  let overflow : Nat × Bool := (assemble 0 ((2^expbits : Nat) - 1 + bias) a.neg, true)
  if a.nd == 0 then some (.early (assemble 0 bias a.neg, false))
  else if a.dp > 310 then some (.early overflow)
  else if a.dp < -330 then some (.early (assemble 0 bias a.neg, false))
  else
    match scaleDown 2000 a 0 with
    | none => none
    | some (a, exp) =>
      match scaleUp 2000 a exp with
      | none => none
      | some (a, exp) =>
        let exp := exp - 1
        let r : Option (Decimal × Int) :=
          if exp < bias + 1 then
            let n := bias + 1 - exp
            match a.shift (-n) with
            | none => none
            | some a => some (a, exp + n)
          else some (a, exp)
        match r with
        | none => none
        | some (a, exp) =>
          if exp - bias ≥ (2^expbits : Nat) - 1 then some (.expOverflow a)
          else
            match a.shift (1 + mantbits : Nat) with
            | none => none
            | some a => some (.ready a exp)

/-- the rest of `floatBits()`: `RoundedInteger`, the carry out of the mantissa, the denormal flag, assembly -/
def Decimal.finish (a : Decimal) (exp : Int) : Nat × Bool :=
  let mantbits := Gen.fpMantBits
  let expbits := Gen.fpExpBits
  let bias := Gen.fpBias
  let overflow : Nat × Bool := (assemble 0 ((2^expbits : Nat) - 1 + bias) a.neg, true)
  let mant := a.roundedInteger
  let (mant, exp, ovf) : Nat × Int × Bool :=
    if mant == 2 <<< mantbits then
      (mant >>> 1, exp + 1, decide (exp + 1 - bias ≥ (2^expbits : Nat) - 1))
    else (mant, exp, false)
  if ovf then overflow
  else
    let exp := if mant &&& (1 <<< mantbits) == 0 then bias else exp
    (assemble mant exp a.neg, false)

/-- did the multiprecision conversion run without ever dropping a non-zero digit? (the `trunc` flag of the decimal that
    reached the rounding step; the flag never goes back down) -/
def Decimal.exactRun (a : Decimal) : Bool :=
  match a.prepare with
  | some (.ready a' _) => !a'.trunc
  | some (.expOverflow a') => !a'.trunc
  | some (.early _) => !a.trunc
  | none => false

/-- `floatBits()`: `(bits, overflow)`; `none` = panic / fuel -/
def Decimal.floatBits (a : Decimal) : Option (Nat × Bool) :=
  match a.prepare with
  | none => none
  | some (.early r) => some r
  | some (.expOverflow a') => some (assemble 0 ((2^Gen.fpExpBits : Nat) - 1 + Gen.fpBias) a'.neg, true)
  | some (.ready a' exp) => some (a'.finish exp)

/-! ## ParseJSONFloatPrefix -/

inductive Path | syntax | exact | eisel | eiselTrunc | slow | slowRange | slowSyntax | panic
  deriving DecidableEq, Repr

def Path.name : Path → String
  | .syntax => "syntax" | .exact => "exact" | .eisel => "eisel" | .eiselTrunc => "eiselTrunc"
  | .slow => "slow" | .slowRange => "slowRange" | .slowSyntax => "slowSyntax" | .panic => "panic"

structure Parsed where
  bits : Nat
  n : Nat
  err : Bool
  path : Path
  deriving Repr

/-- `ParseJSONFloatPrefix(data)` -/
def parse (data : Bytes) : Parsed :=
  let rf := readFloat data
  if !rf.ok then { bits := 0, n := 0, err := true, path := .syntax }
  else if rf.p > 0 && data[rf.p - 1]! == 46 then { bits := 0, n := 0, err := true, path := .syntax }
  else
    let n := rf.p
    let exactR := if !rf.trunc then atof64exact rf.mantissa rf.exp rf.neg else none
    match exactR with
    | some f => { bits := f, n := n, err := false, path := .exact }
    | none =>
      let el : Option (Nat × Path) :=
        match eiselLemire64 rf.mantissa rf.exp rf.neg with
        | some f2 =>
          if !rf.trunc then some (f2, .eisel)
          else
            match eiselLemire64 ((rf.mantissa + 1) % two64) rf.exp rf.neg with
            | some fUp => if f2 == fUp then some (f2, .eiselTrunc) else none
            | none => none
        | none => none
      match el with
      | some (f, path) => { bits := f, n := n, err := false, path := path }
      | none =>
        match Decimal.set (data.extract 0 n) with
        | none => { bits := 0, n := n, err := true, path := .slowSyntax }
        | some d =>
          match d.floatBits with
          | none => { bits := 0, n := n, err := true, path := .panic }
          | some (b, ovf) =>
            if ovf then { bits := 0, n := n, err := true, path := .slowRange }
            else { bits := b, n := n, err := false, path := .slow }

end RJson.FP
