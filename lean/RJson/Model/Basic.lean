/-!
# Basic vocabulary shared by the model: bytes, Go `int` wrap-around, checked accesses, error classes.

Hand-written; part of the trusted reading of Go (see DESIGN.md section 9).
-/
namespace RJson

abbrev Bytes := Array UInt8

/-- The sentinel errors of `machine_helpers.go` (plus two classes for errors built with `fmt.Errorf` at the
    point of failure). The correspondence run compares these class names with `VerifErrClass`. -/
inductive Err
  | maxDepth | unexpectedEOF | invalidString | invalidArray | invalidObject
  | invalidUInt | invalidInt | invalidNumber | noValidToken | notNull | notBool | pOutOfRange
  | other
  deriving DecidableEq, Repr, Inhabited

def Err.name : Err → String
  | .maxDepth => "maxDepth" | .unexpectedEOF => "unexpectedEOF" | .invalidString => "invalidString"
  | .invalidArray => "invalidArray" | .invalidObject => "invalidObject" | .invalidUInt => "invalidUInt"
  | .invalidInt => "invalidInt" | .invalidNumber => "invalidNumber" | .noValidToken => "noValidToken"
  | .notNull => "notNull" | .notBool => "notBool" | .pOutOfRange => "pOutOfRange" | .other => "other"

/-- Go's `int` is 64 bit two's complement on the platforms considered (trusted base). -/
def wrap64 (x : Int) : Int := (x + 9223372036854775808) % 18446744073709551616 - 9223372036854775808

def minInt64 : Int := -9223372036854775808
def maxInt64 : Int := 9223372036854775807

/-- Checked read of `data[p]`: `none` is Go's index-out-of-range panic. -/
def getByte (data : Bytes) (p : Int) : Option UInt8 :=
  if 0 ≤ p ∧ p < data.size then data[p.toNat]? else none

/-- Checked `data[lo:hi]` (stricter than Go: we do not model spare capacity of the *input*). -/
def sliceChecked (data : Bytes) (lo hi : Int) : Option Bytes :=
  if 0 ≤ lo ∧ lo ≤ hi ∧ hi ≤ data.size then some (data.extract lo.toNat hi.toNat) else none

def isWs (b : UInt8) : Bool := b == 32 || b == 9 || b == 10 || b == 13
def isDigit (b : UInt8) : Bool := 48 ≤ b && b ≤ 57

def hexDigitChar (n : Nat) : Char :=
  if n < 10 then Char.ofNat (48 + n) else Char.ofNat (87 + n)

def bytesToHex (b : Bytes) : String :=
  b.foldl (fun s x => (s.push (hexDigitChar (x.toNat / 16))).push (hexDigitChar (x.toNat % 16))) ""

def hexVal (c : Char) : Option Nat :=
  if '0' ≤ c ∧ c ≤ '9' then some (c.toNat - 48)
  else if 'a' ≤ c ∧ c ≤ 'f' then some (c.toNat - 87)
  else if 'A' ≤ c ∧ c ≤ 'F' then some (c.toNat - 55)
  else none

def hexToBytes (s : String) : Option Bytes :=
  let rec go : List Char → Bytes → Option Bytes
    | [], acc => some acc
    | [_], _ => none
    | a :: b :: rest, acc =>
      match hexVal a, hexVal b with
      | some x, some y => go rest (acc.push (UInt8.ofNat (x * 16 + y)))
      | _, _ => none
  if s == "-" then some #[] else go s.toList #[]

end RJson
