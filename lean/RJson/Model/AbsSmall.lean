import RJson.Model.Abs
/-!
# Abstract machines for the four small generated machines (hand-written)

* literal readers `readNull`, `readBool`: whitespace, then the literal; `readBool` sets `val` on the last byte;
* string machines `appendRemainderOfString` (up to and including the closing quote) and
  `unescapeStringContent` (to the end of the input; additionally accepts `\'`): plain bytes are appended one at
  a time (`segStart` on entering, `appendSeg` on leaving a plain byte), simple escapes append their byte,
  `\uXXXX` calls `unescapeUnicodeChar` on its last hex digit.
-/
namespace RJson.AbsSmall
open RJson.Ragel RJson.Abs

/-! ## literal readers -/

inductive LS
  | ws                       -- skipping whitespace, before the literal
  | lit (l : Lit) (i : Nat)  -- `i` bytes of the literal's tail matched
  | done
  deriving DecidableEq, Repr, Inhabited

inductive LKind | null | bool
  deriving DecidableEq, Repr

def lerr (k : LKind) : Err := match k with | .null => .notNull | .bool => .notBool

def lstep (k : LKind) (s : LS) (b : UInt8) : List (Act LS) × Option LS :=
  match s with
  | .ws =>
    if isWs b then ([], some .ws)
    else if k == .null && b == 110 then ([], some (.lit .n 0))
    else if k == .bool && b == 116 then ([], some (.lit .t 0))
    else if k == .bool && b == 102 then ([], some (.lit .f 0))
    else ([.s (.errReturn (lerr k))], none)
  | .lit l i =>
    match l.tail[i]? with
    | some x =>
      if b == x then
        if i + 1 == l.tail.length then
          (match l with
            | .t => ([.s (.setBool true)], some .done)
            | .f => ([.s (.setBool false)], some .done)
            | .n => ([], some .done))
        else ([], some (.lit l (i + 1)))
      else ([.s (.errReturn (lerr k))], none)
    | none => ([.s (.errReturn (lerr k))], none)
  | .done => ([], none)

def leof (k : LKind) (s : LS) : List SAct :=
  match s with
  | .done => []
  | _ => [.errReturn (lerr k)]

def lmachine (k : LKind) : PDM LS :=
  { step := lstep k, eof := leof k, start := .ws, maxDepth := 0, hasField := false }

/-! ## string machines -/

inductive SS
  | start          -- at the beginning or directly after a complete escape
  | plain          -- directly after a plain byte (its segment is still to be appended)
  | esc            -- after a backslash
  | u (k : Nat)    -- after `\u` and `k` hex digits
  | done           -- after the closing quote (appendRemainderOfString)
  deriving DecidableEq, Repr, Inhabited

inductive SKind | append | unescape
  deriving DecidableEq, Repr

/-- the byte a simple escape stands for -/
def escByte (k : SKind) (b : UInt8) : Option UInt8 :=
  if b == 34 then some 34 else if b == 92 then some 92 else if b == 47 then some 47
  else if b == 98 then some 8 else if b == 102 then some 12 else if b == 110 then some 10
  else if b == 114 then some 13 else if b == 116 then some 9
  else if k == .unescape && b == 39 then some 39
  else none

def serr : List (Act SS) × Option SS := ([.s (.errReturn .invalidString)], none)

def sstep (k : SKind) (s : SS) (b : UInt8) : List (Act SS) × Option SS :=
  let leave : List (Act SS) := if s == .plain then [.s .appendSeg] else []
  match s with
  | .start | .plain =>
    -- `unescapeStringContent` has no error action in these (final) states: a quote or a control byte ends the
    -- run without an error, at that byte
    -- (the pending segment of a plain byte is *not* appended on that exit)
    if b == 34 then (if k == .append then (leave, some .done) else ([], none))
    else if b == 92 then (leave ++ [.s .segStart], some .esc)
    else if b < 32 then (if k == .append then serr else ([], none))
    else (leave ++ [.s .segStart], some .plain)
  | .esc =>
    if b == 117 then ([], some (.u 0))
    else match escByte k b with
      | some c => ([.s (.appendByte c)], some .start)
      | none => serr
  | .u n =>
    if isHexB b then (if n ≥ 3 then ([.s .unescapeU], some .start) else ([], some (.u (n + 1))))
    else serr
  | .done => ([], none)

def seof (k : SKind) (s : SS) : List SAct :=
  match k, s with
  | _, .done => []
  | .unescape, .start => []
  | .unescape, .plain => [.appendSeg]
  | _, _ => [.errReturn .invalidString]

def smachine (k : SKind) : PDM SS :=
  { step := sstep k, eof := seof k, start := .start, maxDepth := 0, hasField := false }

end RJson.AbsSmall
