import RJson.Model.Ragel
import RJson.Gen.ReadNull
import RJson.Gen.ReadBool
import RJson.Gen.SkipValue
import RJson.Gen.SkipValueFast
import RJson.Gen.HandleArrayValues
import RJson.Gen.HandleObjectValues
import RJson.Gen.UnescapeStringContent
import RJson.Gen.AppendRemainderOfString
/-!
# Hand models of the hand-written Go around the generated machines

`rjson.go` (wrappers, `Valid`), `token.go` (`NextToken`, `NextTokenType`), `simple_readers.go`,
`decode.go`. Each definition mirrors the Go function named in its doc comment; the generated machines are
run through `Ragel.runA`/`runL` on the regenerated tables. Go `int`/`uint64` arithmetic is modelled with
`UInt64` where the code relies on wrap-around, positions are `Nat` (bounded by an input length).
-/
namespace RJson.Model
open RJson.Ragel

/-- outcome of a call: `(value, p, err)` in Go becomes `⟨val, p, err⟩` -/
structure R (α : Type) where
  val : α
  p : Int
  err : Option Err
  panicked : Bool := false
  deriving Repr

def R.ok {α} (r : R α) : Bool := r.err.isNone && !r.panicked

def ofResult {τ} (res : Result τ) : Option Err × Bool :=
  match res.kind with
  | .ok => (none, false)
  | .err e => (some e, false)
  | .herr _ => (some .other, false)
  | .panic | .fuel | .badDepth => (none, true)

/-- run a handler-free generated machine; the stack (if any) is the Go slice handed in -/
def runPlain (M : PDM Nat) (data : Bytes) (stack0 : Array Nat) (dst : Bytes := #[]) : Result Unit × Array Nat :=
  runA M data noHandler (fun _ _ => none) stack0 dst ()

/-- run a generated machine that has no return-state stack at all in the Go code (literal and string machines) -/
def runNoStack (M : PDM Nat) (data : Bytes) (dst : Bytes := #[]) : Result Unit :=
  runL M data noHandler dst ()

/-! ## rjson.go -/

/-- `SkipValue` with `buffer.stackBuf = stack0` (`#[]` for a nil buffer); also returns the stack stored back -/
def skipValue (data : Bytes) (stack0 : Array Nat) : R Unit × Array Nat :=
  let (res, st) := runPlain Gen.SkipValue.machine data stack0
  let (e, pk) := ofResult res
  ({ val := (), p := res.p, err := e, panicked := pk }, st)

def skipValueFast (data : Bytes) (stack0 : Array Nat) : R Unit × Array Nat :=
  let (res, st) := runPlain Gen.SkipValueFast.machine data stack0
  let (e, pk) := ofResult res
  ({ val := (), p := res.p, err := e, panicked := pk }, st)

/-- the part of `Valid` after the machine returned `(p, err)` -/
def validOf (data : Bytes) (res : Result Unit) : Option Bool :=
  let (e, pk) := ofResult res
  if pk then none
  else if e.isSome then some false
  else if res.p > data.size then some true
  else
    -- p + countWhitespace(data[p:]) >= len(data)
    some (decide (countWsFrom data data.size res.p.toNat ≥ data.size))

/-- `Valid` -/
def valid (data : Bytes) (stack0 : Array Nat) : Option Bool × Array Nat :=
  let rs := runPlain Gen.SkipValue.machine data stack0
  (validOf data rs.1, rs.2)

/-! ## token.go -/

def tokenType (b : UInt8) : Nat := (Gen.tokenTypesTab >>> (8 * b.toNat)) &&& 0xFF

inductive TokErr | eof | noValidToken
  deriving DecidableEq, Repr

/-- `NextToken`: `(token, p, err)` -/
def nextToken (data : Bytes) : UInt8 × Nat × Option TokErr :=
  if data.size == 0 then (0, 0, some .eof)
  else
    let b0 := data[0]!
    if tokenType b0 != 0 then (b0, 1, none)
    else if !isWsT b0 then (b0, 1, some .noValidToken)
    else
      let p := countWhitespace data
      if p ≥ data.size then (0, p, some .eof)
      else
        let b := data[p]!
        if tokenType b == 0 then (b, p + 1, some .noValidToken) else (b, p + 1, none)

/-- `NextTokenType`: `(type, p, err)` -/
def nextTokenType (data : Bytes) : Nat × Nat × Option TokErr :=
  if data.size == 0 then (0, 0, some .eof)
  else
    let b0 := data[0]!
    let tp := tokenType b0
    if tp != 0 then (tp, 1, none)
    else if !isWsT b0 then (tp, 1, none)
    else
      let p := countWhitespace data
      if p ≥ data.size then (0, p, some .eof)
      else (tokenType data[p]!, p + 1, none)

/-! ## simple_readers.go: integers -/

def uintCutoff : UInt64 := 1844674407370955162     -- (1<<64-1)/10 + 1

/-- first loop of `ReadUint64`: at most 18 digits, unchecked -/
def uintLoop1 (data : Bytes) (startP : Nat) : Nat → Nat → UInt64 → Nat × UInt64
  | 0, p, val => (p, val)
  | fuel+1, p, val =>
    match data[p]? with
    | none => (p, val)
    | some b =>
      if p - startP == 18 || b < 48 || b > 57 then (p, val)
      else uintLoop1 data startP fuel (p + 1) (val * 10 + (b.toUInt64 - 48))

/-- second loop of `ReadUint64`: overflow-checked; `none` = "value out of uint64 range" at `p` -/
def uintLoop2 (data : Bytes) : Nat → Nat → UInt64 → Nat × Option UInt64
  | 0, p, val => (p, some val)
  | fuel+1, p, val =>
    match data[p]? with
    | none => (p, some val)
    | some b =>
      if b < 48 || b > 57 then (p, some val)
      else if val > uintCutoff then (p, none)
      else
        let newVal := val * 10 + (b.toUInt64 - 48)
        if newVal < val then (p, none) else uintLoop2 data fuel (p + 1) newVal

def isDotOrExp (b : UInt8) : Bool := b == 46 || b == 101 || b == 69

/-- both digit loops of `ReadUint64` from `startP`: `(end position, value or none on overflow)` -/
def uintDigits (data : Bytes) (startP : Nat) : Nat × Option UInt64 :=
  let r1 := uintLoop1 data startP (data.size - startP) startP 0
  if r1.1 - startP == 18 then uintLoop2 data (data.size - r1.1) r1.1 r1.2 else (r1.1, some r1.2)

/-- the checks after a single `0` (at `p - 1`) -/
def uintZero (data : Bytes) (off p : Nat) : R UInt64 :=
  if p == data.size then { val := 0, p := (p - off : Nat), err := none }
  else if isDotOrExp data[p]! then { val := 0, p := (p - off : Nat), err := some .invalidUInt }
  else { val := 0, p := (p - off : Nat), err := none }

/-- the checks after the digit loops -/
def uintFinish (data : Bytes) (off startP p : Nat) (val : UInt64) : R UInt64 :=
  if p - startP == 0 then { val := 0, p := (p - off : Nat), err := some .invalidUInt }
  else if p == data.size then { val := val, p := (p - off : Nat), err := none }
  else if isDotOrExp data[p]! then { val := 0, p := (p - off : Nat), err := some .invalidUInt }
  else { val := val, p := (p - off : Nat), err := none }

/-- `ReadUint64(data[off:])`; positions relative to `off` -/
def readUint64From (data : Bytes) (off : Nat) : R UInt64 :=
  let p := countWsFrom data data.size off
  if p == data.size then { val := 0, p := (p - off : Nat), err := some .invalidUInt }
  else if data[p]! == 48 then uintZero data off (p + 1)
  else
    match uintDigits data p with
    | (pend, none) => { val := 0, p := (pend - off : Nat), err := some .other }
    | (pend, some val) => uintFinish data off p pend val

def readUint64 (data : Bytes) : R UInt64 := readUint64From data 0

/-- `ReadInt64` after the whitespace scan stopped at `p` -/
def readInt64At (data : Bytes) (p : Nat) : R Int :=
  let len := data.size
  if p == len then { val := 0, p := p, err := some .invalidInt }
  else
    let neg := data[p]! == 45
    let p := if neg then p + 1 else p
    if neg && (p == len || isWsT data[p]!) then { val := 0, p := p, err := some .invalidInt }
    else
      let r := readUint64From data p
      let p' : Int := p + r.p
      match r.err with
      | some e => { val := 0, p := p', err := some e }
      | none =>
        let u := r.val.toNat
        if neg then
          if u > 9223372036854775808 then { val := 0, p := p', err := some .other }
          else { val := -(u : Int), p := p', err := none }
        else if u ≥ 9223372036854775808 then { val := 0, p := p', err := some .other }
        else { val := u, p := p', err := none }

/-- `ReadInt64`; the value is returned as a mathematical integer -/
def readInt64 (data : Bytes) : R Int := readInt64At data (countWhitespace data)

def readInt32 (data : Bytes) : R Int :=
  let r := readInt64 data
  match r.err with
  | some _ => { r with val := 0 }
  | none => if r.val > 2147483647 || r.val < -2147483648 then { val := 0, p := r.p, err := some .invalidInt } else r

def readUint32 (data : Bytes) : R UInt64 :=
  let r := readUint64 data
  if r.err.isNone && r.val > 4294967295 then { val := 0, p := r.p, err := some .invalidUInt } else r

/-- `ReadInt` / `ReadUint` on a 64-bit platform (`strconv.IntSize = 64`, trusted base) -/
def readInt (data : Bytes) : R Int := readInt64 data
def readUint (data : Bytes) : R UInt64 := readUint64 data

/-! ## literals -/

def readNull (data : Bytes) : R Unit :=
  let res := runNoStack Gen.ReadNull.machine data
  let (e, pk) := ofResult res
  { val := (), p := res.p, err := e, panicked := pk }

def readBool (data : Bytes) : R Bool :=
  let res := runNoStack Gen.ReadBool.machine data
  let (e, pk) := ofResult res
  { val := res.val, p := res.p, err := e, panicked := pk }

/-! ## strings -/

/-- `appendRemainderOfString(data[off:], dst)` -/
def appendRemainder (data : Bytes) (off : Nat) (dst : Bytes) : R Bytes :=
  let res := runNoStack Gen.AppendRemainderOfString.machine (data.extract off data.size) dst
  let (e, pk) := ofResult res
  { val := res.dst, p := res.p, err := e, panicked := pk }

/-- `UnescapeStringContent(data, dst)` -/
def unescapeStringContent (data dst : Bytes) : R Bytes :=
  let res := runNoStack Gen.UnescapeStringContent.machine data dst
  let (e, pk) := ofResult res
  { val := res.dst, p := res.p, err := e, panicked := pk }

inductive StrScan
  | quote (p : Nat) | escape (p : Nat) | control (p : Nat) | eof (p : Nat)

/-- the fast pre-scan of `ReadStringBytes`: first `"`/`\\`/control byte at or after `p` -/
def strScan (data : Bytes) : Nat → Nat → StrScan
  | 0, p => .eof p
  | fuel+1, p =>
    match data[p]? with
    | none => .eof p
    | some b =>
      if b ≤ 0x1f then .control p
      else if b == 34 then .quote p
      else if b == 92 then .escape p
      else strScan data fuel (p + 1)

/-- `ReadStringBytes(data, buf)` (content of `buf` only; capacity is the business of `Model.Cost`) -/
def readStringBytes (data buf : Bytes) : R Bytes :=
  let p := countWhitespace data
  if p == data.size || data[p]! != 34 then { val := buf, p := p, err := some .other }
  else
    let start := p + 1
    match strScan data (data.size - start) start with
    | .eof p => { val := buf, p := p, err := some .other }
    | .quote p => { val := buf ++ data.extract start p, p := (p + 1 : Nat), err := none }
    | .control p =>
      let r := appendRemainder data p buf
      { r with p := p + r.p }
    | .escape p =>
      let r := appendRemainder data p (buf ++ data.extract start p)
      { r with p := p + r.p }

/-- `ReadString(data, buf)`: the scratch buffer is truncated before use, so only its presence matters -/
def readString (data : Bytes) : R Bytes :=
  let r := readStringBytes data #[]
  if r.err.isSome then { r with val := #[] } else r

/-! ## decode.go -/

/-- the common shape of every `Decode*`: store on success; on failure fall back to `ReadNull`, leaving the target alone -/
def decode {α} (rd : Bytes → R α) (data : Bytes) (target : α) : R α :=
  let r := rd data
  if r.panicked then { r with val := target }
  else match r.err with
  | none => r
  | some e =>
    let n := readNull data
    if n.panicked then { val := target, p := 0, err := none, panicked := true }
    else match n.err with
    | none => { val := target, p := n.p, err := none }
    | some _ => { val := target, p := 0, err := some e }

/-! ## StdLibCompatible* -/

def isCont (b : UInt8) : Bool := 0x80 ≤ b && b ≤ 0xBF

/-- `utf8.DecodeRune(data[i:])` → `(rune, width)` (Unicode Table 3-7 as implemented by Go; `(0xFFFD, 1)` on any error, `(0xFFFD, 0)` on empty input) -/
def decodeRune (data : Bytes) (i : Nat) : Nat × Nat :=
  match data[i]? with
  | none => (0xFFFD, 0)
  | some b0 =>
    if b0 < 0x80 then (b0.toNat, 1)
    else if 0xC2 ≤ b0 && b0 ≤ 0xDF then
      match data[i+1]? with
      | some b1 => if isCont b1 then ((b0.toNat - 0xC0) * 64 + (b1.toNat - 0x80), 2) else (0xFFFD, 1)
      | none => (0xFFFD, 1)
    else if 0xE0 ≤ b0 && b0 ≤ 0xEF then
      match data[i+1]?, data[i+2]? with
      | some b1, some b2 =>
        let lo : UInt8 := if b0 == 0xE0 then 0xA0 else 0x80
        let hi : UInt8 := if b0 == 0xED then 0x9F else 0xBF
        if lo ≤ b1 && b1 ≤ hi && isCont b2 then
          ((b0.toNat - 0xE0) * 4096 + (b1.toNat - 0x80) * 64 + (b2.toNat - 0x80), 3)
        else (0xFFFD, 1)
      | _, _ => (0xFFFD, 1)
    else if 0xF0 ≤ b0 && b0 ≤ 0xF4 then
      match data[i+1]?, data[i+2]?, data[i+3]? with
      | some b1, some b2, some b3 =>
        let lo : UInt8 := if b0 == 0xF0 then 0x90 else 0x80
        let hi : UInt8 := if b0 == 0xF4 then 0x8F else 0xBF
        if lo ≤ b1 && b1 ≤ hi && isCont b2 && isCont b3 then
          ((b0.toNat - 0xF0) * 262144 + (b1.toNat - 0x80) * 4096 + (b2.toNat - 0x80) * 64 + (b3.toNat - 0x80), 4)
        else (0xFFFD, 1)
      | _, _, _ => (0xFFFD, 1)
    else (0xFFFD, 1)

/-- the loop shared by `StdLibCompatibleString` and `StdLibCompatibleStringBytes` -/
def sanitizeLoop (data : Bytes) : Nat → Nat → Bytes → Bytes
  | 0, _, out => out
  | fuel+1, i, out =>
    if i < data.size then
      let (r, w) := decodeRune data i
      sanitizeLoop data fuel (i + w) (out ++ (utf8Encode r).toArray)
    else out

/-- `StdLibCompatibleStringBytes(s, buf)`; `StdLibCompatibleString(s)` is the case `buf = #[]` -/
def stdLibCompatibleStringBytes (s buf : Bytes) : Bytes := sanitizeLoop s s.size 0 buf

def stdLibCompatibleString (s : Bytes) : Bytes := stdLibCompatibleStringBytes s #[]

end RJson.Model
