import RJson.Model.ValueReader
/-!
# Stateful hand model of `ValueReader` (complex_readers.go): what a reader keeps between calls

The stateless model (`Model.ValueReader`) returns results only. This one threads the fields a `ValueReader` keeps
across calls — `depth`, the map / slice size hints — and the child readers it borrows from its `sync.Pool`:

* `ReadObject` / `ReadArray` set `depth` to 1 when it is 0 and reset it on every exit (the `defer`);
* `borrowValueReader` takes *some* reader out of the pool (or a new one): modelled by an oracle `Nat → VRState`
  consulted at a running index, so a borrowed child may carry any hints and any stale depth; `depth` and
  `newMapSize` are overwritten as the code does;
* `HandleArrayValue` / `HandleObjectValue` read the reader's depth *from the state* at every call, pass
  `maxMapSize` down as the child's `newMapSize` and record the size of the child's result in `maxMapSize`;
* `lastMapSize` / `lastSliceSize` are refreshed after every traversal (also a failed one).

`make(map, hint)` / `make([]interface{}, 0, hint)` only reserve capacity, so the hints reach no result: that is the
theorem (`Props/C15`), not an assumption of this model — every field is read where the code reads it.
-/
namespace RJson.Model
open RJson.Ragel

structure VRState where
  depth : Nat := 0
  newMapSize : Nat := 0
  lastMapSize : Nat := 0
  maxMapSize : Nat := 0
  newSliceSize : Nat := 0
  lastSliceSize : Nat := 0
  deriving Repr, DecidableEq, Inhabited

/-- what `sync.Pool.Get` hands out at the `i`-th borrow (any reader state at all) -/
abbrev Oracle := Nat → VRState

/-- result, reader state afterwards, number of borrows so far -/
abbrev SR := R JVal × VRState × Nat

abbrev SReaders := (VRState → Nat → Bytes → SR) × (VRState → Nat → Bytes → SR)

/-- `borrowValueReader` -/
def borrow (orc : Oracle) (h : VRState) (tick : Nat) : VRState × Nat :=
  ({ orc tick with newMapSize := 0, depth := h.depth + 1 }, tick + 1)

/-- `len(val.(map[string]interface{}))` of what `ReadObject` returned (a nil map on error) -/
def mapLen (r : R JVal) : Nat :=
  match r.err, r.val with
  | none, .obj kvs => kvs.size
  | _, _ => 0

/-- the value-reading part of `HandleArrayValue` / `HandleObjectValue` on a reader in state `h`; the last component
    says whether the handler got as far as storing the value (`false` = one of the early `return`s) -/
def sHandleMember (orc : Oracle) (prev : SReaders) (h : VRState) (tick : Nat) (suffix : Bytes) : R JVal × VRState × Nat × Bool :=
  let (tp, p, terr) := nextTokenType suffix
  match terr with
  | some _ => ({ val := .null, p := p, err := some .other }, h, tick, false)
  | none =>
    let p := p - 1
    let data := suffix.extract p suffix.size
    if tp == 6 then
      let (h2, tick) := borrow orc h tick
      if h2.depth > Gen.valueReaderMaxDepth then ({ val := .null, p := p, err := some .maxDepth }, h, tick, false)
      else
        let (r, _, tick) := prev.1 { h2 with newMapSize := h.maxMapSize } tick data
        ({ r with p := p + r.p }, { h with maxMapSize := mapLen r }, tick, true)
    else if tp == 8 then
      let (h2, tick) := borrow orc h tick
      if h2.depth > Gen.valueReaderMaxDepth then ({ val := .null, p := p, err := some .maxDepth }, h, tick, false)
      else
        let (r, _, tick) := prev.2 h2 tick data
        ({ r with p := p + r.p }, h, tick, true)
    else
      let r := readSimpleValue data tp
      ({ r with p := p + r.p }, h, tick, true)

structure SArr where
  hs : ArrHS := {}
  st : VRState := {}
  tick : Nat := 0

structure SObj where
  hs : ObjHS := {}
  st : VRState := {}
  tick : Nat := 0
  cnt : Nat := 0          -- `len(h.objVal)` as the code sees it (a member that failed late is stored too)

def sArrHandler (orc : Oracle) (prev : SReaders) : Handler SArr := fun s _ suffix =>
  let (r, st, tick, _) := sHandleMember orc prev s.st s.tick suffix
  if r.panicked then ({ s with hs := { s.hs with panicked := true, err := some .other }, st := st, tick := tick }, r.p, some 1)
  else match r.err with
  | some e => ({ s with hs := { s.hs with err := some e }, st := st, tick := tick }, r.p, some 1)
  | none => ({ s with hs := { s.hs with vals := s.hs.vals.push r.val }, st := st, tick := tick }, r.p, none)

def sObjHandler (orc : Oracle) (prev : SReaders) : Handler SObj := fun s field suffix =>
  let key : R Bytes := objKeyOf field
  if key.panicked then ({ s with hs := { s.hs with panicked := true, err := some .other } }, 0, some 1)
  else match key.err with
  | some e => ({ s with hs := { s.hs with err := some e } }, 0, some 1)
  | none =>
    let (r, st, tick, late) := sHandleMember orc prev s.st s.tick suffix
    -- `h.objVal[string(fieldname)] = val` is executed whenever the handler did not return early
    let cnt := if late then (mapSet s.hs.kvs key.val .null).size else s.cnt
    if r.panicked then ({ s with hs := { s.hs with panicked := true, err := some .other }, st := st, tick := tick, cnt := cnt }, r.p, some 1)
    else match r.err with
    | some e => ({ s with hs := { s.hs with err := some e }, st := st, tick := tick, cnt := cnt }, r.p, some 1)
    | none => ({ s with hs := { s.hs with kvs := mapSet s.hs.kvs key.val r.val }, st := st, tick := tick, cnt := cnt }, r.p, none)

/-- `(*ValueReader).ReadObject` on a reader in state `h0` -/
def sObjReader (orc : Oracle) (prev : SReaders) (h0 : VRState) (tick : Nat) (data : Bytes) : SR :=
  let top := h0.depth == 0
  let h := if top then { h0 with depth := 1 } else h0
  let res := runL Gen.HandleObjectValues.machine data (sObjHandler orc prev) #[] { hs := {}, st := h, tick := tick }
  let h := { res.hs.st with lastMapSize := res.hs.cnt }
  let h := if top then { h with depth := 0 } else h
  let r : R JVal :=
    match res.kind with
    | .ok =>
      if res.hs.hs.kvs.size == 0 && firstIsNull data then { val := .null, p := res.p, err := some .invalidObject }
      else { val := .obj res.hs.hs.kvs, p := res.p, err := none }
    | .err e => { val := .null, p := res.p, err := some e }
    | .herr _ => { val := .null, p := res.p, err := res.hs.hs.err, panicked := res.hs.hs.panicked }
    | _ => { val := .null, p := res.p, err := none, panicked := true }
  (r, h, res.hs.tick)

/-- `(*ValueReader).ReadArray` on a reader in state `h0` -/
def sArrReader (orc : Oracle) (prev : SReaders) (h0 : VRState) (tick : Nat) (data : Bytes) : SR :=
  let top := h0.depth == 0
  let h := if top then { h0 with depth := 1 } else h0
  let res := runL Gen.HandleArrayValues.machine data (sArrHandler orc prev) #[] { hs := {}, st := h, tick := tick }
  let h := { res.hs.st with lastSliceSize := res.hs.hs.vals.size }
  let h := if top then { h with depth := 0 } else h
  let r : R JVal :=
    match res.kind with
    | .ok =>
      if res.hs.hs.vals.size == 0 && firstIsNull data then { val := .null, p := res.p, err := some .invalidArray }
      else { val := .arr res.hs.hs.vals, p := res.p, err := none }
    | .err e => { val := .null, p := res.p, err := some e }
    | .herr _ => { val := .null, p := res.p, err := res.hs.hs.err, panicked := res.hs.hs.panicked }
    | _ => { val := .null, p := res.p, err := none, panicked := true }
  (r, h, res.hs.tick)

def sReaders (orc : Oracle) : Nat → SReaders
  | 0 => (fun h t _ => ({ val := .null, p := 0, err := none, panicked := true }, h, t),
          fun h t _ => ({ val := .null, p := 0, err := none, panicked := true }, h, t))
  | fuel+1 => (sObjReader orc (sReaders orc fuel), sArrReader orc (sReaders orc fuel))

/-- `(*ValueReader).ReadObject` / `ReadArray` / `ReadValue` on a reader at rest in state `h` -/
def sReadObject (orc : Oracle) (h : VRState) (tick : Nat) (data : Bytes) : SR := (sReaders orc (readerFuel data)).1 h tick data

def sReadArray (orc : Oracle) (h : VRState) (tick : Nat) (data : Bytes) : SR := (sReaders orc (readerFuel data)).2 h tick data

def sReadValue (orc : Oracle) (h : VRState) (tick : Nat) (data : Bytes) : SR :=
  let (tp, p, terr) := nextTokenType data
  match terr with
  | some _ => ({ val := .null, p := p, err := some .other }, h, tick)
  | none =>
    let p := p - 1
    let sub := data.extract p data.size
    let (r, tick) : R JVal × Nat :=
      if tp == 6 then
        let (h2, tick) := borrow orc h tick
        let (r, _, tick) := (sReaders orc (readerFuel data)).1 h2 tick sub
        (r, tick)
      else if tp == 8 then
        let (h2, tick) := borrow orc h tick
        let (r, _, tick) := (sReaders orc (readerFuel data)).2 h2 tick sub
        (r, tick)
      else (readSimpleValue sub tp, tick)
    ({ r with p := p + r.p, val := if r.err.isSome then .null else r.val }, h, tick)

/-! ## histories of calls on one reader -/

inductive VOp | value | object | array
  deriving DecidableEq, Repr

/-- one call on a reader in state `h` -/
def sCall (orc : Oracle) : VOp → VRState → Nat → Bytes → SR
  | .value => sReadValue orc
  | .object => sReadObject orc
  | .array => sReadArray orc

/-- the same call on a brand-new reader -/
def freshCall : VOp → Bytes → R JVal
  | .value => readValue
  | .object => readObject
  | .array => readArray

/-- a sequence of calls threading the reader's state (results in call order) -/
def runHistory (orc : Oracle) : VRState → Nat → List (VOp × Bytes) → List (R JVal) × VRState × Nat
  | h, tick, [] => ([], h, tick)
  | h, tick, (op, data) :: rest =>
    let (r, h', tick') := sCall orc op h tick data
    let (rs, hf, tf) := runHistory orc h' tick' rest
    (r :: rs, hf, tf)

end RJson.Model
