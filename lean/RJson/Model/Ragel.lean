import RJson.Model.Helpers
/-!
# Interpreter for Ragel `-G2` (goto-driven) Go output

Hand-written once. A machine is data (regenerated from `*.rl.go` by the translator, or an abstract machine
written by hand); `runA` executes it the way the generated Go does, with the return-state stack as a Go
slice (`Array` + `top`, arbitrary initial contents, grown by `prepush`), `runL` is the same loop with the
*live* part of the stack as a `List`. `Proofs/StackIrrelevant.lean` relates the two.

Reading of the `-G2` template (checked statement by statement by the translator, validated by the
transition-cover correspondence run):

* `st_case_N:` reads `data[p]` (checked access) and jumps to `stM` (no action) or `trK` (action block, then `stM`).
* `stM:` is `p++; if p == pe → _test_eofM`, i.e. eof actions of `M` if any, then the epilogue.
* `st0:` is `cs = 0; goto _out` – the epilogue without `p++`.
* `fcall`: prepush (optional depth limit, grow), `stack[top] = ret; top++; goto stEntry`.
* `fret`: `top--; cs = stack[top]; goto _again` – continues at `st<cs>` (with `p++`).
* `fbreak`: `p++; goto _out`.
* the epilogue returns `p`, the `err` variable and the registers (`val`, `dst`).
-/
namespace RJson.Ragel

/-- integer expressions that occur inside handler actions, evaluated with Go `int` wrap-around -/
inductive GExpr
  | p | pp | pe | fs | fe
  | lit (n : Int)
  | add (a b : GExpr)
  | sub (a b : GExpr)
  deriving DecidableEq, Repr, Inhabited

inductive CmpOp | lt | le | gt | ge | eq | ne
  deriving DecidableEq, Repr, Inhabited

structure Guard where
  op : CmpOp
  a : GExpr
  b : GExpr
  deriving DecidableEq, Repr, Inhabited

structure Env where
  p : Int
  pp : Int
  pe : Int
  fs : Int
  fe : Int

def GExpr.eval (env : Env) : GExpr → Int
  | .p => env.p | .pp => env.pp | .pe => env.pe | .fs => env.fs | .fe => env.fe
  | .lit n => n
  | .add a b => wrap64 (a.eval env + b.eval env)
  | .sub a b => wrap64 (a.eval env - b.eval env)

def CmpOp.eval : CmpOp → Int → Int → Bool
  | .lt, x, y => x < y | .le, x, y => x ≤ y | .gt, x, y => x > y
  | .ge, x, y => x ≥ y | .eq, x, y => x == y | .ne, x, y => x != y

def Guard.eval (env : Env) (g : Guard) : Bool := g.op.eval (g.a.eval env) (g.b.eval env)

/-- actions that do not touch the return-state stack -/
inductive SAct
  | errReturn (e : Err)            -- `return p, …, errX`
  | errReturnByte                  -- `return nil, p, errUnexpectedByteInString(data[p])`
  | setErr (e : Err)               -- `err = errX`
  | brk                            -- `p++; cs = N; goto _out`
  | floatDec | floatExp            -- helper call + conditional break
  | fieldStart | fieldEnd
  | setBool (b : Bool)
  | segStart | appendSeg | appendByte (c : UInt8) | unescapeU
  | handler (retP : GExpr) (gNeg gNz gRange : Guard) (newP : GExpr) (flo fhi : GExpr)
  | handlerSimple (retP : GExpr) (flo fhi : GExpr)
  deriving DecidableEq, Repr, Inhabited

def SAct.isHandler : SAct → Bool
  | .handler .. => true
  | .handlerSimple .. => true
  | _ => false

inductive Act (σ : Type)
  | s (a : SAct)
  | call (limit : Bool) (ret entry : σ)
  | ret
  deriving DecidableEq, Repr, Inhabited

/-- a (generated or abstract) machine over state type `σ`; target `none` is the error state `st0` -/
structure PDM (σ : Type) where
  step : σ → UInt8 → List (Act σ) × Option σ
  eof : σ → List SAct
  start : σ
  maxDepth : Nat          -- `skipMaxDepth` for machines whose prepush has the limit
  hasField : Bool         -- object handler: the handler also receives `data[flo:fhi]`

/-- what a handler sees and returns: `(field, suffix) ↦ (new handler state, offset, error id)` -/
abbrev Handler (τ : Type) := τ → Bytes → Bytes → τ × Int × Option Nat

structure Regs (τ : Type) where
  p : Int
  err : Option Err
  fs : Int
  fe : Int
  val : Bool
  seg : Int
  dst : Bytes
  hs : τ
  ncalls : Nat

inductive Kind
  | ok | err (e : Err) | herr (id : Nat) | panic | fuel | badDepth
  deriving DecidableEq, Repr, Inhabited

structure Result (τ : Type) where
  kind : Kind
  p : Int
  val : Bool
  dst : Bytes
  hs : τ
  ncalls : Nat

def Regs.finish {τ} (r : Regs τ) : Result τ :=
  { kind := match r.err with | none => .ok | some e => .err e, p := r.p, val := r.val, dst := r.dst, hs := r.hs, ncalls := r.ncalls }

def Regs.stop {τ} (r : Regs τ) (k : Kind) (p : Int) (dst : Bytes := r.dst) : Result τ :=
  { kind := k, p := p, val := r.val, dst := dst, hs := r.hs, ncalls := r.ncalls }

inductive ActR (τ : Type)
  | cont (r : Regs τ)
  | stop (res : Result τ)

def Regs.env {τ} (r : Regs τ) (pp pe : Int) : Env := { p := r.p, pp := pp, pe := pe, fs := r.fs, fe := r.fe }

/-- the two arguments of a handler call; `none` is a slice-bounds panic -/
def handlerArgs {τ} (data : Bytes) (hasField : Bool) (flo fhi : GExpr) (r : Regs τ) : Option (Bytes × Bytes) :=
  let env := r.env 0 data.size
  match sliceChecked data r.p data.size with
  | none => none
  | some suffix =>
    if hasField then
      match sliceChecked data (flo.eval env) (fhi.eval env) with
      | none => none
      | some f => some (f, suffix)
    else some (#[], suffix)

def execSimple {τ} (data : Bytes) (hasField : Bool) (h : Handler τ) (a : SAct) (r : Regs τ) : ActR τ :=
  let pe : Int := data.size
  match a with
  | .errReturn e => .stop { r.stop (.err e) r.p #[] with val := false }
  | .errReturnByte =>
    match getByte data r.p with
    | none => .stop (r.stop .panic r.p)
    | some _ => .stop (r.stop (.err .other) r.p #[])
  | .setErr e => .cont { r with err := some e }
  | .brk => .stop ({ r with p := wrap64 (r.p + 1) }).finish
  | .floatDec =>
    match skipFloatDec data (wrap64 (r.p + 1)) pe with
    | none => .stop (r.stop .panic r.p)
    | some (p', none) => .cont { r with p := p', err := none }
    | some (p', some e) => .stop ({ r with p := wrap64 (p' + 1), err := some e }).finish
  | .floatExp =>
    match skipFloatExp data (wrap64 (r.p + 1)) pe with
    | none => .stop (r.stop .panic r.p)
    | some (p', none) => .cont { r with p := p', err := none }
    | some (p', some e) => .stop ({ r with p := wrap64 (p' + 1), err := some e }).finish
  | .fieldStart => .cont { r with fs := r.p }
  | .fieldEnd => .cont { r with fe := r.p }
  | .setBool b => .cont { r with val := b }
  | .segStart => .cont { r with seg := r.p }
  | .appendSeg =>
    match sliceChecked data r.seg r.p with
    | none => .stop (r.stop .panic r.p)
    | some s => .cont { r with dst := r.dst ++ s }
  | .appendByte c => .cont { r with dst := r.dst.push c }
  | .unescapeU =>
    if 0 ≤ r.seg ∧ r.seg ≤ pe then
      let (dst', n, ok) := unescapeUnicodeChar data r.seg.toNat r.dst
      if !ok then
        match getByte data r.p with
        | none => .stop (r.stop .panic r.p)
        | some _ => .stop (r.stop (.err .other) r.p #[])
      else if n > 6 then .cont { r with dst := dst', p := wrap64 (r.p + (n - 6)) }
      else .cont { r with dst := dst' }
    else .stop (r.stop .panic r.p)
  | .handler retP gNeg gNz gRange newP flo fhi =>
    match handlerArgs data hasField flo fhi r with
    | none => .stop (r.stop .panic r.p)
    | some (f, suffix) =>
      let (hs', pp, e) := h r.hs f suffix
      let r := { r with hs := hs', ncalls := r.ncalls + 1 }
      let env := r.env pp pe
      match e with
      | some id => .stop (r.stop (.herr id) (retP.eval env))
      | none =>
        if gNeg.eval env then .stop ({ r with p := wrap64 (r.p + 1), err := some .pOutOfRange }).finish
        else if gNz.eval env then
          if gRange.eval env then .stop ({ r with p := wrap64 (r.p + 1), err := some .pOutOfRange }).finish
          else .cont { r with p := newP.eval env, err := none }
        else .cont { r with err := none }
  | .handlerSimple retP flo fhi =>
    match handlerArgs data hasField flo fhi r with
    | none => .stop (r.stop .panic r.p)
    | some (f, suffix) =>
      let (hs', pp, e) := h r.hs f suffix
      let r := { r with hs := hs', ncalls := r.ncalls + 1 }
      match e with
      | some id => .stop (r.stop (.herr id) (retP.eval (r.env pp pe)))
      | none => .cont { r with err := none }

/-- eof actions (only stack-free actions can occur there) followed by the epilogue -/
def runEof {τ} (data : Bytes) (hasField : Bool) (h : Handler τ) : List SAct → Regs τ → Result τ
  | [], r => r.finish
  | a :: rest, r =>
    match execSimple data hasField h a r with
    | .stop res => res
    | .cont r' => runEof data hasField h rest r'

/-! ## list-stack runner -/

inductive ActsR (σ τ : Type)
  | stop (res : Result τ)
  | next (tgt : Option σ) (st : List σ) (r : Regs τ)

def execActsL {σ τ} (M : PDM σ) (data : Bytes) (h : Handler τ) :
    List (Act σ) → Option σ → List σ → Regs τ → ActsR σ τ
  | [], tgt, st, r => .next tgt st r
  | .s a :: rest, tgt, st, r =>
    if a.isHandler && !st.isEmpty then .stop (r.stop .badDepth r.p)
    else
      match execSimple data M.hasField h a r with
      | .stop res => .stop res
      | .cont r' => execActsL M data h rest tgt st r'
  | .call limit rs en :: rest, _, st, r =>
    if limit && st.length == M.maxDepth then
      .stop ({ r with p := wrap64 (r.p + 1), err := some .maxDepth }).finish
    else execActsL M data h rest (some en) (rs :: st) r
  | .ret :: rest, _, st, r =>
    match st with
    | [] => .stop (r.stop .panic r.p)
    | top :: st' => execActsL M data h rest (some top) st' r

def loopL {σ τ} (M : PDM σ) (data : Bytes) (h : Handler τ) : Nat → σ → List σ → Regs τ → Result τ
  | 0, _, _, r => r.stop .fuel r.p
  | fuel+1, cs, st, r =>
    match getByte data r.p with
    | none => r.stop .panic r.p
    | some b =>
      let (acts, tgt) := M.step cs b
      match execActsL M data h acts tgt st r with
      | .stop res => res
      | .next none _ r' => r'.finish
      | .next (some n) st' r' =>
        let r'' := { r' with p := wrap64 (r'.p + 1) }
        if r''.p == (data.size : Int) then runEof data M.hasField h (M.eof n) r''
        else loopL M data h fuel n st' r''

def initRegs {τ} (dst : Bytes) (hs : τ) : Regs τ :=
  { p := 0, err := none, fs := 0, fe := 0, val := false, seg := 0, dst := dst, hs := hs, ncalls := 0 }

def fuelFor (data : Bytes) : Nat := 2 * data.size + 2

def runL {σ τ} (M : PDM σ) (data : Bytes) (h : Handler τ) (dst : Bytes) (hs : τ) : Result τ :=
  let r := initRegs dst hs
  if data.size == 0 then runEof data M.hasField h (M.eof M.start) r
  else loopL M data h (fuelFor data) M.start [] r

/-! ## array-stack runner (the Go slice, with arbitrary initial contents and re-entrant havoc) -/

/-- `prepush` growth + `stack[top] = v` -/
def pushA {σ} [Inhabited σ] (stack : Array σ) (top : Nat) (v : σ) : Option (Array σ) :=
  let stack := if top + 1 ≥ stack.size then stack ++ Array.replicate (1 + top - stack.size) default else stack
  if top < stack.size then some (stack.set! top v) else none

inductive ActsRA (σ τ : Type)
  | stop (res : Result τ) (stack : Array σ)
  | next (tgt : Option σ) (stack : Array σ) (top : Nat) (r : Regs τ)

/-- `hv k i` = content of slot `i` after the `k`-th handler call returned (a re-entrant use of the same
    `Buffer` may have written anything into the shared backing array) -/
abbrev Havoc (σ : Type) := Nat → Nat → Option σ

def applyHavoc {σ} (hv : Havoc σ) (k : Nat) (stack : Array σ) : Array σ :=
  Array.ofFn (n := stack.size) (fun i => (hv k i.val).getD stack[i])

def execActsA {σ τ} [Inhabited σ] (M : PDM σ) (data : Bytes) (h : Handler τ) (hv : Havoc σ) :
    List (Act σ) → Option σ → Array σ → Nat → Regs τ → ActsRA σ τ
  | [], tgt, stack, top, r => .next tgt stack top r
  | .s a :: rest, tgt, stack, top, r =>
    let stack' := if a.isHandler then applyHavoc hv r.ncalls stack else stack
    match execSimple data M.hasField h a r with
    | .stop res => .stop res stack'
    | .cont r' => execActsA M data h hv rest tgt stack' top r'
  | .call limit rs en :: rest, _, stack, top, r =>
    if limit && top == M.maxDepth then
      .stop ({ r with p := wrap64 (r.p + 1), err := some .maxDepth }).finish stack
    else
      match pushA stack top rs with
      | none => .stop (r.stop .panic r.p) stack
      | some stack' => execActsA M data h hv rest (some en) stack' (top + 1) r
  | .ret :: rest, _, stack, top, r =>
    match top with
    | 0 => .stop (r.stop .panic r.p) stack
    | top'+1 =>
      match stack[top']? with
      | none => .stop (r.stop .panic r.p) stack
      | some cs => execActsA M data h hv rest (some cs) stack top' r

def loopA {σ τ} [Inhabited σ] (M : PDM σ) (data : Bytes) (h : Handler τ) (hv : Havoc σ) :
    Nat → σ → Array σ → Nat → Regs τ → Result τ × Array σ
  | 0, _, stack, _, r => (r.stop .fuel r.p, stack)
  | fuel+1, cs, stack, top, r =>
    match getByte data r.p with
    | none => (r.stop .panic r.p, stack)
    | some b =>
      let (acts, tgt) := M.step cs b
      match execActsA M data h hv acts tgt stack top r with
      | .stop res stack' => (res, stack')
      | .next none stack' _ r' => (r'.finish, stack')
      | .next (some n) stack' top' r' =>
        let r'' := { r' with p := wrap64 (r'.p + 1) }
        if r''.p == (data.size : Int) then (runEof data M.hasField h (M.eof n) r'', stack')
        else loopA M data h hv fuel n stack' top' r''

def runA {σ τ} [Inhabited σ] (M : PDM σ) (data : Bytes) (h : Handler τ) (hv : Havoc σ) (stack0 : Array σ)
    (dst : Bytes) (hs : τ) : Result τ × Array σ :=
  let r := initRegs dst hs
  if data.size == 0 then (runEof data M.hasField h (M.eof M.start) r, stack0)
  else loopA M data h hv (fuelFor data) M.start stack0 0 r

/-- a handler that is never called (machines without handler actions) -/
def noHandler : Handler Unit := fun _ _ _ => ((), 0, none)

end RJson.Ragel
