import RJson.Model.Driver
import Std.Data.HashMap
/-!
# Transition-cover input generation (test generation only — not part of the model the theorems are about)

BFS over configurations `(cs, live stack)` (stack depth ≤ `maxStack`) of a generated machine, driven by the
interpreter itself: the configuration reached by an input is observed by running the machine with a
declining handler and looking at where it stands at end of input. For every discovered configuration and
every byte (plus a few multi-byte symbols that get past the hand-written number scanners) the input
`access ++ symbol` is emitted, together with a shortest accepting completion of the configuration it leads to.
-/
namespace RJson.Cover
open RJson.Ragel RJson.Driver

abbrev Cfg := Nat × List Nat

/-- like `loopL`, but stops at end of input and reports the configuration instead of running eof actions -/
def loopCfg (M : PDM Nat) (data : Bytes) (h : Handler HS) : Nat → Nat → List Nat → Regs HS → Option Cfg
  | 0, _, _, _ => none
  | fuel+1, cs, st, r =>
    match getByte data r.p with
    | none => none
    | some b =>
      let (acts, tgt) := M.step cs b
      match execActsL M data h acts tgt st r with
      | .stop _ => none
      | .next none _ _ => none
      | .next (some n) st' r' =>
        let r'' := { r' with p := wrap64 (r'.p + 1) }
        if r''.p == (data.size : Int) then some (n, st')
        else loopCfg M data h fuel n st' r''

def declineHS (n : Nat) : HS := { script := #[.ret 0], idx := 0, total := n, trace := #[] }

def endCfg (M : PDM Nat) (data : Bytes) : Option Cfg :=
  if data.size == 0 then some (M.start, [])
  else loopCfg M data scriptHandler (fuelFor data) M.start [] (initRegs #[] (declineHS data.size))

def acceptsAtEof (M : PDM Nat) (data : Bytes) : Bool :=
  (runL M data scriptHandler #[] (declineHS data.size)).kind == .ok

def symbols : Array Bytes :=
  (Array.range 256).map (fun b => #[UInt8.ofNat b]) ++
  #[ #[46, 53], #[101, 53], #[69, 43, 53], #[46, 53, 101, 45, 53] ]   -- ".5" "e5" "E+5" ".5e-5"

structure St where
  access : Std.HashMap Cfg Bytes := {}
  order : Array Cfg := #[]
  edges : Array (Cfg × Bytes × Option Cfg) := #[]   -- (from, symbol, to)

partial def bfs (M : PDM Nat) (maxStack : Nat) (queue : Array Cfg) (qi : Nat) (st : St) : St :=
  if qi ≥ queue.size then st
  else
    let c := queue[qi]!
    let w := st.access.getD c #[]
    let (queue, st) := symbols.foldl (fun (queue, st) sym =>
      let inp := w ++ sym
      let tgt := endCfg M inp
      let st := { st with edges := st.edges.push (c, sym, tgt) }
      match tgt with
      | some c' =>
        if c'.2.length ≤ maxStack && !st.access.contains c' then
          (queue.push c', { st with access := st.access.insert c' inp, order := st.order.push c' })
        else (queue, st)
      | none => (queue, st)) (queue, st)
    bfs M maxStack queue (qi + 1) st

/-- shortest accepting completions by backward relaxation over the discovered edges -/
partial def completions (M : PDM Nat) (st : St) : Std.HashMap Cfg Bytes :=
  let init : Std.HashMap Cfg Bytes := st.order.foldl (fun m c =>
    if acceptsAtEof M (st.access.getD c #[]) then m.insert c #[] else m) {}
  let rec go (m : Std.HashMap Cfg Bytes) : Std.HashMap Cfg Bytes :=
    let (m', changed) := st.edges.foldl (fun (m, ch) (c, sym, tgt) =>
      match tgt with
      | some c' =>
        match m.get? c' with
        | some z =>
          let cand := sym ++ z
          match m.get? c with
          | some old => if cand.size < old.size then (m.insert c cand, true) else (m, ch)
          | none => (m.insert c cand, true)
        | none => (m, ch)
      | none => (m, ch)) (m, false)
    if changed then go m' else m'
  go init

/-- output: one line per (configuration, symbol): `<input hex> <completion hex or ->` -/
def coverLines (M : PDM Nat) (maxStack : Nat) : Array String :=
  let c0 : Cfg := (M.start, [])
  let st0 : St := { access := ({} : Std.HashMap Cfg Bytes).insert c0 #[], order := #[c0] }
  let st := bfs M maxStack #[c0] 0 st0
  let comp := completions M st
  st.edges.map (fun (c, sym, tgt) =>
    let inp := (st.access.getD c #[]) ++ sym
    let z := match tgt with
      | some c' => match comp.get? c' with
        | some z => if z.size == 0 then "-" else bytesToHex z
        | none => "!"
      | none => "-"
    s!"{if inp.size == 0 then "-" else bytesToHex inp} {z} {c.1}/{c.2.length}")

end RJson.Cover
