import RJson.Model.Abs
import RJson.Model.AbsSmall
import RJson.Model.Driver
import Std.Data.HashMap
/-!
# Labelling BFS (untrusted; produces the certificates that `Props/*` re-check in the kernel)

Explores the product of a generated machine and an abstract machine from the start states, pairing the
targets / call states of matching transitions. Output: for every generated state the abstract states it was
paired with, as Lean source; or the first mismatch (generated state, abstract state, byte, both transitions).
-/
namespace RJson.Label
open RJson.Ragel RJson.Abs

def litStr : Lit → String | .t => ".t" | .f => ".f" | .n => ".n"

def tokStr : Tok → String
  | .str => ".str" | .esc => ".esc" | .u k => s!"(.u {k})" | .lit l i => s!"(.lit {litStr l} {i})"
  | .minus => ".minus" | .zero => ".zero" | .int => ".int" | .fracStart => ".fracStart" | .frac => ".frac"
  | .expStart => ".expStart" | .expSign => ".expSign" | .exp => ".exp"

def ctxStr : Ctx → String
  | .top => ".top" | .arr => ".arr" | .obj => ".obj" | .farr => ".farr" | .fobj => ".fobj"
  | .hTop => ".hTop" | .hArr => ".hArr" | .hObj => ".hObj"

def posStr : Pos → String
  | .want f => s!"(.want {f})" | .tok t => s!"(.tok {tokStr t})" | .after => ".after" | .wantKey f => s!"(.wantKey {f})"
  | .key t => s!"(.key {tokStr t})" | .keyClosed => ".keyClosed" | .afterKey => ".afterKey" | .done => ".done" | .body => ".body"

def asStr (a : AS) : String := s!"⟨{ctxStr a.ctx}, {posStr a.pos}⟩"

def lsStr : AbsSmall.LS → String
  | .ws => ".ws" | .lit l i => s!"(.lit {litStr l} {i})" | .done => ".done"

def ssStr : AbsSmall.SS → String
  | .start => ".start" | .plain => ".plain" | .esc => ".esc" | .u k => s!"(.u {k})" | .done => ".done"

section
variable {α : Type} [BEq α] [Repr α]

/-- pair up two transitions; `none` = they do not match structurally -/
def pairTrans (m : List (Act Nat) × Option Nat) (a : List (Act α) × Option α) : Option (List (Nat × α)) :=
  let rec acts : List (Act Nat) → List (Act α) → Option (List (Nat × α))
    | [], [] => some []
    | .s x :: xs, .s y :: ys => if x == y then acts xs ys else none
    | .call l r e :: xs, .call l' r' e' :: ys => if l == l' then (acts xs ys).map (fun ps => (r, r') :: (e, e') :: ps) else none
    | .ret :: xs, .ret :: ys => acts xs ys
    | _, _ => none
  match acts m.1 a.1, m.2, a.2 with
  | some ps, none, none => some ps
  | some ps, some t, some t' => some ((t, t') :: ps)
  | _, _, _ => none

structure St (α : Type) where
  labels : Std.HashMap Nat (List α) := {}
  queue : Array (Nat × α) := #[]
  err : Option String := none

def addPair (st : St α) (p : Nat × α) : St α :=
  let cur := st.labels.getD p.1 []
  if cur.contains p.2 then st
  else { st with labels := st.labels.insert p.1 (cur ++ [p.2]), queue := st.queue.push p }

partial def bfs [Inhabited α] (show_ : α → String) (M : PDM Nat) (A : PDM α) (qi : Nat) (st : St α) : St α :=
  if st.err.isSome || qi ≥ st.queue.size then st
  else
    let (s, a) := st.queue[qi]!
    let st := if M.eof s == A.eof a then st else
      { st with err := some s!"eof actions differ at generated state {s} / abstract {show_ a}: {repr (M.eof s)} vs {repr (A.eof a)}" }
    let st := (List.range 256).foldl (fun st b =>
      if st.err.isSome then st else
      let mt := M.step s (UInt8.ofNat b)
      let at_ := A.step a (UInt8.ofNat b)
      match pairTrans mt at_ with
      | some ps => ps.foldl addPair st
      | none => { st with err := some s!"transition differs at generated state {s} / abstract {show_ a} on byte {b}: generated {repr mt} abstract {repr at_}" }) st
    bfs show_ M A (qi + 1) st

def label [Inhabited α] (show_ : α → String) (M : PDM Nat) (A : PDM α) : St α :=
  bfs show_ M A 0 (addPair {} (M.start, A.start))

/-- Lean source of the labelling function -/
def render (show_ : α → String) (name : String) (st : St α) : String :=
  let entries := st.labels.toList.toArray.qsort (fun x y => x.1 < y.1)
  let lines := entries.toList.map (fun (s, as) => s!"  | {s} => [{", ".intercalate (as.map show_)}]")
  s!"def {name} : Nat → List _\n" ++ "\n".intercalate lines ++ "\n  | _ => []\n"
end

end RJson.Label
