import RJson.Model.Ragel
import RJson.Spec.Scanner
import RJson.Gen.ReadNull
import RJson.Gen.ReadBool
import RJson.Gen.SkipValue
import RJson.Gen.SkipValueFast
import RJson.Gen.HandleArrayValues
import RJson.Gen.HandleObjectValues
import RJson.Gen.UnescapeStringContent
import RJson.Gen.AppendRemainderOfString
import RJson.Gen.SkipStringFast
/-!
# Line protocol of `modeld`

`M <machine> <data> <stack> <script> <dst>` runs a *generated* machine through `Ragel.runA`
(array stack with the given initial contents, havoc after every handler call).
Bytes are hex (`-` = empty), the stack is `-` or a comma list, the handler script a comma list of
`i<int>` (return that offset) / `e<id>:<int>` (return error `id` with that offset); the last directive repeats.
-/
namespace RJson.Driver
open RJson.Ragel

inductive Directive
  | ret (pp : Int)
  | err (id : Nat) (pp : Int)
  deriving Repr, Inhabited

structure HS where
  script : Array Directive
  idx : Nat
  total : Nat                      -- data.size, to turn suffixes back into offsets
  trace : Array (Bytes × Nat)

def scriptHandler : Handler HS := fun hs field suffix =>
  let d := if hs.idx < hs.script.size then hs.script[hs.idx]! else hs.script.back?.getD (.ret 0)
  let hs' := { hs with idx := hs.idx + 1, trace := hs.trace.push (field, hs.total - suffix.size) }
  match d with
  | .ret pp => (hs', pp, none)
  | .err id pp => (hs', pp, some id)

def parseInt? (s : String) : Option Int :=
  if s.startsWith "-" then (s.drop 1).toNat?.map (fun n => -(n : Int)) else s.toNat?.map (fun n => (n : Int))

def parseDirective (s : String) : Option Directive :=
  if s.startsWith "i" then (parseInt? (s.drop 1).toString).map .ret
  else if s.startsWith "e" then
    match ((s.drop 1).toString.splitOn ":") with
    | [a, b] => match a.toNat?, parseInt? b with
      | some id, some pp => some (.err id pp)
      | _, _ => none
    | _ => none
  else none

def parseScript (s : String) : Option (Array Directive) :=
  if s == "-" then some #[]
  else (s.splitOn ",").foldl (fun acc t => match acc, parseDirective t with
    | some a, some d => some (a.push d)
    | _, _ => none) (some #[])

def parseStack (s : String) : Option (Array Nat) :=
  if s == "-" then some #[]
  else (s.splitOn ",").foldl (fun acc t => match acc, t.toNat? with
    | some a, some d => some (a.push d)
    | _, _ => none) (some #[])

def kindStr : Kind → String
  | .ok => "ok" | .err e => "err:" ++ e.name | .herr id => "herr:" ++ toString id
  | .panic => "panic" | .fuel => "fuel" | .badDepth => "badDepth"

def traceStr (t : Array (Bytes × Nat)) : String :=
  ";".intercalate (t.toList.map (fun (f, o) => (if f.size == 0 then "-" else bytesToHex f) ++ "@" ++ toString o))

def resultStr (r : Result HS) : String :=
  s!"{kindStr r.kind} {r.p} v={r.val} d={if r.dst.size == 0 then "-" else bytesToHex r.dst} n={r.ncalls} t={traceStr r.hs.trace}"

def machineByName (name : String) : Option (PDM Nat) :=
  match name with
  | "readNull" => some Gen.ReadNull.machine
  | "readBool" => some Gen.ReadBool.machine
  | "skipValue" => some Gen.SkipValue.machine
  | "skipValueFast" => some Gen.SkipValueFast.machine
  | "handleArrayValues" => some Gen.HandleArrayValues.machine
  | "handleObjectValues" => some Gen.HandleObjectValues.machine
  | "unescapeStringContent" => some Gen.UnescapeStringContent.machine
  | "appendRemainderOfString" => some Gen.AppendRemainderOfString.machine
  | "skipStringFast" => some Gen.SkipStringFast.machine
  | _ => none

/-- garbage written into every slot of the shared stack array after each handler call -/
def garbageHavoc : Havoc Nat := fun k i => some (777000 + 13 * k + i)

def runMachine (name data stack script dst : String) : String :=
  match machineByName name, hexToBytes data, parseStack stack, parseScript script, hexToBytes dst with
  | some M, some d, some st, some sc, some ds =>
    let hs : HS := { script := sc, idx := 0, total := d.size, trace := #[] }
    resultStr (runA M d scriptHandler garbageHavoc st ds hs)
  | _, _, _, _, _ => "bad-op"

def optNat : Option Nat → String
  | some n => s!"ok {n}"
  | none => "err"

def runLine (line : String) : String :=
  match line.splitOn " " with
  | ["M", name, data, stack, script, dst] => runMachine name data stack script dst
  | ["specEnd", lim, data] =>
    match hexToBytes data, lim.toNat? with
    | some d, some l => optNat (Spec.valueEnd (if l == 0 then none else some l) d.toList)
    | _, _ => "bad-op"
  | ["specValid", lim, data] =>
    match hexToBytes data, lim.toNat? with
    | some d, some l => toString (Spec.validDoc l d.toList)
    | _, _ => "bad-op"
  | _ => "bad-op"

end RJson.Driver
