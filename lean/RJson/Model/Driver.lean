import RJson.Model.Ragel
import RJson.Model.Api
import RJson.Model.FP
import RJson.Model.ValueReader
import RJson.Model.ReaderState
import RJson.Spec.Values
import RJson.Gen.ReadNull
import RJson.Gen.ReadBool
import RJson.Gen.SkipValue
import RJson.Gen.SkipValueFast
import RJson.Gen.HandleArrayValues
import RJson.Gen.HandleObjectValues
import RJson.Gen.UnescapeStringContent
import RJson.Gen.AppendRemainderOfString
import RJson.Gen.SkipStringFast
/-!
# Line protocol of `modeld`

`M <machine> <data> <stack> <script> <dst>` runs a *generated* machine through `Ragel.runA`
(array stack with the given initial contents, havoc after every handler call).
Bytes are hex (`-` = empty), the stack is `-` or a comma list, the handler script a comma list of
`i<int>` (return that offset) / `e<id>:<int>` (return error `id` with that offset); the last directive repeats.
-/
namespace RJson.Driver
open RJson.Ragel

inductive Directive
  | ret (pp : Int)
  | err (id : Nat) (pp : Int)
  deriving Repr, Inhabited

structure HS where
  script : Array Directive
  idx : Nat
  total : Nat                      -- data.size, to turn suffixes back into offsets
  trace : Array (Bytes × Nat)

def scriptHandler : Handler HS := fun hs field suffix =>
  let d := if hs.idx < hs.script.size then hs.script[hs.idx]! else hs.script.back?.getD (.ret 0)
  let hs' := { hs with idx := hs.idx + 1, trace := hs.trace.push (field, hs.total - suffix.size) }
  match d with
  | .ret pp => (hs', pp, none)
  | .err id pp => (hs', pp, some id)

def parseInt? (s : String) : Option Int :=
  if s.startsWith "-" then (s.drop 1).toNat?.map (fun n => -(n : Int)) else s.toNat?.map (fun n => (n : Int))

def parseDirective (s : String) : Option Directive :=
  if s.startsWith "i" then (parseInt? (s.drop 1).toString).map .ret
  else if s.startsWith "e" then
    match ((s.drop 1).toString.splitOn ":") with
    | [a, b] => match a.toNat?, parseInt? b with
      | some id, some pp => some (.err id pp)
      | _, _ => none
    | _ => none
  else none

def parseScript (s : String) : Option (Array Directive) :=
  if s == "-" then some #[]
  else (s.splitOn ",").foldl (fun acc t => match acc, parseDirective t with
    | some a, some d => some (a.push d)
    | _, _ => none) (some #[])

def parseStack (s : String) : Option (Array Nat) :=
  if s == "-" then some #[]
  else (s.splitOn ",").foldl (fun acc t => match acc, t.toNat? with
    | some a, some d => some (a.push d)
    | _, _ => none) (some #[])

def kindStr : Kind → String
  | .ok => "ok" | .err e => "err:" ++ e.name | .herr id => "herr:" ++ toString id
  | .panic => "panic" | .fuel => "fuel" | .badDepth => "badDepth"

def traceStr (t : Array (Bytes × Nat)) : String :=
  ";".intercalate (t.toList.map (fun (f, o) => (if f.size == 0 then "-" else bytesToHex f) ++ "@" ++ toString o))

def resultStr (r : Result HS) : String :=
  s!"{kindStr r.kind} {r.p} v={r.val} d={if r.dst.size == 0 then "-" else bytesToHex r.dst} n={r.ncalls} t={traceStr r.hs.trace}"

def machineByName (name : String) : Option (PDM Nat) :=
  match name with
  | "readNull" => some Gen.ReadNull.machine
  | "readBool" => some Gen.ReadBool.machine
  | "skipValue" => some Gen.SkipValue.machine
  | "skipValueFast" => some Gen.SkipValueFast.machine
  | "handleArrayValues" => some Gen.HandleArrayValues.machine
  | "handleObjectValues" => some Gen.HandleObjectValues.machine
  | "unescapeStringContent" => some Gen.UnescapeStringContent.machine
  | "appendRemainderOfString" => some Gen.AppendRemainderOfString.machine
  | "skipStringFast" => some Gen.SkipStringFast.machine
  | _ => none

/-- garbage written into every slot of the shared stack array after each handler call -/
def garbageHavoc : Havoc Nat := fun k i => some (777000 + 13 * k + i)

def runMachine (name data stack script dst : String) : String :=
  match machineByName name, hexToBytes data, parseStack stack, parseScript script, hexToBytes dst with
  | some M, some d, some st, some sc, some ds =>
    let hs : HS := { script := sc, idx := 0, total := d.size, trace := #[] }
    resultStr (runA M d scriptHandler garbageHavoc st ds hs).1
  | _, _, _, _, _ => "bad-op"

def optNat : Option Nat → String
  | some n => s!"ok {n}"
  | none => "err"


/-! API-level operations -/
open RJson.Model in
def fmtR {α} (r : R α) (sh : α → String) : String :=
  if r.panicked then "panic"
  else match r.err with
  | none => s!"ok {sh r.val} {r.p}"
  | some e => s!"err:{e.name} {r.p}"

open RJson.Model in
def fmtDecode {α} (r : R α) (sh : α → String) : String :=
  if r.panicked then "panic"
  else match r.err with
  | none => s!"ok {sh r.val} {r.p}"
  | some e => s!"err:{e.name} {sh r.val} {r.p}"

def hexOrDash (b : Bytes) : String := if b.size == 0 then "-" else bytesToHex b

def tokStr : UInt8 × Nat × Option Model.TokErr → String
  | (t, p, none) => s!"ok {t.toNat} {p}"
  | (_, p, some .eof) => s!"eof {p}"
  | (t, p, some .noValidToken) => s!"invalid {t.toNat} {p}"

def tokTypeStr : Nat × Nat × Option Model.TokErr → String
  | (t, p, none) => s!"ok {t} {p}"
  | (_, p, some .eof) => s!"eof {p}"
  | (t, p, some .noValidToken) => s!"invalid {t} {p}"

def boolStr (b : Bool) : String := if b then "true" else "false"

/-- a decimal with the given digits (at most 800 are kept, like `copy(d.d[:], digits)`) -/
def decimalOf (ds : Bytes) (dp : Int) (neg tr : Bool) : FP.Decimal :=
  let nd := min ds.size Gen.fpDecimalDigits
  let d := (List.range nd).foldl (fun (acc : Array UInt8) i => acc.set! i ds[i]!) FP.Decimal.zero.d
  { d := d, nd := nd, dp := dp, neg := neg, trunc := tr }

open RJson.Model in
def apiOp (op : String) (args : List String) : Option String :=
  match op, args with
  | "Valid", [d, st] => do
    let d ← hexToBytes d; let st ← parseStack st
    pure (match (valid d st).1 with | some b => boolStr b | none => "panic")
  | "SkipValue", [d, st] => do
    let d ← hexToBytes d; let st ← parseStack st
    pure (fmtR (skipValue d st).1 (fun _ => "-"))
  | "SkipValueFast", [d, st] => do
    let d ← hexToBytes d; let st ← parseStack st
    pure (fmtR (skipValueFast d st).1 (fun _ => "-"))
  | "StackLen", [fn, d, st] => do
    -- length of the stack slice stored back in the Buffer after the call
    let d ← hexToBytes d; let st ← parseStack st
    if fn == "SkipValue" then pure (toString (skipValue d st).2.size)
    else if fn == "SkipValueFast" then pure (toString (skipValueFast d st).2.size)
    else if fn == "Valid" then pure (toString (valid d st).2.size)
    else none
  | "NextToken", [d] => do let d ← hexToBytes d; pure (tokStr (nextToken d))
  | "NextTokenType", [d] => do let d ← hexToBytes d; pure (tokTypeStr (nextTokenType d))
  | "ReadUint64", [d] => do let d ← hexToBytes d; pure (fmtR (readUint64 d) (fun v => toString v.toNat))
  | "ReadUint32", [d] => do let d ← hexToBytes d; pure (fmtR (readUint32 d) (fun v => toString v.toNat))
  | "ReadUint", [d] => do let d ← hexToBytes d; pure (fmtR (readUint d) (fun v => toString v.toNat))
  | "ReadInt64", [d] => do let d ← hexToBytes d; pure (fmtR (readInt64 d) toString)
  | "ReadInt32", [d] => do let d ← hexToBytes d; pure (fmtR (readInt32 d) toString)
  | "ReadInt", [d] => do let d ← hexToBytes d; pure (fmtR (readInt d) toString)
  | "ReadFloat64", [d] => do let d ← hexToBytes d; pure (fmtR (readFloat64 d) toString)
  | "ReadNull", [d] => do let d ← hexToBytes d; pure (fmtR (readNull d) (fun _ => "-"))
  | "ReadBool", [d] => do let d ← hexToBytes d; pure (fmtR (readBool d) boolStr)
  | "ReadStringBytes", [d, b] => do
    let d ← hexToBytes d; let b ← hexToBytes b
    let r := readStringBytes d b
    pure (if r.panicked then "panic" else match r.err with
      | none => s!"ok {hexOrDash r.val} {r.p}"
      | some e => s!"err:{e.name} {r.p}")
  | "ReadString", [d] => do let d ← hexToBytes d; pure (fmtR (readString d) hexOrDash)
  | "UnescapeStringContent", [d, b] => do
    let d ← hexToBytes d; let b ← hexToBytes b
    pure (fmtR (unescapeStringContent d b) hexOrDash)
  | "DecodeBool", [d, t] => do let d ← hexToBytes d; pure (fmtDecode (decode readBool d (t == "true")) boolStr)
  | "DecodeFloat64", [d, t] => do let d ← hexToBytes d; let t ← t.toNat?; pure (fmtDecode (decode readFloat64 d t) toString)
  | "DecodeInt64", [d, t] => do let d ← hexToBytes d; let t ← parseInt? t; pure (fmtDecode (decode readInt64 d t) toString)
  | "DecodeInt32", [d, t] => do let d ← hexToBytes d; let t ← parseInt? t; pure (fmtDecode (decode readInt32 d t) toString)
  | "DecodeInt", [d, t] => do let d ← hexToBytes d; let t ← parseInt? t; pure (fmtDecode (decode readInt d t) toString)
  | "DecodeUint64", [d, t] => do let d ← hexToBytes d; let t ← t.toNat?; pure (fmtDecode (decode readUint64 d (UInt64.ofNat t)) (fun v => toString v.toNat))
  | "DecodeUint32", [d, t] => do let d ← hexToBytes d; let t ← t.toNat?; pure (fmtDecode (decode readUint32 d (UInt64.ofNat t)) (fun v => toString v.toNat))
  | "DecodeUint", [d, t] => do let d ← hexToBytes d; let t ← t.toNat?; pure (fmtDecode (decode readUint d (UInt64.ofNat t)) (fun v => toString v.toNat))
  | "DecodeString", [d, t] => do let d ← hexToBytes d; let t ← hexToBytes t; pure (fmtDecode (decode readString d t) hexOrDash)
  | "FloatArray", [d, st] => do
    -- HandleArrayValues with the ReadFloat64 handler on a Buffer whose stack slice is `st`
    let d ← hexToBytes d; let st ← parseStack st
    let res := (runA Gen.HandleArrayValues.machine d floatH garbageHavoc st #[] []).1
    pure (match res.kind with
      | .ok => s!"ok {if res.hs.isEmpty then "-" else ",".intercalate (res.hs.map toString)} {res.p}"
      | .err e => s!"err:{e.name} {res.p}"
      | .herr _ => "herr"
      | _ => "panic")
  | "FieldFloat", [d, key, st] => do
    -- HandleObjectValues with the field-selective ReadFloat64 handler on a Buffer whose stack slice is `st`
    let d ← hexToBytes d; let key ← hexToBytes key; let st ← parseStack st
    let res := (runA Gen.HandleObjectValues.machine d (fieldFloatH key) garbageHavoc st #[] none).1
    pure (match res.kind with
      | .ok => s!"ok {match res.hs with | some v => toString v | none => "-"} {res.p}"
      | .err e => s!"err:{e.name} {res.p}"
      | .herr _ => "herr"
      | _ => "panic")
  | "StdTree", [d] => do
    -- ReadValue, then the StdLibCompatible helper that fits the value's kind
    let d ← hexToBytes d
    let r := readValue d
    pure (if r.panicked then "panic" else match r.err with
      | some _ => "err"
      | none => if stdCollides (d.size + 2) r.val then "collide" else s!"ok {(stdTreeF (d.size + 2) r.val).render}")
  | "StdString", [s] => do let s ← hexToBytes s; pure (hexOrDash (stdLibCompatibleString s))
  | "StdBytes", [s, b] => do let s ← hexToBytes s; let b ← hexToBytes b; pure (hexOrDash (stdLibCompatibleStringBytes s b))
  | "ReadValue", [d] => do let d ← hexToBytes d; pure (fmtR (readValue d) JVal.render)
  | "ReadObject", [d] => do let d ← hexToBytes d; pure (fmtR (readObject d) JVal.render)
  | "ReadArray", [d] => do let d ← hexToBytes d; pure (fmtR (readArray d) JVal.render)
  | "VRHistory", ops => do
    -- a history of calls on one reader: each op is `<kind>:<hex>` (0 ReadValue, 1 ReadObject, 2 ReadArray); for each call
    -- the outcome and the reader's own fields afterwards
    let rec go : List String → VRState → Nat → List String → Option (List String)
      | [], _, _, acc => some acc.reverse
      | o :: rest, h, tick, acc =>
        match o.splitOn ":" with
        | [k, hx] => do
          let d ← hexToBytes hx
          let op ← (if k == "0" then some VOp.value else if k == "1" then some VOp.object else if k == "2" then some VOp.array else none)
          let (r, h', tick') := sCall (fun _ => {}) op h tick d
          go rest h' tick' (s!"{fmtR r JVal.render} d={h'.depth} nm={h'.newMapSize} lm={h'.lastMapSize} mm={h'.maxMapSize} ns={h'.newSliceSize} ls={h'.lastSliceSize}" :: acc)
        | _ => none
    let outs ← go ops {} 0 []
    pure (" | ".intercalate outs)
  | "FloatPath", [d] => do
    let d ← hexToBytes d
    let r := FP.parse d
    -- for the slow path also: is the literal inside the scope of `C04.parse_correct` (exact run)?
    if r.path == .slow || r.path == .slowRange then
      let ex := ((FP.Decimal.set (d.extract 0 r.n)).map FP.Decimal.exactRun).getD false
      pure (r.path.name ++ (if ex then "/exact-run" else "/truncated-run"))
    else pure r.path.name
  | "getu4", [d] => do
    let d ← hexToBytes d
    pure (match getu4 d 0 with | some v => toString v | none => "-1")
  | "unescapeUnicodeChar", [d, dst] => do
    let d ← hexToBytes d; let dst ← hexToBytes dst
    let (o, n, ok) := unescapeUnicodeChar d 0 dst
    pure s!"{hexOrDash o} {n} {boolStr ok}"
  | "skipFloatDec", [d, p] => do
    let d ← hexToBytes d; let p ← p.toNat?
    pure (match skipFloatDec d p d.size with
      | none => "panic"
      | some (q, none) => s!"ok {q}"
      | some (q, some e) => s!"err:{e.name} {q}")
  | "skipFloatExp", [d, p] => do
    let d ← hexToBytes d; let p ← p.toNat?
    pure (match skipFloatExp d p d.size with
      | none => "panic"
      | some (q, none) => s!"ok {q}"
      | some (q, some e) => s!"err:{e.name} {q}")
  | "countWhitespace", [d] => do let d ← hexToBytes d; pure (toString (countWhitespace d))
  | "fpReadFloat", [d] => do
    let d ← hexToBytes d
    let r := FP.readFloat d
    pure s!"{r.mantissa} {r.exp} {boolStr r.neg} {boolStr r.trunc} {r.p} {boolStr r.ok}"
  | "fpExact", [m, e, n] => do
    let m ← m.toNat?; let e ← parseInt? e
    pure (match FP.atof64exact m e (n == "true") with | some b => s!"some {b}" | none => "none")
  | "fpEL", [m, e, n] => do
    let m ← m.toNat?; let e ← parseInt? e
    pure (match FP.eiselLemire64 m e (n == "true") with | some b => s!"some {b}" | none => "none")
  | "fpShift", [d, dp, neg, tr, k] => do
    let ds ← hexToBytes d; let dp ← parseInt? dp; let k ← parseInt? k
    let a := decimalOf ds dp (neg == "true") (tr == "true")
    pure (match a.shift k with
      | none => "panic"
      | some b => s!"{hexOrDash b.digits} {b.dp} {boolStr b.neg} {boolStr b.trunc}")
  | "fpRounded", [d, dp, neg, tr] => do
    let ds ← hexToBytes d; let dp ← parseInt? dp
    pure (toString (decimalOf ds dp (neg == "true") (tr == "true")).roundedInteger)
  | "fpDecimal", [d] => do
    let d ← hexToBytes d
    pure (match FP.Decimal.set d with
      | none => "fail"
      | some a => match a.floatBits with
        | none => "panic"
        | some (b, ovf) => s!"{b} {boolStr ovf}")
  | "specRound", [neg, m, e] => do
    let m ← m.toNat?; let e ← parseInt? e
    let (b, ovf) := Spec.roundDec (neg == "true") m e
    pure s!"{b} {boolStr ovf}"
  | _, _ => none

/-! Spec-level operations (property oracles) -/

def lhex (l : List UInt8) : String := hexOrDash l.toArray

partial def specRender : Spec.JVal → String
  | .null => "n"
  | .bool b => if b then "t" else "f"
  | .num bits => "d" ++ toString bits
  | .str s => "s" ++ lhex s
  | .arr xs => "[" ++ ",".intercalate (xs.map specRender) ++ "]"
  | .obj kvs =>
    -- last duplicate wins, then sort bytewise
    let m : Array (Bytes × Spec.JVal) := kvs.foldl (fun acc (k, v) =>
      let k := k.toArray
      match acc.findIdx? (fun kv => kv.1 == k) with
      | some i => acc.set! i (k, v)
      | none => acc.push (k, v)) #[]
    let sorted := m.qsort (fun a b => Model.bytesLt a.1 b.1)
    "{" ++ ",".intercalate (sorted.toList.map (fun (k, v) => hexOrDash k ++ ":" ++ specRender v)) ++ "}"


def membersStr (ms : List Spec.Member) : String :=
  ";".intercalate (ms.map (fun m => lhex m.field ++ "@" ++ toString m.off))

def specOp (op : String) (args : List String) : Option String :=
  match op, args with
  | "specDepth", [d] => do
    -- nesting depth of a valid document (anything else: no statement)
    let d ← hexToBytes d
    pure (if Spec.validDoc Gen.skipMaxDepth d.toList then s!"{Spec.nestDepth d.toList}" else "any")
  | "specFast", [lim, d] => do
    let d ← hexToBytes d; let lim ← lim.toNat?
    pure (match Spec.valueEnd (some lim) d.toList with | some e => s!"ok {e}" | none => "any")
  | "specString", [d] => do
    let d ← hexToBytes d
    pure (match Spec.readString d.toList with | some (c, e) => s!"ok {lhex c} {e}" | none => "err")
  | "specUnescape", [d] => do
    let d ← hexToBytes d
    let body := d.toList
    pure (match Spec.scanStringBody (body ++ [34]) with
      | some [] => s!"ok {lhex (Spec.decodeString (body.length + 1) body)} {body.length}"
      | _ => "err")
  | "specUnescapeWF", [d] => do
    let d ← hexToBytes d
    let body := d.toList
    pure (match Spec.scanStringBody (body ++ [34]) with
      | some [] => s!"ok {lhex (Spec.decodeString (body.length + 1) body)} {body.length}"
      | _ => "any")
  | "specTreeKind", [lim, kind, d] => do
    let d ← hexToBytes d; let lim ← lim.toNat?; let kind ← kind.toNat?
    pure (match Spec.skipWs d.toList with
      | b :: _ =>
        if b.toNat == kind then
          match Spec.readValue lim d.toList with | some (v, e) => s!"ok {specRender v} {e}" | none => "err"
        else "err"
      | [] => "err")
  | "specInt", [lo, hi, sg, d] => do
    let d ← hexToBytes d; let lo ← parseInt? lo; let hi ← parseInt? hi
    pure (match Spec.readInt lo hi (sg == "true") d.toList with | some (v, e) => s!"ok {v} {e}" | none => "err")
  | "specFloat", [d] => do
    let d ← hexToBytes d
    pure (match Spec.readFloat d.toList with | some (b, e) => s!"ok {b} {e}" | none => "err")
  | "specArr", [d] => do
    let d ← hexToBytes d
    pure (match Spec.traverseArray d.toList with | some (ms, e) => s!"ok {e} {membersStr ms}" | none => "err")
  | "specObj", [d] => do
    let d ← hexToBytes d
    pure (match Spec.traverseObject d.toList with | some (ms, e) => s!"ok {e} {membersStr ms}" | none => "err")
  | "specTree", [lim, d] => do
    let d ← hexToBytes d; let lim ← lim.toNat?
    pure (match Spec.readValue lim d.toList with | some (v, e) => s!"ok {specRender v} {e}" | none => "err")
  | "specSanitize", [d] => do let d ← hexToBytes d; pure (lhex (Spec.sanitizeAll d.toList))
  | "specLit", [which, d] => do
    let d ← hexToBytes d
    let lit : List UInt8 := if which == "null" then [110,117,108,108] else if which == "true" then [116,114,117,101] else [102,97,108,115,101]
    pure (match Spec.scanLit lit (Spec.skipWs d.toList) with | some r => s!"ok {d.size - r.length}" | none => "err")
  | "specBool", [d] => do
    let d ← hexToBytes d
    let l := Spec.skipWs d.toList
    pure (match Spec.scanLit [116,114,117,101] l, Spec.scanLit [102,97,108,115,101] l with
      | some r, _ => s!"ok true {d.size - r.length}"
      | none, some r => s!"ok false {d.size - r.length}"
      | none, none => "err")
  | "specToken", [d] => do
    let d ← hexToBytes d
    pure (match Spec.skipWs d.toList with
      | [] => s!"eof"
      | b :: rest => s!"tok {b.toNat} {Spec.tokenType b} {d.size - rest.length}")
  | _, _ => none

def runLine (line : String) : String :=
  match line.splitOn " " with
  | ["M", name, data, stack, script, dst] => runMachine name data stack script dst
  | ["specEnd", lim, data] =>
    match hexToBytes data, lim.toNat? with
    | some d, some l => optNat (Spec.valueEnd (if l == 0 then none else some l) d.toList)
    | _, _ => "bad-op"
  | ["specValid", lim, data] =>
    match hexToBytes data, lim.toNat? with
    | some d, some l => toString (Spec.validDoc l d.toList)
    | _, _ => "bad-op"
  | op :: args => ((apiOp op args).orElse (fun _ => specOp op args)).getD "bad-op"
  | [] => "bad-op"

end RJson.Driver
