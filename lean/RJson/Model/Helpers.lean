import RJson.Model.Basic
import RJson.Gen.Tables
/-!
# Hand-written models of `machine_helpers.go` and of the Go standard-library functions it calls.

Each definition mirrors the control flow of the Go function named in its doc comment. Byte-class tests go
through the *regenerated* tables of `RJson.Gen.Tables` (so a changed table entry changes the model).
Index expressions are checked accesses; `none` is a Go panic.
-/
namespace RJson

/-- bit `b` of a 256-bit table packed into a `Nat` (the regenerated `[256]bool` tables). -/
@[inline] def tabBit (t : Nat) (b : UInt8) : Bool := t.testBit b.toNat

def isDigitT (b : UInt8) : Bool := tabBit Gen.digitsBits b
def isSignT (b : UInt8) : Bool := tabBit Gen.signBits b
def isExpT (b : UInt8) : Bool := tabBit Gen.expBits b
def isWsT (b : UInt8) : Bool := tabBit Gen.whitespaceBits b

/-- the `for ; p < pe; p++` loop of `skipFloatExp`; `fuel` = number of bytes that may still be looked at -/
def skipFloatExpLoop (data : Bytes) (startP pe : Int) : Nat → Int → Bool → Option (Int × Bool)
  | 0, p, signed => some (p, signed)
  | fuel+1, p, signed =>
    if p < pe then
      match getByte data p with
      | none => none
      | some b =>
        if isDigitT b then skipFloatExpLoop data startP pe fuel (p+1) signed
        else if p == startP && isSignT b then skipFloatExpLoop data startP pe fuel (p+1) true
        else some (p, signed)
    else some (p, signed)

/-- `skipFloatExp(data, p, pe)`; result `(p', err)`; `none` = panic -/
def skipFloatExp (data : Bytes) (p pe : Int) : Option (Int × Option Err) :=
  if p == pe then some (p - 1, some .invalidNumber)
  else
    match skipFloatExpLoop data p pe (pe - p).toNat p false with
    | none => none
    | some (p', signed) =>
      let err : Option Err :=
        if p' - p == 0 then some .invalidNumber
        else if p' - p == 1 then (if signed then some .invalidNumber else none)
        else none
      some (p' - 1, err)

/-- the digit loop of `skipFloatDec` -/
def skipDigitsLoop (data : Bytes) (pe : Int) : Nat → Int → Option Int
  | 0, p => some p
  | fuel+1, p =>
    if p < pe then
      match getByte data p with
      | none => none
      | some b => if !isDigitT b then some p else skipDigitsLoop data pe fuel (p+1)
    else some p

/-- `skipFloatDec(data, p, pe)` -/
def skipFloatDec (data : Bytes) (p pe : Int) : Option (Int × Option Err) :=
  if p == pe then some (p - 1, some .invalidNumber)
  else
    match getByte data p with
    | none => none
    | some b =>
      if !isDigitT b then some (p - 1, some .invalidNumber)
      else
        match skipDigitsLoop data pe (pe - (p+1)).toNat (p+1) with
        | none => none
        | some p' =>
          if p' == pe then some (p' - 1, none)
          else
            match getByte data p' with
            | none => none
            | some c => if isExpT c then skipFloatExp data (p'+1) pe else some (p' - 1, none)

/-- value of one hex digit as `getu4` computes it -/
def hexDigitVal (c : UInt8) : Option Nat :=
  if 48 ≤ c && c ≤ 57 then some (c.toNat - 48)
  else if 97 ≤ c && c ≤ 102 then some (c.toNat - 97 + 10)
  else if 65 ≤ c && c ≤ 70 then some (c.toNat - 65 + 10)
  else none

/-- `getu4(data[off:])`: `none` models the Go result `-1` -/
def getu4 (data : Bytes) (off : Nat) : Option Nat :=
  if data.size < off + 6 then none
  else if data[off]! != 92 || data[off+1]! != 117 then none
  else
    match hexDigitVal data[off+2]!, hexDigitVal data[off+3]!, hexDigitVal data[off+4]!, hexDigitVal data[off+5]! with
    | some a, some b, some c, some d => some (((a * 16 + b) * 16 + c) * 16 + d)
    | _, _, _, _ => none

/-- `utf8.EncodeRune` for a rune given as a natural number (surrogates and out-of-range values encode U+FFFD);
    written with `/` and `%` instead of shifts and masks (same function) so that `omega` can reason about it -/
def utf8Encode (r : Nat) : List UInt8 :=
  if r < 0x80 then [UInt8.ofNat r]
  else if r < 0x800 then [UInt8.ofNat (0xC0 + r / 64), UInt8.ofNat (0x80 + r % 64)]
  else if (0xD800 ≤ r && r < 0xE000) || r > 0x10FFFF then [0xEF, 0xBF, 0xBD]
  else if r < 0x10000 then
    [UInt8.ofNat (0xE0 + r / 4096), UInt8.ofNat (0x80 + r / 64 % 64), UInt8.ofNat (0x80 + r % 64)]
  else
    [UInt8.ofNat (0xF0 + r / 262144), UInt8.ofNat (0x80 + r / 4096 % 64),
     UInt8.ofNat (0x80 + r / 64 % 64), UInt8.ofNat (0x80 + r % 64)]

def isSurrogate (r : Nat) : Bool := 0xD800 ≤ r && r < 0xE000

/-- `utf16.DecodeRune(r1, r2)`; `r2 = none` is the `-1` that `getu4` returned -/
def utf16Decode (r1 : Nat) (r2 : Option Nat) : Nat :=
  match r2 with
  | some r2 =>
    if 0xD800 ≤ r1 && r1 < 0xDC00 && 0xDC00 ≤ r2 && r2 < 0xE000 then
      (((r1 - 0xD800) <<< 10) ||| (r2 - 0xDC00)) + 0x10000
    else 0xFFFD
  | none => 0xFFFD

/-- `unescapeUnicodeChar(data[off:], dst)`: `(dst', bytesHandled, ok)` -/
def unescapeUnicodeChar (data : Bytes) (off : Nat) (dst : Bytes) : Bytes × Nat × Bool :=
  match getu4 data off with
  | none => (dst, 0, false)
  | some rr =>
    if isSurrogate rr then
      let dec := utf16Decode rr (getu4 data (off + 6))
      if dec != 0xFFFD then (dst ++ (utf8Encode dec).toArray, 12, true)
      else (dst ++ (utf8Encode 0xFFFD).toArray, 6, true)
    else (dst ++ (utf8Encode rr).toArray, 6, true)

/-- `countWhitespace(data[from:])` as an absolute end position -/
def countWsFrom (data : Bytes) : Nat → Nat → Nat
  | 0, p => p
  | fuel+1, p =>
    match data[p]? with
    | some b => if isWsT b then countWsFrom data fuel (p+1) else p
    | none => p

/-- `countWhitespace(data)` -/
def countWhitespace (data : Bytes) : Nat := countWsFrom data data.size 0

end RJson
