import RJson.Model.AbsSmall
import RJson.Gen.AppendRemainderOfString
/-! GENERATED labelling (untrusted BFS output of `modeld labels appendRemainderOfString append`); re-checked by the kernel in RJson.Certs.AppendRemainderOfString -/
namespace RJson.Gen.AppendRemainderOfStringLabels

def labelsTab (s : Nat) : List RJson.AbsSmall.SS :=
  if s < 9 then
    if s < 5 then
      if s < 3 then
        if s < 2 then
          if s = 1 then [.start] else []
        else
          if s = 2 then [.plain] else []
      else
        if s < 4 then
          if s = 3 then [.esc] else []
        else
          if s = 4 then [.start] else []
    else
      if s < 7 then
        if s < 6 then
          if s = 5 then [.start] else []
        else
          if s = 6 then [.start] else []
      else
        if s < 8 then
          if s = 7 then [.start] else []
        else
          if s = 8 then [.start] else []
  else
    if s < 13 then
      if s < 11 then
        if s < 10 then
          if s = 9 then [.start] else []
        else
          if s = 10 then [.start] else []
      else
        if s < 12 then
          if s = 11 then [.start] else []
        else
          if s = 12 then [(.u 0)] else []
    else
      if s < 15 then
        if s < 14 then
          if s = 13 then [(.u 1)] else []
        else
          if s = 14 then [(.u 2)] else []
      else
        if s < 16 then
          if s = 15 then [(.u 3)] else []
        else
          if s < 17 then
            if s = 16 then [.start] else []
          else
            if s = 17 then [.done] else []

def labels (s : Nat) : List RJson.AbsSmall.SS := if s < RJson.Gen.AppendRemainderOfString.nstates then labelsTab s else []

theorem labels_bound : ∀ s, RJson.Gen.AppendRemainderOfString.nstates ≤ s → labels s = [] := by
  intro s hs
  simp [labels, Nat.not_lt.mpr hs]

end RJson.Gen.AppendRemainderOfStringLabels
