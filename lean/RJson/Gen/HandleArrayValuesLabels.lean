import RJson.Model.Abs
import RJson.Gen.HandleArrayValues
/-! GENERATED labelling (untrusted BFS output of `modeld labels handleArrayValues harr`); re-checked by the kernel in RJson.Certs.HandleArrayValues -/
namespace RJson.Gen.HandleArrayValuesLabels

def labelsTab (s : Nat) : List RJson.Abs.AS :=
  if s < 124 then
    if s < 62 then
      if s < 31 then
        if s < 16 then
          if s < 8 then
            if s < 4 then
              if s < 2 then
                if s = 1 then [⟨.hTop, (.want true)⟩] else []
              else
                if s < 3 then
                  if s = 2 then [⟨.hTop, (.want true)⟩] else []
                else
                  if s = 3 then [⟨.hArr, (.want true)⟩] else []
            else
              if s < 6 then
                if s < 5 then
                  if s = 4 then [⟨.hArr, (.want true)⟩] else []
                else
                  if s = 5 then [⟨.hArr, (.tok .str)⟩] else []
              else
                if s < 7 then
                  if s = 6 then [⟨.hArr, (.tok .str)⟩] else []
                else
                  if s = 7 then [⟨.hArr, .after⟩] else []
          else
            if s < 12 then
              if s < 10 then
                if s < 9 then
                  if s = 8 then [⟨.hArr, .after⟩] else []
                else
                  if s = 9 then [⟨.hArr, (.want false)⟩] else []
              else
                if s < 11 then
                  if s = 10 then [⟨.hArr, (.want false)⟩] else []
                else
                  if s = 11 then [⟨.hArr, (.tok .str)⟩] else []
            else
              if s < 14 then
                if s < 13 then
                  if s = 12 then [⟨.hArr, (.tok .str)⟩] else []
                else
                  if s = 13 then [⟨.hArr, .after⟩] else []
              else
                if s < 15 then
                  if s = 14 then [⟨.hArr, (.tok .esc)⟩] else []
                else
                  if s = 15 then [⟨.hArr, (.tok .str)⟩] else []
        else
          if s < 23 then
            if s < 19 then
              if s < 17 then
                if s = 16 then [⟨.hArr, (.tok (.u 0))⟩] else []
              else
                if s < 18 then
                  if s = 17 then [⟨.hArr, (.tok (.u 1))⟩] else []
                else
                  if s = 18 then [⟨.hArr, (.tok (.u 2))⟩] else []
            else
              if s < 21 then
                if s < 20 then
                  if s = 19 then [⟨.hArr, (.tok (.u 3))⟩] else []
                else
                  if s = 20 then [⟨.hArr, (.tok .str)⟩] else []
              else
                if s < 22 then
                  if s = 21 then [⟨.hArr, (.tok .minus)⟩] else []
                else
                  if s = 22 then [⟨.hArr, (.tok .zero)⟩] else []
          else
            if s < 27 then
              if s < 25 then
                if s < 24 then
                  if s = 23 then [⟨.hArr, (.tok .fracStart)⟩] else []
                else
                  if s = 24 then [⟨.hArr, (.tok .frac)⟩] else []
              else
                if s < 26 then
                  if s = 25 then [⟨.hArr, (.tok .frac)⟩] else []
                else
                  if s = 26 then [⟨.hArr, (.tok .expStart)⟩] else []
            else
              if s < 29 then
                if s < 28 then
                  if s = 27 then [⟨.hArr, (.tok .expSign)⟩] else []
                else
                  if s = 28 then [⟨.hArr, (.tok .exp)⟩] else []
              else
                if s < 30 then
                  if s = 29 then [⟨.hArr, (.tok .exp)⟩] else []
                else
                  if s = 30 then [⟨.hArr, (.tok .int)⟩] else []
      else
        if s < 46 then
          if s < 38 then
            if s < 34 then
              if s < 32 then
                if s = 31 then [⟨.hArr, (.tok .int)⟩] else []
              else
                if s < 33 then
                  if s = 32 then [⟨.hArr, .after⟩] else []
                else
                  if s = 33 then [⟨.hArr, (.tok (.lit .f 0))⟩] else []
            else
              if s < 36 then
                if s < 35 then
                  if s = 34 then [⟨.hArr, (.tok (.lit .f 1))⟩] else []
                else
                  if s = 35 then [⟨.hArr, (.tok (.lit .f 2))⟩] else []
              else
                if s < 37 then
                  if s = 36 then [⟨.hArr, (.tok (.lit .f 3))⟩] else []
                else
                  if s = 37 then [⟨.hArr, .after⟩] else []
          else
            if s < 42 then
              if s < 40 then
                if s < 39 then
                  if s = 38 then [⟨.hArr, (.tok (.lit .n 0))⟩] else []
                else
                  if s = 39 then [⟨.hArr, (.tok (.lit .n 1))⟩] else []
              else
                if s < 41 then
                  if s = 40 then [⟨.hArr, (.tok (.lit .n 2))⟩] else []
                else
                  if s = 41 then [⟨.hArr, .after⟩] else []
            else
              if s < 44 then
                if s < 43 then
                  if s = 42 then [⟨.hArr, (.tok (.lit .t 0))⟩] else []
                else
                  if s = 43 then [⟨.hArr, (.tok (.lit .t 1))⟩] else []
              else
                if s < 45 then
                  if s = 44 then [⟨.hArr, (.tok (.lit .t 2))⟩] else []
                else
                  if s = 45 then [⟨.hArr, .after⟩] else []
        else
          if s < 54 then
            if s < 50 then
              if s < 48 then
                if s < 47 then
                  if s = 46 then [⟨.hArr, .after⟩] else []
                else
                  if s = 47 then [⟨.hArr, (.tok .esc)⟩] else []
              else
                if s < 49 then
                  if s = 48 then [⟨.hArr, (.tok .str)⟩] else []
                else
                  if s = 49 then [⟨.hArr, (.tok (.u 0))⟩] else []
            else
              if s < 52 then
                if s < 51 then
                  if s = 50 then [⟨.hArr, (.tok (.u 1))⟩] else []
                else
                  if s = 51 then [⟨.hArr, (.tok (.u 2))⟩] else []
              else
                if s < 53 then
                  if s = 52 then [⟨.hArr, (.tok (.u 3))⟩] else []
                else
                  if s = 53 then [⟨.hArr, (.tok .str)⟩] else []
          else
            if s < 58 then
              if s < 56 then
                if s < 55 then
                  if s = 54 then [⟨.hArr, (.tok .minus)⟩] else []
                else
                  if s = 55 then [⟨.hArr, (.tok .zero)⟩] else []
              else
                if s < 57 then
                  if s = 56 then [⟨.hArr, (.tok .fracStart)⟩] else []
                else
                  if s = 57 then [⟨.hArr, (.tok .frac)⟩] else []
            else
              if s < 60 then
                if s < 59 then
                  if s = 58 then [⟨.hArr, (.tok .frac)⟩] else []
                else
                  if s = 59 then [⟨.hArr, (.tok .expStart)⟩] else []
              else
                if s < 61 then
                  if s = 60 then [⟨.hArr, (.tok .expSign)⟩] else []
                else
                  if s = 61 then [⟨.hArr, (.tok .exp)⟩] else []
    else
      if s < 93 then
        if s < 77 then
          if s < 69 then
            if s < 65 then
              if s < 63 then
                if s = 62 then [⟨.hArr, (.tok .exp)⟩] else []
              else
                if s < 64 then
                  if s = 63 then [⟨.hArr, (.tok .int)⟩] else []
                else
                  if s = 64 then [⟨.hArr, (.tok .int)⟩] else []
            else
              if s < 67 then
                if s < 66 then
                  if s = 65 then [⟨.hArr, .after⟩] else []
                else
                  if s = 66 then [⟨.hArr, (.tok (.lit .f 0))⟩] else []
              else
                if s < 68 then
                  if s = 67 then [⟨.hArr, (.tok (.lit .f 1))⟩] else []
                else
                  if s = 68 then [⟨.hArr, (.tok (.lit .f 2))⟩] else []
          else
            if s < 73 then
              if s < 71 then
                if s < 70 then
                  if s = 69 then [⟨.hArr, (.tok (.lit .f 3))⟩] else []
                else
                  if s = 70 then [⟨.hArr, .after⟩] else []
              else
                if s < 72 then
                  if s = 71 then [⟨.hArr, (.tok (.lit .n 0))⟩] else []
                else
                  if s = 72 then [⟨.hArr, (.tok (.lit .n 1))⟩] else []
            else
              if s < 75 then
                if s < 74 then
                  if s = 73 then [⟨.hArr, (.tok (.lit .n 2))⟩] else []
                else
                  if s = 74 then [⟨.hArr, .after⟩] else []
              else
                if s < 76 then
                  if s = 75 then [⟨.hArr, (.tok (.lit .t 0))⟩] else []
                else
                  if s = 76 then [⟨.hArr, (.tok (.lit .t 1))⟩] else []
        else
          if s < 85 then
            if s < 81 then
              if s < 79 then
                if s < 78 then
                  if s = 77 then [⟨.hArr, (.tok (.lit .t 2))⟩] else []
                else
                  if s = 78 then [⟨.hArr, .after⟩] else []
              else
                if s < 80 then
                  if s = 79 then [⟨.hArr, .after⟩] else []
                else
                  if s = 80 then [⟨.hTop, (.tok (.lit .n 0))⟩] else []
            else
              if s < 83 then
                if s < 82 then
                  if s = 81 then [⟨.hTop, (.tok (.lit .n 1))⟩] else []
                else
                  if s = 82 then [⟨.hTop, (.tok (.lit .n 2))⟩] else []
              else
                if s < 84 then
                  if s = 83 then [⟨.arr, (.want true)⟩] else []
                else
                  if s = 84 then [⟨.arr, (.want true)⟩] else []
          else
            if s < 89 then
              if s < 87 then
                if s < 86 then
                  if s = 85 then [⟨.arr, (.tok .str)⟩] else []
                else
                  if s = 86 then [⟨.arr, (.tok .str)⟩] else []
              else
                if s < 88 then
                  if s = 87 then [⟨.arr, .after⟩] else []
                else
                  if s = 88 then [⟨.arr, .after⟩] else []
            else
              if s < 91 then
                if s < 90 then
                  if s = 89 then [⟨.arr, (.want false)⟩] else []
                else
                  if s = 90 then [⟨.arr, (.want false)⟩] else []
              else
                if s < 92 then
                  if s = 91 then [⟨.arr, (.tok .str)⟩] else []
                else
                  if s = 92 then [⟨.arr, (.tok .str)⟩] else []
      else
        if s < 108 then
          if s < 100 then
            if s < 96 then
              if s < 94 then
                if s = 93 then [⟨.arr, .after⟩] else []
              else
                if s < 95 then
                  if s = 94 then [⟨.arr, (.tok .esc)⟩] else []
                else
                  if s = 95 then [⟨.arr, (.tok .str)⟩] else []
            else
              if s < 98 then
                if s < 97 then
                  if s = 96 then [⟨.arr, (.tok (.u 0))⟩] else []
                else
                  if s = 97 then [⟨.arr, (.tok (.u 1))⟩] else []
              else
                if s < 99 then
                  if s = 98 then [⟨.arr, (.tok (.u 2))⟩] else []
                else
                  if s = 99 then [⟨.arr, (.tok (.u 3))⟩] else []
          else
            if s < 104 then
              if s < 102 then
                if s < 101 then
                  if s = 100 then [⟨.arr, (.tok .str)⟩] else []
                else
                  if s = 101 then [⟨.arr, (.tok .minus)⟩] else []
              else
                if s < 103 then
                  if s = 102 then [⟨.arr, (.tok .zero)⟩] else []
                else
                  if s = 103 then [⟨.arr, .after⟩] else []
            else
              if s < 106 then
                if s < 105 then
                  if s = 104 then [⟨.arr, .after⟩] else []
                else
                  if s = 105 then [⟨.arr, (.tok .int)⟩] else []
              else
                if s < 107 then
                  if s = 106 then [⟨.arr, (.tok .int)⟩] else []
                else
                  if s = 107 then [⟨.arr, .after⟩] else []
        else
          if s < 116 then
            if s < 112 then
              if s < 110 then
                if s < 109 then
                  if s = 108 then [⟨.arr, (.tok (.lit .f 0))⟩] else []
                else
                  if s = 109 then [⟨.arr, (.tok (.lit .f 1))⟩] else []
              else
                if s < 111 then
                  if s = 110 then [⟨.arr, (.tok (.lit .f 2))⟩] else []
                else
                  if s = 111 then [⟨.arr, (.tok (.lit .f 3))⟩] else []
            else
              if s < 114 then
                if s < 113 then
                  if s = 112 then [⟨.arr, .after⟩] else []
                else
                  if s = 113 then [⟨.arr, (.tok (.lit .n 0))⟩] else []
              else
                if s < 115 then
                  if s = 114 then [⟨.arr, (.tok (.lit .n 1))⟩] else []
                else
                  if s = 115 then [⟨.arr, (.tok (.lit .n 2))⟩] else []
          else
            if s < 120 then
              if s < 118 then
                if s < 117 then
                  if s = 116 then [⟨.arr, .after⟩] else []
                else
                  if s = 117 then [⟨.arr, (.tok (.lit .t 0))⟩] else []
              else
                if s < 119 then
                  if s = 118 then [⟨.arr, (.tok (.lit .t 1))⟩] else []
                else
                  if s = 119 then [⟨.arr, (.tok (.lit .t 2))⟩] else []
            else
              if s < 122 then
                if s < 121 then
                  if s = 120 then [⟨.arr, .after⟩] else []
                else
                  if s = 121 then [⟨.arr, .after⟩] else []
              else
                if s < 123 then
                  if s = 122 then [⟨.arr, (.tok .esc)⟩] else []
                else
                  if s = 123 then [⟨.arr, (.tok .str)⟩] else []
  else
    if s < 185 then
      if s < 154 then
        if s < 139 then
          if s < 131 then
            if s < 127 then
              if s < 125 then
                if s = 124 then [⟨.arr, (.tok (.u 0))⟩] else []
              else
                if s < 126 then
                  if s = 125 then [⟨.arr, (.tok (.u 1))⟩] else []
                else
                  if s = 126 then [⟨.arr, (.tok (.u 2))⟩] else []
            else
              if s < 129 then
                if s < 128 then
                  if s = 127 then [⟨.arr, (.tok (.u 3))⟩] else []
                else
                  if s = 128 then [⟨.arr, (.tok .str)⟩] else []
              else
                if s < 130 then
                  if s = 129 then [⟨.arr, (.tok .minus)⟩] else []
                else
                  if s = 130 then [⟨.arr, (.tok .zero)⟩] else []
          else
            if s < 135 then
              if s < 133 then
                if s < 132 then
                  if s = 131 then [⟨.arr, .after⟩] else []
                else
                  if s = 132 then [⟨.arr, .after⟩] else []
              else
                if s < 134 then
                  if s = 133 then [⟨.arr, (.tok .int)⟩] else []
                else
                  if s = 134 then [⟨.arr, (.tok .int)⟩] else []
            else
              if s < 137 then
                if s < 136 then
                  if s = 135 then [⟨.arr, .after⟩] else []
                else
                  if s = 136 then [⟨.arr, (.tok (.lit .f 0))⟩] else []
              else
                if s < 138 then
                  if s = 137 then [⟨.arr, (.tok (.lit .f 1))⟩] else []
                else
                  if s = 138 then [⟨.arr, (.tok (.lit .f 2))⟩] else []
        else
          if s < 146 then
            if s < 142 then
              if s < 140 then
                if s = 139 then [⟨.arr, (.tok (.lit .f 3))⟩] else []
              else
                if s < 141 then
                  if s = 140 then [⟨.arr, .after⟩] else []
                else
                  if s = 141 then [⟨.arr, (.tok (.lit .n 0))⟩] else []
            else
              if s < 144 then
                if s < 143 then
                  if s = 142 then [⟨.arr, (.tok (.lit .n 1))⟩] else []
                else
                  if s = 143 then [⟨.arr, (.tok (.lit .n 2))⟩] else []
              else
                if s < 145 then
                  if s = 144 then [⟨.arr, .after⟩] else []
                else
                  if s = 145 then [⟨.arr, (.tok (.lit .t 0))⟩] else []
          else
            if s < 150 then
              if s < 148 then
                if s < 147 then
                  if s = 146 then [⟨.arr, (.tok (.lit .t 1))⟩] else []
                else
                  if s = 147 then [⟨.arr, (.tok (.lit .t 2))⟩] else []
              else
                if s < 149 then
                  if s = 148 then [⟨.arr, .after⟩] else []
                else
                  if s = 149 then [⟨.arr, .after⟩] else []
            else
              if s < 152 then
                if s < 151 then
                  if s = 150 then [⟨.obj, (.wantKey true)⟩] else []
                else
                  if s = 151 then [⟨.obj, (.wantKey true)⟩] else []
              else
                if s < 153 then
                  if s = 152 then [⟨.obj, (.key .str)⟩] else []
                else
                  if s = 153 then [⟨.obj, (.key .str)⟩] else []
      else
        if s < 169 then
          if s < 161 then
            if s < 157 then
              if s < 155 then
                if s = 154 then [⟨.obj, .afterKey⟩] else []
              else
                if s < 156 then
                  if s = 155 then [⟨.obj, .afterKey⟩] else []
                else
                  if s = 156 then [⟨.obj, (.want false)⟩] else []
            else
              if s < 159 then
                if s < 158 then
                  if s = 157 then [⟨.obj, (.want false)⟩] else []
                else
                  if s = 158 then [⟨.obj, (.tok .str)⟩] else []
              else
                if s < 160 then
                  if s = 159 then [⟨.obj, (.tok .str)⟩] else []
                else
                  if s = 160 then [⟨.obj, .after⟩] else []
          else
            if s < 165 then
              if s < 163 then
                if s < 162 then
                  if s = 161 then [⟨.obj, .after⟩] else []
                else
                  if s = 162 then [⟨.obj, (.wantKey false)⟩] else []
              else
                if s < 164 then
                  if s = 163 then [⟨.obj, (.wantKey false)⟩] else []
                else
                  if s = 164 then [⟨.obj, (.key .str)⟩] else []
            else
              if s < 167 then
                if s < 166 then
                  if s = 165 then [⟨.obj, (.key .str)⟩] else []
                else
                  if s = 166 then [⟨.obj, .afterKey⟩] else []
              else
                if s < 168 then
                  if s = 167 then [⟨.obj, .afterKey⟩] else []
                else
                  if s = 168 then [⟨.obj, (.want false)⟩] else []
        else
          if s < 177 then
            if s < 173 then
              if s < 171 then
                if s < 170 then
                  if s = 169 then [⟨.obj, (.want false)⟩] else []
                else
                  if s = 170 then [⟨.obj, (.tok .str)⟩] else []
              else
                if s < 172 then
                  if s = 171 then [⟨.obj, (.tok .str)⟩] else []
                else
                  if s = 172 then [⟨.obj, .after⟩] else []
            else
              if s < 175 then
                if s < 174 then
                  if s = 173 then [⟨.obj, (.tok .esc)⟩] else []
                else
                  if s = 174 then [⟨.obj, (.tok .str)⟩] else []
              else
                if s < 176 then
                  if s = 175 then [⟨.obj, (.tok (.u 0))⟩] else []
                else
                  if s = 176 then [⟨.obj, (.tok (.u 1))⟩] else []
          else
            if s < 181 then
              if s < 179 then
                if s < 178 then
                  if s = 177 then [⟨.obj, (.tok (.u 2))⟩] else []
                else
                  if s = 178 then [⟨.obj, (.tok (.u 3))⟩] else []
              else
                if s < 180 then
                  if s = 179 then [⟨.obj, (.tok .str)⟩] else []
                else
                  if s = 180 then [⟨.obj, (.tok .minus)⟩] else []
            else
              if s < 183 then
                if s < 182 then
                  if s = 181 then [⟨.obj, (.tok .zero)⟩] else []
                else
                  if s = 182 then [⟨.obj, .after⟩] else []
              else
                if s < 184 then
                  if s = 183 then [⟨.obj, .after⟩] else []
                else
                  if s = 184 then [⟨.obj, (.tok .int)⟩] else []
    else
      if s < 216 then
        if s < 200 then
          if s < 192 then
            if s < 188 then
              if s < 186 then
                if s = 185 then [⟨.obj, (.tok .int)⟩] else []
              else
                if s < 187 then
                  if s = 186 then [⟨.obj, .after⟩] else []
                else
                  if s = 187 then [⟨.obj, (.tok (.lit .f 0))⟩] else []
            else
              if s < 190 then
                if s < 189 then
                  if s = 188 then [⟨.obj, (.tok (.lit .f 1))⟩] else []
                else
                  if s = 189 then [⟨.obj, (.tok (.lit .f 2))⟩] else []
              else
                if s < 191 then
                  if s = 190 then [⟨.obj, (.tok (.lit .f 3))⟩] else []
                else
                  if s = 191 then [⟨.obj, .after⟩] else []
          else
            if s < 196 then
              if s < 194 then
                if s < 193 then
                  if s = 192 then [⟨.obj, (.tok (.lit .n 0))⟩] else []
                else
                  if s = 193 then [⟨.obj, (.tok (.lit .n 1))⟩] else []
              else
                if s < 195 then
                  if s = 194 then [⟨.obj, (.tok (.lit .n 2))⟩] else []
                else
                  if s = 195 then [⟨.obj, .after⟩] else []
            else
              if s < 198 then
                if s < 197 then
                  if s = 196 then [⟨.obj, (.tok (.lit .t 0))⟩] else []
                else
                  if s = 197 then [⟨.obj, (.tok (.lit .t 1))⟩] else []
              else
                if s < 199 then
                  if s = 198 then [⟨.obj, (.tok (.lit .t 2))⟩] else []
                else
                  if s = 199 then [⟨.obj, .after⟩] else []
        else
          if s < 208 then
            if s < 204 then
              if s < 202 then
                if s < 201 then
                  if s = 200 then [⟨.obj, .after⟩] else []
                else
                  if s = 201 then [⟨.obj, (.key .esc)⟩] else []
              else
                if s < 203 then
                  if s = 202 then [⟨.obj, (.key .str)⟩] else []
                else
                  if s = 203 then [⟨.obj, (.key (.u 0))⟩] else []
            else
              if s < 206 then
                if s < 205 then
                  if s = 204 then [⟨.obj, (.key (.u 1))⟩] else []
                else
                  if s = 205 then [⟨.obj, (.key (.u 2))⟩] else []
              else
                if s < 207 then
                  if s = 206 then [⟨.obj, (.key (.u 3))⟩] else []
                else
                  if s = 207 then [⟨.obj, (.key .str)⟩] else []
          else
            if s < 212 then
              if s < 210 then
                if s < 209 then
                  if s = 208 then [⟨.obj, (.tok .esc)⟩] else []
                else
                  if s = 209 then [⟨.obj, (.tok .str)⟩] else []
              else
                if s < 211 then
                  if s = 210 then [⟨.obj, (.tok (.u 0))⟩] else []
                else
                  if s = 211 then [⟨.obj, (.tok (.u 1))⟩] else []
            else
              if s < 214 then
                if s < 213 then
                  if s = 212 then [⟨.obj, (.tok (.u 2))⟩] else []
                else
                  if s = 213 then [⟨.obj, (.tok (.u 3))⟩] else []
              else
                if s < 215 then
                  if s = 214 then [⟨.obj, (.tok .str)⟩] else []
                else
                  if s = 215 then [⟨.obj, (.tok .minus)⟩] else []
      else
        if s < 231 then
          if s < 223 then
            if s < 219 then
              if s < 217 then
                if s = 216 then [⟨.obj, (.tok .zero)⟩] else []
              else
                if s < 218 then
                  if s = 217 then [⟨.obj, .after⟩] else []
                else
                  if s = 218 then [⟨.obj, .after⟩] else []
            else
              if s < 221 then
                if s < 220 then
                  if s = 219 then [⟨.obj, (.tok .int)⟩] else []
                else
                  if s = 220 then [⟨.obj, (.tok .int)⟩] else []
              else
                if s < 222 then
                  if s = 221 then [⟨.obj, .after⟩] else []
                else
                  if s = 222 then [⟨.obj, (.tok (.lit .f 0))⟩] else []
          else
            if s < 227 then
              if s < 225 then
                if s < 224 then
                  if s = 223 then [⟨.obj, (.tok (.lit .f 1))⟩] else []
                else
                  if s = 224 then [⟨.obj, (.tok (.lit .f 2))⟩] else []
              else
                if s < 226 then
                  if s = 225 then [⟨.obj, (.tok (.lit .f 3))⟩] else []
                else
                  if s = 226 then [⟨.obj, .after⟩] else []
            else
              if s < 229 then
                if s < 228 then
                  if s = 227 then [⟨.obj, (.tok (.lit .n 0))⟩] else []
                else
                  if s = 228 then [⟨.obj, (.tok (.lit .n 1))⟩] else []
              else
                if s < 230 then
                  if s = 229 then [⟨.obj, (.tok (.lit .n 2))⟩] else []
                else
                  if s = 230 then [⟨.obj, .after⟩] else []
        else
          if s < 239 then
            if s < 235 then
              if s < 233 then
                if s < 232 then
                  if s = 231 then [⟨.obj, (.tok (.lit .t 0))⟩] else []
                else
                  if s = 232 then [⟨.obj, (.tok (.lit .t 1))⟩] else []
              else
                if s < 234 then
                  if s = 233 then [⟨.obj, (.tok (.lit .t 2))⟩] else []
                else
                  if s = 234 then [⟨.obj, .after⟩] else []
            else
              if s < 237 then
                if s < 236 then
                  if s = 235 then [⟨.obj, .after⟩] else []
                else
                  if s = 236 then [⟨.obj, (.key .esc)⟩] else []
              else
                if s < 238 then
                  if s = 237 then [⟨.obj, (.key .str)⟩] else []
                else
                  if s = 238 then [⟨.obj, (.key (.u 0))⟩] else []
          else
            if s < 243 then
              if s < 241 then
                if s < 240 then
                  if s = 239 then [⟨.obj, (.key (.u 1))⟩] else []
                else
                  if s = 240 then [⟨.obj, (.key (.u 2))⟩] else []
              else
                if s < 242 then
                  if s = 241 then [⟨.obj, (.key (.u 3))⟩] else []
                else
                  if s = 242 then [⟨.obj, (.key .str)⟩] else []
            else
              if s < 245 then
                if s < 244 then
                  if s = 243 then [⟨.hTop, .done⟩] else []
                else
                  if s = 244 then [⟨.hTop, .after⟩] else []
              else
                if s < 246 then
                  if s = 245 then [⟨.arr, .done⟩] else []
                else
                  if s = 246 then [⟨.obj, .done⟩] else []

def labels (s : Nat) : List RJson.Abs.AS := if s < RJson.Gen.HandleArrayValues.nstates then labelsTab s else []

theorem labels_bound : ∀ s, RJson.Gen.HandleArrayValues.nstates ≤ s → labels s = [] := by
  intro s hs
  simp [labels, Nat.not_lt.mpr hs]

end RJson.Gen.HandleArrayValuesLabels
