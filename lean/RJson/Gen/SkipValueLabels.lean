import RJson.Model.Abs
import RJson.Gen.SkipValue
/-! GENERATED labelling (untrusted BFS output of `modeld labels skipValue skip`); re-checked by the kernel in RJson.Certs.SkipValue -/
namespace RJson.Gen.SkipValueLabels

def labelsTab (s : Nat) : List RJson.Abs.AS :=
  if s < 98 then
    if s < 49 then
      if s < 25 then
        if s < 13 then
          if s < 7 then
            if s < 4 then
              if s < 2 then
                if s = 1 then [⟨.top, (.want true)⟩] else []
              else
                if s < 3 then
                  if s = 2 then [⟨.top, (.want true)⟩] else []
                else
                  if s = 3 then [⟨.top, (.tok .str)⟩] else []
            else
              if s < 5 then
                if s = 4 then [⟨.top, (.tok .str)⟩] else []
              else
                if s < 6 then
                  if s = 5 then [⟨.top, (.tok .esc)⟩] else []
                else
                  if s = 6 then [⟨.top, (.tok .str)⟩] else []
          else
            if s < 10 then
              if s < 8 then
                if s = 7 then [⟨.top, (.tok (.u 0))⟩] else []
              else
                if s < 9 then
                  if s = 8 then [⟨.top, (.tok (.u 1))⟩] else []
                else
                  if s = 9 then [⟨.top, (.tok (.u 2))⟩] else []
            else
              if s < 11 then
                if s = 10 then [⟨.top, (.tok (.u 3))⟩] else []
              else
                if s < 12 then
                  if s = 11 then [⟨.top, (.tok .str)⟩] else []
                else
                  if s = 12 then [⟨.top, (.tok .minus)⟩] else []
        else
          if s < 19 then
            if s < 16 then
              if s < 14 then
                if s = 13 then [⟨.top, (.tok (.lit .f 0))⟩] else []
              else
                if s < 15 then
                  if s = 14 then [⟨.top, (.tok (.lit .f 1))⟩] else []
                else
                  if s = 15 then [⟨.top, (.tok (.lit .f 2))⟩] else []
            else
              if s < 17 then
                if s = 16 then [⟨.top, (.tok (.lit .f 3))⟩] else []
              else
                if s < 18 then
                  if s = 17 then [⟨.top, (.tok (.lit .n 0))⟩] else []
                else
                  if s = 18 then [⟨.top, (.tok (.lit .n 1))⟩] else []
          else
            if s < 22 then
              if s < 20 then
                if s = 19 then [⟨.top, (.tok (.lit .n 2))⟩] else []
              else
                if s < 21 then
                  if s = 20 then [⟨.top, (.tok (.lit .t 0))⟩] else []
                else
                  if s = 21 then [⟨.top, (.tok (.lit .t 1))⟩] else []
            else
              if s < 23 then
                if s = 22 then [⟨.top, (.tok (.lit .t 2))⟩] else []
              else
                if s < 24 then
                  if s = 23 then [⟨.arr, (.want true)⟩] else []
                else
                  if s = 24 then [⟨.arr, (.want true)⟩] else []
      else
        if s < 37 then
          if s < 31 then
            if s < 28 then
              if s < 26 then
                if s = 25 then [⟨.arr, (.tok .str)⟩] else []
              else
                if s < 27 then
                  if s = 26 then [⟨.arr, (.tok .str)⟩] else []
                else
                  if s = 27 then [⟨.arr, .after⟩] else []
            else
              if s < 29 then
                if s = 28 then [⟨.arr, .after⟩] else []
              else
                if s < 30 then
                  if s = 29 then [⟨.arr, (.want false)⟩] else []
                else
                  if s = 30 then [⟨.arr, (.want false)⟩] else []
          else
            if s < 34 then
              if s < 32 then
                if s = 31 then [⟨.arr, (.tok .str)⟩] else []
              else
                if s < 33 then
                  if s = 32 then [⟨.arr, (.tok .str)⟩] else []
                else
                  if s = 33 then [⟨.arr, .after⟩] else []
            else
              if s < 35 then
                if s = 34 then [⟨.arr, (.tok .esc)⟩] else []
              else
                if s < 36 then
                  if s = 35 then [⟨.arr, (.tok .str)⟩] else []
                else
                  if s = 36 then [⟨.arr, (.tok (.u 0))⟩] else []
        else
          if s < 43 then
            if s < 40 then
              if s < 38 then
                if s = 37 then [⟨.arr, (.tok (.u 1))⟩] else []
              else
                if s < 39 then
                  if s = 38 then [⟨.arr, (.tok (.u 2))⟩] else []
                else
                  if s = 39 then [⟨.arr, (.tok (.u 3))⟩] else []
            else
              if s < 41 then
                if s = 40 then [⟨.arr, (.tok .str)⟩] else []
              else
                if s < 42 then
                  if s = 41 then [⟨.arr, (.tok .minus)⟩] else []
                else
                  if s = 42 then [⟨.arr, (.tok .zero)⟩] else []
          else
            if s < 46 then
              if s < 44 then
                if s = 43 then [⟨.arr, .after⟩] else []
              else
                if s < 45 then
                  if s = 44 then [⟨.arr, .after⟩] else []
                else
                  if s = 45 then [⟨.arr, (.tok .int)⟩] else []
            else
              if s < 47 then
                if s = 46 then [⟨.arr, (.tok .int)⟩] else []
              else
                if s < 48 then
                  if s = 47 then [⟨.arr, .after⟩] else []
                else
                  if s = 48 then [⟨.arr, (.tok (.lit .f 0))⟩] else []
    else
      if s < 73 then
        if s < 61 then
          if s < 55 then
            if s < 52 then
              if s < 50 then
                if s = 49 then [⟨.arr, (.tok (.lit .f 1))⟩] else []
              else
                if s < 51 then
                  if s = 50 then [⟨.arr, (.tok (.lit .f 2))⟩] else []
                else
                  if s = 51 then [⟨.arr, (.tok (.lit .f 3))⟩] else []
            else
              if s < 53 then
                if s = 52 then [⟨.arr, .after⟩] else []
              else
                if s < 54 then
                  if s = 53 then [⟨.arr, (.tok (.lit .n 0))⟩] else []
                else
                  if s = 54 then [⟨.arr, (.tok (.lit .n 1))⟩] else []
          else
            if s < 58 then
              if s < 56 then
                if s = 55 then [⟨.arr, (.tok (.lit .n 2))⟩] else []
              else
                if s < 57 then
                  if s = 56 then [⟨.arr, .after⟩] else []
                else
                  if s = 57 then [⟨.arr, (.tok (.lit .t 0))⟩] else []
            else
              if s < 59 then
                if s = 58 then [⟨.arr, (.tok (.lit .t 1))⟩] else []
              else
                if s < 60 then
                  if s = 59 then [⟨.arr, (.tok (.lit .t 2))⟩] else []
                else
                  if s = 60 then [⟨.arr, .after⟩] else []
        else
          if s < 67 then
            if s < 64 then
              if s < 62 then
                if s = 61 then [⟨.arr, .after⟩] else []
              else
                if s < 63 then
                  if s = 62 then [⟨.arr, (.tok .esc)⟩] else []
                else
                  if s = 63 then [⟨.arr, (.tok .str)⟩] else []
            else
              if s < 65 then
                if s = 64 then [⟨.arr, (.tok (.u 0))⟩] else []
              else
                if s < 66 then
                  if s = 65 then [⟨.arr, (.tok (.u 1))⟩] else []
                else
                  if s = 66 then [⟨.arr, (.tok (.u 2))⟩] else []
          else
            if s < 70 then
              if s < 68 then
                if s = 67 then [⟨.arr, (.tok (.u 3))⟩] else []
              else
                if s < 69 then
                  if s = 68 then [⟨.arr, (.tok .str)⟩] else []
                else
                  if s = 69 then [⟨.arr, (.tok .minus)⟩] else []
            else
              if s < 71 then
                if s = 70 then [⟨.arr, (.tok .zero)⟩] else []
              else
                if s < 72 then
                  if s = 71 then [⟨.arr, .after⟩] else []
                else
                  if s = 72 then [⟨.arr, .after⟩] else []
      else
        if s < 85 then
          if s < 79 then
            if s < 76 then
              if s < 74 then
                if s = 73 then [⟨.arr, (.tok .int)⟩] else []
              else
                if s < 75 then
                  if s = 74 then [⟨.arr, (.tok .int)⟩] else []
                else
                  if s = 75 then [⟨.arr, .after⟩] else []
            else
              if s < 77 then
                if s = 76 then [⟨.arr, (.tok (.lit .f 0))⟩] else []
              else
                if s < 78 then
                  if s = 77 then [⟨.arr, (.tok (.lit .f 1))⟩] else []
                else
                  if s = 78 then [⟨.arr, (.tok (.lit .f 2))⟩] else []
          else
            if s < 82 then
              if s < 80 then
                if s = 79 then [⟨.arr, (.tok (.lit .f 3))⟩] else []
              else
                if s < 81 then
                  if s = 80 then [⟨.arr, .after⟩] else []
                else
                  if s = 81 then [⟨.arr, (.tok (.lit .n 0))⟩] else []
            else
              if s < 83 then
                if s = 82 then [⟨.arr, (.tok (.lit .n 1))⟩] else []
              else
                if s < 84 then
                  if s = 83 then [⟨.arr, (.tok (.lit .n 2))⟩] else []
                else
                  if s = 84 then [⟨.arr, .after⟩] else []
        else
          if s < 91 then
            if s < 88 then
              if s < 86 then
                if s = 85 then [⟨.arr, (.tok (.lit .t 0))⟩] else []
              else
                if s < 87 then
                  if s = 86 then [⟨.arr, (.tok (.lit .t 1))⟩] else []
                else
                  if s = 87 then [⟨.arr, (.tok (.lit .t 2))⟩] else []
            else
              if s < 89 then
                if s = 88 then [⟨.arr, .after⟩] else []
              else
                if s < 90 then
                  if s = 89 then [⟨.arr, .after⟩] else []
                else
                  if s = 90 then [⟨.obj, (.wantKey true)⟩] else []
          else
            if s < 94 then
              if s < 92 then
                if s = 91 then [⟨.obj, (.wantKey true)⟩] else []
              else
                if s < 93 then
                  if s = 92 then [⟨.obj, (.key .str)⟩] else []
                else
                  if s = 93 then [⟨.obj, (.key .str)⟩] else []
            else
              if s < 96 then
                if s < 95 then
                  if s = 94 then [⟨.obj, .afterKey⟩] else []
                else
                  if s = 95 then [⟨.obj, .afterKey⟩] else []
              else
                if s < 97 then
                  if s = 96 then [⟨.obj, (.want false)⟩] else []
                else
                  if s = 97 then [⟨.obj, (.want false)⟩] else []
  else
    if s < 147 then
      if s < 122 then
        if s < 110 then
          if s < 104 then
            if s < 101 then
              if s < 99 then
                if s = 98 then [⟨.obj, (.tok .str)⟩] else []
              else
                if s < 100 then
                  if s = 99 then [⟨.obj, (.tok .str)⟩] else []
                else
                  if s = 100 then [⟨.obj, .after⟩] else []
            else
              if s < 102 then
                if s = 101 then [⟨.obj, .after⟩] else []
              else
                if s < 103 then
                  if s = 102 then [⟨.obj, (.wantKey false)⟩] else []
                else
                  if s = 103 then [⟨.obj, (.wantKey false)⟩] else []
          else
            if s < 107 then
              if s < 105 then
                if s = 104 then [⟨.obj, (.key .str)⟩] else []
              else
                if s < 106 then
                  if s = 105 then [⟨.obj, (.key .str)⟩] else []
                else
                  if s = 106 then [⟨.obj, .afterKey⟩] else []
            else
              if s < 108 then
                if s = 107 then [⟨.obj, .afterKey⟩] else []
              else
                if s < 109 then
                  if s = 108 then [⟨.obj, (.want false)⟩] else []
                else
                  if s = 109 then [⟨.obj, (.want false)⟩] else []
        else
          if s < 116 then
            if s < 113 then
              if s < 111 then
                if s = 110 then [⟨.obj, (.tok .str)⟩] else []
              else
                if s < 112 then
                  if s = 111 then [⟨.obj, (.tok .str)⟩] else []
                else
                  if s = 112 then [⟨.obj, .after⟩] else []
            else
              if s < 114 then
                if s = 113 then [⟨.obj, (.tok .esc)⟩] else []
              else
                if s < 115 then
                  if s = 114 then [⟨.obj, (.tok .str)⟩] else []
                else
                  if s = 115 then [⟨.obj, (.tok (.u 0))⟩] else []
          else
            if s < 119 then
              if s < 117 then
                if s = 116 then [⟨.obj, (.tok (.u 1))⟩] else []
              else
                if s < 118 then
                  if s = 117 then [⟨.obj, (.tok (.u 2))⟩] else []
                else
                  if s = 118 then [⟨.obj, (.tok (.u 3))⟩] else []
            else
              if s < 120 then
                if s = 119 then [⟨.obj, (.tok .str)⟩] else []
              else
                if s < 121 then
                  if s = 120 then [⟨.obj, (.tok .minus)⟩] else []
                else
                  if s = 121 then [⟨.obj, (.tok .zero)⟩] else []
      else
        if s < 134 then
          if s < 128 then
            if s < 125 then
              if s < 123 then
                if s = 122 then [⟨.obj, .after⟩] else []
              else
                if s < 124 then
                  if s = 123 then [⟨.obj, .after⟩] else []
                else
                  if s = 124 then [⟨.obj, (.tok .int)⟩] else []
            else
              if s < 126 then
                if s = 125 then [⟨.obj, (.tok .int)⟩] else []
              else
                if s < 127 then
                  if s = 126 then [⟨.obj, .after⟩] else []
                else
                  if s = 127 then [⟨.obj, (.tok (.lit .f 0))⟩] else []
          else
            if s < 131 then
              if s < 129 then
                if s = 128 then [⟨.obj, (.tok (.lit .f 1))⟩] else []
              else
                if s < 130 then
                  if s = 129 then [⟨.obj, (.tok (.lit .f 2))⟩] else []
                else
                  if s = 130 then [⟨.obj, (.tok (.lit .f 3))⟩] else []
            else
              if s < 132 then
                if s = 131 then [⟨.obj, .after⟩] else []
              else
                if s < 133 then
                  if s = 132 then [⟨.obj, (.tok (.lit .n 0))⟩] else []
                else
                  if s = 133 then [⟨.obj, (.tok (.lit .n 1))⟩] else []
        else
          if s < 140 then
            if s < 137 then
              if s < 135 then
                if s = 134 then [⟨.obj, (.tok (.lit .n 2))⟩] else []
              else
                if s < 136 then
                  if s = 135 then [⟨.obj, .after⟩] else []
                else
                  if s = 136 then [⟨.obj, (.tok (.lit .t 0))⟩] else []
            else
              if s < 138 then
                if s = 137 then [⟨.obj, (.tok (.lit .t 1))⟩] else []
              else
                if s < 139 then
                  if s = 138 then [⟨.obj, (.tok (.lit .t 2))⟩] else []
                else
                  if s = 139 then [⟨.obj, .after⟩] else []
          else
            if s < 143 then
              if s < 141 then
                if s = 140 then [⟨.obj, .after⟩] else []
              else
                if s < 142 then
                  if s = 141 then [⟨.obj, (.key .esc)⟩] else []
                else
                  if s = 142 then [⟨.obj, (.key .str)⟩] else []
            else
              if s < 145 then
                if s < 144 then
                  if s = 143 then [⟨.obj, (.key (.u 0))⟩] else []
                else
                  if s = 144 then [⟨.obj, (.key (.u 1))⟩] else []
              else
                if s < 146 then
                  if s = 145 then [⟨.obj, (.key (.u 2))⟩] else []
                else
                  if s = 146 then [⟨.obj, (.key (.u 3))⟩] else []
    else
      if s < 171 then
        if s < 159 then
          if s < 153 then
            if s < 150 then
              if s < 148 then
                if s = 147 then [⟨.obj, (.key .str)⟩] else []
              else
                if s < 149 then
                  if s = 148 then [⟨.obj, (.tok .esc)⟩] else []
                else
                  if s = 149 then [⟨.obj, (.tok .str)⟩] else []
            else
              if s < 151 then
                if s = 150 then [⟨.obj, (.tok (.u 0))⟩] else []
              else
                if s < 152 then
                  if s = 151 then [⟨.obj, (.tok (.u 1))⟩] else []
                else
                  if s = 152 then [⟨.obj, (.tok (.u 2))⟩] else []
          else
            if s < 156 then
              if s < 154 then
                if s = 153 then [⟨.obj, (.tok (.u 3))⟩] else []
              else
                if s < 155 then
                  if s = 154 then [⟨.obj, (.tok .str)⟩] else []
                else
                  if s = 155 then [⟨.obj, (.tok .minus)⟩] else []
            else
              if s < 157 then
                if s = 156 then [⟨.obj, (.tok .zero)⟩] else []
              else
                if s < 158 then
                  if s = 157 then [⟨.obj, .after⟩] else []
                else
                  if s = 158 then [⟨.obj, .after⟩] else []
        else
          if s < 165 then
            if s < 162 then
              if s < 160 then
                if s = 159 then [⟨.obj, (.tok .int)⟩] else []
              else
                if s < 161 then
                  if s = 160 then [⟨.obj, (.tok .int)⟩] else []
                else
                  if s = 161 then [⟨.obj, .after⟩] else []
            else
              if s < 163 then
                if s = 162 then [⟨.obj, (.tok (.lit .f 0))⟩] else []
              else
                if s < 164 then
                  if s = 163 then [⟨.obj, (.tok (.lit .f 1))⟩] else []
                else
                  if s = 164 then [⟨.obj, (.tok (.lit .f 2))⟩] else []
          else
            if s < 168 then
              if s < 166 then
                if s = 165 then [⟨.obj, (.tok (.lit .f 3))⟩] else []
              else
                if s < 167 then
                  if s = 166 then [⟨.obj, .after⟩] else []
                else
                  if s = 167 then [⟨.obj, (.tok (.lit .n 0))⟩] else []
            else
              if s < 169 then
                if s = 168 then [⟨.obj, (.tok (.lit .n 1))⟩] else []
              else
                if s < 170 then
                  if s = 169 then [⟨.obj, (.tok (.lit .n 2))⟩] else []
                else
                  if s = 170 then [⟨.obj, .after⟩] else []
      else
        if s < 183 then
          if s < 177 then
            if s < 174 then
              if s < 172 then
                if s = 171 then [⟨.obj, (.tok (.lit .t 0))⟩] else []
              else
                if s < 173 then
                  if s = 172 then [⟨.obj, (.tok (.lit .t 1))⟩] else []
                else
                  if s = 173 then [⟨.obj, (.tok (.lit .t 2))⟩] else []
            else
              if s < 175 then
                if s = 174 then [⟨.obj, .after⟩] else []
              else
                if s < 176 then
                  if s = 175 then [⟨.obj, .after⟩] else []
                else
                  if s = 176 then [⟨.obj, (.key .esc)⟩] else []
          else
            if s < 180 then
              if s < 178 then
                if s = 177 then [⟨.obj, (.key .str)⟩] else []
              else
                if s < 179 then
                  if s = 178 then [⟨.obj, (.key (.u 0))⟩] else []
                else
                  if s = 179 then [⟨.obj, (.key (.u 1))⟩] else []
            else
              if s < 181 then
                if s = 180 then [⟨.obj, (.key (.u 2))⟩] else []
              else
                if s < 182 then
                  if s = 181 then [⟨.obj, (.key (.u 3))⟩] else []
                else
                  if s = 182 then [⟨.obj, (.key .str)⟩] else []
        else
          if s < 189 then
            if s < 186 then
              if s < 184 then
                if s = 183 then [⟨.top, .after⟩] else []
              else
                if s < 185 then
                  if s = 184 then [⟨.top, (.tok .zero)⟩] else []
                else
                  if s = 185 then [⟨.top, .after⟩] else []
            else
              if s < 187 then
                if s = 186 then [⟨.top, .after⟩] else []
              else
                if s < 188 then
                  if s = 187 then [⟨.top, (.tok .int)⟩] else []
                else
                  if s = 188 then [⟨.top, (.tok .int)⟩] else []
          else
            if s < 192 then
              if s < 190 then
                if s = 189 then [⟨.top, .after⟩] else []
              else
                if s < 191 then
                  if s = 190 then [⟨.top, .after⟩] else []
                else
                  if s = 191 then [⟨.top, .after⟩] else []
            else
              if s < 194 then
                if s < 193 then
                  if s = 192 then [⟨.top, .after⟩] else []
                else
                  if s = 193 then [⟨.top, .after⟩] else []
              else
                if s < 195 then
                  if s = 194 then [⟨.arr, .done⟩] else []
                else
                  if s = 195 then [⟨.obj, .done⟩] else []

def labels (s : Nat) : List RJson.Abs.AS := if s < RJson.Gen.SkipValue.nstates then labelsTab s else []

theorem labels_bound : ∀ s, RJson.Gen.SkipValue.nstates ≤ s → labels s = [] := by
  intro s hs
  simp [labels, Nat.not_lt.mpr hs]

end RJson.Gen.SkipValueLabels
