import RJson.Model.AbsSmall
import RJson.Gen.ReadNull
/-! GENERATED labelling (untrusted BFS output of `modeld labels readNull null`); re-checked by the kernel in RJson.Certs.ReadNull -/
namespace RJson.Gen.ReadNullLabels

def labelsTab (s : Nat) : List RJson.AbsSmall.LS :=
  if s < 4 then
    if s < 2 then
      if s = 1 then [.ws] else []
    else
      if s < 3 then
        if s = 2 then [.ws] else []
      else
        if s = 3 then [(.lit .n 0)] else []
  else
    if s < 5 then
      if s = 4 then [(.lit .n 1)] else []
    else
      if s < 6 then
        if s = 5 then [(.lit .n 2)] else []
      else
        if s = 6 then [.done] else []

def labels (s : Nat) : List RJson.AbsSmall.LS := if s < RJson.Gen.ReadNull.nstates then labelsTab s else []

theorem labels_bound : ∀ s, RJson.Gen.ReadNull.nstates ≤ s → labels s = [] := by
  intro s hs
  simp [labels, Nat.not_lt.mpr hs]

end RJson.Gen.ReadNullLabels
