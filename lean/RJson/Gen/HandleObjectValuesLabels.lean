import RJson.Model.Abs
import RJson.Gen.HandleObjectValues
/-! GENERATED labelling (untrusted BFS output of `modeld labels handleObjectValues hobj`); re-checked by the kernel in RJson.Certs.HandleObjectValues -/
namespace RJson.Gen.HandleObjectValuesLabels

def labelsTab (s : Nat) : List RJson.Abs.AS :=
  if s < 137 then
    if s < 69 then
      if s < 35 then
        if s < 18 then
          if s < 9 then
            if s < 5 then
              if s < 3 then
                if s < 2 then
                  if s = 1 then [⟨.hTop, (.want true)⟩] else []
                else
                  if s = 2 then [⟨.hTop, (.want true)⟩] else []
              else
                if s < 4 then
                  if s = 3 then [⟨.hTop, (.tok (.lit .n 0))⟩] else []
                else
                  if s = 4 then [⟨.hTop, (.tok (.lit .n 1))⟩] else []
            else
              if s < 7 then
                if s < 6 then
                  if s = 5 then [⟨.hTop, (.tok (.lit .n 2))⟩] else []
                else
                  if s = 6 then [⟨.hObj, (.wantKey true)⟩] else []
              else
                if s < 8 then
                  if s = 7 then [⟨.hObj, (.wantKey true)⟩] else []
                else
                  if s = 8 then [⟨.hObj, (.key .str)⟩] else []
          else
            if s < 13 then
              if s < 11 then
                if s < 10 then
                  if s = 9 then [⟨.hObj, (.key .str)⟩] else []
                else
                  if s = 10 then [⟨.hObj, .keyClosed⟩] else []
              else
                if s < 12 then
                  if s = 11 then [⟨.hObj, .afterKey⟩] else []
                else
                  if s = 12 then [⟨.hObj, (.want false)⟩] else []
            else
              if s < 15 then
                if s < 14 then
                  if s = 13 then [⟨.hObj, (.want false)⟩] else []
                else
                  if s = 14 then [⟨.hObj, (.tok .str)⟩] else []
              else
                if s < 16 then
                  if s = 15 then [⟨.hObj, (.tok .str)⟩] else []
                else
                  if s < 17 then
                    if s = 16 then [⟨.hObj, .after⟩] else []
                  else
                    if s = 17 then [⟨.hObj, .after⟩] else []
        else
          if s < 26 then
            if s < 22 then
              if s < 20 then
                if s < 19 then
                  if s = 18 then [⟨.hObj, (.wantKey false)⟩] else []
                else
                  if s = 19 then [⟨.hObj, (.wantKey false)⟩] else []
              else
                if s < 21 then
                  if s = 20 then [⟨.hObj, (.key .str)⟩] else []
                else
                  if s = 21 then [⟨.hObj, (.key .str)⟩] else []
            else
              if s < 24 then
                if s < 23 then
                  if s = 22 then [⟨.hObj, .keyClosed⟩] else []
                else
                  if s = 23 then [⟨.hObj, .afterKey⟩] else []
              else
                if s < 25 then
                  if s = 24 then [⟨.hObj, (.want false)⟩] else []
                else
                  if s = 25 then [⟨.hObj, (.want false)⟩] else []
          else
            if s < 30 then
              if s < 28 then
                if s < 27 then
                  if s = 26 then [⟨.hObj, (.tok .str)⟩] else []
                else
                  if s = 27 then [⟨.hObj, (.tok .str)⟩] else []
              else
                if s < 29 then
                  if s = 28 then [⟨.hObj, .after⟩] else []
                else
                  if s = 29 then [⟨.hObj, (.tok .esc)⟩] else []
            else
              if s < 32 then
                if s < 31 then
                  if s = 30 then [⟨.hObj, (.tok .str)⟩] else []
                else
                  if s = 31 then [⟨.hObj, (.tok (.u 0))⟩] else []
              else
                if s < 33 then
                  if s = 32 then [⟨.hObj, (.tok (.u 1))⟩] else []
                else
                  if s < 34 then
                    if s = 33 then [⟨.hObj, (.tok (.u 2))⟩] else []
                  else
                    if s = 34 then [⟨.hObj, (.tok (.u 3))⟩] else []
      else
        if s < 52 then
          if s < 43 then
            if s < 39 then
              if s < 37 then
                if s < 36 then
                  if s = 35 then [⟨.hObj, (.tok .str)⟩] else []
                else
                  if s = 36 then [⟨.hObj, (.tok .minus)⟩] else []
              else
                if s < 38 then
                  if s = 37 then [⟨.hObj, (.tok .zero)⟩] else []
                else
                  if s = 38 then [⟨.hObj, (.tok .fracStart)⟩] else []
            else
              if s < 41 then
                if s < 40 then
                  if s = 39 then [⟨.hObj, (.tok .frac)⟩] else []
                else
                  if s = 40 then [⟨.hObj, (.tok .frac)⟩] else []
              else
                if s < 42 then
                  if s = 41 then [⟨.hObj, (.tok .expStart)⟩] else []
                else
                  if s = 42 then [⟨.hObj, (.tok .expSign)⟩] else []
          else
            if s < 47 then
              if s < 45 then
                if s < 44 then
                  if s = 43 then [⟨.hObj, (.tok .exp)⟩] else []
                else
                  if s = 44 then [⟨.hObj, (.tok .exp)⟩] else []
              else
                if s < 46 then
                  if s = 45 then [⟨.hObj, (.tok .int)⟩] else []
                else
                  if s = 46 then [⟨.hObj, (.tok .int)⟩] else []
            else
              if s < 49 then
                if s < 48 then
                  if s = 47 then [⟨.hObj, .after⟩] else []
                else
                  if s = 48 then [⟨.hObj, (.tok (.lit .f 0))⟩] else []
              else
                if s < 50 then
                  if s = 49 then [⟨.hObj, (.tok (.lit .f 1))⟩] else []
                else
                  if s < 51 then
                    if s = 50 then [⟨.hObj, (.tok (.lit .f 2))⟩] else []
                  else
                    if s = 51 then [⟨.hObj, (.tok (.lit .f 3))⟩] else []
        else
          if s < 60 then
            if s < 56 then
              if s < 54 then
                if s < 53 then
                  if s = 52 then [⟨.hObj, .after⟩] else []
                else
                  if s = 53 then [⟨.hObj, (.tok (.lit .n 0))⟩] else []
              else
                if s < 55 then
                  if s = 54 then [⟨.hObj, (.tok (.lit .n 1))⟩] else []
                else
                  if s = 55 then [⟨.hObj, (.tok (.lit .n 2))⟩] else []
            else
              if s < 58 then
                if s < 57 then
                  if s = 56 then [⟨.hObj, .after⟩] else []
                else
                  if s = 57 then [⟨.hObj, (.tok (.lit .t 0))⟩] else []
              else
                if s < 59 then
                  if s = 58 then [⟨.hObj, (.tok (.lit .t 1))⟩] else []
                else
                  if s = 59 then [⟨.hObj, (.tok (.lit .t 2))⟩] else []
          else
            if s < 64 then
              if s < 62 then
                if s < 61 then
                  if s = 60 then [⟨.hObj, .after⟩] else []
                else
                  if s = 61 then [⟨.hObj, .after⟩] else []
              else
                if s < 63 then
                  if s = 62 then [⟨.hObj, (.key .esc)⟩] else []
                else
                  if s = 63 then [⟨.hObj, (.key .str)⟩] else []
            else
              if s < 66 then
                if s < 65 then
                  if s = 64 then [⟨.hObj, (.key (.u 0))⟩] else []
                else
                  if s = 65 then [⟨.hObj, (.key (.u 1))⟩] else []
              else
                if s < 67 then
                  if s = 66 then [⟨.hObj, (.key (.u 2))⟩] else []
                else
                  if s < 68 then
                    if s = 67 then [⟨.hObj, (.key (.u 3))⟩] else []
                  else
                    if s = 68 then [⟨.hObj, (.key .str)⟩] else []
    else
      if s < 103 then
        if s < 86 then
          if s < 77 then
            if s < 73 then
              if s < 71 then
                if s < 70 then
                  if s = 69 then [⟨.hObj, (.tok .esc)⟩] else []
                else
                  if s = 70 then [⟨.hObj, (.tok .str)⟩] else []
              else
                if s < 72 then
                  if s = 71 then [⟨.hObj, (.tok (.u 0))⟩] else []
                else
                  if s = 72 then [⟨.hObj, (.tok (.u 1))⟩] else []
            else
              if s < 75 then
                if s < 74 then
                  if s = 73 then [⟨.hObj, (.tok (.u 2))⟩] else []
                else
                  if s = 74 then [⟨.hObj, (.tok (.u 3))⟩] else []
              else
                if s < 76 then
                  if s = 75 then [⟨.hObj, (.tok .str)⟩] else []
                else
                  if s = 76 then [⟨.hObj, (.tok .minus)⟩] else []
          else
            if s < 81 then
              if s < 79 then
                if s < 78 then
                  if s = 77 then [⟨.hObj, (.tok .zero)⟩] else []
                else
                  if s = 78 then [⟨.hObj, (.tok .fracStart)⟩] else []
              else
                if s < 80 then
                  if s = 79 then [⟨.hObj, (.tok .frac)⟩] else []
                else
                  if s = 80 then [⟨.hObj, (.tok .frac)⟩] else []
            else
              if s < 83 then
                if s < 82 then
                  if s = 81 then [⟨.hObj, (.tok .expStart)⟩] else []
                else
                  if s = 82 then [⟨.hObj, (.tok .expSign)⟩] else []
              else
                if s < 84 then
                  if s = 83 then [⟨.hObj, (.tok .exp)⟩] else []
                else
                  if s < 85 then
                    if s = 84 then [⟨.hObj, (.tok .exp)⟩] else []
                  else
                    if s = 85 then [⟨.hObj, (.tok .int)⟩] else []
        else
          if s < 94 then
            if s < 90 then
              if s < 88 then
                if s < 87 then
                  if s = 86 then [⟨.hObj, (.tok .int)⟩] else []
                else
                  if s = 87 then [⟨.hObj, .after⟩] else []
              else
                if s < 89 then
                  if s = 88 then [⟨.hObj, (.tok (.lit .f 0))⟩] else []
                else
                  if s = 89 then [⟨.hObj, (.tok (.lit .f 1))⟩] else []
            else
              if s < 92 then
                if s < 91 then
                  if s = 90 then [⟨.hObj, (.tok (.lit .f 2))⟩] else []
                else
                  if s = 91 then [⟨.hObj, (.tok (.lit .f 3))⟩] else []
              else
                if s < 93 then
                  if s = 92 then [⟨.hObj, .after⟩] else []
                else
                  if s = 93 then [⟨.hObj, (.tok (.lit .n 0))⟩] else []
          else
            if s < 98 then
              if s < 96 then
                if s < 95 then
                  if s = 94 then [⟨.hObj, (.tok (.lit .n 1))⟩] else []
                else
                  if s = 95 then [⟨.hObj, (.tok (.lit .n 2))⟩] else []
              else
                if s < 97 then
                  if s = 96 then [⟨.hObj, .after⟩] else []
                else
                  if s = 97 then [⟨.hObj, (.tok (.lit .t 0))⟩] else []
            else
              if s < 100 then
                if s < 99 then
                  if s = 98 then [⟨.hObj, (.tok (.lit .t 1))⟩] else []
                else
                  if s = 99 then [⟨.hObj, (.tok (.lit .t 2))⟩] else []
              else
                if s < 101 then
                  if s = 100 then [⟨.hObj, .after⟩] else []
                else
                  if s < 102 then
                    if s = 101 then [⟨.hObj, .after⟩] else []
                  else
                    if s = 102 then [⟨.hObj, (.key .esc)⟩] else []
      else
        if s < 120 then
          if s < 111 then
            if s < 107 then
              if s < 105 then
                if s < 104 then
                  if s = 103 then [⟨.hObj, (.key .str)⟩] else []
                else
                  if s = 104 then [⟨.hObj, (.key (.u 0))⟩] else []
              else
                if s < 106 then
                  if s = 105 then [⟨.hObj, (.key (.u 1))⟩] else []
                else
                  if s = 106 then [⟨.hObj, (.key (.u 2))⟩] else []
            else
              if s < 109 then
                if s < 108 then
                  if s = 107 then [⟨.hObj, (.key (.u 3))⟩] else []
                else
                  if s = 108 then [⟨.hObj, (.key .str)⟩] else []
              else
                if s < 110 then
                  if s = 109 then [⟨.arr, (.want true)⟩] else []
                else
                  if s = 110 then [⟨.arr, (.want true)⟩] else []
          else
            if s < 115 then
              if s < 113 then
                if s < 112 then
                  if s = 111 then [⟨.arr, (.tok .str)⟩] else []
                else
                  if s = 112 then [⟨.arr, (.tok .str)⟩] else []
              else
                if s < 114 then
                  if s = 113 then [⟨.arr, .after⟩] else []
                else
                  if s = 114 then [⟨.arr, .after⟩] else []
            else
              if s < 117 then
                if s < 116 then
                  if s = 115 then [⟨.arr, (.want false)⟩] else []
                else
                  if s = 116 then [⟨.arr, (.want false)⟩] else []
              else
                if s < 118 then
                  if s = 117 then [⟨.arr, (.tok .str)⟩] else []
                else
                  if s < 119 then
                    if s = 118 then [⟨.arr, (.tok .str)⟩] else []
                  else
                    if s = 119 then [⟨.arr, .after⟩] else []
        else
          if s < 128 then
            if s < 124 then
              if s < 122 then
                if s < 121 then
                  if s = 120 then [⟨.arr, (.tok .esc)⟩] else []
                else
                  if s = 121 then [⟨.arr, (.tok .str)⟩] else []
              else
                if s < 123 then
                  if s = 122 then [⟨.arr, (.tok (.u 0))⟩] else []
                else
                  if s = 123 then [⟨.arr, (.tok (.u 1))⟩] else []
            else
              if s < 126 then
                if s < 125 then
                  if s = 124 then [⟨.arr, (.tok (.u 2))⟩] else []
                else
                  if s = 125 then [⟨.arr, (.tok (.u 3))⟩] else []
              else
                if s < 127 then
                  if s = 126 then [⟨.arr, (.tok .str)⟩] else []
                else
                  if s = 127 then [⟨.arr, (.tok .minus)⟩] else []
          else
            if s < 132 then
              if s < 130 then
                if s < 129 then
                  if s = 128 then [⟨.arr, (.tok .zero)⟩] else []
                else
                  if s = 129 then [⟨.arr, .after⟩] else []
              else
                if s < 131 then
                  if s = 130 then [⟨.arr, .after⟩] else []
                else
                  if s = 131 then [⟨.arr, (.tok .int)⟩] else []
            else
              if s < 134 then
                if s < 133 then
                  if s = 132 then [⟨.arr, (.tok .int)⟩] else []
                else
                  if s = 133 then [⟨.arr, .after⟩] else []
              else
                if s < 135 then
                  if s = 134 then [⟨.arr, (.tok (.lit .f 0))⟩] else []
                else
                  if s < 136 then
                    if s = 135 then [⟨.arr, (.tok (.lit .f 1))⟩] else []
                  else
                    if s = 136 then [⟨.arr, (.tok (.lit .f 2))⟩] else []
  else
    if s < 205 then
      if s < 171 then
        if s < 154 then
          if s < 145 then
            if s < 141 then
              if s < 139 then
                if s < 138 then
                  if s = 137 then [⟨.arr, (.tok (.lit .f 3))⟩] else []
                else
                  if s = 138 then [⟨.arr, .after⟩] else []
              else
                if s < 140 then
                  if s = 139 then [⟨.arr, (.tok (.lit .n 0))⟩] else []
                else
                  if s = 140 then [⟨.arr, (.tok (.lit .n 1))⟩] else []
            else
              if s < 143 then
                if s < 142 then
                  if s = 141 then [⟨.arr, (.tok (.lit .n 2))⟩] else []
                else
                  if s = 142 then [⟨.arr, .after⟩] else []
              else
                if s < 144 then
                  if s = 143 then [⟨.arr, (.tok (.lit .t 0))⟩] else []
                else
                  if s = 144 then [⟨.arr, (.tok (.lit .t 1))⟩] else []
          else
            if s < 149 then
              if s < 147 then
                if s < 146 then
                  if s = 145 then [⟨.arr, (.tok (.lit .t 2))⟩] else []
                else
                  if s = 146 then [⟨.arr, .after⟩] else []
              else
                if s < 148 then
                  if s = 147 then [⟨.arr, .after⟩] else []
                else
                  if s = 148 then [⟨.arr, (.tok .esc)⟩] else []
            else
              if s < 151 then
                if s < 150 then
                  if s = 149 then [⟨.arr, (.tok .str)⟩] else []
                else
                  if s = 150 then [⟨.arr, (.tok (.u 0))⟩] else []
              else
                if s < 152 then
                  if s = 151 then [⟨.arr, (.tok (.u 1))⟩] else []
                else
                  if s < 153 then
                    if s = 152 then [⟨.arr, (.tok (.u 2))⟩] else []
                  else
                    if s = 153 then [⟨.arr, (.tok (.u 3))⟩] else []
        else
          if s < 162 then
            if s < 158 then
              if s < 156 then
                if s < 155 then
                  if s = 154 then [⟨.arr, (.tok .str)⟩] else []
                else
                  if s = 155 then [⟨.arr, (.tok .minus)⟩] else []
              else
                if s < 157 then
                  if s = 156 then [⟨.arr, (.tok .zero)⟩] else []
                else
                  if s = 157 then [⟨.arr, .after⟩] else []
            else
              if s < 160 then
                if s < 159 then
                  if s = 158 then [⟨.arr, .after⟩] else []
                else
                  if s = 159 then [⟨.arr, (.tok .int)⟩] else []
              else
                if s < 161 then
                  if s = 160 then [⟨.arr, (.tok .int)⟩] else []
                else
                  if s = 161 then [⟨.arr, .after⟩] else []
          else
            if s < 166 then
              if s < 164 then
                if s < 163 then
                  if s = 162 then [⟨.arr, (.tok (.lit .f 0))⟩] else []
                else
                  if s = 163 then [⟨.arr, (.tok (.lit .f 1))⟩] else []
              else
                if s < 165 then
                  if s = 164 then [⟨.arr, (.tok (.lit .f 2))⟩] else []
                else
                  if s = 165 then [⟨.arr, (.tok (.lit .f 3))⟩] else []
            else
              if s < 168 then
                if s < 167 then
                  if s = 166 then [⟨.arr, .after⟩] else []
                else
                  if s = 167 then [⟨.arr, (.tok (.lit .n 0))⟩] else []
              else
                if s < 169 then
                  if s = 168 then [⟨.arr, (.tok (.lit .n 1))⟩] else []
                else
                  if s < 170 then
                    if s = 169 then [⟨.arr, (.tok (.lit .n 2))⟩] else []
                  else
                    if s = 170 then [⟨.arr, .after⟩] else []
      else
        if s < 188 then
          if s < 179 then
            if s < 175 then
              if s < 173 then
                if s < 172 then
                  if s = 171 then [⟨.arr, (.tok (.lit .t 0))⟩] else []
                else
                  if s = 172 then [⟨.arr, (.tok (.lit .t 1))⟩] else []
              else
                if s < 174 then
                  if s = 173 then [⟨.arr, (.tok (.lit .t 2))⟩] else []
                else
                  if s = 174 then [⟨.arr, .after⟩] else []
            else
              if s < 177 then
                if s < 176 then
                  if s = 175 then [⟨.arr, .after⟩] else []
                else
                  if s = 176 then [⟨.obj, (.wantKey true)⟩] else []
              else
                if s < 178 then
                  if s = 177 then [⟨.obj, (.wantKey true)⟩] else []
                else
                  if s = 178 then [⟨.obj, (.key .str)⟩] else []
          else
            if s < 183 then
              if s < 181 then
                if s < 180 then
                  if s = 179 then [⟨.obj, (.key .str)⟩] else []
                else
                  if s = 180 then [⟨.obj, .afterKey⟩] else []
              else
                if s < 182 then
                  if s = 181 then [⟨.obj, .afterKey⟩] else []
                else
                  if s = 182 then [⟨.obj, (.want false)⟩] else []
            else
              if s < 185 then
                if s < 184 then
                  if s = 183 then [⟨.obj, (.want false)⟩] else []
                else
                  if s = 184 then [⟨.obj, (.tok .str)⟩] else []
              else
                if s < 186 then
                  if s = 185 then [⟨.obj, (.tok .str)⟩] else []
                else
                  if s < 187 then
                    if s = 186 then [⟨.obj, .after⟩] else []
                  else
                    if s = 187 then [⟨.obj, .after⟩] else []
        else
          if s < 196 then
            if s < 192 then
              if s < 190 then
                if s < 189 then
                  if s = 188 then [⟨.obj, (.wantKey false)⟩] else []
                else
                  if s = 189 then [⟨.obj, (.wantKey false)⟩] else []
              else
                if s < 191 then
                  if s = 190 then [⟨.obj, (.key .str)⟩] else []
                else
                  if s = 191 then [⟨.obj, (.key .str)⟩] else []
            else
              if s < 194 then
                if s < 193 then
                  if s = 192 then [⟨.obj, .afterKey⟩] else []
                else
                  if s = 193 then [⟨.obj, .afterKey⟩] else []
              else
                if s < 195 then
                  if s = 194 then [⟨.obj, (.want false)⟩] else []
                else
                  if s = 195 then [⟨.obj, (.want false)⟩] else []
          else
            if s < 200 then
              if s < 198 then
                if s < 197 then
                  if s = 196 then [⟨.obj, (.tok .str)⟩] else []
                else
                  if s = 197 then [⟨.obj, (.tok .str)⟩] else []
              else
                if s < 199 then
                  if s = 198 then [⟨.obj, .after⟩] else []
                else
                  if s = 199 then [⟨.obj, (.tok .esc)⟩] else []
            else
              if s < 202 then
                if s < 201 then
                  if s = 200 then [⟨.obj, (.tok .str)⟩] else []
                else
                  if s = 201 then [⟨.obj, (.tok (.u 0))⟩] else []
              else
                if s < 203 then
                  if s = 202 then [⟨.obj, (.tok (.u 1))⟩] else []
                else
                  if s < 204 then
                    if s = 203 then [⟨.obj, (.tok (.u 2))⟩] else []
                  else
                    if s = 204 then [⟨.obj, (.tok (.u 3))⟩] else []
    else
      if s < 239 then
        if s < 222 then
          if s < 213 then
            if s < 209 then
              if s < 207 then
                if s < 206 then
                  if s = 205 then [⟨.obj, (.tok .str)⟩] else []
                else
                  if s = 206 then [⟨.obj, (.tok .minus)⟩] else []
              else
                if s < 208 then
                  if s = 207 then [⟨.obj, (.tok .zero)⟩] else []
                else
                  if s = 208 then [⟨.obj, .after⟩] else []
            else
              if s < 211 then
                if s < 210 then
                  if s = 209 then [⟨.obj, .after⟩] else []
                else
                  if s = 210 then [⟨.obj, (.tok .int)⟩] else []
              else
                if s < 212 then
                  if s = 211 then [⟨.obj, (.tok .int)⟩] else []
                else
                  if s = 212 then [⟨.obj, .after⟩] else []
          else
            if s < 217 then
              if s < 215 then
                if s < 214 then
                  if s = 213 then [⟨.obj, (.tok (.lit .f 0))⟩] else []
                else
                  if s = 214 then [⟨.obj, (.tok (.lit .f 1))⟩] else []
              else
                if s < 216 then
                  if s = 215 then [⟨.obj, (.tok (.lit .f 2))⟩] else []
                else
                  if s = 216 then [⟨.obj, (.tok (.lit .f 3))⟩] else []
            else
              if s < 219 then
                if s < 218 then
                  if s = 217 then [⟨.obj, .after⟩] else []
                else
                  if s = 218 then [⟨.obj, (.tok (.lit .n 0))⟩] else []
              else
                if s < 220 then
                  if s = 219 then [⟨.obj, (.tok (.lit .n 1))⟩] else []
                else
                  if s < 221 then
                    if s = 220 then [⟨.obj, (.tok (.lit .n 2))⟩] else []
                  else
                    if s = 221 then [⟨.obj, .after⟩] else []
        else
          if s < 230 then
            if s < 226 then
              if s < 224 then
                if s < 223 then
                  if s = 222 then [⟨.obj, (.tok (.lit .t 0))⟩] else []
                else
                  if s = 223 then [⟨.obj, (.tok (.lit .t 1))⟩] else []
              else
                if s < 225 then
                  if s = 224 then [⟨.obj, (.tok (.lit .t 2))⟩] else []
                else
                  if s = 225 then [⟨.obj, .after⟩] else []
            else
              if s < 228 then
                if s < 227 then
                  if s = 226 then [⟨.obj, .after⟩] else []
                else
                  if s = 227 then [⟨.obj, (.key .esc)⟩] else []
              else
                if s < 229 then
                  if s = 228 then [⟨.obj, (.key .str)⟩] else []
                else
                  if s = 229 then [⟨.obj, (.key (.u 0))⟩] else []
          else
            if s < 234 then
              if s < 232 then
                if s < 231 then
                  if s = 230 then [⟨.obj, (.key (.u 1))⟩] else []
                else
                  if s = 231 then [⟨.obj, (.key (.u 2))⟩] else []
              else
                if s < 233 then
                  if s = 232 then [⟨.obj, (.key (.u 3))⟩] else []
                else
                  if s = 233 then [⟨.obj, (.key .str)⟩] else []
            else
              if s < 236 then
                if s < 235 then
                  if s = 234 then [⟨.obj, (.tok .esc)⟩] else []
                else
                  if s = 235 then [⟨.obj, (.tok .str)⟩] else []
              else
                if s < 237 then
                  if s = 236 then [⟨.obj, (.tok (.u 0))⟩] else []
                else
                  if s < 238 then
                    if s = 237 then [⟨.obj, (.tok (.u 1))⟩] else []
                  else
                    if s = 238 then [⟨.obj, (.tok (.u 2))⟩] else []
      else
        if s < 256 then
          if s < 247 then
            if s < 243 then
              if s < 241 then
                if s < 240 then
                  if s = 239 then [⟨.obj, (.tok (.u 3))⟩] else []
                else
                  if s = 240 then [⟨.obj, (.tok .str)⟩] else []
              else
                if s < 242 then
                  if s = 241 then [⟨.obj, (.tok .minus)⟩] else []
                else
                  if s = 242 then [⟨.obj, (.tok .zero)⟩] else []
            else
              if s < 245 then
                if s < 244 then
                  if s = 243 then [⟨.obj, .after⟩] else []
                else
                  if s = 244 then [⟨.obj, .after⟩] else []
              else
                if s < 246 then
                  if s = 245 then [⟨.obj, (.tok .int)⟩] else []
                else
                  if s = 246 then [⟨.obj, (.tok .int)⟩] else []
          else
            if s < 251 then
              if s < 249 then
                if s < 248 then
                  if s = 247 then [⟨.obj, .after⟩] else []
                else
                  if s = 248 then [⟨.obj, (.tok (.lit .f 0))⟩] else []
              else
                if s < 250 then
                  if s = 249 then [⟨.obj, (.tok (.lit .f 1))⟩] else []
                else
                  if s = 250 then [⟨.obj, (.tok (.lit .f 2))⟩] else []
            else
              if s < 253 then
                if s < 252 then
                  if s = 251 then [⟨.obj, (.tok (.lit .f 3))⟩] else []
                else
                  if s = 252 then [⟨.obj, .after⟩] else []
              else
                if s < 254 then
                  if s = 253 then [⟨.obj, (.tok (.lit .n 0))⟩] else []
                else
                  if s < 255 then
                    if s = 254 then [⟨.obj, (.tok (.lit .n 1))⟩] else []
                  else
                    if s = 255 then [⟨.obj, (.tok (.lit .n 2))⟩] else []
        else
          if s < 264 then
            if s < 260 then
              if s < 258 then
                if s < 257 then
                  if s = 256 then [⟨.obj, .after⟩] else []
                else
                  if s = 257 then [⟨.obj, (.tok (.lit .t 0))⟩] else []
              else
                if s < 259 then
                  if s = 258 then [⟨.obj, (.tok (.lit .t 1))⟩] else []
                else
                  if s = 259 then [⟨.obj, (.tok (.lit .t 2))⟩] else []
            else
              if s < 262 then
                if s < 261 then
                  if s = 260 then [⟨.obj, .after⟩] else []
                else
                  if s = 261 then [⟨.obj, .after⟩] else []
              else
                if s < 263 then
                  if s = 262 then [⟨.obj, (.key .esc)⟩] else []
                else
                  if s = 263 then [⟨.obj, (.key .str)⟩] else []
          else
            if s < 268 then
              if s < 266 then
                if s < 265 then
                  if s = 264 then [⟨.obj, (.key (.u 0))⟩] else []
                else
                  if s = 265 then [⟨.obj, (.key (.u 1))⟩] else []
              else
                if s < 267 then
                  if s = 266 then [⟨.obj, (.key (.u 2))⟩] else []
                else
                  if s = 267 then [⟨.obj, (.key (.u 3))⟩] else []
            else
              if s < 270 then
                if s < 269 then
                  if s = 268 then [⟨.obj, (.key .str)⟩] else []
                else
                  if s = 269 then [⟨.hTop, .after⟩] else []
              else
                if s < 271 then
                  if s = 270 then [⟨.hTop, .done⟩] else []
                else
                  if s < 272 then
                    if s = 271 then [⟨.arr, .done⟩] else []
                  else
                    if s = 272 then [⟨.obj, .done⟩] else []

def labels (s : Nat) : List RJson.Abs.AS := if s < RJson.Gen.HandleObjectValues.nstates then labelsTab s else []

theorem labels_bound : ∀ s, RJson.Gen.HandleObjectValues.nstates ≤ s → labels s = [] := by
  intro s hs
  simp [labels, Nat.not_lt.mpr hs]

end RJson.Gen.HandleObjectValuesLabels
