import RJson.Model.Abs
import RJson.Gen.SkipValueFast
/-! GENERATED labelling (untrusted BFS output of `modeld labels skipValueFast fast`); re-checked by the kernel in RJson.Certs.SkipValueFast -/
namespace RJson.Gen.SkipValueFastLabels

def labelsTab (s : Nat) : List RJson.Abs.AS :=
  if s < 37 then
    if s < 19 then
      if s < 10 then
        if s < 5 then
          if s < 3 then
            if s < 2 then
              if s = 1 then [⟨.top, (.want true)⟩] else []
            else
              if s = 2 then [⟨.top, (.want true)⟩] else []
          else
            if s < 4 then
              if s = 3 then [⟨.top, (.tok .str)⟩] else []
            else
              if s = 4 then [⟨.top, (.tok .str)⟩] else []
        else
          if s < 7 then
            if s < 6 then
              if s = 5 then [⟨.top, (.tok .esc)⟩] else []
            else
              if s = 6 then [⟨.top, (.tok .str)⟩] else []
          else
            if s < 8 then
              if s = 7 then [⟨.top, (.tok (.u 0))⟩] else []
            else
              if s < 9 then
                if s = 8 then [⟨.top, (.tok (.u 1))⟩] else []
              else
                if s = 9 then [⟨.top, (.tok (.u 2))⟩] else []
      else
        if s < 14 then
          if s < 12 then
            if s < 11 then
              if s = 10 then [⟨.top, (.tok (.u 3))⟩] else []
            else
              if s = 11 then [⟨.top, (.tok .str)⟩] else []
          else
            if s < 13 then
              if s = 12 then [⟨.top, (.tok .minus)⟩] else []
            else
              if s = 13 then [⟨.top, (.tok .fracStart)⟩] else []
        else
          if s < 16 then
            if s < 15 then
              if s = 14 then [⟨.top, (.tok .expStart)⟩] else []
            else
              if s = 15 then [⟨.top, (.tok .expSign)⟩] else []
          else
            if s < 17 then
              if s = 16 then [⟨.top, (.tok (.lit .f 0))⟩] else []
            else
              if s < 18 then
                if s = 17 then [⟨.top, (.tok (.lit .f 1))⟩] else []
              else
                if s = 18 then [⟨.top, (.tok (.lit .f 2))⟩] else []
    else
      if s < 28 then
        if s < 23 then
          if s < 21 then
            if s < 20 then
              if s = 19 then [⟨.top, (.tok (.lit .f 3))⟩] else []
            else
              if s = 20 then [⟨.top, (.tok (.lit .n 0))⟩] else []
          else
            if s < 22 then
              if s = 21 then [⟨.top, (.tok (.lit .n 1))⟩] else []
            else
              if s = 22 then [⟨.top, (.tok (.lit .n 2))⟩] else []
        else
          if s < 25 then
            if s < 24 then
              if s = 23 then [⟨.top, (.tok (.lit .t 0))⟩] else []
            else
              if s = 24 then [⟨.top, (.tok (.lit .t 1))⟩] else []
          else
            if s < 26 then
              if s = 25 then [⟨.top, (.tok (.lit .t 2))⟩] else []
            else
              if s < 27 then
                if s = 26 then [⟨.farr, .body⟩] else []
              else
                if s = 27 then [⟨.farr, .body⟩] else []
      else
        if s < 32 then
          if s < 30 then
            if s < 29 then
              if s = 28 then [⟨.farr, .body⟩] else []
            else
              if s = 29 then [⟨.farr, (.tok .str)⟩] else []
          else
            if s < 31 then
              if s = 30 then [⟨.farr, (.tok .str)⟩] else []
            else
              if s = 31 then [⟨.farr, .body⟩] else []
        else
          if s < 34 then
            if s < 33 then
              if s = 32 then [⟨.farr, .body⟩] else []
            else
              if s = 33 then [⟨.farr, .body⟩] else []
          else
            if s < 35 then
              if s = 34 then [⟨.farr, .body⟩] else []
            else
              if s < 36 then
                if s = 35 then [⟨.farr, (.tok .esc)⟩] else []
              else
                if s = 36 then [⟨.farr, (.tok .str)⟩] else []
  else
    if s < 55 then
      if s < 46 then
        if s < 41 then
          if s < 39 then
            if s < 38 then
              if s = 37 then [⟨.farr, (.tok (.u 0))⟩] else []
            else
              if s = 38 then [⟨.farr, (.tok (.u 1))⟩] else []
          else
            if s < 40 then
              if s = 39 then [⟨.farr, (.tok (.u 2))⟩] else []
            else
              if s = 40 then [⟨.farr, (.tok (.u 3))⟩] else []
        else
          if s < 43 then
            if s < 42 then
              if s = 41 then [⟨.farr, (.tok .str)⟩] else []
            else
              if s = 42 then [⟨.fobj, .body⟩] else []
          else
            if s < 44 then
              if s = 43 then [⟨.fobj, .body⟩] else []
            else
              if s < 45 then
                if s = 44 then [⟨.fobj, .body⟩] else []
              else
                if s = 45 then [⟨.fobj, (.tok .str)⟩] else []
      else
        if s < 50 then
          if s < 48 then
            if s < 47 then
              if s = 46 then [⟨.fobj, (.tok .str)⟩] else []
            else
              if s = 47 then [⟨.fobj, .body⟩] else []
          else
            if s < 49 then
              if s = 48 then [⟨.fobj, .body⟩] else []
            else
              if s = 49 then [⟨.fobj, .body⟩] else []
        else
          if s < 52 then
            if s < 51 then
              if s = 50 then [⟨.fobj, .body⟩] else []
            else
              if s = 51 then [⟨.fobj, (.tok .esc)⟩] else []
          else
            if s < 53 then
              if s = 52 then [⟨.fobj, (.tok .str)⟩] else []
            else
              if s < 54 then
                if s = 53 then [⟨.fobj, (.tok (.u 0))⟩] else []
              else
                if s = 54 then [⟨.fobj, (.tok (.u 1))⟩] else []
    else
      if s < 64 then
        if s < 59 then
          if s < 57 then
            if s < 56 then
              if s = 55 then [⟨.fobj, (.tok (.u 2))⟩] else []
            else
              if s = 56 then [⟨.fobj, (.tok (.u 3))⟩] else []
          else
            if s < 58 then
              if s = 57 then [⟨.fobj, (.tok .str)⟩] else []
            else
              if s = 58 then [⟨.top, .after⟩] else []
        else
          if s < 61 then
            if s < 60 then
              if s = 59 then [⟨.top, (.tok .zero)⟩] else []
            else
              if s = 60 then [⟨.top, (.tok .frac)⟩] else []
          else
            if s < 62 then
              if s = 61 then [⟨.top, (.tok .frac)⟩] else []
            else
              if s < 63 then
                if s = 62 then [⟨.top, (.tok .exp)⟩] else []
              else
                if s = 63 then [⟨.top, (.tok .exp)⟩] else []
      else
        if s < 68 then
          if s < 66 then
            if s < 65 then
              if s = 64 then [⟨.top, (.tok .int)⟩] else []
            else
              if s = 65 then [⟨.top, (.tok .int)⟩] else []
          else
            if s < 67 then
              if s = 66 then [⟨.top, .after⟩] else []
            else
              if s = 67 then [⟨.top, .after⟩] else []
        else
          if s < 70 then
            if s < 69 then
              if s = 68 then [⟨.top, .after⟩] else []
            else
              if s = 69 then [⟨.top, .after⟩] else []
          else
            if s < 71 then
              if s = 70 then [⟨.top, .after⟩] else []
            else
              if s < 72 then
                if s = 71 then [⟨.farr, .done⟩] else []
              else
                if s = 72 then [⟨.fobj, .done⟩] else []

def labels (s : Nat) : List RJson.Abs.AS := if s < RJson.Gen.SkipValueFast.nstates then labelsTab s else []

theorem labels_bound : ∀ s, RJson.Gen.SkipValueFast.nstates ≤ s → labels s = [] := by
  intro s hs
  simp [labels, Nat.not_lt.mpr hs]

end RJson.Gen.SkipValueFastLabels
