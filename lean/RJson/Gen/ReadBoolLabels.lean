import RJson.Model.AbsSmall
import RJson.Gen.ReadBool
/-! GENERATED labelling (untrusted BFS output of `modeld labels readBool bool`); re-checked by the kernel in RJson.Certs.ReadBool -/
namespace RJson.Gen.ReadBoolLabels

def labelsTab (s : Nat) : List RJson.AbsSmall.LS :=
  if s < 6 then
    if s < 3 then
      if s < 2 then
        if s = 1 then [.ws] else []
      else
        if s = 2 then [.ws] else []
    else
      if s < 4 then
        if s = 3 then [(.lit .f 0)] else []
      else
        if s < 5 then
          if s = 4 then [(.lit .f 1)] else []
        else
          if s = 5 then [(.lit .f 2)] else []
  else
    if s < 9 then
      if s < 7 then
        if s = 6 then [(.lit .f 3)] else []
      else
        if s < 8 then
          if s = 7 then [(.lit .t 0)] else []
        else
          if s = 8 then [(.lit .t 1)] else []
    else
      if s < 10 then
        if s = 9 then [(.lit .t 2)] else []
      else
        if s < 11 then
          if s = 10 then [.done] else []
        else
          if s = 11 then [.done] else []

def labels (s : Nat) : List RJson.AbsSmall.LS := if s < RJson.Gen.ReadBool.nstates then labelsTab s else []

theorem labels_bound : ∀ s, RJson.Gen.ReadBool.nstates ≤ s → labels s = [] := by
  intro s hs
  simp [labels, Nat.not_lt.mpr hs]

end RJson.Gen.ReadBoolLabels
