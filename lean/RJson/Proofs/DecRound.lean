import RJson.Proofs.DecShift
import RJson.Proofs.RoundRat
/-!
# `RoundedInteger` of a trimmed, exact decimal is round-half-even of its value
-/
namespace RJson.Dec
open RJson.FP RJson.Spec RJson.RoundRat

/-- the integer-part loop of `RoundedInteger` -/
theorem ri_go (a : Decimal) (h : WF a) (p : Nat) (hp : a.dp = (p : ℤ)) (hp19 : p ≤ 19) :
    ∀ (fuel i n : Nat), p + 1 - i ≤ fuel → i ≤ p → n = val a.d (min i a.nd) * 10 ^ (i - min i a.nd) →
      Decimal.roundedInteger.go a fuel i n = val a.d (min p a.nd) * 10 ^ (p - min p a.nd) := by
  intro fuel
  induction fuel with
  | zero => intro i n hf hi _; omega
  | succ fuel ih =>
    intro i n hf hi hn
    simp only [Decimal.roundedInteger.go]
    by_cases hlt : (i : ℤ) < a.dp
    · rw [if_pos hlt]
      have hip : i < p := by omega
      have h64 : ∀ m, m < 10 ^ (i + 1) → m % two64 = m := by
        intro m hm
        apply Nat.mod_eq_of_lt
        have : 10 ^ (i + 1) ≤ 10 ^ 19 := Nat.pow_le_pow_right (by norm_num) (by omega)
        have h2 : (10 : ℕ) ^ 19 < two64 := by unfold two64; norm_num
        omega
      by_cases hind : i < a.nd
      · rw [if_pos hind]
        have hmin : min i a.nd = i := by omega
        rw [hmin, Nat.sub_self, Nat.pow_zero, Nat.mul_one] at hn
        have hd9 := dig_le9 h.digits hind
        have hv := val_lt a.d i (fun j hj => h.digits j (by omega))
        have hnew : n * 10 + (a.d[i]!.toNat - 48) = val a.d (i + 1) := by simp only [val, dig]; rw [hn]
        rw [hnew, h64 _ (val_lt a.d (i + 1) (fun j hj => h.digits j (by omega)))]
        exact ih (i + 1) _ (by omega) (by omega) (by
          have : min (i + 1) a.nd = i + 1 := by omega
          rw [this]; simp)
      · rw [if_neg hind]
        have hmin : min i a.nd = a.nd := by omega
        rw [hmin] at hn
        have hv := val_lt a.d a.nd h.digits
        have hlt10 : n * 10 < 10 ^ (i + 1) := by
          rw [hn, Nat.pow_succ]
          have : val a.d a.nd * 10 ^ (i - a.nd) < 10 ^ a.nd * 10 ^ (i - a.nd) := Nat.mul_lt_mul_of_pos_right hv (by positivity)
          rw [← Nat.pow_add] at this
          have he : a.nd + (i - a.nd) = i := by omega
          rw [he] at this
          omega
        rw [h64 _ hlt10]
        exact ih (i + 1) _ (by omega) (by omega) (by
          have : min (i + 1) a.nd = a.nd := by omega
          rw [this, hn]
          have : i + 1 - a.nd = (i - a.nd) + 1 := by omega
          rw [this, Nat.pow_succ]; ring)
    · rw [if_neg hlt]
      have hip : i = p := by omega
      subst hip
      exact hn

theorem seg_pos_of_last (d : Array UInt8) (lo n : Nat) (hn : 1 ≤ n) (hl : 1 ≤ dig d (lo + n - 1)) : 1 ≤ seg d lo n := by
  obtain ⟨m, rfl⟩ : ∃ m, n = m + 1 := ⟨n - 1, by omega⟩
  simp only [seg]
  have : lo + (m + 1) - 1 = lo + m := by omega
  rw [this] at hl
  omega

theorem trimmed_last (a : Decimal) (h : WF a) (htm : Trimmed a) (hnd : 1 ≤ a.nd) : 1 ≤ dig a.d (a.nd - 1) := by
  rcases htm with h0 | h1
  · omega
  · have hb := h.digits (a.nd - 1) (by omega)
    unfold dig
    have : a.d[a.nd - 1]!.toNat ≠ 48 := fun hh => h1 (UInt8.toNat_inj.mp (by simpa using hh))
    omega

/-- how the digits after position `p` compare with one half -/
theorem frac_class (a : Decimal) (h : WF a) (htm : Trimmed a) (p : Nat) (hp : p < a.nd) :
    1 ≤ seg a.d p (a.nd - p) ∧
    (dig a.d p ≤ 4 → 2 * seg a.d p (a.nd - p) < 10 ^ (a.nd - p)) ∧
    (dig a.d p = 5 → p + 1 = a.nd → 2 * seg a.d p (a.nd - p) = 10 ^ (a.nd - p)) ∧
    ((6 ≤ dig a.d p ∨ (dig a.d p = 5 ∧ p + 1 < a.nd)) → 10 ^ (a.nd - p) < 2 * seg a.d p (a.nd - p)) := by
  have hlast := trimmed_last a h htm (by omega)
  obtain ⟨m, hm⟩ : ∃ m, a.nd - p = m + 1 := ⟨a.nd - p - 1, by omega⟩
  have hF : 1 ≤ seg a.d p (a.nd - p) := seg_pos_of_last a.d p (a.nd - p) (by omega) (by
    have : p + (a.nd - p) - 1 = a.nd - 1 := by omega
    rw [this]; exact hlast)
  rw [hm] at hF ⊢
  rw [seg_cons] at hF ⊢
  have hR : seg a.d (p + 1) m < 10 ^ m := seg_lt a.d (p + 1) m (fun i h1 h2 => dig_le9 h.digits (by omega))
  have hd9 := dig_le9 h.digits hp
  have hpow : 10 ^ (m + 1) = 10 * 10 ^ m := by rw [Nat.pow_succ]; ring
  refine ⟨hF, ?_, ?_, ?_⟩
  · intro h4
    have : dig a.d p * 10 ^ m ≤ 4 * 10 ^ m := Nat.mul_le_mul_right _ h4
    rw [hpow]; omega
  · intro h5 hend
    have hm0 : m = 0 := by omega
    subst hm0
    simp [seg, h5]
  · rintro (h6 | ⟨h5, hmore⟩)
    · have : 6 * 10 ^ m ≤ dig a.d p * 10 ^ m := Nat.mul_le_mul_right _ h6
      rw [hpow]; omega
    · have hm1 : 1 ≤ m := by omega
      have hRpos : 1 ≤ seg a.d (p + 1) m := seg_pos_of_last a.d (p + 1) m hm1 (by
        have : p + 1 + m - 1 = a.nd - 1 := by omega
        rw [this]; exact hlast)
      rw [hpow, h5]; omega

theorem val_parity (d : Array UInt8) (p : Nat) (hp : 1 ≤ p) : val d p % 2 = dig d (p - 1) % 2 := by
  obtain ⟨m, rfl⟩ : ∃ m, p = m + 1 := ⟨p - 1, by omega⟩
  simp only [val, Nat.add_sub_cancel]
  omega

set_option maxRecDepth 10000 in
/-- **`RoundedInteger`** of a well-formed, trimmed decimal: round-half-even of its value — except that a tie goes up
    when the `trunc` flag is on (the digits dropped were not all zero, so it is no tie) -/
theorem roundedInteger_gen (a : Decimal) (h : WF a) (htm : Trimmed a) (hdp : a.dp ≤ 19) :
    ∃ q c, IsQ (aval a) 0 q ∧ IsC (aval a) 0 q c ∧
      a.roundedInteger = (if a.trunc = true ∧ c = 2 then q + 1 else roundHalfEven q c) := by
  have hD := val_lt a.d a.nd h.digits
  have hnot20 : ¬ a.dp > 20 := by omega
  simp only [Decimal.roundedInteger, if_neg hnot20]
  by_cases hneg : a.dp < 0
  · -- everything is after the decimal point, below one tenth
    have htn : a.dp.toNat = 0 := by omega
    have hgo : Decimal.roundedInteger.go a (a.dp.toNat + 1) 0 0 = 0 := by
      rw [htn]; simp only [Decimal.roundedInteger.go]
      rw [if_neg (by omega)]
    have hsr : shouldRoundUp a a.dp = false := by
      simp only [shouldRoundUp]
      rw [if_pos (by simp [hneg])]
    rw [hgo, hsr]
    simp only [Bool.false_eq_true, if_false]
    have hy : aval a < 1 / 2 := by
      simp only [aval]
      have h1 : (val a.d a.nd : ℚ) < 10 ^ a.nd := by exact_mod_cast hD
      have h2 : (10 : ℚ) ^ (a.dp - (a.nd : ℤ)) = 10 ^ a.dp / 10 ^ a.nd := by
        rw [zpow_sub₀ (by norm_num), zpow_natCast]
      rw [h2]
      have h3 : (10 : ℚ) ^ a.dp ≤ 10 ^ (-1 : ℤ) := zpow_le_zpow_right₀ (by norm_num) (by omega)
      have h10 : (0 : ℚ) < 10 ^ a.nd := by positivity
      have h4 : (val a.d a.nd : ℚ) * (10 ^ a.dp / 10 ^ a.nd) < 10 ^ a.dp := by
        rw [mul_div_assoc', div_lt_iff₀ h10]
        have : (0 : ℚ) < 10 ^ a.dp := by positivity
        nlinarith
      have h5 : (10 : ℚ) ^ (-1 : ℤ) < 1 / 2 := by norm_num
      exact lt_trans (lt_of_lt_of_le h4 h3) h5
    have hy0 : 0 ≤ aval a := by simp only [aval]; positivity
    by_cases hz : aval a = 0
    · refine ⟨0, 0, ?_, ?_, by simp [roundHalfEven]⟩
      · simp [IsQ, hz]
      · left; simp [hz]
    · have hpos : 0 < aval a := lt_of_le_of_ne hy0 (Ne.symm hz)
      refine ⟨0, 1, ?_, ?_, by simp [roundHalfEven]⟩
      · simp only [IsQ, zpow_zero, mul_one, Nat.cast_zero, zero_add]; constructor <;> linarith
      · right; left
        simp only [zpow_zero, mul_one, Nat.cast_zero, zero_add]
        exact ⟨by first | rfl | trivial, hpos, hy⟩
  · obtain ⟨p, hp⟩ : ∃ p : ℕ, a.dp = (p : ℤ) := ⟨a.dp.toNat, by omega⟩
    have hp19 : p ≤ 19 := by omega
    have htn : a.dp.toNat = p := by omega
    have hgo := ri_go a h p hp hp19 (p + 1) 0 0 (by omega) (by omega) (by simp [val])
    rw [htn, hgo]
    by_cases hge : a.nd ≤ p
    · -- no digit after the decimal point
      have hmin : min p a.nd = a.nd := by omega
      have hsr : shouldRoundUp a a.dp = false := by
        simp only [shouldRoundUp]
        rw [if_pos (by rw [hp]; simp; omega)]
      rw [hsr, hmin]
      simp only [Bool.false_eq_true, if_false]
      have hy : aval a = ((val a.d a.nd * 10 ^ (p - a.nd) : ℕ) : ℚ) := by
        simp only [aval, hp]
        push_cast
        have : ((p : ℤ) - (a.nd : ℤ)) = ((p - a.nd : ℕ) : ℤ) := by omega
        rw [this, zpow_natCast]
      refine ⟨val a.d a.nd * 10 ^ (p - a.nd), 0, ?_, ?_, by simp [roundHalfEven]⟩
      · simp only [IsQ, zpow_zero, mul_one]; rw [hy]; constructor <;> simp
      · left; simp only [zpow_zero, mul_one]; exact ⟨by first | rfl | trivial, hy⟩
    · have hlt : p < a.nd := by omega
      have hmin : min p a.nd = p := by omega
      rw [hmin, Nat.sub_self, Nat.pow_zero, Nat.mul_one]
      obtain ⟨hF1, hlow, htie, hhigh⟩ := frac_class a h htm p hlt
      generalize hm : a.nd - p = m at hF1 hlow htie hhigh
      generalize hFv : seg a.d p m = F at hF1 hlow htie hhigh
      have hsplit : val a.d a.nd = val a.d p * 10 ^ m + F := by
        have := val_split a.d p m
        have hpm : p + m = a.nd := by omega
        rw [hpm, hFv] at this; exact this
      have h10m : (0 : ℚ) < 10 ^ m := by positivity
      have hy : aval a = (val a.d p : ℚ) + (F : ℚ) / 10 ^ m := by
        simp only [aval, hp, hsplit]
        push_cast
        have : ((p : ℤ) - (a.nd : ℤ)) = -((m : ℕ) : ℤ) := by omega
        rw [this, zpow_neg, zpow_natCast]
        field_simp
      have hFlt : (F : ℚ) / 10 ^ m < 1 := by
        rw [div_lt_one h10m]
        have : F < 10 ^ m := by rw [← hFv]; exact seg_lt a.d p m (fun i h1 h2 => dig_le9 h.digits (by omega))
        exact_mod_cast this
      have hFpos : (0 : ℚ) < (F : ℚ) / 10 ^ m := by
        have : (0 : ℚ) < F := by exact_mod_cast hF1
        positivity
      have hq : IsQ (aval a) 0 (val a.d p) := by
        simp only [IsQ, zpow_zero, mul_one]; rw [hy]; constructor <;> linarith
      have hd9 := dig_le9 h.digits hlt
      have hbyte := h.digits p hlt
      have hn19 : val a.d p + 1 < two64 := by
        have h1 := val_lt a.d p (fun j hj => h.digits j (by omega))
        have h2 : 10 ^ p ≤ 10 ^ 19 := Nat.pow_le_pow_right (by norm_num) hp19
        have h3 : (10 : ℕ) ^ 19 + 1 < two64 := by unfold two64; norm_num
        omega
      -- the code's decision
      have hsr : shouldRoundUp a a.dp = if dig a.d p = 5 ∧ p + 1 = a.nd then (a.trunc || decide (0 < p ∧ dig a.d (p - 1) % 2 ≠ 0)) else decide (5 ≤ dig a.d p) := by
        simp only [shouldRoundUp, hp]
        rw [if_neg (by simp; omega)]
        simp only [Int.toNat_natCast]
        by_cases hcase : dig a.d p = 5 ∧ p + 1 = a.nd
        · rw [if_pos hcase]
          have hb53 : a.d[p]! = 53 := by
            have : a.d[p]!.toNat = 53 := by unfold dig at hcase; omega
            exact UInt8.toNat_inj.mp (by simpa using this)
          have hc1 : (a.d[p]! == 53 && p + 1 == a.nd) = true := by simp [hb53, hcase.2]
          rw [if_pos hc1]
          cases htr : a.trunc with
          | true => simp
          | false =>
            simp only [Bool.false_eq_true, if_false, Bool.false_or]
            by_cases hp0 : 0 < p
            · simp only [dig, hp0, true_and, decide_eq_true_eq, Bool.and_eq_true, bne_iff_ne, ne_eq, decide_true, Bool.true_and]
              by_cases hodd : (a.d[p - 1]!.toNat - 48) % 2 = 0
              · simp [hodd]
              · have : (a.d[p - 1]!.toNat - 48) % 2 = 1 := by omega
                simp [this]
            · have : p = 0 := by omega
              subst this; simp
        · rw [if_neg hcase]
          have hc1 : (a.d[p]! == 53 && p + 1 == a.nd) = false := by
            by_cases h53 : a.d[p]! = 53
            · have : dig a.d p = 5 := by unfold dig; rw [h53]; rfl
              have : ¬ (p + 1 = a.nd) := fun hh => hcase ⟨this, hh⟩
              simp [h53, this]
            · simp [h53]
          rw [if_neg (by simp [hc1])]
          have : (a.d[p]! ≥ 53) = (5 ≤ dig a.d p) := by
            rw [ge_iff_le, UInt8.le_iff_toNat_le]
            have : (53 : UInt8).toNat = 53 := rfl
            rw [this]; unfold dig
            apply propext; omega
          simp only [this]
      rw [hsr]
      by_cases hcase : dig a.d p = 5 ∧ p + 1 = a.nd
      · -- exactly one half
        rw [if_pos hcase]
        have hte := htie hcase.1 hcase.2
        have hhalf : (F : ℚ) / 10 ^ m = 1 / 2 := by
          rw [div_eq_iff h10m.ne']
          have : ((2 * F : ℕ) : ℚ) = ((10 ^ m : ℕ) : ℚ) := by exact_mod_cast hte
          push_cast at this; linarith
        refine ⟨val a.d p, 2, hq, ?_, ?_⟩
        · right; right; left
          simp only [zpow_zero, mul_one]
          exact ⟨by first | rfl | trivial, by rw [hy, hhalf]⟩
        · cases htr : a.trunc with
          | true => simp [Nat.mod_eq_of_lt hn19]
          | false =>
            simp only [Bool.false_or, Bool.false_eq_true, false_and, if_false, roundHalfEven]
            by_cases hp0 : 0 < p
            · have hpar := val_parity a.d p hp0
              by_cases hodd : dig a.d (p - 1) % 2 = 0
              · have hno : ¬ (0 < p ∧ dig a.d (p - 1) % 2 ≠ 0) := by simp [hodd]
                rw [decide_eq_false hno]
                have hv0 : val a.d p % 2 = 0 := by omega
                simp [hv0]
              · have hyes : (0 < p ∧ dig a.d (p - 1) % 2 ≠ 0) := ⟨hp0, hodd⟩
                rw [decide_eq_true hyes]
                have hv1 : val a.d p % 2 = 1 := by omega
                simp [hv1, Nat.mod_eq_of_lt hn19]
            · have : p = 0 := by omega
              subst this
              simp [val]
      · rw [if_neg hcase]
        by_cases h5 : 5 ≤ dig a.d p
        · -- above one half
          have hhi := hhigh (by
            by_cases h6 : 6 ≤ dig a.d p
            · exact .inl h6
            · refine .inr ⟨by omega, ?_⟩
              by_contra hcon
              exact hcase ⟨by omega, by omega⟩)
          have hgt : (1 : ℚ) / 2 < (F : ℚ) / 10 ^ m := by
            rw [lt_div_iff₀ h10m]
            have : ((10 ^ m : ℕ) : ℚ) < ((2 * F : ℕ) : ℚ) := by exact_mod_cast hhi
            push_cast at this; linarith
          refine ⟨val a.d p, 3, hq, ?_, ?_⟩
          · right; right; right
            simp only [zpow_zero, mul_one]
            exact ⟨by first | rfl | trivial, by rw [hy]; linarith⟩
          · simp [roundHalfEven, h5, Nat.mod_eq_of_lt hn19]
        · have hlo := hlow (by omega)
          have hlt2 : (F : ℚ) / 10 ^ m < 1 / 2 := by
            rw [div_lt_iff₀ h10m]
            have : ((2 * F : ℕ) : ℚ) < ((10 ^ m : ℕ) : ℚ) := by exact_mod_cast hlo
            push_cast at this; linarith
          refine ⟨val a.d p, 1, hq, ?_, ?_⟩
          · right; left
            simp only [zpow_zero, mul_one]
            exact ⟨by first | rfl | trivial, by rw [hy]; linarith, by rw [hy]; linarith⟩
          · simp [roundHalfEven, h5]

/-- **`RoundedInteger`** of a well-formed, trimmed decimal whose `trunc` flag is off: round-half-even of its value -/
theorem roundedInteger_spec (a : Decimal) (h : WF a) (htm : Trimmed a) (htr : a.trunc = false) (hdp : a.dp ≤ 19) :
    ∃ q c, IsQ (aval a) 0 q ∧ IsC (aval a) 0 q c ∧ a.roundedInteger = roundHalfEven q c := by
  obtain ⟨q, c, hq, hc, hr⟩ := roundedInteger_gen a h htm hdp
  exact ⟨q, c, hq, hc, by rw [hr]; simp [htr]⟩

end RJson.Dec
