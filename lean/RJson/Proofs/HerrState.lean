import RJson.Model.Ragel
/-!
# A handler-error result carries the handler state returned by the failing call (generic, any machine)
-/
namespace RJson.Ragel

/-- a `herr` result stems from a handler call that returned that error; its state is what that call returned -/
def HerrOK {τ} (h : Handler τ) (res : Result τ) : Prop :=
  ∀ id, res.kind = .herr id → ∃ hs0 f s, (h hs0 f s).2.2 = some id ∧ res.hs = (h hs0 f s).1

theorem herrOK_finish {τ} (h : Handler τ) (r : Regs τ) : HerrOK h r.finish := by
  intro id hk
  simp only [Regs.finish] at hk
  cases he : r.err <;> rw [he] at hk <;> cases hk

theorem herrOK_stop {τ} (h : Handler τ) (r : Regs τ) (k : Kind) (p : Int) (dst : Bytes) (hk : ∀ id, k ≠ .herr id) :
    HerrOK h (r.stop k p dst) := by
  intro id hh
  exact absurd hh (hk id)

theorem execSimple_herr {τ} (data : Bytes) (hf : Bool) (h : Handler τ) (a : SAct) (r : Regs τ) (res : Result τ)
    (hx : execSimple data hf h a r = .stop res) : HerrOK h res := by
  cases a with
  | errReturn e =>
    simp only [execSimple] at hx
    injection hx with hx; subst hx
    intro id hk; cases hk
  | errReturnByte =>
    simp only [execSimple] at hx
    split at hx <;> (injection hx with hx; subst hx; intro id hk; cases hk)
  | setErr e => simp [execSimple] at hx
  | brk => simp only [execSimple] at hx; injection hx with hx; subst hx; exact herrOK_finish h _
  | floatDec =>
    simp only [execSimple] at hx
    split at hx
    · injection hx with hx; subst hx; intro id hk; cases hk
    · cases hx
    · injection hx with hx; subst hx; exact herrOK_finish h _
  | floatExp =>
    simp only [execSimple] at hx
    split at hx
    · injection hx with hx; subst hx; intro id hk; cases hk
    · cases hx
    · injection hx with hx; subst hx; exact herrOK_finish h _
  | fieldStart => simp [execSimple] at hx
  | fieldEnd => simp [execSimple] at hx
  | setBool b => simp [execSimple] at hx
  | segStart => simp [execSimple] at hx
  | appendSeg =>
    simp only [execSimple] at hx
    split at hx
    · injection hx with hx; subst hx; intro id hk; cases hk
    · cases hx
  | appendByte c => simp [execSimple] at hx
  | unescapeU =>
    simp only [execSimple] at hx
    split at hx
    · split at hx
      · split at hx <;> (injection hx with hx; subst hx; intro id hk; cases hk)
      · split at hx <;> cases hx
    · injection hx with hx; subst hx; intro id hk; cases hk
  | handler retP gNeg gNz gRange newP flo fhi =>
    simp only [execSimple] at hx
    split at hx
    · injection hx with hx; subst hx; intro id hk; cases hk
    · next f suffix _ =>
      generalize hres : h r.hs f suffix = res0 at hx
      obtain ⟨hs', pp, e⟩ := res0
      simp only [] at hx
      cases e with
      | some id0 =>
        simp only [] at hx
        injection hx with hx; subst hx
        intro id hk
        simp only [Regs.stop] at hk
        injection hk with hk; subst hk
        exact ⟨r.hs, f, suffix, by rw [hres], by rw [hres]; rfl⟩
      | none =>
        simp only [] at hx
        split at hx
        · injection hx with hx; subst hx; exact herrOK_finish h _
        · split at hx
          · split at hx
            · injection hx with hx; subst hx; exact herrOK_finish h _
            · cases hx
          · cases hx
  | handlerSimple retP flo fhi =>
    simp only [execSimple] at hx
    split at hx
    · injection hx with hx; subst hx; intro id hk; cases hk
    · next f suffix _ =>
      generalize hres : h r.hs f suffix = res0 at hx
      obtain ⟨hs', pp, e⟩ := res0
      simp only [] at hx
      cases e with
      | some id0 =>
        simp only [] at hx
        injection hx with hx; subst hx
        intro id hk
        simp only [Regs.stop] at hk
        injection hk with hk; subst hk
        exact ⟨r.hs, f, suffix, by rw [hres], by rw [hres]; rfl⟩
      | none => simp only [] at hx; cases hx

theorem runEof_herr {τ} (data : Bytes) (hf : Bool) (h : Handler τ) : ∀ (acts : List SAct) (r : Regs τ),
    HerrOK h (runEof data hf h acts r) := by
  intro acts
  induction acts with
  | nil => intro r; exact herrOK_finish h r
  | cons a rest ih =>
    intro r
    simp only [runEof]
    cases hx : execSimple data hf h a r with
    | stop res => exact execSimple_herr data hf h a r res hx
    | cont r' => exact ih r'

theorem execActsL_herr {σ τ} (M : PDM σ) (data : Bytes) (h : Handler τ) : ∀ (acts : List (Act σ)) (tgt : Option σ) (st : List σ)
    (r : Regs τ) (res : Result τ), execActsL M data h acts tgt st r = .stop res → HerrOK h res := by
  intro acts
  induction acts with
  | nil => intro tgt st r res hx; simp [execActsL] at hx
  | cons a rest ih =>
    intro tgt st r res hx
    cases a with
    | s a =>
      simp only [execActsL] at hx
      split at hx
      · injection hx with hx; subst hx; intro id hk; cases hk
      · cases hxe : execSimple data M.hasField h a r with
        | stop res' =>
          rw [hxe] at hx
          injection hx with hx; subst hx
          exact execSimple_herr data M.hasField h a r _ hxe
        | cont r' => rw [hxe] at hx; exact ih _ _ _ _ hx
    | call lim rs en =>
      simp only [execActsL] at hx
      split at hx
      · injection hx with hx; subst hx; exact herrOK_finish h _
      · exact ih _ _ _ _ hx
    | ret =>
      simp only [execActsL] at hx
      cases st with
      | nil => simp only [] at hx; injection hx with hx; subst hx; intro id hk; cases hk
      | cons top st' => exact ih _ _ _ _ hx

theorem loopL_herr {σ τ} (M : PDM σ) (data : Bytes) (h : Handler τ) : ∀ (fuel : Nat) (cs : σ) (st : List σ) (r : Regs τ),
    HerrOK h (loopL M data h fuel cs st r) := by
  intro fuel
  induction fuel with
  | zero => intro cs st r; simp only [loopL]; intro id hk; cases hk
  | succ fuel ih =>
    intro cs st r
    simp only [loopL]
    cases hgb : getByte data r.p with
    | none => intro id hk; cases hk
    | some b =>
      simp only []
      cases hx : execActsL M data h (M.step cs b).1 (M.step cs b).2 st r with
      | stop res => exact execActsL_herr M data h _ _ _ _ _ hx
      | next tgt st' r' =>
        cases tgt with
        | none => exact herrOK_finish h r'
        | some n =>
          simp only []
          split
          · exact runEof_herr data M.hasField h _ _
          · exact ih _ _ _

/-- **a handler-error result carries the state returned by the failing handler call** -/
theorem run_herr_state {σ τ} (M : PDM σ) (data : Bytes) (h : Handler τ) (dst : Bytes) (hs : τ) :
    HerrOK h (runL M data h dst hs) := by
  simp only [runL]
  split
  · exact runEof_herr data M.hasField h _ _
  · exact loopL_herr M data h _ _ _ _

end RJson.Ragel
