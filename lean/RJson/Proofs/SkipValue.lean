import RJson.Proofs.ScannerProgress
/-!
# The abstract skip machine against the reference scanner (containers)

Mutual induction over the scanner's fuel: a value / the rest of an array / the rest of an object is skipped
by the machine exactly as `Spec.scanValue` / `scanArr` / `scanObj` say, the nesting depth being the length of
the return-state stack.
-/
namespace RJson.Abs
open RJson.Ragel RJson.Spec RJson.HelpersSpec

/-! ## stepping lemmas for stack actions -/

theorem loopL_ret {τ} (M : PDM AS) (data : Bytes) (h : Handler τ) (fuel : Nat) (cs : AS) (tgt : Option AS) (ret : AS) (st : List AS)
    (r : Regs τ) (p : Nat) (b : UInt8) (l : List UInt8) (hsm : Small data) (hp : r.p = p) (hat : At data p (b :: l))
    (hs : M.step cs b = ([.ret], tgt)) :
    loopL M data h (fuel + 1) cs (ret :: st) r = contL M data h fuel ret st { r with p := ((p + 1 : Nat) : Int) } := by
  obtain ⟨hb, hlt, _⟩ := hat.cons_inv
  rw [loopL_succ M data h fuel cs _ r b (by rw [hp]; exact hb), hs]
  simp only [execActsL, contL]
  have hw : wrap64 (r.p + 1) = ((p + 1 : Nat) : Int) := by
    rw [hp, wrap64_id] <;> (unfold Small at hsm; omega)
  simp only [hw]

theorem loopL_call_ok {τ} (M : PDM AS) (data : Bytes) (h : Handler τ) (fuel : Nat) (cs : AS) (tgt : Option AS) (lim : Bool) (rs en : AS)
    (st : List AS) (r : Regs τ) (p : Nat) (b : UInt8) (l : List UInt8) (hsm : Small data) (hp : r.p = p) (hat : At data p (b :: l))
    (hs : M.step cs b = ([.call lim rs en], tgt)) (hlim : (lim && st.length == M.maxDepth) = false) :
    loopL M data h (fuel + 1) cs st r = contL M data h fuel en (rs :: st) { r with p := ((p + 1 : Nat) : Int) } := by
  obtain ⟨hb, hlt, _⟩ := hat.cons_inv
  rw [loopL_succ M data h fuel cs _ r b (by rw [hp]; exact hb), hs]
  simp only [execActsL, hlim, Bool.false_eq_true, if_false, contL]
  have hw : wrap64 (r.p + 1) = ((p + 1 : Nat) : Int) := by
    rw [hp, wrap64_id] <;> (unfold Small at hsm; omega)
  simp only [hw]

theorem loopL_call_limit {τ} (M : PDM AS) (data : Bytes) (h : Handler τ) (fuel : Nat) (cs : AS) (tgt : Option AS) (lim : Bool) (rs en : AS)
    (st : List AS) (r : Regs τ) (b : UInt8) (hb : getByte data r.p = some b)
    (hs : M.step cs b = ([.call lim rs en], tgt)) (hlim : (lim && st.length == M.maxDepth) = true) :
    IsErr (loopL M data h (fuel + 1) cs st r) := by
  rw [loopL_succ M data h fuel cs _ r b hb, hs]
  simp only [execActsL, hlim, if_true]
  exact finish_err _ _ rfl

/-- a state that loops on whitespace skips it -/
theorem ws_loop {τ} (M : PDM AS) (s : AS) (hs : ∀ b, isWs b = true → M.step s b = ([], some s))
    (data : Bytes) (h : Handler τ) (hsm : Small data) :
    ∀ (l : List UInt8) (fuel p : Nat) (st : List AS) (r : Regs τ), At data p l → r.p = p → l.length + 1 ≤ fuel →
      Reach M data h fuel s st r (skipWs l) s st := by
  intro l
  induction l with
  | nil => intro fuel p st r hat hp hf; exact Reach.refl M data h fuel s st r p [] hat hp hf
  | cons b rest ih =>
    intro fuel p st r hat hp hf
    by_cases hw : isWs b = true
    · obtain ⟨fuel, rfl⟩ : ∃ f, fuel = f + 1 := ⟨fuel - 1, by omega⟩
      obtain ⟨_, _, hat'⟩ := hat.cons_inv
      have hsk : skipWs (b :: rest) = skipWs rest := by simp [skipWs, hw]
      rw [hsk]
      unfold Reach
      rw [contL_cons M data h _ _ _ r p b rest hp hat, loopL_goto M data h fuel s s st r p b rest hsm hp hat (hs b hw)]
      exact ih fuel (p + 1) st { r with p := ((p + 1 : Nat) : Int) } hat' rfl (by simp only [List.length_cons] at hf; omega)
    · have hw' : isWs b = false := by simpa using hw
      have hsk : skipWs (b :: rest) = b :: rest := by simp [skipWs, hw']
      rw [hsk]
      exact Reach.refl M data h fuel s st r p _ hat hp hf

/-- `Reach` followed by an error is an error -/
theorem Reach.isErr {τ} {M : PDM AS} {data : Bytes} {h : Handler τ} {fuel : Nat} {s : AS} {st : List AS} {r : Regs τ}
    {mid : List UInt8} {s1 : AS} {st1 : List AS}
    (h1 : Reach M data h fuel s st r mid s1 st1)
    (h2 : ∀ (fuel' p' : Nat), At data p' mid → mid.length + 1 ≤ fuel' → IsErr (contL M data h fuel' s1 st1 { r with p := (p' : Int) })) :
    IsErr (contL M data h fuel s st r) := by
  obtain ⟨f1, p1, hat1, hf1, e1⟩ := h1
  rw [e1]
  exact h2 f1 p1 hat1 hf1

/-- outcome of running from `(s, st)`: in front of `rest` in `(s', st')`, or an error -/
def Outcome {τ} (M : PDM AS) (data : Bytes) (h : Handler τ) (fuel : Nat) (s : AS) (st : List AS) (r : Regs τ)
    (o : Option (List UInt8)) (s' : AS) (st' : List AS) : Prop :=
  match o with
  | some rest => Reach M data h fuel s st r rest s' st'
  | none => IsErr (contL M data h fuel s st r)

theorem Outcome.after_reach {τ} {M : PDM AS} {data : Bytes} {h : Handler τ} {fuel : Nat} {s : AS} {st : List AS} {r : Regs τ}
    {mid : List UInt8} {s1 : AS} {st1 : List AS} {o : Option (List UInt8)} {s2 : AS} {st2 : List AS}
    (h1 : Reach M data h fuel s st r mid s1 st1)
    (h2 : ∀ (fuel' p' : Nat), At data p' mid → mid.length + 1 ≤ fuel' →
      Outcome M data h fuel' s1 st1 { r with p := (p' : Int) } o s2 st2) :
    Outcome M data h fuel s st r o s2 st2 := by
  cases o with
  | some rest => exact Reach.trans h1 h2
  | none => exact Reach.isErr h1 h2

/-! ## numbers from the start of a value -/

/-- contexts whose values are scanned with the helper scanners and are not offered to a handler -/
structure VCtx (k : Kind) (c : Ctx) : Prop where
  plain : c.handled = false
  notHTop : c ≠ .hTop
  notFast : (c == .farr || c == .fobj) = false

theorem minus_not_final (c : Ctx) : isFinal ⟨c, .tok .minus⟩ = false := by cases c <;> rfl

/-- fraction / exponent after a complete integer part, whichever way the machine scans them -/
theorem num_tail_any {τ} (k : Kind) (c : Ctx) (hc : c ≠ .hTop)
    (t : Tok) (ht : t = .zero ∨ t = .int) (data : Bytes) (h : Handler τ) (hsm : Small data)
    (l : List UInt8) (fuel p : Nat) (st : List AS) (r : Regs τ) (hat : At data p l) (hp : r.p = p) (herr : r.err = none)
    (hf : l.length + 1 ≤ fuel) (hnd : t = .int → ∀ b rest, l = b :: rest → isDigit b = false) :
    match scanFrac l with
    | some rest => Reach (machine k) data h fuel ⟨c, .tok t⟩ st r rest ⟨c, .after⟩ st
    | none => IsErr (contL (machine k) data h fuel ⟨c, .tok t⟩ st r) := by
  by_cases hu : usesHelpers k c = true
  · exact num_tail_run k c hu hc t ht data h hsm l fuel p st r hat hp herr hf hnd
  · exact num_tail_dfa k c (by simpa using hu) hc t ht data h hsm l fuel p st r hat hp hf hnd

theorem int_run_any {τ} (k : Kind) (c : Ctx) (hc : c ≠ .hTop) (data : Bytes) (h : Handler τ) (hsm : Small data)
    (l : List UInt8) (fuel p : Nat) (st : List AS) (r : Regs τ) (hat : At data p l) (hp : r.p = p) (herr : r.err = none)
    (hf : l.length + 1 ≤ fuel) :
    match scanFrac (skipDigits l) with
    | some rest => Reach (machine k) data h fuel ⟨c, .tok .int⟩ st r rest ⟨c, .after⟩ st
    | none => IsErr (contL (machine k) data h fuel ⟨c, .tok .int⟩ st r) := by
  by_cases hu : usesHelpers k c = true
  · exact int_run k c hu hc data h hsm l fuel p st r hat hp herr hf
  · exact int_run_dfa k c (by simpa using hu) hc data h hsm l fuel p st r hat hp hf

/-- after the optional minus sign -/
theorem num1_run {τ} (k : Kind) (c : Ctx) (hc : c ≠ .hTop) (data : Bytes) (h : Handler τ) (hsm : Small data)
    (s : AS) (d : UInt8) (t : List UInt8)
    (hstep : (machine k).step s d =
      if d == 48 then ([], some ⟨c, .tok .zero⟩) else if isDig19 d then ([], some ⟨c, .tok .int⟩) else errTr k c)
    (fuel p : Nat) (st : List AS) (r : Regs τ) (hat : At data p (d :: t)) (hp : r.p = p) (herr : r.err = none)
    (hf : (d :: t).length + 1 ≤ fuel) :
    Outcome (machine k) data h fuel s st r (scanNum1 (d :: t)) ⟨c, .after⟩ st := by
  obtain ⟨hb, hlt, hat'⟩ := hat.cons_inv
  obtain ⟨fuel, rfl⟩ : ∃ f, fuel = f + 1 := ⟨fuel - 1, by omega⟩
  have hf' : t.length + 1 ≤ fuel := by simp only [List.length_cons] at hf; omega
  have hcl := contL_cons (machine k) data h (fuel + 1) s st r p d t hp hat
  by_cases hd : d = 48
  · subst hd
    simp only [beq_self_eq_true, if_true] at hstep
    rw [scanNum1_zero]
    have key := num_tail_any k c hc .zero (.inl rfl) data h hsm t fuel (p + 1) st
      { r with p := ((p + 1 : Nat) : Int) } hat' rfl herr hf' (by intro hh; cases hh)
    have hgo := loopL_goto (machine k) data h fuel s _ st r p 48 t hsm hp hat hstep
    cases hsc : scanFrac t with
    | none =>
      rw [hsc] at key
      simp only [Outcome]
      rw [hcl, hgo]
      exact key
    | some rest =>
      rw [hsc] at key
      simp only [Outcome]
      unfold Reach
      rw [hcl, hgo]
      exact key
  · have hd' : (d == 48) = false := by simpa using hd
    simp only [hd', Bool.false_eq_true, if_false] at hstep
    rw [scanNum1_other d t hd]
    by_cases h19 : isDig19 d = true
    · simp only [h19, if_true] at hstep
      have h19' : (49 ≤ d && d ≤ 57) = true := h19
      simp only [h19', if_true]
      have key := int_run_any k c hc data h hsm t fuel (p + 1) st
        { r with p := ((p + 1 : Nat) : Int) } hat' rfl herr hf'
      have hgo := loopL_goto (machine k) data h fuel s _ st r p d t hsm hp hat hstep
      cases hsc : scanFrac (skipDigits t) with
      | none =>
        rw [hsc] at key
        simp only [Outcome]
        rw [hcl, hgo]
        exact key
      | some rest =>
        rw [hsc] at key
        simp only [Outcome]
        unfold Reach
        rw [hcl, hgo]
        exact key
    · have h19' : (49 ≤ d && d ≤ 57) = false := by simpa [isDig19] using h19
      simp only [h19, Bool.false_eq_true, if_false] at hstep
      simp only [h19', Bool.false_eq_true, if_false, Outcome]
      rw [hcl]
      exact errTr_stops k c data h fuel s st r d (by rw [hp]; exact hb) hstep

/-! ## composition helpers -/

theorem Outcome.of_goto {τ} (M : PDM AS) (data : Bytes) (h : Handler τ) (hsm : Small data) (fuel : Nat) (s n : AS) (st : List AS)
    (r : Regs τ) (p : Nat) (b : UInt8) (l : List UInt8) (hp : r.p = p) (hat : At data p (b :: l))
    (hs : M.step s b = ([], some n)) (o : Option (List UInt8)) (s' : AS) (st' : List AS)
    (hnext : Outcome M data h fuel n st { r with p := ((p + 1 : Nat) : Int) } o s' st') :
    Outcome M data h (fuel + 1) s st r o s' st' := by
  have hcl := contL_cons M data h (fuel + 1) s st r p b l hp hat
  have hgo := loopL_goto M data h fuel s n st r p b l hsm hp hat hs
  cases o with
  | none => simp only [Outcome] at hnext ⊢; rw [hcl, hgo]; exact hnext
  | some rest => simp only [Outcome] at hnext ⊢; unfold Reach at hnext ⊢; rw [hcl, hgo]; exact hnext

theorem Outcome.of_errTr {τ} (k : Kind) (c : Ctx) (data : Bytes) (h : Handler τ) (fuel : Nat) (s : AS) (st : List AS)
    (r : Regs τ) (p : Nat) (b : UInt8) (l : List UInt8) (hp : r.p = p) (hat : At data p (b :: l))
    (hs : (machine k).step s b = errTr k c) (s' : AS) (st' : List AS) :
    Outcome (machine k) data h (fuel + 1) s st r none s' st' := by
  obtain ⟨hb, _, _⟩ := hat.cons_inv
  simp only [Outcome]
  rw [contL_cons (machine k) data h (fuel + 1) s st r p b l hp hat]
  exact errTr_stops k c data h fuel s st r b (by rw [hp]; exact hb) hs

theorem Outcome.of_eof {τ} (k : Kind) (data : Bytes) (h : Handler τ) (fuel : Nat) (s : AS) (st : List AS)
    (r : Regs τ) (p : Nat) (hp : r.p = p) (hat : At data p []) (hnf : isFinal s = false) (s' : AS) (st' : List AS) :
    Outcome (machine k) data h fuel s st r none s' st' := by
  simp only [Outcome]
  rw [contL_nil (machine k) data h fuel s st r p hp hat]
  exact eof_stops k s data h r hnf

/-! ## values, arrays, objects -/

/-- the scanner's depth limit for the machine kind -/
def md (k : Kind) : Option Nat := if hasLimit k then some Gen.skipMaxDepth else none

theorem lim_eq (k : Kind) (n : Nat) : (hasLimit k && n == (machine k).maxDepth) = (md k == some n) := by
  simp only [machine, md]
  cases hasLimit k
  · simp
  · simp only [Bool.true_and, if_true]
    by_cases hn : n = Gen.skipMaxDepth
    · subst hn; simp
    · have h1 : (n == Gen.skipMaxDepth) = false := by simpa using hn
      have h2 : (some Gen.skipMaxDepth == some n) = false := by
        simp only [beq_eq_false_iff_ne, ne_eq, Option.some.injEq]
        exact fun hh => hn hh.symm
      rw [h1, h2]

def ValueGoal {τ} (k : Kind) (data : Bytes) (h : Handler τ) (sf : Nat) : Prop :=
  ∀ (c : Ctx), VCtx k c → ∀ (s : AS) (b : UInt8) (rest : List UInt8), (machine k).step s b = startValue k c b →
    ∀ (fuel p : Nat) (st : List AS) (r : Regs τ), At data p (b :: rest) → r.p = p → r.err = none →
      (b :: rest).length + 1 ≤ fuel → 2 * (b :: rest).length ≤ sf →
      Outcome (machine k) data h fuel s st r (scanValue (md k) sf st.length (b :: rest)) ⟨c, .after⟩ st

def ArrGoal {τ} (k : Kind) (data : Bytes) (h : Handler τ) (sf : Nat) : Prop :=
  ∀ (first : Bool) (l : List UInt8) (fuel p : Nat) (ret : AS) (st : List AS) (r : Regs τ), At data p l → r.p = p → r.err = none →
    l.length + 1 ≤ fuel → 2 * l.length + 1 ≤ sf →
    Outcome (machine k) data h fuel ⟨.arr, if first then .want true else .after⟩ (ret :: st) r
      (scanArr (md k) sf (st.length + 1) first l) ret st

def ObjGoal {τ} (k : Kind) (data : Bytes) (h : Handler τ) (sf : Nat) : Prop :=
  ∀ (first : Bool) (l : List UInt8) (fuel p : Nat) (ret : AS) (st : List AS) (r : Regs τ), At data p l → r.p = p → r.err = none →
    l.length + 1 ≤ fuel → 2 * l.length + 1 ≤ sf →
    Outcome (machine k) data h fuel ⟨.obj, if first then .wantKey true else .after⟩ (ret :: st) r
      (scanObj (md k) sf (st.length + 1) first l) ret st

theorem startValue_plain (k : Kind) (c : Ctx) (hv : VCtx k c) (hk : k ≠ .fast) (b : UInt8) :
    startValue k c b =
      if b == 34 then ([], some ⟨c, .tok .str⟩)
      else if b == 116 then ([], some ⟨c, .tok (.lit .t 0)⟩)
      else if b == 102 then ([], some ⟨c, .tok (.lit .f 0)⟩)
      else if b == 110 then ([], some ⟨c, .tok (.lit .n 0)⟩)
      else if b == 45 then ([], some ⟨c, .tok .minus⟩)
      else if b == 48 then ([], some ⟨c, .tok .zero⟩)
      else if isDig19 b then ([], some ⟨c, .tok .int⟩)
      else if b == 91 then ([.call (hasLimit k) ⟨c, .after⟩ ⟨.arr, .want true⟩], some ⟨c, .after⟩)
      else if b == 123 then ([.call (hasLimit k) ⟨c, .after⟩ ⟨.obj, .wantKey true⟩], some ⟨c, .after⟩)
      else errTr k c := by
  have hkf : (k == Kind.fast) = false := by cases k <;> first | rfl | exact absurd rfl hk
  have hsub : subCtx k c = (.arr, .obj) := by cases k <;> first | rfl | exact absurd rfl hk
  simp only [startValue, hv.plain, Bool.false_eq_true, if_false, List.nil_append, hkf, hsub]

theorem str_tok_step (k : Kind) (c : Ctx) (hnf : (c == .farr || c == .fobj) = false) (t : Tok) (b : UInt8) (ht : t.isStr = true) :
    (machine k).step ⟨c, .tok t⟩ b = strTr k c .tok ⟨c, .after⟩ t b := by
  cases t with
  | str => simp only [machine, step, hnf, Bool.false_eq_true, if_false]
  | esc => simp only [machine, step, hnf, Bool.false_eq_true, if_false]
  | u n => simp only [machine, step, hnf, Bool.false_eq_true, if_false]
  | _ => simp [Tok.isStr] at ht

theorem str_tok_not_final (c : Ctx) (t : Tok) (ht : t.isStr = true) : isFinal ⟨c, .tok t⟩ = false := by
  cases t with
  | str => cases c <;> rfl
  | esc => cases c <;> rfl
  | u n => cases c <;> rfl
  | _ => simp [Tok.isStr] at ht

theorem startValue_scalar (k : Kind) (c : Ctx) (hv : VCtx k c) (b : UInt8) (h91 : (b == 91) = false) (h123 : (b == 123) = false) :
    startValue k c b =
      if b == 34 then ([], some ⟨c, .tok .str⟩)
      else if b == 116 then ([], some ⟨c, .tok (.lit .t 0)⟩)
      else if b == 102 then ([], some ⟨c, .tok (.lit .f 0)⟩)
      else if b == 110 then ([], some ⟨c, .tok (.lit .n 0)⟩)
      else if b == 45 then ([], some ⟨c, .tok .minus⟩)
      else if b == 48 then ([], some ⟨c, .tok .zero⟩)
      else if isDig19 b then ([], some ⟨c, .tok .int⟩)
      else errTr k c := by
  simp only [startValue, hv.plain, Bool.false_eq_true, if_false, h91, h123]

/-- the scalar alternatives of `scanValue` -/
def scanScalar (b : UInt8) (rest : List UInt8) : Option (List UInt8) :=
  if b == 34 then scanStringBody rest
  else if b == 116 then scanLit [114, 117, 101] rest
  else if b == 102 then scanLit [97, 108, 115, 101] rest
  else if b == 110 then scanLit [117, 108, 108] rest
  else scanNumber (b :: rest)

theorem scanValue_scalar (mdv : Option Nat) (sf d : Nat) (b : UInt8) (rest : List UInt8)
    (h91 : (b == 91) = false) (h123 : (b == 123) = false) :
    scanValue mdv (sf + 1) d (b :: rest) = scanScalar b rest := by
  simp only [scanValue, scanScalar, h91, h123, Bool.false_eq_true, if_false]

/-- a scalar value (any machine kind, any context that is not offered to a handler) -/
theorem scalar_run {τ} (k : Kind) (c : Ctx) (hv : VCtx k c) (data : Bytes) (h : Handler τ) (hsm : Small data)
    (s : AS) (b : UInt8) (rest : List UInt8) (hstep : (machine k).step s b = startValue k c b)
    (h91 : (b == 91) = false) (h123 : (b == 123) = false)
    (fuel p : Nat) (st : List AS) (r : Regs τ) (hat : At data p (b :: rest)) (hp : r.p = p) (herr : r.err = none)
    (hf : (b :: rest).length + 1 ≤ fuel) :
    Outcome (machine k) data h fuel s st r (scanScalar b rest) ⟨c, .after⟩ st := by
  obtain ⟨hb, hlt, hat'⟩ := hat.cons_inv
  obtain ⟨fuel, rfl⟩ : ∃ f, fuel = f + 1 := ⟨fuel - 1, by omega⟩
  have hf' : rest.length + 1 ≤ fuel := by simp only [List.length_cons] at hf; omega
  rw [startValue_scalar k c hv b h91 h123] at hstep
  simp only [scanScalar]
  by_cases h34 : (b == 34) = true
  · simp only [h34, if_true] at hstep ⊢
    apply Outcome.of_goto (machine k) data h hsm fuel s _ st r p b rest hp hat hstep
    have key := str_run k c .tok ⟨c, .after⟩ (fun t b ht => str_tok_step k c hv.notFast t b ht) (fun t ht => str_tok_not_final c t ht)
      data h hsm rest .str rfl fuel (p + 1) st { r with p := ((p + 1 : Nat) : Int) } hat' rfl hf'
    rw [strScanT_str] at key
    exact key
  have h34' : (b == 34) = false := by simpa using h34
  simp only [h34', Bool.false_eq_true, if_false] at hstep ⊢
  by_cases h116 : (b == 116) = true
  · simp only [h116, if_true] at hstep ⊢
    apply Outcome.of_goto (machine k) data h hsm fuel s _ st r p b rest hp hat hstep
    exact lit_run k c .t data h hsm _ 0 rfl (by simp [Lit.tail]) rest fuel (p + 1) st _ hat' rfl hf'
  have h116' : (b == 116) = false := by simpa using h116
  simp only [h116', Bool.false_eq_true, if_false] at hstep ⊢
  by_cases h102 : (b == 102) = true
  · simp only [h102, if_true] at hstep ⊢
    apply Outcome.of_goto (machine k) data h hsm fuel s _ st r p b rest hp hat hstep
    exact lit_run k c .f data h hsm _ 0 rfl (by simp [Lit.tail]) rest fuel (p + 1) st _ hat' rfl hf'
  have h102' : (b == 102) = false := by simpa using h102
  simp only [h102', Bool.false_eq_true, if_false] at hstep ⊢
  by_cases h110 : (b == 110) = true
  · simp only [h110, if_true] at hstep ⊢
    apply Outcome.of_goto (machine k) data h hsm fuel s _ st r p b rest hp hat hstep
    exact lit_run k c .n data h hsm _ 0 rfl (by simp [Lit.tail]) rest fuel (p + 1) st _ hat' rfl hf'
  have h110' : (b == 110) = false := by simpa using h110
  simp only [h110', Bool.false_eq_true, if_false] at hstep ⊢
  by_cases h45 : b = 45
  · subst h45
    have hstep' : (machine k).step s 45 = ([], some ⟨c, .tok .minus⟩) := by rw [hstep]; rfl
    rw [scanNumber_minus]
    apply Outcome.of_goto (machine k) data h hsm fuel s _ st r p 45 rest hp hat hstep'
    cases rest with
    | nil => exact Outcome.of_eof k data h fuel _ st _ (p + 1) rfl hat' (minus_not_final c) _ _
    | cons d t =>
      exact num1_run k c hv.notHTop data h hsm _ d t (by simp only [machine, step]) fuel (p + 1) st _ hat' rfl herr hf'
  · have h45' : (b == 45) = false := by simpa using h45
    simp only [h45', Bool.false_eq_true, if_false] at hstep
    rw [scanNumber_other b rest h45]
    exact num1_run k c hv.notHTop data h hsm s b rest hstep (fuel + 1) p st r hat hp herr hf

theorem value_step {τ} (k : Kind) (hk : k ≠ .fast) (data : Bytes) (h : Handler τ) (hsm : Small data) (sf : Nat)
    (hA : ArrGoal k data h sf) (hO : ObjGoal k data h sf) : ValueGoal k data h (sf + 1) := by
  intro c hv s b rest hstep fuel p st r hat hp herr hf hsf
  obtain ⟨hb, hlt, hat'⟩ := hat.cons_inv
  obtain ⟨fuel, rfl⟩ : ∃ f, fuel = f + 1 := ⟨fuel - 1, by omega⟩
  have hf' : rest.length + 1 ≤ fuel := by simp only [List.length_cons] at hf; omega
  have hb' : getByte data r.p = some b := by rw [hp]; exact hb
  rw [startValue_plain k c hv hk] at hstep
  simp only [scanValue]
  by_cases h34 : (b == 34) = true
  · simp only [h34, if_true] at hstep ⊢
    apply Outcome.of_goto (machine k) data h hsm fuel s _ st r p b rest hp hat hstep
    have key := str_run k c .tok ⟨c, .after⟩ (fun t b ht => str_tok_step k c hv.notFast t b ht) (fun t ht => str_tok_not_final c t ht)
      data h hsm rest .str rfl fuel (p + 1) st { r with p := ((p + 1 : Nat) : Int) } hat' rfl hf'
    rw [strScanT_str] at key
    exact key
  have h34' : (b == 34) = false := by simpa using h34
  simp only [h34', Bool.false_eq_true, if_false] at hstep ⊢
  by_cases h116 : (b == 116) = true
  · simp only [h116, if_true] at hstep ⊢
    apply Outcome.of_goto (machine k) data h hsm fuel s _ st r p b rest hp hat hstep
    exact lit_run k c .t data h hsm _ 0 rfl (by simp [Lit.tail]) rest fuel (p + 1) st _ hat' rfl hf'
  have h116' : (b == 116) = false := by simpa using h116
  simp only [h116', Bool.false_eq_true, if_false] at hstep ⊢
  by_cases h102 : (b == 102) = true
  · simp only [h102, if_true] at hstep ⊢
    apply Outcome.of_goto (machine k) data h hsm fuel s _ st r p b rest hp hat hstep
    exact lit_run k c .f data h hsm _ 0 rfl (by simp [Lit.tail]) rest fuel (p + 1) st _ hat' rfl hf'
  have h102' : (b == 102) = false := by simpa using h102
  simp only [h102', Bool.false_eq_true, if_false] at hstep ⊢
  by_cases h110 : (b == 110) = true
  · simp only [h110, if_true] at hstep ⊢
    apply Outcome.of_goto (machine k) data h hsm fuel s _ st r p b rest hp hat hstep
    exact lit_run k c .n data h hsm _ 0 rfl (by simp [Lit.tail]) rest fuel (p + 1) st _ hat' rfl hf'
  have h110' : (b == 110) = false := by simpa using h110
  simp only [h110', Bool.false_eq_true, if_false] at hstep ⊢
  by_cases h91 : (b == 91) = true
  · have hb91 : b = 91 := by simpa using h91
    subst hb91
    have hstep' : (machine k).step s 91 = ([.call (hasLimit k) ⟨c, .after⟩ ⟨.arr, .want true⟩], some ⟨c, .after⟩) := by
      rw [hstep]; rfl
    simp only [beq_self_eq_true, if_true]
    by_cases hlim : (md k == some st.length) = true
    · simp only [hlim, if_true, Outcome]
      rw [contL_cons (machine k) data h (fuel + 1) s st r p _ rest hp hat]
      exact loopL_call_limit (machine k) data h fuel s _ _ _ _ st r 91 hb' hstep' (by rw [lim_eq]; exact hlim)
    · have hlim' : (md k == some st.length) = false := by simpa using hlim
      simp only [hlim', Bool.false_eq_true, if_false]
      have hcall := loopL_call_ok (machine k) data h fuel s _ _ _ _ st r p 91 rest hsm hp hat hstep' (by rw [lim_eq]; exact hlim')
      have key := hA true rest fuel (p + 1) ⟨c, .after⟩ st { r with p := ((p + 1 : Nat) : Int) } hat' rfl herr hf'
        (by simp only [List.length_cons] at hsf; omega)
      simp only [if_true] at key
      have hcl := contL_cons (machine k) data h (fuel + 1) s st r p _ rest hp hat
      cases hsc : scanArr (md k) sf (st.length + 1) true rest with
      | none => rw [hsc] at key; simp only [Outcome] at key ⊢; rw [hcl, hcall]; exact key
      | some r' => rw [hsc] at key; simp only [Outcome] at key ⊢; unfold Reach at key ⊢; rw [hcl, hcall]; exact key
  have h91' : (b == 91) = false := by simpa using h91
  simp only [h91', Bool.false_eq_true, if_false] at hstep ⊢
  by_cases h123 : (b == 123) = true
  · have hb123 : b = 123 := by simpa using h123
    subst hb123
    have hstep' : (machine k).step s 123 = ([.call (hasLimit k) ⟨c, .after⟩ ⟨.obj, .wantKey true⟩], some ⟨c, .after⟩) := by
      rw [hstep]; rfl
    simp only [beq_self_eq_true, if_true]
    by_cases hlim : (md k == some st.length) = true
    · simp only [hlim, if_true, Outcome]
      rw [contL_cons (machine k) data h (fuel + 1) s st r p _ rest hp hat]
      exact loopL_call_limit (machine k) data h fuel s _ _ _ _ st r 123 hb' hstep' (by rw [lim_eq]; exact hlim)
    · have hlim' : (md k == some st.length) = false := by simpa using hlim
      simp only [hlim', Bool.false_eq_true, if_false]
      have hcall := loopL_call_ok (machine k) data h fuel s _ _ _ _ st r p 123 rest hsm hp hat hstep' (by rw [lim_eq]; exact hlim')
      have key := hO true rest fuel (p + 1) ⟨c, .after⟩ st { r with p := ((p + 1 : Nat) : Int) } hat' rfl herr hf'
        (by simp only [List.length_cons] at hsf; omega)
      simp only [if_true] at key
      have hcl := contL_cons (machine k) data h (fuel + 1) s st r p _ rest hp hat
      cases hsc : scanObj (md k) sf (st.length + 1) true rest with
      | none => rw [hsc] at key; simp only [Outcome] at key ⊢; rw [hcl, hcall]; exact key
      | some r' => rw [hsc] at key; simp only [Outcome] at key ⊢; unfold Reach at key ⊢; rw [hcl, hcall]; exact key
  have h123' : (b == 123) = false := by simpa using h123
  simp only [h123', Bool.false_eq_true, if_false] at hstep ⊢
  -- a number
  by_cases h45 : b = 45
  · subst h45
    have hstep' : (machine k).step s 45 = ([], some ⟨c, .tok .minus⟩) := by rw [hstep]; rfl
    rw [scanNumber_minus]
    apply Outcome.of_goto (machine k) data h hsm fuel s _ st r p 45 rest hp hat hstep'
    cases rest with
    | nil => exact Outcome.of_eof k data h fuel _ st _ (p + 1) rfl hat' (minus_not_final c) _ _
    | cons d t =>
      exact num1_run k c hv.notHTop data h hsm _ d t (by simp only [machine, step]) fuel (p + 1) st _ hat' rfl herr hf'
  · have h45' : (b == 45) = false := by simpa using h45
    simp only [h45', Bool.false_eq_true, if_false] at hstep
    rw [scanNumber_other b rest h45]
    exact num1_run k c hv.notHTop data h hsm s b rest hstep (fuel + 1) p st r hat hp herr hf

theorem vctx_arr (k : Kind) : VCtx k .arr := ⟨rfl, by decide, rfl⟩

theorem vctx_obj (k : Kind) : VCtx k .obj := ⟨rfl, by decide, rfl⟩

theorem scanValue_nil (mdv : Option Nat) (sf d : Nat) : scanValue mdv sf d [] = none := by
  cases sf <;> rfl

/-- a value inside an array, then the rest of the array -/
theorem arr_value_then {τ} (k : Kind) (hk : k ≠ .fast) (data : Bytes) (h : Handler τ) (sf : Nat)
    (hV : ValueGoal k data h sf) (hA : ArrGoal k data h sf)
    (s : AS) (b : UInt8) (rest : List UInt8) (hstep : (machine k).step s b = startValue k .arr b)
    (fuel p : Nat) (ret : AS) (st : List AS) (r : Regs τ) (hat : At data p (b :: rest)) (hp : r.p = p) (herr : r.err = none)
    (hf : (b :: rest).length + 1 ≤ fuel) (hsf : 2 * (b :: rest).length ≤ sf) :
    Outcome (machine k) data h fuel s (ret :: st) r
      (match scanValue (md k) sf (st.length + 1) (b :: rest) with
        | none => none
        | some r1 => scanArr (md k) sf (st.length + 1) false r1) ret st := by
  have key := hV .arr (vctx_arr k) s b rest hstep fuel p (ret :: st) r hat hp herr hf hsf
  simp only [List.length_cons] at key
  cases hsv : scanValue (md k) sf (st.length + 1) (b :: rest) with
  | none => rw [hsv] at key; exact key
  | some r1 =>
    rw [hsv] at key
    simp only [Outcome] at key
    simp only []
    apply Outcome.after_reach key
    intro f2 p2 hat2 hf2
    have hlt := (scan_progress (md k) sf).1 _ _ _ hsv
    have := hA false r1 f2 p2 ret st { r with p := (p2 : Int) } hat2 rfl herr hf2 (by simp only [List.length_cons] at hlt hsf; omega)
    simpa using this

theorem arr_step {τ} (k : Kind) (hk : k ≠ .fast) (data : Bytes) (h : Handler τ) (hsm : Small data) (sf : Nat)
    (hV : ValueGoal k data h sf) (hA : ArrGoal k data h sf) : ArrGoal k data h (sf + 1) := by
  intro first l fuel p ret st r hat hp herr hf hsf
  simp only [scanArr]
  have hws : ∀ b, isWs b = true → (machine k).step ⟨.arr, if first then .want true else .after⟩ b =
      ([], some ⟨.arr, if first then .want true else .after⟩) := by
    intro b hw
    cases first <;> simp [machine, step, afterTr, hw]
  have hnf : isFinal ⟨.arr, if first then .want true else .after⟩ = false := by cases first <;> rfl
  have hr := ws_loop (machine k) _ hws data h hsm l fuel p (ret :: st) r hat hp hf
  apply Outcome.after_reach hr
  intro fuel' p' hat1 hf1
  have hlen := skipWs_length_le' l
  cases hsk : skipWs l with
  | nil =>
    rw [hsk] at hat1
    exact Outcome.of_eof k data h fuel' _ _ _ p' rfl hat1 hnf _ _
  | cons b rest =>
    rw [hsk] at hat1 hf1 hlen
    have hnws := skipWs_cons_of l b rest hsk
    simp only []
    obtain ⟨fuel', rfl⟩ : ∃ f, fuel' = f + 1 := ⟨fuel' - 1, by omega⟩
    obtain ⟨hb, hlt, hat'⟩ := hat1.cons_inv
    have hf' : rest.length + 1 ≤ fuel' := by simp only [List.length_cons] at hf1; omega
    simp only [List.length_cons] at hlen
    by_cases h93 : (b == 93) = true
    · have hb93 : b = 93 := by simpa using h93
      subst hb93
      simp only [beq_self_eq_true, if_true]
      have hstep : (machine k).step ⟨.arr, if first then .want true else .after⟩ 93 = ([.ret], some ⟨.arr, .done⟩) := by
        cases first <;> simp [machine, step, afterTr, isWs]
      simp only [Outcome]
      unfold Reach
      rw [contL_cons (machine k) data h _ _ _ _ p' 93 rest rfl hat1,
        loopL_ret (machine k) data h fuel' _ _ ret st _ p' 93 rest hsm rfl hat1 hstep]
      exact ⟨fuel', p' + 1, hat', hf', rfl⟩
    · have h93' : (b == 93) = false := by simpa using h93
      simp only [h93', Bool.false_eq_true, if_false]
      cases first with
      | true =>
        simp only [if_true]
        have hstep : (machine k).step ⟨.arr, .want true⟩ b = startValue k .arr b := by
          simp [machine, step, hnws, h93']
        exact arr_value_then k hk data h sf hV hA _ b rest hstep (fuel' + 1) p' ret st _ hat1 rfl herr hf1
          (by simp only [List.length_cons]; omega)
      | false =>
        simp only [Bool.false_eq_true, if_false]
        by_cases h44 : (b == 44) = true
        · have hb44 : b = 44 := by simpa using h44
          subst hb44
          simp only [beq_self_eq_true, if_true]
          have hstep : (machine k).step ⟨.arr, .after⟩ 44 = ([], some ⟨.arr, .want false⟩) := by
            simp [machine, step, afterTr, isWs]
          apply Outcome.of_goto (machine k) data h hsm fuel' _ _ _ _ p' 44 rest rfl hat1 hstep
          have hws2 : ∀ b, isWs b = true → (machine k).step ⟨.arr, .want false⟩ b = ([], some ⟨.arr, .want false⟩) := by
            intro b hw
            simp [machine, step, hw]
          have hr2 := ws_loop (machine k) _ hws2 data h hsm rest fuel' (p' + 1) (ret :: st)
            ({ r with p := ((p' + 1 : Nat) : Int) } : Regs τ) hat' rfl hf'
          apply Outcome.after_reach hr2
          intro f3 p3 hat3 hf3
          have hlen3 := skipWs_length_le' rest
          cases hsk3 : skipWs rest with
          | nil =>
            rw [hsk3] at hat3
            rw [scanValue_nil]
            exact Outcome.of_eof k data h f3 _ _ _ p3 rfl hat3 rfl _ _
          | cons d t =>
            rw [hsk3] at hat3 hf3 hlen3
            have hnws3 := skipWs_cons_of rest d t hsk3
            have hstep3 : (machine k).step ⟨.arr, .want false⟩ d = startValue k .arr d := by
              simp [machine, step, hnws3]
            exact arr_value_then k hk data h sf hV hA _ d t hstep3 f3 p3 ret st _ hat3 rfl herr hf3
              (by simp only [List.length_cons] at hlen3 ⊢; omega)
        · have h44' : (b == 44) = false := by simpa using h44
          simp only [h44', Bool.false_eq_true, if_false]
          have hstep : (machine k).step ⟨.arr, .after⟩ b = errTr k .arr := by
            simp [machine, step, afterTr, hnws, h44', h93']
          exact Outcome.of_errTr k .arr data h fuel' _ _ _ p' b rest rfl hat1 hstep _ _

/-! ### objects -/

/-- after the key and whitespace: colon, value, rest of the object -/
def colonThen (mdv : Option Nat) (sf depth : Nat) : List UInt8 → Option (List UInt8)
  | 58 :: r2 =>
    match scanValue mdv sf depth (skipWs r2) with
    | none => none
    | some r3 => scanObj mdv sf depth false r3
  | _ => none

/-- after the opening quote of a key: key, colon, value, rest of the object -/
def memberThen (mdv : Option Nat) (sf depth : Nat) (krest : List UInt8) : Option (List UInt8) :=
  match scanStringBody krest with
  | none => none
  | some r1 => colonThen mdv sf depth (skipWs r1)

theorem colonThen_58 (mdv : Option Nat) (sf depth : Nat) (r2 : List UInt8) :
    colonThen mdv sf depth (58 :: r2) =
      match scanValue mdv sf depth (skipWs r2) with
      | none => none
      | some r3 => scanObj mdv sf depth false r3 := rfl

theorem colonThen_other (mdv : Option Nat) (sf depth : Nat) (b : UInt8) (rest : List UInt8) (hb : b ≠ 58) :
    colonThen mdv sf depth (b :: rest) = none := by
  simp only [colonThen]
  split
  · next heq => injection heq with h1 _; exact absurd h1 hb
  · rfl

theorem colonThen_nil (mdv : Option Nat) (sf depth : Nat) : colonThen mdv sf depth [] = none := rfl

def objKey (mdv : Option Nat) (sf depth : Nat) : List UInt8 → Option (List UInt8)
  | 34 :: krest => memberThen mdv sf depth krest
  | _ => none

theorem objKey_34 (mdv : Option Nat) (sf depth : Nat) (krest : List UInt8) :
    objKey mdv sf depth (34 :: krest) = memberThen mdv sf depth krest := rfl

theorem objKey_other (mdv : Option Nat) (sf depth : Nat) (b : UInt8) (rest : List UInt8) (hb : b ≠ 34) :
    objKey mdv sf depth (b :: rest) = none := by
  simp only [objKey]
  split
  · next heq => injection heq with h1 _; exact absurd h1 hb
  · rfl

theorem objKey_nil (mdv : Option Nat) (sf depth : Nat) : objKey mdv sf depth [] = none := rfl

theorem scanObj_succ (mdv : Option Nat) (sf depth : Nat) (first : Bool) (l : List UInt8) :
    scanObj mdv (sf + 1) depth first l =
      match skipWs l with
      | [] => none
      | b :: rest =>
        if b == 125 then some rest
        else if first then objKey mdv sf depth (b :: rest)
        else if b == 44 then objKey mdv sf depth (skipWs rest) else none := by
  simp only [scanObj]
  cases skipWs l with
  | nil => rfl
  | cons b rest =>
    simp only []
    by_cases h125 : (b == 125) = true
    · simp only [h125, if_true]
    · simp only [h125, Bool.false_eq_true, if_false]
      cases first with
      | true =>
        simp only [if_true]
        by_cases hb : b = 34
        · subst hb; rfl
        · rw [objKey_other mdv sf depth b rest hb]
          split
          · next heq => injection heq with heq; injection heq with h1 _; exact absurd h1 hb
          · rfl
      | false =>
        simp only [Bool.false_eq_true, if_false]
        by_cases h44 : (b == 44) = true
        · simp only [h44, if_true]
          generalize skipWs rest = x
          cases x with
          | nil => rfl
          | cons d t =>
            by_cases hd : d = 34
            · subst hd; rfl
            · rw [objKey_other mdv sf depth d t hd]
              split
              · next heq => injection heq with heq; injection heq with h1 _; exact absurd h1 hd
              · rfl
        · simp only [h44, Bool.false_eq_true, if_false]

theorem key_step (k : Kind) (t : Tok) (b : UInt8) :
    (machine k).step ⟨.obj, .key t⟩ b = strTr k .obj .key ⟨.obj, .afterKey⟩ t b := rfl

/-- a value inside an object, then the rest of the object -/
theorem obj_value_then {τ} (k : Kind) (hk : k ≠ .fast) (data : Bytes) (h : Handler τ) (sf : Nat)
    (hV : ValueGoal k data h sf) (hO : ObjGoal k data h sf)
    (s : AS) (b : UInt8) (rest : List UInt8) (hstep : (machine k).step s b = startValue k .obj b)
    (fuel p : Nat) (ret : AS) (st : List AS) (r : Regs τ) (hat : At data p (b :: rest)) (hp : r.p = p) (herr : r.err = none)
    (hf : (b :: rest).length + 1 ≤ fuel) (hsf : 2 * (b :: rest).length ≤ sf) :
    Outcome (machine k) data h fuel s (ret :: st) r
      (match scanValue (md k) sf (st.length + 1) (b :: rest) with
        | none => none
        | some r1 => scanObj (md k) sf (st.length + 1) false r1) ret st := by
  have key := hV .obj (vctx_obj k) s b rest hstep fuel p (ret :: st) r hat hp herr hf hsf
  simp only [List.length_cons] at key
  cases hsv : scanValue (md k) sf (st.length + 1) (b :: rest) with
  | none => rw [hsv] at key; exact key
  | some r1 =>
    rw [hsv] at key
    simp only [Outcome] at key
    simp only []
    apply Outcome.after_reach key
    intro f2 p2 hat2 hf2
    have hlt := (scan_progress (md k) sf).1 _ _ _ hsv
    have := hO false r1 f2 p2 ret st { r with p := (p2 : Int) } hat2 rfl herr hf2 (by simp only [List.length_cons] at hlt hsf; omega)
    simpa using this

/-- from inside a key string: key, colon, value, rest of the object -/
theorem obj_member_then {τ} (k : Kind) (hk : k ≠ .fast) (data : Bytes) (h : Handler τ) (hsm : Small data) (sf : Nat)
    (hV : ValueGoal k data h sf) (hO : ObjGoal k data h sf)
    (krest : List UInt8) (fuel p : Nat) (ret : AS) (st : List AS) (r : Regs τ) (hat : At data p krest) (hp : r.p = p)
    (herr : r.err = none) (hf : krest.length + 1 ≤ fuel) (hsf : 2 * krest.length ≤ sf) :
    Outcome (machine k) data h fuel ⟨.obj, .key .str⟩ (ret :: st) r (memberThen (md k) sf (st.length + 1) krest) ret st := by
  have key := str_run k .obj .key ⟨.obj, .afterKey⟩ (fun t b _ => key_step k t b) (fun t _ => rfl)
    data h hsm krest .str rfl fuel p (ret :: st) r hat hp hf
  rw [strScanT_str] at key
  simp only [memberThen]
  cases hs : scanStringBody krest with
  | none => rw [hs] at key; exact key
  | some r1 =>
    rw [hs] at key
    simp only [] at key ⊢
    have hl1 := scanStringBody_length_lt _ _ hs
    apply Outcome.after_reach key
    intro f1 p1 hat1 hf1
    have hws : ∀ b, isWs b = true → (machine k).step ⟨.obj, .afterKey⟩ b = ([], some ⟨.obj, .afterKey⟩) := by
      intro b hw; simp [machine, step, hw]
    have hr := ws_loop (machine k) _ hws data h hsm r1 f1 p1 (ret :: st) ({ r with p := (p1 : Int) } : Regs τ) hat1 rfl hf1
    apply Outcome.after_reach hr
    intro f2 p2 hat2 hf2
    have hlen2 := skipWs_length_le' r1
    cases hsk : skipWs r1 with
    | nil =>
      rw [hsk] at hat2
      rw [colonThen_nil]
      exact Outcome.of_eof k data h f2 _ _ _ p2 rfl hat2 rfl _ _
    | cons b2 r2 =>
      rw [hsk] at hat2 hf2 hlen2
      have hnws := skipWs_cons_of r1 b2 r2 hsk
      obtain ⟨f2, rfl⟩ : ∃ f, f2 = f + 1 := ⟨f2 - 1, by omega⟩
      obtain ⟨hb2, _, hat2'⟩ := hat2.cons_inv
      have hf2' : r2.length + 1 ≤ f2 := by simp only [List.length_cons] at hf2; omega
      by_cases h58 : b2 = 58
      · subst h58
        rw [colonThen_58]
        have hstep : (machine k).step ⟨.obj, .afterKey⟩ 58 = ([], some ⟨.obj, .want false⟩) := by
          simp [machine, step, isWs]
        apply Outcome.of_goto (machine k) data h hsm f2 _ _ _ _ p2 58 r2 rfl hat2 hstep
        have hws3 : ∀ b, isWs b = true → (machine k).step ⟨.obj, .want false⟩ b = ([], some ⟨.obj, .want false⟩) := by
          intro b hw; simp [machine, step, hw]
        have hr3 := ws_loop (machine k) _ hws3 data h hsm r2 f2 (p2 + 1) (ret :: st)
          ({ r with p := ((p2 + 1 : Nat) : Int) } : Regs τ) hat2' rfl hf2'
        apply Outcome.after_reach hr3
        intro f3 p3 hat3 hf3
        have hlen3 := skipWs_length_le' r2
        cases hsk3 : skipWs r2 with
        | nil =>
          rw [hsk3] at hat3
          rw [scanValue_nil]
          exact Outcome.of_eof k data h f3 _ _ _ p3 rfl hat3 rfl _ _
        | cons d t =>
          rw [hsk3] at hat3 hf3 hlen3
          have hnws3 := skipWs_cons_of r2 d t hsk3
          have hstep3 : (machine k).step ⟨.obj, .want false⟩ d = startValue k .obj d := by
            simp [machine, step, hnws3]
          exact obj_value_then k hk data h sf hV hO _ d t hstep3 f3 p3 ret st _ hat3 rfl herr hf3
            (by simp only [List.length_cons] at hlen3 hlen2 ⊢; omega)
      · rw [colonThen_other _ _ _ b2 r2 h58]
        have h58' : (b2 == 58) = false := by simpa using h58
        have hstep : (machine k).step ⟨.obj, .afterKey⟩ b2 = errTr k .obj := by
          simp [machine, step, hnws, h58']
        exact Outcome.of_errTr k .obj data h f2 _ _ _ p2 b2 r2 rfl hat2 hstep _ _

/-- a key is expected at `l` (whitespace skipped): the quote, then the member -/
theorem obj_key_then {τ} (k : Kind) (hk : k ≠ .fast) (data : Bytes) (h : Handler τ) (hsm : Small data) (sf : Nat)
    (hV : ValueGoal k data h sf) (hO : ObjGoal k data h sf) (first : Bool)
    (b : UInt8) (rest : List UInt8) (hnws : isWs b = false) (h125 : first = true → (b == 125) = false)
    (fuel p : Nat) (ret : AS) (st : List AS) (r : Regs τ) (hat : At data p (b :: rest)) (hp : r.p = p)
    (herr : r.err = none) (hf : (b :: rest).length + 1 ≤ fuel) (hsf : 2 * (b :: rest).length ≤ sf) :
    Outcome (machine k) data h fuel ⟨.obj, .wantKey first⟩ (ret :: st) r (objKey (md k) sf (st.length + 1) (b :: rest)) ret st := by
  obtain ⟨fuel, rfl⟩ : ∃ f, fuel = f + 1 := ⟨fuel - 1, by omega⟩
  obtain ⟨hb, _, hat'⟩ := hat.cons_inv
  by_cases h34 : b = 34
  · subst h34
    rw [objKey_34]
    have hstep : (machine k).step ⟨.obj, .wantKey first⟩ 34 = ([], some ⟨.obj, .key .str⟩) := by
      simp [machine, step, isWs]
    apply Outcome.of_goto (machine k) data h hsm fuel _ _ _ _ p 34 rest hp hat hstep
    exact obj_member_then k hk data h hsm sf hV hO rest fuel (p + 1) ret st _ hat' rfl herr
      (by simp only [List.length_cons] at hf; omega) (by simp only [List.length_cons] at hsf; omega)
  · rw [objKey_other _ _ _ b rest h34]
    have h34' : (b == 34) = false := by simpa using h34
    have hstep : (machine k).step ⟨.obj, .wantKey first⟩ b = errTr k .obj := by
      cases first with
      | true => simp [machine, step, hnws, h34', h125 rfl]
      | false => simp [machine, step, hnws, h34']
    exact Outcome.of_errTr k .obj data h fuel _ _ _ p b rest hp hat hstep _ _

theorem obj_step {τ} (k : Kind) (hk : k ≠ .fast) (data : Bytes) (h : Handler τ) (hsm : Small data) (sf : Nat)
    (hV : ValueGoal k data h sf) (hO : ObjGoal k data h sf) : ObjGoal k data h (sf + 1) := by
  intro first l fuel p ret st r hat hp herr hf hsf
  rw [scanObj_succ]
  have hws : ∀ b, isWs b = true → (machine k).step ⟨.obj, if first then .wantKey true else .after⟩ b =
      ([], some ⟨.obj, if first then .wantKey true else .after⟩) := by
    intro b hw
    cases first <;> simp [machine, step, afterTr, hw]
  have hnf : isFinal ⟨.obj, if first then .wantKey true else .after⟩ = false := by cases first <;> rfl
  have hr := ws_loop (machine k) _ hws data h hsm l fuel p (ret :: st) r hat hp hf
  apply Outcome.after_reach hr
  intro fuel' p' hat1 hf1
  have hlen := skipWs_length_le' l
  cases hsk : skipWs l with
  | nil =>
    rw [hsk] at hat1
    exact Outcome.of_eof k data h fuel' _ _ _ p' rfl hat1 hnf _ _
  | cons b rest =>
    rw [hsk] at hat1 hf1 hlen
    have hnws := skipWs_cons_of l b rest hsk
    simp only []
    simp only [List.length_cons] at hlen
    by_cases h125 : (b == 125) = true
    · have hb125 : b = 125 := by simpa using h125
      subst hb125
      obtain ⟨fuel', rfl⟩ : ∃ f, fuel' = f + 1 := ⟨fuel' - 1, by omega⟩
      obtain ⟨hb, hlt, hat'⟩ := hat1.cons_inv
      have hf' : rest.length + 1 ≤ fuel' := by simp only [List.length_cons] at hf1; omega
      simp only [beq_self_eq_true, if_true]
      have hstep : (machine k).step ⟨.obj, if first then .wantKey true else .after⟩ 125 = ([.ret], some ⟨.obj, .done⟩) := by
        cases first <;> simp [machine, step, afterTr, isWs]
      simp only [Outcome]
      unfold Reach
      rw [contL_cons (machine k) data h _ _ _ _ p' 125 rest rfl hat1,
        loopL_ret (machine k) data h fuel' _ _ ret st _ p' 125 rest hsm rfl hat1 hstep]
      exact ⟨fuel', p' + 1, hat', hf', rfl⟩
    · have h125' : (b == 125) = false := by simpa using h125
      simp only [h125', Bool.false_eq_true, if_false]
      cases first with
      | true =>
        simp only [if_true]
        exact obj_key_then k hk data h hsm sf hV hO true b rest hnws (fun _ => h125') fuel' p' ret st _ hat1 rfl herr hf1
          (by simp only [List.length_cons]; omega)
      | false =>
        simp only [Bool.false_eq_true, if_false]
        obtain ⟨fuel', rfl⟩ : ∃ f, fuel' = f + 1 := ⟨fuel' - 1, by omega⟩
        obtain ⟨hb, hlt, hat'⟩ := hat1.cons_inv
        have hf' : rest.length + 1 ≤ fuel' := by simp only [List.length_cons] at hf1; omega
        by_cases h44 : (b == 44) = true
        · have hb44 : b = 44 := by simpa using h44
          subst hb44
          simp only [beq_self_eq_true, if_true]
          have hstep : (machine k).step ⟨.obj, .after⟩ 44 = ([], some ⟨.obj, .wantKey false⟩) := by
            simp [machine, step, afterTr, isWs]
          apply Outcome.of_goto (machine k) data h hsm fuel' _ _ _ _ p' 44 rest rfl hat1 hstep
          have hws2 : ∀ b, isWs b = true → (machine k).step ⟨.obj, .wantKey false⟩ b = ([], some ⟨.obj, .wantKey false⟩) := by
            intro b hw
            simp [machine, step, hw]
          have hr2 := ws_loop (machine k) _ hws2 data h hsm rest fuel' (p' + 1) (ret :: st)
            ({ r with p := ((p' + 1 : Nat) : Int) } : Regs τ) hat' rfl hf'
          apply Outcome.after_reach hr2
          intro f3 p3 hat3 hf3
          have hlen3 := skipWs_length_le' rest
          cases hsk3 : skipWs rest with
          | nil =>
            rw [hsk3] at hat3
            rw [objKey_nil]
            exact Outcome.of_eof k data h f3 _ _ _ p3 rfl hat3 rfl _ _
          | cons d t =>
            rw [hsk3] at hat3 hf3 hlen3
            have hnws3 := skipWs_cons_of rest d t hsk3
            exact obj_key_then k hk data h hsm sf hV hO false d t hnws3 (fun hh => by cases hh) f3 p3 ret st _ hat3 rfl herr hf3
              (by simp only [List.length_cons] at hlen3 ⊢; omega)
        · have h44' : (b == 44) = false := by simpa using h44
          simp only [h44', Bool.false_eq_true, if_false]
          have hstep : (machine k).step ⟨.obj, .after⟩ b = errTr k .obj := by
            simp [machine, step, afterTr, hnws, h44', h125']
          exact Outcome.of_errTr k .obj data h fuel' _ _ _ p' b rest rfl hat1 hstep _ _

/-- the three statements for every scanner fuel -/
theorem skip_goals {τ} (k : Kind) (hk : k ≠ .fast) (data : Bytes) (h : Handler τ) (hsm : Small data) :
    ∀ sf, ValueGoal k data h sf ∧ ArrGoal k data h sf ∧ ObjGoal k data h sf := by
  intro sf
  induction sf with
  | zero =>
    refine ⟨?_, ?_, ?_⟩
    · intro c _ s b rest _ fuel p st r _ _ _ _ hsf
      simp only [List.length_cons] at hsf; omega
    · intro first l fuel p ret st r _ _ _ _ hsf; omega
    · intro first l fuel p ret st r _ _ _ _ hsf; omega
  | succ sf ih =>
    obtain ⟨hV, hA, hO⟩ := ih
    exact ⟨value_step k hk data h hsm sf hA hO, arr_step k hk data h hsm sf hV hA, obj_step k hk data h hsm sf hV hO⟩

end RJson.Abs
