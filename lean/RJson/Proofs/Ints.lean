import RJson.Proofs.Basic
/-!
# Integer readers: the model of `ReadUint64` & co. equals the specification (C05)

`uintLoop1` (at most 18 digits, unchecked) and `uintLoop2` (overflow-checked, `UInt64` wrap-around modelled)
are related to the exact value of the maximal digit run; the public readers follow by unfolding.
-/
namespace RJson.Ints
open RJson.Model RJson.Spec

/-- value of a digit list, most significant first, starting from `acc` -/
theorem digitsVal_append (a b : List UInt8) (acc : Nat) : digitsVal (a ++ b) acc = digitsVal b (digitsVal a acc) := by
  induction a generalizing acc with
  | nil => rfl
  | cons x xs ih => simp [digitsVal, ih]

theorem digitsVal_snoc (a : List UInt8) (x : UInt8) (acc : Nat) :
    digitsVal (a ++ [x]) acc = digitsVal a acc * 10 + (x.toNat - 48) := by
  rw [digitsVal_append]; rfl

theorem digitsVal_lt_acc (a : List UInt8) (h : ∀ x ∈ a, isDigit x = true) (acc : Nat) :
    digitsVal a acc < (acc + 1) * 10 ^ a.length := by
  induction a generalizing acc with
  | nil => simp [digitsVal]
  | cons x xs ih =>
    have hx : isDigit x = true := h x (by simp)
    simp only [isDigit, Bool.and_eq_true, decide_eq_true_eq] at hx
    have h1 : 48 ≤ x.toNat := by simpa using UInt8.le_iff_toNat_le.mp hx.1
    have h2 : x.toNat ≤ 57 := by simpa using UInt8.le_iff_toNat_le.mp hx.2
    have := ih (fun y hy => h y (by simp [hy])) (acc * 10 + (x.toNat - 48))
    simp only [digitsVal, List.length_cons]
    calc digitsVal xs (acc * 10 + (x.toNat - 48)) < (acc * 10 + (x.toNat - 48) + 1) * 10 ^ xs.length := this
      _ ≤ ((acc + 1) * 10) * 10 ^ xs.length := Nat.mul_le_mul_right _ (by omega)
      _ = (acc + 1) * 10 ^ (xs.length + 1) := by rw [Nat.pow_succ, Nat.mul_assoc, Nat.mul_comm 10]

theorem digitsVal_lt (a : List UInt8) (h : ∀ x ∈ a, isDigit x = true) : digitsVal a 0 < 10 ^ a.length := by
  simpa using digitsVal_lt_acc a h 0

theorem takeDigits_all (l : List UInt8) : ∀ x ∈ takeDigits l, isDigit x = true := by
  induction l with
  | nil => simp [takeDigits]
  | cons b rest ih =>
    simp only [takeDigits]
    split
    · next hb => intro x hx; simp at hx; rcases hx with rfl | hx; exact hb; exact ih x hx
    · simp

theorem takeDigits_prefix (l : List UInt8) : takeDigits l = l.take (takeDigits l).length := by
  induction l with
  | nil => simp [takeDigits]
  | cons b rest ih =>
    simp only [takeDigits]
    split
    · simp; exact ih
    · simp

theorem takeDigits_next (l : List UInt8) : ∀ b, (l.drop (takeDigits l).length).head? = some b → isDigit b = false := by
  induction l with
  | nil => simp [takeDigits]
  | cons c rest ih =>
    simp only [takeDigits]
    split
    · simpa using ih
    · next hc => intro b hb; simp at hb; subst hb; simpa using hc

theorem takeDigits_length_le (l : List UInt8) : (takeDigits l).length ≤ l.length := by
  induction l with
  | nil => simp [takeDigits]
  | cons c rest ih => simp only [takeDigits]; split <;> simp <;> omega

/-- digit test as written in the Go loops -/
theorem notDigit_iff (b : UInt8) : (b < 48 || b > 57) = !isDigit b := by
  have h : allBelow (fun n => ((UInt8.ofNat n) < 48 || (UInt8.ofNat n) > 57) == !isDigit (UInt8.ofNat n)) 256 = true := by decide +kernel
  simpa using forall_byte (P := fun b => (b < 48 || b > 57) == !isDigit b) h b

theorem digit_toUInt64 (b : UInt8) (h : isDigit b = true) :
    (b.toUInt64 - 48).toNat = b.toNat - 48 ∧ b.toNat - 48 ≤ 9 := by
  simp only [isDigit, Bool.and_eq_true, decide_eq_true_eq] at h
  have h1 : 48 ≤ b.toNat := by simpa using UInt8.le_iff_toNat_le.mp h.1
  have h2 : b.toNat ≤ 57 := by simpa using UInt8.le_iff_toNat_le.mp h.2
  constructor
  · simp only [UInt64.toNat_sub, UInt8.toNat_toUInt64]
    have : b.toNat < 256 := b.toNat_lt
    simp
    omega
  · omega

theorem byte_at (data : Bytes) (startP k : Nat) : data[startP + k]? = (data.toList.drop startP)[k]? := by
  simp [List.getElem?_drop]

theorem digitsVal_mono (a : List UInt8) (acc : Nat) : acc ≤ digitsVal a acc := by
  induction a generalizing acc with
  | nil => simp [digitsVal]
  | cons x xs ih => simp only [digitsVal]; exact Nat.le_trans (by omega) (ih _)

theorem digitsVal_take_le (ds : List UInt8) (k : Nat) : digitsVal (ds.take k) 0 ≤ digitsVal ds 0 := by
  conv => rhs; rw [← List.take_append_drop k ds]
  rw [digitsVal_append]
  exact digitsVal_mono _ _

theorem take_succ_snoc (ds : List UInt8) (k : Nat) (b : UInt8) (h : ds[k]? = some b) : ds.take (k + 1) = ds.take k ++ [b] := by
  rw [List.take_succ, h]; rfl

theorem step_val (v : Nat) (b : UInt8) (hb : isDigit b = true) (hv : v * 10 + 9 < 2 ^ 64) :
    UInt64.ofNat v * 10 + (b.toUInt64 - 48) = UInt64.ofNat (v * 10 + (b.toNat - 48)) := by
  obtain ⟨hd, h9⟩ := digit_toUInt64 b hb
  apply UInt64.toNat_inj.mp
  simp only [UInt64.toNat_add, UInt64.toNat_mul, UInt64.toNat_ofNat', hd]
  have h1 : v % 2 ^ 64 = v := Nat.mod_eq_of_lt (by omega)
  simp only [UInt64.reduceToNat, h1]
  rw [Nat.mod_eq_of_lt (a := v * 10) (by omega)]

/-- the maximal digit run at `startP`, and what follows it -/
structure Run (data : Bytes) (startP : Nat) (ds : List UInt8) : Prop where
  digits : ∀ x ∈ ds, isDigit x = true
  at_ : ∀ k, k < ds.length → data[startP + k]? = ds[k]?
  stop : ∀ b, data[startP + ds.length]? = some b → isDigit b = false

theorem run_takeDigits (data : Bytes) (startP : Nat) : Run data startP (takeDigits (data.toList.drop startP)) := by
  refine ⟨takeDigits_all _, ?_, ?_⟩
  · intro k hk
    rw [byte_at]
    conv => rhs; rw [takeDigits_prefix (data.toList.drop startP)]
    rw [List.getElem?_take_of_lt hk]
  · intro b hb
    rw [byte_at] at hb
    apply takeDigits_next (data.toList.drop startP) b
    rw [List.head?_drop]; exact hb

theorem uintLoop1_spec (data : Bytes) (startP : Nat) (ds : List UInt8) (hr : Run data startP ds) :
    ∀ fuel k, k ≤ min 18 ds.length → data.size - (startP + k) ≤ fuel →
      uintLoop1 data startP fuel (startP + k) (UInt64.ofNat (digitsVal (ds.take k) 0)) =
        (startP + min 18 ds.length, UInt64.ofNat (digitsVal (ds.take (min 18 ds.length)) 0)) := by
  intro fuel
  induction fuel with
  | zero =>
    intro k hk hf
    -- no input left: the run ends here
    have hnone : data[startP + k]? = none := by simp; omega
    have hkl : k = ds.length := by
      rcases Nat.lt_or_ge k ds.length with hlt | hge
      · have := hr.at_ k hlt
        rw [hnone] at this
        simp [hlt] at this
      · omega
    have : min 18 ds.length = k := by omega
    simp [uintLoop1, this]
  | succ fuel ih =>
    intro k hk hf
    simp only [uintLoop1]
    cases hb : data[startP + k]? with
    | none =>
      have hkl : k = ds.length := by
        rcases Nat.lt_or_ge k ds.length with hlt | hge
        · have := hr.at_ k hlt
          rw [hb] at this
          simp [hlt] at this
        · omega
      have : min 18 ds.length = k := by omega
      simp [this]
    | some b =>
      simp only [Nat.add_sub_cancel_left]
      by_cases h18 : k = 18
      · have : min 18 ds.length = 18 := by omega
        simp [h18, this]
      · have hk18 : (k == 18) = false := by simpa using h18
        simp only [hk18, Bool.false_or, notDigit_iff]
        rcases Nat.lt_or_ge k ds.length with hlt | hge
        · -- a digit of the run
          have hbk : ds[k]? = some b := by rw [← hr.at_ k hlt]; exact hb
          have hdig : isDigit b = true := hr.digits b (List.mem_of_getElem? hbk)
          simp only [hdig, Bool.not_true, Bool.false_eq_true, if_false]
          have hlt10 : digitsVal (ds.take k) 0 < 10 ^ k := by
            have := digitsVal_lt (ds.take k) (fun x hx => hr.digits x (List.mem_of_mem_take hx))
            simpa [List.length_take, Nat.min_eq_left (Nat.le_of_lt hlt)] using this
          have hpow : 10 ^ k ≤ 10 ^ 17 := Nat.pow_le_pow_right (by omega) (by omega)
          rw [step_val _ b hdig (by omega), ← digitsVal_snoc, ← take_succ_snoc ds k b hbk]
          have := ih (k + 1) (by omega) (by omega)
          simpa [Nat.add_assoc] using this
        · -- the run is over
          have hkl : k = ds.length := by omega
          have hnd : isDigit b = false := hr.stop b (by rw [← hkl]; exact hb)
          have : min 18 ds.length = k := by omega
          simp [hnd, this]

theorem cutoff_val : uintCutoff.toNat = 1844674407370955162 := by decide

theorem uintLoop2_spec (data : Bytes) (startP : Nat) (ds : List UInt8) (hr : Run data startP ds) :
    ∀ fuel k, k ≤ ds.length → data.size - (startP + k) ≤ fuel → digitsVal (ds.take k) 0 < 2 ^ 64 →
      (digitsVal ds 0 < 2 ^ 64 →
        uintLoop2 data fuel (startP + k) (UInt64.ofNat (digitsVal (ds.take k) 0)) =
          (startP + ds.length, some (UInt64.ofNat (digitsVal ds 0)))) ∧
      (¬ digitsVal ds 0 < 2 ^ 64 →
        (uintLoop2 data fuel (startP + k) (UInt64.ofNat (digitsVal (ds.take k) 0))).2 = none) := by
  intro fuel
  induction fuel with
  | zero =>
    intro k hk hf hv
    have hnone : data[startP + k]? = none := by simp; omega
    have hkl : k = ds.length := by
      rcases Nat.lt_or_ge k ds.length with hlt | hge
      · have := hr.at_ k hlt
        rw [hnone] at this
        simp [hlt] at this
      · omega
    subst hkl
    simp only [List.take_length] at hv ⊢
    exact ⟨fun _ => by simp [uintLoop2], fun h => absurd hv h⟩
  | succ fuel ih =>
    intro k hk hf hv
    simp only [uintLoop2]
    cases hb : data[startP + k]? with
    | none =>
      have hkl : k = ds.length := by
        rcases Nat.lt_or_ge k ds.length with hlt | hge
        · have := hr.at_ k hlt
          rw [hb] at this
          simp [hlt] at this
        · omega
      subst hkl
      simp only [List.take_length] at hv ⊢
      exact ⟨fun _ => by first | rfl | trivial, fun h => absurd hv h⟩
    | some b =>
      simp only [notDigit_iff]
      rcases Nat.lt_or_ge k ds.length with hlt | hge
      · have hbk : ds[k]? = some b := by rw [← hr.at_ k hlt]; exact hb
        have hdig : isDigit b = true := hr.digits b (List.mem_of_getElem? hbk)
        obtain ⟨hd, h9⟩ := digit_toUInt64 b hdig
        simp only [hdig, Bool.not_true, Bool.false_eq_true, if_false]
        have hnext : digitsVal (ds.take (k + 1)) 0 = digitsVal (ds.take k) 0 * 10 + (b.toNat - 48) := by
          rw [take_succ_snoc ds k b hbk, digitsVal_snoc]
        have hle := digitsVal_take_le ds (k + 1)
        have hvn : (UInt64.ofNat (digitsVal (ds.take k) 0)).toNat = digitsVal (ds.take k) 0 := by
          simp [Nat.mod_eq_of_lt hv]
        by_cases hc : UInt64.ofNat (digitsVal (ds.take k) 0) > uintCutoff
        · -- already too large for another digit
          have : uintCutoff.toNat < digitsVal (ds.take k) 0 := by
            have := UInt64.lt_iff_toNat_lt.mp hc
            rwa [hvn] at this
          rw [cutoff_val] at this
          simp only [hc, if_true]
          exact ⟨fun h => by omega, fun _ => by first | rfl | trivial⟩
        · have hcle : digitsVal (ds.take k) 0 ≤ 1844674407370955162 := by
            have := UInt64.le_iff_toNat_le.mp (UInt64.not_lt.mp hc)
            rwa [hvn, cutoff_val] at this
          simp only [hc, if_false]
          have hnv : (UInt64.ofNat (digitsVal (ds.take k) 0) * 10 + (b.toUInt64 - 48)).toNat =
              (digitsVal (ds.take k) 0 * 10 + (b.toNat - 48)) % 2 ^ 64 := by
            simp only [UInt64.toNat_add, UInt64.toNat_mul, hvn, hd]
            simp
          by_cases hov : digitsVal (ds.take k) 0 * 10 + (b.toNat - 48) < 2 ^ 64
          · have hnv' : UInt64.ofNat (digitsVal (ds.take k) 0) * 10 + (b.toUInt64 - 48) = UInt64.ofNat (digitsVal (ds.take (k + 1)) 0) := by
              apply UInt64.toNat_inj.mp
              rw [hnv, hnext, Nat.mod_eq_of_lt hov]
              simp [Nat.mod_eq_of_lt hov]
            have hnlt : ¬ (UInt64.ofNat (digitsVal (ds.take k) 0) * 10 + (b.toUInt64 - 48)) < UInt64.ofNat (digitsVal (ds.take k) 0) := by
              rw [UInt64.lt_iff_toNat_lt, hnv, hvn, Nat.mod_eq_of_lt hov]; omega
            rw [if_neg hnlt, hnv']
            have := ih (k + 1) (by omega) (by omega) (by rw [hnext]; exact hov)
            simpa [Nat.add_assoc] using this
          · have hlt2 : (UInt64.ofNat (digitsVal (ds.take k) 0) * 10 + (b.toUInt64 - 48)) < UInt64.ofNat (digitsVal (ds.take k) 0) := by
              rw [UInt64.lt_iff_toNat_lt, hnv, hvn]
              omega
            simp only [hlt2, if_true]
            exact ⟨fun h => by omega, fun _ => by first | rfl | trivial⟩
      · have hkl : k = ds.length := by omega
        have hnd : isDigit b = false := hr.stop b (by rw [← hkl]; exact hb)
        subst hkl
        simp only [List.take_length] at hv ⊢
        simp only [hnd, Bool.not_false, if_true]
        exact ⟨fun _ => by first | rfl | trivial, fun h => absurd hv h⟩

/-- the whitespace scan of the model lands exactly on `skipWs` of the remaining input -/
theorem ws_scan (data : Bytes) (off : Nat) (hoff : off ≤ data.size) :
    off ≤ countWsFrom data data.size off ∧ countWsFrom data data.size off ≤ data.size ∧
      data.toList.drop (countWsFrom data data.size off) = skipWs (data.toList.drop off) := by
  have hc := countWsFrom_spec data data.size off hoff (by omega)
  have hle := skipWs_length_le (data.toList.drop off)
  have hlen : (data.toList.drop off).length = data.size - off := by simp
  have hd := C13Aux.drop_skipWs (data.toList.drop off)
  rw [hlen] at hle hd
  rw [List.drop_drop] at hd
  refine ⟨by omega, by omega, ?_⟩
  have e : data.size - (skipWs (data.toList.drop off)).length = off + (data.size - off - (skipWs (data.toList.drop off)).length) := by omega
  rw [hc, e]
  exact hd

def two64 : Nat := 18446744073709551616

theorem two64_eq : two64 = 2 ^ 64 := by decide

/-- reading the byte at `p` when the remaining input is known as a list -/
theorem get_of_drop (data : Bytes) (p : Nat) (b : UInt8) (tl : List UInt8) (h : data.toList.drop p = b :: tl) :
    data[p]! = b ∧ p < data.size ∧ data.toList.drop (p + 1) = tl := by
  have hlt : p < data.size := by
    rcases Nat.lt_or_ge p data.size with hlt | hge
    · exact hlt
    · have : data.toList.drop p = [] := List.drop_eq_nil_of_le (by simpa using hge)
      rw [this] at h; cases h
  have h1 : data[p]? = some b := by rw [getElem?_eq_drop_head, h]; rfl
  refine ⟨by simp [getElem!_def, h1], hlt, ?_⟩
  have : data.toList.drop (p + 1) = (data.toList.drop p).drop 1 := by rw [List.drop_drop]
  rw [this, h]; rfl

theorem drop_nil_iff (data : Bytes) (p : Nat) (hp : p ≤ data.size) : data.toList.drop p = [] ↔ p = data.size := by
  constructor
  · intro h
    have := congrArg List.length h
    simp at this; omega
  · intro h; subst h; exact List.drop_eq_nil_of_le (by simp)

/-- what the reader must return for a given result of the specification's token scanner -/
def Agrees (r : R UInt64) (sz off : Nat) : Option (Nat × List UInt8) → Prop
  | some (v, rest) =>
    if v < two64 then r.err = none ∧ r.val.toNat = v ∧ r.p = ((sz - off - rest.length : Nat) : Int) ∧ r.panicked = false
    else r.err.isSome = true ∧ r.panicked = false
  | none => r.err.isSome = true ∧ r.panicked = false

theorem uintToken_zero (tl : List UInt8) :
    uintToken (48 :: tl) = match tl with
      | c :: _ => if c == 46 || c == 101 || c == 69 then none else some (0, tl)
      | [] => some (0, tl) := by
  cases tl <;> simp [uintToken, uintDigitsOf, digitsVal]

theorem uintToken_nonzero (b0 : UInt8) (tl : List UInt8) (hz : b0 ≠ 48) :
    uintToken (b0 :: tl) =
      if (takeDigits (b0 :: tl)).isEmpty then none
      else match (b0 :: tl).drop (takeDigits (b0 :: tl)).length with
        | c :: _ => if c == 46 || c == 101 || c == 69 then none
                    else some (digitsVal (takeDigits (b0 :: tl)) 0, (b0 :: tl).drop (takeDigits (b0 :: tl)).length)
        | [] => some (digitsVal (takeDigits (b0 :: tl)) 0, (b0 :: tl).drop (takeDigits (b0 :: tl)).length) := by
  simp only [uintToken, uintDigitsOf]
  by_cases h19 : (decide (49 ≤ b0) && decide (b0 ≤ 57)) = true
  · simp only [h19, if_true]
    rfl
  · have hnd : isDigit b0 = false := by
      apply Bool.eq_false_iff.mpr
      intro hd
      apply h19
      simp only [isDigit, Bool.and_eq_true, decide_eq_true_eq] at hd ⊢
      refine ⟨?_, hd.2⟩
      have h1 : 48 ≤ b0.toNat := by simpa using UInt8.le_iff_toNat_le.mp hd.1
      have h2 : b0.toNat ≠ 48 := fun h => hz (by apply UInt8.toNat_inj.mp; simpa using h)
      apply UInt8.le_iff_toNat_le.mpr
      simp; omega
    have hnil : takeDigits (b0 :: tl) = [] := by simp [takeDigits, hnd]
    simp only [h19, Bool.false_eq_true, if_false, hnil]
    simp

/-- both digit loops compute the exact value of the maximal digit run, or report overflow -/
theorem uintDigits_spec (data : Bytes) (p : Nat) (ds : List UInt8) (hr : Run data p ds) (hp : p ≤ data.size) :
    (digitsVal ds 0 < two64 → uintDigits data p = (p + ds.length, some (UInt64.ofNat (digitsVal ds 0)))) ∧
    (¬ digitsVal ds 0 < two64 → (uintDigits data p).2 = none) := by
  have h1 := uintLoop1_spec data p ds hr (data.size - p) 0 (by omega) (by omega)
  simp only [Nat.add_zero, List.take_zero, digitsVal] at h1
  have h1' : uintLoop1 data p (data.size - p) p 0 = (p + min 18 ds.length, UInt64.ofNat (digitsVal (List.take (min 18 ds.length) ds) 0)) := by
    simpa using h1
  unfold uintDigits
  simp only [h1', Nat.add_sub_cancel_left]
  by_cases h18 : 18 ≤ ds.length
  · have hmin : min 18 ds.length = 18 := by omega
    simp only [hmin, beq_self_eq_true, if_true]
    have hlt18 : digitsVal (ds.take 18) 0 < 2 ^ 64 := by
      have := digitsVal_lt (ds.take 18) (fun x hx => hr.digits x (List.mem_of_mem_take hx))
      simp only [List.length_take, Nat.min_eq_left h18] at this
      have h2 : (10 : Nat) ^ 18 < 2 ^ 64 := by decide
      omega
    have := uintLoop2_spec data p ds hr (data.size - (p + 18)) 18 h18 (by omega) hlt18
    rw [two64_eq]
    exact this
  · have hmin : min 18 ds.length = ds.length := by omega
    have hne18 : (ds.length == 18) = false := by simp; omega
    simp only [hmin, hne18, Bool.false_eq_true, if_false, List.take_length]
    have hlt : digitsVal ds 0 < two64 := by
      have := digitsVal_lt ds hr.digits
      have hp : (10 : Nat) ^ ds.length ≤ 10 ^ 17 := Nat.pow_le_pow_right (by omega) (by omega)
      have h2 : (10 : Nat) ^ 17 < two64 := by decide
      omega
    exact ⟨fun _ => by first | rfl | trivial, fun h => absurd hlt h⟩

theorem isDotOrExp_eq (c : UInt8) : isDotOrExp c = (c == 46 || c == 101 || c == 69) := rfl

/-- the specification's "not followed by `.`/`e`/`E`" test against the model's byte test after the token -/
theorem follow_check (data : Bytes) (off q : Nat) (hq : q ≤ data.size) (hoq : off ≤ q) (val : UInt64) (v : Nat) (hv : val.toNat = v) (hv2 : v < two64) :
    Agrees (if q == data.size then ({ val := val, p := (q - off : Nat), err := none } : R UInt64)
            else if isDotOrExp data[q]! then { val := 0, p := (q - off : Nat), err := some .invalidUInt }
            else { val := val, p := (q - off : Nat), err := none })
      data.size off
      (match data.toList.drop q with
        | c :: _ => if c == 46 || c == 101 || c == 69 then none else some (v, data.toList.drop q)
        | [] => some (v, data.toList.drop q)) := by
  cases hl : data.toList.drop q with
  | nil =>
    have hqe : q = data.size := (drop_nil_iff data q hq).mp hl
    simp only [hqe, beq_self_eq_true, if_true, Agrees, hv2, hv, List.length_nil]
    refine ⟨trivial, trivial, ?_, trivial⟩
    simp
  | cons c rest =>
    obtain ⟨hc, hqlt, _⟩ := get_of_drop data q c rest hl
    have hne : (q == data.size) = false := by simp; omega
    have hlen : (c :: rest).length = data.size - q := by rw [← hl]; simp
    simp only [hne, Bool.false_eq_true, if_false, hc, isDotOrExp_eq]
    by_cases hdot : (c == 46 || c == 101 || c == 69) = true
    · simp [hdot, Agrees]
    · simp only [hdot, Bool.false_eq_true, if_false, Agrees, hv2, if_true, hv]
      refine ⟨trivial, trivial, ?_, trivial⟩
      simp only [List.length_cons] at hlen ⊢
      congr 1
      omega

/-- the model of `ReadUint64(data[off:])` agrees with the specification's unsigned token scanner -/
theorem readUint64From_spec (data : Bytes) (off : Nat) (hoff : off ≤ data.size) :
    Agrees (readUint64From data off) data.size off (uintToken (skipWs (data.toList.drop off))) := by
  obtain ⟨hp1, hp2, hdrop⟩ := ws_scan data off hoff
  unfold readUint64From
  simp only []
  generalize hp : countWsFrom data data.size off = p at hp1 hp2 hdrop
  rw [← hdrop]
  cases hl : data.toList.drop p with
  | nil =>
    have hpe : p = data.size := (drop_nil_iff data p hp2).mp hl
    simp [hpe, uintToken, uintDigitsOf, Agrees]
  | cons b0 tl =>
    obtain ⟨hb0, hplt, htl⟩ := get_of_drop data p b0 tl hl
    have hne : (p == data.size) = false := by simp; omega
    simp only [hne, Bool.false_eq_true, if_false, hb0]
    by_cases hz : b0 = 48
    · subst hz
      simp only [beq_self_eq_true, if_true, uintToken_zero]
      have := follow_check data off (p + 1) (by omega) (by omega) 0 0 rfl (by decide)
      rw [htl] at this
      unfold uintZero
      exact this
    · have hnz : (b0 == 48) = false := by simpa using hz
      simp only [hnz, Bool.false_eq_true, if_false, uintToken_nonzero b0 tl hz]
      have hrun := run_takeDigits data p
      rw [hl] at hrun
      generalize hds : takeDigits (b0 :: tl) = ds at hrun
      obtain ⟨hok, hbad⟩ := uintDigits_spec data p ds hrun hp2
      have hdsl : ds.length ≤ (b0 :: tl).length := by rw [← hds]; exact takeDigits_length_le _
      have hlen : (b0 :: tl).length = data.size - p := by rw [← hl]; simp
      by_cases hempty : ds = []
      · subst hempty
        have h0 := hok (by simp [digitsVal, two64])
        simp only [List.length_nil, Nat.add_zero, digitsVal] at h0
        simp [h0, uintFinish, Agrees]
      · have hnonempty : ds.isEmpty = false := by cases ds <;> simp_all
        have hposlen : 0 < ds.length := by cases ds <;> simp_all
        simp only [hnonempty, Bool.false_eq_true, if_false]
        by_cases hv : digitsVal ds 0 < two64
        · rw [hok hv]
          simp only [uintFinish, Nat.add_sub_cancel_left]
          have hne0 : (ds.length == 0) = false := by simp; omega
          simp only [hne0, Bool.false_eq_true, if_false]
          have := follow_check data off (p + ds.length) (by omega) (by omega) (UInt64.ofNat (digitsVal ds 0)) (digitsVal ds 0)
            (by simp only [UInt64.toNat_ofNat']; exact Nat.mod_eq_of_lt (by rw [← two64_eq]; exact hv)) hv
          rw [← List.drop_drop, hl] at this
          exact this
        · have hnone := hbad hv
          generalize uintDigits data p = res at hnone
          obtain ⟨pend, val?⟩ := res
          simp only at hnone
          subst hnone
          simp only []
          split <;> simp_all [Agrees] <;> (try (split <;> simp_all))

end RJson.Ints
