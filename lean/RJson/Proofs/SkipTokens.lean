import RJson.Proofs.Step
import RJson.Model.Abs
import RJson.Spec.Scanner
/-!
# Token-level behaviour of the abstract machines against the scanner

For a state of the abstract machine that stands inside / in front of a token, running the machine over the
input either reaches the state after the token at the position where the scanner says the token ends, or
ends with an error exactly when the scanner rejects. Generic in the machine kind and the context wherever the
transition function is; used by the container induction of `Proofs/SkipValue.lean`.
-/
namespace RJson.Abs
open RJson.Ragel RJson.Spec

def IsErr {τ} (res : Result τ) : Prop := ∃ e, res.kind = .err e

theorem finish_err {τ} (r : Regs τ) (e : Err) (h : r.err = some e) : IsErr r.finish :=
  ⟨e, by simp [Regs.finish, h]⟩

/-- taking the error transition of a context ends the run with an error -/
theorem errTr_stops {τ} (k : Kind) (c : Ctx) (data : Bytes) (h : Handler τ) (fuel : Nat) (cs : AS) (st : List AS) (r : Regs τ)
    (b : UInt8) (hb : getByte data r.p = some b) (hs : (machine k).step cs b = errTr k c) :
    IsErr (loopL (machine k) data h (fuel + 1) cs st r) := by
  rw [loopL_succ (machine k) data h fuel cs st r b hb, hs]
  cases c <;> simp [errTr, execActsL, execSimple, SAct.isHandler, IsErr, Regs.stop, Regs.finish]

/-- end of input in a non-final state ends the run with an error -/
theorem eof_stops {τ} (k : Kind) (s : AS) (data : Bytes) (h : Handler τ) (r : Regs τ) (hnf : isFinal s = false) :
    IsErr (runEof data (machine k).hasField h ((machine k).eof s) r) := by
  simp only [machine, eof, hnf, Bool.false_eq_true, if_false]
  cases hc : s.ctx <;> simp [eofActs, runEof, execSimple, IsErr, Regs.stop, Regs.finish]

/-! ## strings -/

/-- the string scanner, one byte at a time, indexed by the machine's string sub-state -/
def strScanT : Tok → List UInt8 → Option (List UInt8)
  | _, [] => none
  | .str, x :: r =>
    if x == 34 then some r else if x == 92 then strScanT .esc r else if x < 32 then none else strScanT .str r
  | .esc, x :: r =>
    if x == 117 then strScanT (.u 0) r else if isEscB x then strScanT .str r else none
  | .u n, x :: r =>
    if isHexB x then strScanT (if n ≥ 3 then .str else .u (n + 1)) r else none
  | _, _ :: _ => none

theorem isEscB_eq (b : UInt8) : isEscB b = isSimpleEscape b := rfl
theorem isHexB_eq (b : UInt8) : isHexB b = isHex b := rfl

theorem strScanT_u (n : Nat) (hn : n ≤ 3) : ∀ (l : List UInt8),
    strScanT (.u n) l =
      if (4 - n) ≤ l.length ∧ (l.take (4 - n)).all isHex then strScanT .str (l.drop (4 - n)) else none := by
  induction hk : 3 - n generalizing n with
  | zero =>
    intro l
    have : n = 3 := by omega
    subst this
    cases l with
    | nil => simp [strScanT]
    | cons x r =>
      simp only [strScanT, isHexB_eq]
      by_cases hx : isHex x = true
      · simp [hx]
      · simp [hx]
  | succ m ih =>
    intro l
    cases l with
    | nil => simp [strScanT]
    | cons x r =>
      simp only [strScanT, isHexB_eq]
      have hn3 : ¬ n ≥ 3 := by omega
      simp only [hn3, if_false]
      rw [ih (n + 1) (by omega) (by omega) r]
      have e1 : 4 - n = (4 - (n + 1)) + 1 := by omega
      by_cases hx : isHex x = true
      · simp only [hx, if_true, e1, List.take_succ_cons, List.all_cons, Bool.true_and, List.drop_succ_cons, List.length_cons]
        simp only [Nat.add_le_add_iff_right]
      · simp [hx, e1]

theorem scanStringBody_u (r2 : List UInt8) :
    scanStringBody (92 :: 117 :: r2) =
      if 4 ≤ r2.length ∧ (r2.take 4).all isHex then scanStringBody (r2.drop 4) else none := by
  match r2 with
  | [] => simp [scanStringBody, isSimpleEscape]
  | [a] => simp [scanStringBody, isSimpleEscape]
  | [a, b] => simp [scanStringBody, isSimpleEscape]
  | [a, b, c] => simp [scanStringBody, isSimpleEscape]
  | a :: b :: c :: d :: rest =>
    simp only [scanStringBody, List.length_cons, List.take_succ_cons, List.take_zero, List.all_cons, List.all_nil,
      Bool.and_true, List.drop_succ_cons, List.drop_zero]
    have hl : 4 ≤ rest.length + 1 + 1 + 1 + 1 := by omega
    simp only [hl, true_and, Bool.and_assoc]

theorem scanStringBody_esc (e : UInt8) (r2 : List UInt8) (hu : e ≠ 117) :
    scanStringBody (92 :: e :: r2) = if isSimpleEscape e then scanStringBody r2 else none := by
  conv => lhs; unfold scanStringBody
  split
  case h_6 x rest _ _ hesc _ heq =>
    injection heq with h1 h2
    exact absurd h2.symm (hesc e r2 h1.symm)
  all_goals simp_all

theorem scanStringBody_plain (x : UInt8) (r : List UInt8) (h34 : x ≠ 34) (h92 : x ≠ 92) :
    scanStringBody (x :: r) = if x < 32 then none else scanStringBody r := by
  conv => lhs; unfold scanStringBody
  split
  case h_6 x' rest _ _ _ _ heq =>
    injection heq with h1 h2
    subst h1 h2
    rfl
  all_goals simp_all

/-- the byte-at-a-time string scanner is the specification's `scanStringBody` -/
theorem strScanT_str : ∀ (l : List UInt8), strScanT .str l = scanStringBody l := by
  intro l
  induction hlen : l.length using Nat.strongRecOn generalizing l with
  | _ len ih =>
    cases l with
    | nil => simp [strScanT, scanStringBody]
    | cons x r =>
      by_cases h34 : x = 34
      · subst h34; simp [strScanT, scanStringBody]
      · by_cases h92 : x = 92
        · subst h92
          have hne : ((92 : UInt8) == 34) = false := by decide
          simp only [strScanT, hne, Bool.false_eq_true, if_false, beq_self_eq_true, if_true]
          cases r with
          | nil => simp [strScanT, scanStringBody]
          | cons e r2 =>
            by_cases hu : e = 117
            · subst hu
              simp only [strScanT, beq_self_eq_true, if_true]
              rw [strScanT_u 0 (by omega), scanStringBody_u]
              simp only [Nat.sub_zero]
              split
              · next hc =>
                have : (r2.drop 4).length < len := by simp at hlen ⊢; omega
                exact ih _ this _ rfl
              · rfl
            · have hu' : (e == 117) = false := by simpa using hu
              simp only [strScanT, hu', Bool.false_eq_true, if_false, isEscB_eq]
              rw [scanStringBody_esc e r2 hu]
              by_cases hes : isSimpleEscape e = true
              · simp only [hes, if_true]
                exact ih r2.length (by simp at hlen; omega) r2 rfl
              · simp [hes]
        · have h34' : (x == 34) = false := by simpa using h34
          have h92' : (x == 92) = false := by simpa using h92
          simp only [strScanT, h34', h92', Bool.false_eq_true, if_false]
          rw [scanStringBody_plain x r h34 h92]
          by_cases hc : x < 32
          · simp [hc]
          · simp only [hc, if_false]
            exact ih r.length (by simp at hlen; omega) r rfl

def Tok.isStr : Tok → Bool
  | .str | .esc | .u _ => true
  | _ => false

/-- the machine's string states against the byte-at-a-time scanner: `closed` is reached exactly where the
    scanner says the string ends; a rejected string ends the run with an error -/
theorem str_run {τ} (k : Kind) (c : Ctx) (mk : Tok → Pos) (closed : AS)
    (hstep : ∀ t b, t.isStr = true → (machine k).step ⟨c, mk t⟩ b = strTr k c mk closed t b)
    (hnf : ∀ t, t.isStr = true → isFinal ⟨c, mk t⟩ = false)
    (data : Bytes) (h : Handler τ) (hsm : Small data) :
    ∀ (l : List UInt8) (t : Tok), t.isStr = true → ∀ (fuel p : Nat) (st : List AS) (r : Regs τ),
      At data p l → r.p = p → l.length + 1 ≤ fuel →
      match strScanT t l with
      | some rest => Reach (machine k) data h fuel ⟨c, mk t⟩ st r rest closed st
      | none => IsErr (contL (machine k) data h fuel ⟨c, mk t⟩ st r) := by
  intro l
  induction l with
  | nil =>
    intro t ht fuel p st r hat hp _
    rw [contL_nil (machine k) data h _ _ _ r p hp hat]
    have : strScanT t [] = none := by cases t <;> rfl
    rw [this]
    exact eof_stops k _ data h r (hnf t ht)
  | cons x rest ih =>
    intro t ht fuel p st r hat hp hf
    unfold Reach
    rw [contL_cons (machine k) data h _ _ _ r p x rest hp hat]
    obtain ⟨fuel, rfl⟩ : ∃ f, fuel = f + 1 := ⟨fuel - 1, by omega⟩
    obtain ⟨hb, hlt, hat'⟩ := hat.cons_inv
    have hb' : getByte data r.p = some x := by rw [hp]; exact hb
    have hf' : rest.length + 1 ≤ fuel := by simp only [List.length_cons] at hf; omega
    have hlen' := hat'.length
    -- a transition without actions to another string state continues by induction
    have goto : ∀ (t' : Tok), t'.isStr = true → (machine k).step ⟨c, mk t⟩ x = ([], some ⟨c, mk t'⟩) →
        match strScanT t' rest with
        | some rest' => ∃ (fuel' p' : Nat), At data p' rest' ∧ rest'.length + 1 ≤ fuel' ∧
            loopL (machine k) data h (fuel + 1) ⟨c, mk t⟩ st r =
              contL (machine k) data h fuel' closed st { r with p := (p' : Int) }
        | none => IsErr (loopL (machine k) data h (fuel + 1) ⟨c, mk t⟩ st r) := by
      intro t' ht' hs
      rw [loopL_goto (machine k) data h fuel _ _ st r p x rest hsm hp hat hs]
      exact ih t' ht' fuel (p + 1) st { r with p := ((p + 1 : Nat) : Int) } hat' rfl hf'
    have hst := hstep t x ht
    cases t with
    | str =>
      simp only [strTr] at hst
      simp only [strScanT]
      by_cases h34 : x = 34
      · subst h34
        simp only [beq_self_eq_true, if_true] at hst ⊢
        refine ⟨fuel, p + 1, hat', hf', ?_⟩
        rw [loopL_goto (machine k) data h fuel _ _ st r p 34 rest hsm hp hat hst]
      · have h34' : (x == 34) = false := by simpa using h34
        simp only [h34', Bool.false_eq_true, if_false] at hst ⊢
        by_cases h92 : x = 92
        · subst h92
          simp only [beq_self_eq_true, if_true] at hst ⊢
          exact goto .esc rfl hst
        · have h92' : (x == 92) = false := by simpa using h92
          simp only [h92', Bool.false_eq_true, if_false] at hst ⊢
          by_cases hc : x < 32
          · simp only [hc, if_true] at hst ⊢
            exact errTr_stops k c data h fuel _ st r x hb' hst
          · simp only [hc, if_false] at hst ⊢
            exact goto .str rfl hst
    | esc =>
      simp only [strTr] at hst
      simp only [strScanT]
      by_cases hu : x = 117
      · subst hu
        simp only [beq_self_eq_true, if_true] at hst ⊢
        exact goto (.u 0) rfl hst
      · have hu' : (x == 117) = false := by simpa using hu
        simp only [hu', Bool.false_eq_true, if_false] at hst ⊢
        by_cases he : isEscB x = true
        · simp only [he, if_true] at hst ⊢
          exact goto .str rfl hst
        · simp only [he, Bool.false_eq_true, if_false] at hst ⊢
          exact errTr_stops k c data h fuel _ st r x hb' hst
    | u n =>
      simp only [strTr] at hst
      simp only [strScanT]
      by_cases hh : isHexB x = true
      · simp only [hh, if_true] at hst ⊢
        by_cases hn : n ≥ 3
        · simp only [hn, if_true] at hst ⊢
          exact goto .str rfl hst
        · simp only [hn, if_false] at hst ⊢
          exact goto (.u (n + 1)) rfl hst
      · simp only [hh, Bool.false_eq_true, if_false] at hst ⊢
        exact errTr_stops k c data h fuel _ st r x hb' hst
    | _ => cases ht

end RJson.Abs
