import RJson.Model.Ragel
import RJson.Proofs.Basic
/-!
# Stepping lemmas for the list runner (used by the proofs that relate abstract machines to the scanner)

`At data p l`: the input from position `p` on is the list `l`. Lemmas to read the next byte, to take a
transition without actions, to leave through the error state, and to finish at end of input. Positions stay far
below 2^63 (`Small data`), so Go's `int` wrap-around is the identity on them.
-/
namespace RJson.Ragel

/-- inputs shorter than 2^62 bytes (trusted base: a Go slice cannot be longer than 2^63 - 1 anyway) -/
def Small (data : Bytes) : Prop := data.size < 4611686018427387904

theorem wrap64_id (x : Int) (h0 : -9223372036854775808 ≤ x) (h1 : x < 9223372036854775808) : wrap64 x = x := by
  unfold wrap64
  omega

structure At (data : Bytes) (p : Nat) (l : List UInt8) : Prop where
  le : p ≤ data.size
  eq : data.toList.drop p = l

theorem At.length {data : Bytes} {p : Nat} {l : List UInt8} (h : At data p l) : l.length = data.size - p := by
  rw [← h.eq]; simp

theorem At.nil_inv {data : Bytes} {p : Nat} (h : At data p []) : p = data.size := by
  have := h.length; simp at this; have := h.le; omega

theorem At.cons_inv {data : Bytes} {p : Nat} {b : UInt8} {l : List UInt8} (h : At data p (b :: l)) :
    getByte data p = some b ∧ p < data.size ∧ At data (p + 1) l := by
  have hlen := h.length
  simp at hlen
  have hlt : p < data.size := by omega
  have h1 : data[p]? = some b := by rw [getElem?_eq_drop_head, h.eq]; rfl
  refine ⟨?_, hlt, ⟨by omega, ?_⟩⟩
  · simp only [getByte]
    have : (0 : Int) ≤ (p : Int) ∧ (p : Int) < (data.size : Int) := by omega
    simp only [this, and_self, if_true, Int.toNat_natCast, h1]
  · have : data.toList.drop (p + 1) = (data.toList.drop p).drop 1 := by rw [List.drop_drop]
    rw [this, h.eq]; rfl

theorem At.start (data : Bytes) : At data 0 data.toList := ⟨by omega, rfl⟩

theorem At.of_drop {data : Bytes} {p : Nat} (hp : p ≤ data.size) : At data p (data.toList.drop p) := ⟨hp, rfl⟩

/-- one step of the list runner, with the byte made explicit -/
theorem loopL_succ {σ τ} (M : PDM σ) (data : Bytes) (h : Handler τ) (fuel : Nat) (cs : σ) (st : List σ) (r : Regs τ)
    (b : UInt8) (hb : getByte data r.p = some b) :
    loopL M data h (fuel + 1) cs st r =
      match execActsL M data h (M.step cs b).1 (M.step cs b).2 st r with
      | .stop res => res
      | .next none _ r' => r'.finish
      | .next (some n) st' r' =>
        if ({ r' with p := wrap64 (r'.p + 1) } : Regs τ).p == (data.size : Int) then
          runEof data M.hasField h (M.eof n) { r' with p := wrap64 (r'.p + 1) }
        else loopL M data h fuel n st' { r' with p := wrap64 (r'.p + 1) } := by
  simp only [loopL, hb]
  rfl

/-- "continue in state `n`": eof actions if the input is exhausted, else the loop -/
def contL {σ τ} (M : PDM σ) (data : Bytes) (h : Handler τ) (fuel : Nat) (n : σ) (st : List σ) (r : Regs τ) : Result τ :=
  if r.p == (data.size : Int) then runEof data M.hasField h (M.eof n) r else loopL M data h fuel n st r

theorem runL_eq_contL {σ τ} (M : PDM σ) (data : Bytes) (h : Handler τ) (dst : Bytes) (hs : τ) :
    runL M data h dst hs = contL M data h (fuelFor data) M.start [] (initRegs dst hs) := by
  simp only [runL, contL, initRegs]
  by_cases h0 : data.size = 0
  · simp [h0]
  · have : ¬ ((0 : Int) = (data.size : Int)) := by omega
    simp [h0, this]

theorem contL_nil {σ τ} (M : PDM σ) (data : Bytes) (h : Handler τ) (fuel : Nat) (n : σ) (st : List σ) (r : Regs τ)
    (p : Nat) (hp : r.p = p) (hat : At data p []) :
    contL M data h fuel n st r = runEof data M.hasField h (M.eof n) r := by
  have := hat.nil_inv
  simp [contL, hp, this]

theorem contL_cons {σ τ} (M : PDM σ) (data : Bytes) (h : Handler τ) (fuel : Nat) (n : σ) (st : List σ) (r : Regs τ)
    (p : Nat) (b : UInt8) (l : List UInt8) (hp : r.p = p) (hat : At data p (b :: l)) :
    contL M data h fuel n st r = loopL M data h fuel n st r := by
  obtain ⟨_, hlt, _⟩ := hat.cons_inv
  have : ¬ ((p : Int) = (data.size : Int)) := by omega
  simp [contL, hp, this]

/-- a transition without actions to state `n` -/
theorem loopL_goto {σ τ} (M : PDM σ) (data : Bytes) (h : Handler τ) (fuel : Nat) (cs n : σ) (st : List σ) (r : Regs τ)
    (p : Nat) (b : UInt8) (l : List UInt8) (hsm : Small data) (hp : r.p = p) (hat : At data p (b :: l))
    (hs : M.step cs b = ([], some n)) :
    loopL M data h (fuel + 1) cs st r = contL M data h fuel n st { r with p := ((p + 1 : Nat) : Int) } := by
  obtain ⟨hb, hlt, _⟩ := hat.cons_inv
  rw [loopL_succ M data h fuel cs st r b (by rw [hp]; exact hb), hs]
  simp only [execActsL, contL]
  have hw : wrap64 (r.p + 1) = ((p + 1 : Nat) : Int) := by
    rw [hp, wrap64_id] <;> (unfold Small at hsm; omega)
  simp only [hw]

/-- a transition without actions into the error state: the run ends without consuming the byte -/
theorem loopL_exit {σ τ} (M : PDM σ) (data : Bytes) (h : Handler τ) (fuel : Nat) (cs : σ) (st : List σ) (r : Regs τ)
    (b : UInt8) (hb : getByte data r.p = some b) (hs : M.step cs b = ([], none)) :
    loopL M data h (fuel + 1) cs st r = r.finish := by
  rw [loopL_succ M data h fuel cs st r b hb, hs]
  simp only [execActsL]

/-- an `errReturn` transition -/
theorem loopL_errReturn {σ τ} (M : PDM σ) (data : Bytes) (h : Handler τ) (fuel : Nat) (cs : σ) (st : List σ) (r : Regs τ)
    (b : UInt8) (e : Err) (tgt : Option σ) (hb : getByte data r.p = some b) (hs : M.step cs b = ([.s (.errReturn e)], tgt)) :
    loopL M data h (fuel + 1) cs st r = { r.stop (.err e) r.p #[] with val := false } := by
  rw [loopL_succ M data h fuel cs st r b hb, hs]
  simp [execActsL, execSimple, SAct.isHandler]

/-- from `(s, st)` with registers `r` the run gets to `(s', st')` in front of `rest`, all other registers unchanged -/
def Reach {σ τ} (M : PDM σ) (data : Bytes) (h : Handler τ) (fuel : Nat) (s : σ) (st : List σ) (r : Regs τ)
    (rest : List UInt8) (s' : σ) (st' : List σ) : Prop :=
  ∃ (fuel' p' : Nat), At data p' rest ∧ rest.length + 1 ≤ fuel' ∧
    contL M data h fuel s st r = contL M data h fuel' s' st' { r with p := (p' : Int) }

theorem setp_self {τ} (r : Regs τ) (q : Int) (h : r.p = q) : { r with p := q } = r := by
  cases r; simp_all

theorem Reach.refl {σ τ} (M : PDM σ) (data : Bytes) (h : Handler τ) (fuel : Nat) (s : σ) (st : List σ) (r : Regs τ)
    (p : Nat) (l : List UInt8) (hat : At data p l) (hp : r.p = p) (hf : l.length + 1 ≤ fuel) :
    Reach M data h fuel s st r l s st :=
  ⟨fuel, p, hat, hf, by rw [setp_self r _ hp]⟩

/-- `Reach` composes -/
theorem Reach.trans {σ τ} {M : PDM σ} {data : Bytes} {h : Handler τ} {fuel : Nat} {s : σ} {st : List σ} {r : Regs τ}
    {mid : List UInt8} {s1 : σ} {st1 : List σ} {rest : List UInt8} {s2 : σ} {st2 : List σ}
    (h1 : Reach M data h fuel s st r mid s1 st1)
    (h2 : ∀ (fuel' p' : Nat), At data p' mid → mid.length + 1 ≤ fuel' →
      Reach M data h fuel' s1 st1 { r with p := (p' : Int) } rest s2 st2) :
    Reach M data h fuel s st r rest s2 st2 := by
  obtain ⟨f1, p1, hat1, hf1, e1⟩ := h1
  obtain ⟨f2, p2, hat2, hf2, e2⟩ := h2 f1 p1 hat1 hf1
  exact ⟨f2, p2, hat2, hf2, by rw [e1, e2]⟩

/-- a view of a suffix -/
theorem at_of_suffix {data : Bytes} {p : Nat} {l r : List UInt8} (h : At data p l) (hs : r <:+ l) :
    At data (data.size - r.length) r := by
  obtain ⟨t, rfl⟩ := hs
  have hlen := h.length
  have hle := h.le
  simp only [List.length_append] at hlen
  refine ⟨by omega, ?_⟩
  have : data.size - r.length = p + t.length := by omega
  rw [this, ← List.drop_drop, h.eq, List.drop_left]

end RJson.Ragel
