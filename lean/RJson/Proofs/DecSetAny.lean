import RJson.Proofs.DecSet
import RJson.Proofs.ParseSlow
/-!
# `decimal.set` on literals of any length: the value, when nothing but zeros is dropped

`set` keeps the first 800 significant digits; the sticky flag `trunc` records a dropped non-zero digit. When the flag
is off the decimal stands for the literal's exact value — whatever the length of the literal (dropped integer zeros are
counted into the decimal point, dropped fraction zeros do not matter). With `Dec.floatBits_spec` this removes the
length bound from the slow-path theorem: an exact run is correctly rounded.
-/
namespace RJson.Dec
open RJson.FP RJson.Spec RJson.NumShape RJson.FloatValue RJson.FloatSyntax RJson.Ragel RJson.Abs RJson.HelpersSpec
open RJson.ParseFast

/-- once the buffer is full nothing but the flag and the counter moves -/
theorem pushAnyL_full (sawdot : Bool) : ∀ (ds : List UInt8) (st : Decimal × Nat), allDigits ds → st.1.nd = st.1.d.size → 1 ≤ st.1.nd →
    let st' := pushAnyL sawdot ds st
    st'.1.d = st.1.d ∧ st'.1.nd = st.1.nd ∧ st'.1.dp = st.1.dp ∧ st'.2 = (if sawdot then st.2 else st.2 + ds.length) ∧
      (st'.1.trunc = false → st.1.trunc = false ∧ digitsVal ds 0 = 0) := by
  intro ds
  induction ds with
  | nil => intro st _ _ _; simp [pushAnyL, digitsVal]
  | cons b ds ih =>
    intro st hds hfull hpos
    have hb : isDigit b = true := hds b (by simp)
    have hbr : 48 ≤ b.toNat ∧ b.toNat ≤ 57 := by
      have : (decide (48 ≤ b) && decide (b ≤ 57)) = true := hb
      simp only [Bool.and_eq_true, decide_eq_true_eq, UInt8.le_iff_toNat_le] at this
      exact this
    have hz : ¬ ((b == 48 && st.1.nd == 0) = true) := by
      simp only [Bool.and_eq_true, beq_iff_eq, not_and]; intro _; omega
    have hfit : ¬ st.1.nd < st.1.d.size := by omega
    have hstep : pushAny sawdot st b = (if b != 48 then { st.1 with trunc := true } else st.1, if !sawdot then st.2 + 1 else st.2) := by
      simp only [pushAny]; rw [if_neg hz, if_neg hfit]
    simp only [pushAnyL]
    rw [hstep]
    have hds' : allDigits ds := fun x hx => hds x (by simp [hx])
    by_cases h48 : b = 48
    · subst h48
      have := ih (st.1, if !sawdot then st.2 + 1 else st.2) hds' hfull hpos
      simp only [bne_self_eq_false, Bool.false_eq_true, if_false] at this ⊢
      obtain ⟨c1, c2, c3, c4, c5⟩ := this
      refine ⟨c1, c2, c3, ?_, fun htr => ?_⟩
      · rw [c4]; cases sawdot <;> simp [List.length_cons]; omega
      · obtain ⟨t1, t2⟩ := c5 htr
        refine ⟨t1, ?_⟩
        simp only [digitsVal]
        have : ((48 : UInt8).toNat - 48) = 0 := rfl
        rw [this, digitsVal_acc ds (0 * 10 + 0), t2]
        simp
    · have hne : (b != 48) = true := by simpa using h48
      rw [hne, if_pos rfl]
      have := ih ({ st.1 with trunc := true }, if !sawdot then st.2 + 1 else st.2) hds' hfull hpos
      simp only [] at this ⊢
      obtain ⟨c1, c2, c3, c4, c5⟩ := this
      refine ⟨c1, c2, c3, ?_, fun htr => ?_⟩
      · rw [c4]; cases sawdot <;> simp [List.length_cons]; omega
      · exact absurd (c5 htr).1 (by simp)

theorem pushAny_wf (sawdot : Bool) (st : Decimal × Nat) (b : UInt8) (hb : isDigit b = true) (hw : WF st.1) :
    WF (pushAny sawdot st b).1 := by
  have hbr : 48 ≤ b.toNat ∧ b.toNat ≤ 57 := by
    have : (decide (48 ≤ b) && decide (b ≤ 57)) = true := hb
    simp only [Bool.and_eq_true, decide_eq_true_eq, UInt8.le_iff_toNat_le] at this
    exact this
  simp only [pushAny]
  by_cases hz : (b == 48 && st.1.nd == 0) = true
  · rw [if_pos hz]; exact ⟨hw.size, hw.nd, hw.digits⟩
  · rw [if_neg hz]
    by_cases hfit : st.1.nd < st.1.d.size
    · rw [if_pos hfit]
      refine ⟨by simp only []; rw [size_set!]; exact hw.size, by have := hw.size; simp only []; omega, ?_⟩
      intro i hi
      simp only [] at hi ⊢
      by_cases hia : i = st.1.nd
      · rw [hia, getElem!_set! st.1.d st.1.nd st.1.nd b hfit, if_pos rfl]; exact hbr
      · rw [getElem!_set! st.1.d st.1.nd i b hfit, if_neg hia]; exact hw.digits i (by omega)
    · rw [if_neg hfit]
      split
      · exact ⟨hw.size, hw.nd, hw.digits⟩
      · exact hw

/-- the integer digits: when no non-zero digit is dropped the digits kept, followed by `dropped` zeros, are the number read -/
theorem pushInt_spec : ∀ (ds : List UInt8) (st : Decimal × Nat), allDigits ds → WF st.1 → (0 < st.2 → st.1.nd = 800) →
    let st' := pushAnyL false ds st
    (0 < st'.2 → st'.1.nd = 800) ∧
    (st'.1.trunc = false → st.1.trunc = false ∧
      val st'.1.d st'.1.nd * 10 ^ st'.2 = (val st.1.d st.1.nd * 10 ^ st.2) * 10 ^ ds.length + digitsVal ds 0) := by
  intro ds
  induction ds with
  | nil => intro st _ _ h; simp [pushAnyL, digitsVal]; exact h
  | cons b ds ih =>
    intro st hds hw hdr
    have hb : isDigit b = true := hds b (by simp)
    have hds' : allDigits ds := fun x hx => hds x (by simp [hx])
    by_cases hfull : st.1.nd = 800
    · -- the buffer is full: everything from here on is dropped
      have hf := pushAnyL_full false (b :: ds) st hds (by rw [hw.size]; exact hfull) (by omega)
      simp only [] at hf ⊢
      obtain ⟨c1, c2, c3, c4, c5⟩ := hf
      refine ⟨fun _ => by rw [c2]; exact hfull, fun htr => ?_⟩
      obtain ⟨t1, t2⟩ := c5 htr
      refine ⟨t1, ?_⟩
      rw [c1, c2, c4, t2]
      simp only [Bool.false_eq_true, if_false, Nat.add_zero, Nat.pow_add]
      ring
    · have hlt : st.1.nd < 800 := by have := hw.nd; omega
      have hd0 : st.2 = 0 := by
        by_contra hcon
        exact hfull (hdr (by omega))
      have hfit : st.1.nd < st.1.d.size := by rw [hw.size]; exact hlt
      have hw1 := pushAny_wf false st b hb hw
      simp only [pushAnyL]
      by_cases hz : (b == 48 && st.1.nd == 0) = true
      · have hstep : pushAny false st b = ({ st.1 with dp := st.1.dp - 1 }, st.2) := by simp only [pushAny]; rw [if_pos hz]
        rw [hstep] at hw1 ⊢
        simp only [Bool.and_eq_true, beq_iff_eq] at hz
        obtain ⟨hb48, hnd0⟩ := hz
        have := ih ({ st.1 with dp := st.1.dp - 1 }, st.2) hds' hw1 (by simpa using hdr)
        simp only [] at this ⊢
        obtain ⟨c1, c2⟩ := this
        refine ⟨c1, fun htr => ?_⟩
        obtain ⟨t1, t2⟩ := c2 htr
        refine ⟨t1, ?_⟩
        rw [t2, hnd0, hb48]
        simp only [val, Nat.zero_mul, Nat.zero_add, digitsVal]
        have : ((48 : UInt8).toNat - 48) = 0 := rfl
        rw [this, digitsVal_acc ds (0 * 10 + 0)]
      · have hstep : pushAny false st b = ({ st.1 with d := st.1.d.set! st.1.nd b, nd := st.1.nd + 1 }, st.2) := by
          simp only [pushAny]; rw [if_neg hz, if_pos hfit]
        rw [hstep] at hw1 ⊢
        have := ih ({ st.1 with d := st.1.d.set! st.1.nd b, nd := st.1.nd + 1 }, st.2) hds' hw1 (by
          intro hh; simp only [] at hh; omega)
        simp only [] at this ⊢
        obtain ⟨c1, c2⟩ := this
        refine ⟨c1, fun htr => ?_⟩
        obtain ⟨t1, t2⟩ := c2 htr
        refine ⟨t1, ?_⟩
        rw [t2, hd0]
        simp only [val, List.length_cons, digitsVal, Nat.pow_zero, Nat.mul_one]
        rw [val_set_ge st.1.d st.1.nd b hfit st.1.nd (Nat.le_refl _)]
        have hdg : dig (st.1.d.set! st.1.nd b) st.1.nd = b.toNat - 48 := by
          unfold dig; rw [getElem!_set! st.1.d st.1.nd st.1.nd b hfit, if_pos rfl]
        rw [hdg, digitsVal_acc ds (0 * 10 + (b.toNat - 48)), Nat.pow_succ]
        ring

/-- the fraction digits: when no non-zero digit is dropped each digit adds its value -/
theorem pushFrac_spec : ∀ (ds : List UInt8) (st : Decimal × Nat), allDigits ds → WF st.1 →
    let st' := pushAnyL true ds st
    (st'.1.trunc = false → st.1.trunc = false ∧ (st.1.nd = 800 → digitsVal ds 0 = 0) ∧
      aval st'.1 = aval st.1 + (digitsVal ds 0 : ℚ) * 10 ^ (st.1.dp - (st.1.nd : ℤ) - (ds.length : ℤ))) := by
  intro ds
  induction ds with
  | nil => intro st _ _; simp [pushAnyL, digitsVal]
  | cons b ds ih =>
    intro st hds hw
    have hb : isDigit b = true := hds b (by simp)
    have hds' : allDigits ds := fun x hx => hds x (by simp [hx])
    by_cases hfull : st.1.nd = 800
    · have hf := pushAnyL_full true (b :: ds) st hds (by rw [hw.size]; exact hfull) (by omega)
      simp only [] at hf ⊢
      obtain ⟨c1, c2, c3, _, c5⟩ := hf
      intro htr
      obtain ⟨t1, t2⟩ := c5 htr
      refine ⟨t1, fun _ => t2, ?_⟩
      simp only [aval]
      rw [c1, c2, c3, t2]
      simp
    · have hlt : st.1.nd < 800 := by have := hw.nd; omega
      have hfit : st.1.nd < st.1.d.size := by rw [hw.size]; exact hlt
      have hw1 := pushAny_wf true st b hb hw
      simp only [pushAnyL]
      by_cases hz : (b == 48 && st.1.nd == 0) = true
      · have hstep : pushAny true st b = ({ st.1 with dp := st.1.dp - 1 }, st.2) := by simp only [pushAny]; rw [if_pos hz]
        rw [hstep] at hw1 ⊢
        simp only [Bool.and_eq_true, beq_iff_eq] at hz
        obtain ⟨hb48, hnd0⟩ := hz
        have := ih ({ st.1 with dp := st.1.dp - 1 }, st.2) hds' hw1
        simp only [] at this ⊢
        intro htr
        obtain ⟨t1, _, t2⟩ := this htr
        refine ⟨t1, fun h8 => absurd h8 hfull, ?_⟩
        rw [t2, hb48]
        simp only [aval, hnd0, val, Nat.cast_zero, zero_mul, zero_add, digitsVal, List.length_cons]
        have : ((48 : UInt8).toNat - 48) = 0 := rfl
        rw [this, digitsVal_acc ds (0 * 10 + 0)]
        push_cast
        simp only [zero_mul, add_zero, zero_add]
        congr 2
        ring
      · have hstep : pushAny true st b = ({ st.1 with d := st.1.d.set! st.1.nd b, nd := st.1.nd + 1 }, st.2) := by
          simp only [pushAny]; rw [if_neg hz, if_pos hfit]
        rw [hstep] at hw1 ⊢
        have := ih ({ st.1 with d := st.1.d.set! st.1.nd b, nd := st.1.nd + 1 }, st.2) hds' hw1
        simp only [] at this ⊢
        intro htr
        obtain ⟨t1, _, t2⟩ := this htr
        refine ⟨t1, fun h8 => absurd h8 hfull, ?_⟩
        rw [t2]
        simp only [aval, val, List.length_cons, digitsVal]
        rw [val_set_ge st.1.d st.1.nd b hfit st.1.nd (Nat.le_refl _)]
        have hdg : dig (st.1.d.set! st.1.nd b) st.1.nd = b.toNat - 48 := by
          unfold dig; rw [getElem!_set! st.1.d st.1.nd st.1.nd b hfit, if_pos rfl]
        rw [hdg, digitsVal_acc ds (0 * 10 + (b.toNat - 48))]
        push_cast
        have e1 : st.1.dp - ((st.1.nd : ℤ) + 1) = (st.1.dp - (st.1.nd : ℤ) - ((ds.length : ℤ) + 1)) + (ds.length : ℤ) := by ring
        have e2 : st.1.dp - (st.1.nd : ℤ) = (st.1.dp - (st.1.nd : ℤ) - ((ds.length : ℤ) + 1)) + ((ds.length : ℤ) + 1) := by ring
        have e3 : st.1.dp - ((st.1.nd : ℤ) + 1) - (ds.length : ℤ) = st.1.dp - (st.1.nd : ℤ) - ((ds.length : ℤ) + 1) := by ring
        rw [e3]
        generalize st.1.dp - (st.1.nd : ℤ) - ((ds.length : ℤ) + 1) = X at e1 e2
        rw [e1, e2, zpow_add₀ (by norm_num : (10 : ℚ) ≠ 0), zpow_add₀ (by norm_num : (10 : ℚ) ≠ 0) X ((ds.length : ℤ) + 1),
          zpow_add₀ (by norm_num : (10 : ℚ) ≠ 0) (ds.length : ℤ) 1, zpow_natCast, zpow_one]
        ring

/-- the decimal after the mantissa of a literal of any length -/
def mantAny (neg : Bool) (ip fp : List UInt8) : Decimal :=
  let st1 := pushAnyL false ip ({ Decimal.zero with neg := neg }, 0)
  (pushAnyL true fp ({ st1.1 with dp := ((st1.1.nd + st1.2 : Nat) : ℤ) }, st1.2)).1

/-- **`decimal.set` on a complete number literal of any length**: what it returns, and — when no non-zero digit was
    dropped — the exact value -/
theorem set_spec_any (data : Bytes) (neg : Bool) (ip fp : List UInt8) (ec : UInt8) (sg eds : List UInt8)
    (h : Shape data.toList neg ip fp ec sg eds []) :
    ∃ a, Decimal.set data = some a ∧ Good0 a ∧ a.neg = neg ∧
      (a.trunc = false →
        aval a = (digitsVal (ip ++ fp) 0 : ℚ) * 10 ^ ((clipAcc (10000 + data.size) eds 0 : ℤ) * sgnOf sg - (fp.length : ℤ))) := by
  have hat0 := At.start data
  have hsize : data.size = data.toList.length := by simp
  obtain ⟨b, ds, hipc⟩ : ∃ b ds, ip = b :: ds := by
    cases hip : ip with
    | nil => exact absurd hip h.ipNe
    | cons b ds => exact ⟨b, ds, rfl⟩
  have hb : isDigit b = true := h.ipDigits b (by rw [hipc]; simp)
  have hb45 : (b == 45) = false := by
    by_cases hh : (b == 45) = true
    · have : b = 45 := by simpa using hh
      subst this; exact absurd hb (by decide)
    · simpa using hh
  have hsz0 : (data.size == 0) = false := by
    rw [hsize, h.eq, hipc]; cases neg <;> simp
  have hstart : (data[0]! == 45) = neg ∧ At data (if neg then 1 else 0) (ip ++ (fracL fp ++ (expL ec sg eds ++ []))) := by
    have heq := h.eq
    cases hneg : neg with
    | true =>
      rw [hneg] at heq
      simp only [if_true, List.cons_append, List.nil_append] at heq
      rw [heq] at hat0
      obtain ⟨_, _, hat1⟩ := hat0.cons_inv
      exact ⟨by rw [at_getBang hat0]; rfl, by simpa using hat1⟩
    | false =>
      rw [hneg] at heq
      simp only [Bool.false_eq_true, if_false, List.nil_append] at heq
      rw [heq] at hat0
      have hat0c : At data 0 (b :: (ds ++ (fracL fp ++ (expL ec sg eds ++ [])))) := by simpa [hipc] using hat0
      exact ⟨by rw [at_getBang hat0c]; exact hb45, by simpa using hat0⟩
  obtain ⟨hneg0, hatp⟩ := hstart
  generalize hp0 : (if neg then 1 else 0) = p0 at hatp
  have hl := hatp.length
  simp only [List.length_append] at hl
  have hw0 : WF ({ Decimal.zero with neg := neg } : Decimal) := ⟨zero_size, by simp [Decimal.zero], fun i hi => absurd hi (by simp [Decimal.zero])⟩
  have hz0 : NZ ({ Decimal.zero with neg := neg } : Decimal) := fun hh => absurd hh (by simp [Decimal.zero])
  -- integer digits
  have h1 := setLoop_digitsAny data ip (fracL fp ++ (expL ec sg eds ++ [])) data.size p0 { Decimal.zero with neg := neg } false false 0
    h.ipDigits hatp (by omega)
  obtain ⟨w1, z1, n1⟩ := pushAnyL_good false ip ({ Decimal.zero with neg := neg }, 0) h.ipDigits hw0 hz0
  have hint := pushInt_spec ip ({ Decimal.zero with neg := neg }, 0) h.ipDigits hw0 (fun hh => absurd hh (by simp))
  simp only [] at hint
  have hmant : mantAny neg ip fp =
      (pushAnyL true fp ({ (pushAnyL false ip ({ Decimal.zero with neg := neg }, 0)).1 with
        dp := (((pushAnyL false ip ({ Decimal.zero with neg := neg }, 0)).1.nd + (pushAnyL false ip ({ Decimal.zero with neg := neg }, 0)).2 : Nat) : ℤ) },
        (pushAnyL false ip ({ Decimal.zero with neg := neg }, 0)).2)).1 := rfl
  generalize pushAnyL false ip ({ Decimal.zero with neg := neg }, 0) = st1 at h1 w1 z1 n1 hint hmant
  have hipe : (false || !ip.isEmpty) = true := by rw [hipc]; rfl
  rw [hipe] at h1
  have hat1 : At data (p0 + ip.length) (fracL fp ++ (expL ec sg eds ++ [])) := at_drop_append hatp
  have hfpgood := pushAnyL_good true fp ({ st1.1 with dp := ((st1.1.nd + st1.2 : Nat) : ℤ) }, st1.2) h.fpDigits ⟨w1.size, w1.nd, w1.digits⟩ z1
  -- the loop, then the `!sawdot` adjustment: in both cases the decimal handed on is `mantAny`
  have hloop : ∃ aL sawdot dr, setLoop data data.size p0 { Decimal.zero with neg := neg } false false 0 =
      some (aL, sawdot, true, dr, p0 + ip.length + (fracL fp).length) ∧
      (if !sawdot then { aL with dp := ((aL.nd + dr : Nat) : ℤ) } else aL) = mantAny neg ip fp := by
    rw [h1]
    cases hfp : fp with
    | nil =>
      rw [hfp] at hat1 hmant
      simp only [fracL, List.nil_append, List.length_nil, Nat.add_zero] at hat1 ⊢
      rw [setLoop_stop data _ _ _ _ false true _ hat1 (by simpa [fracL] using noDigitHead_tail [] ec sg eds h.ecE) (h.noDot hfp)]
      refine ⟨st1.1, false, st1.2, rfl, ?_⟩
      rw [hmant]; rfl
    | cons d ds' =>
      rw [hfp] at hat1 hl
      have hat1' : At data (p0 + ip.length) (46 :: ((d :: ds') ++ (expL ec sg eds ++ []))) := by simpa [fracL] using hat1
      obtain ⟨_, _, hat2⟩ := hat1'.cons_inv
      obtain ⟨f, hf⟩ : ∃ f, data.size - ip.length = f + 1 := ⟨data.size - ip.length - 1, by simp [fracL] at hl; omega⟩
      rw [hf, setLoop_dot data _ f _ _ true _ hat1']
      simp only [fracL, List.length_cons] at hl
      have hfpd : allDigits (d :: ds') := by rw [← hfp]; exact h.fpDigits
      have h2 := setLoop_digitsAny data (d :: ds') (expL ec sg eds ++ []) f (p0 + ip.length + 1)
        { st1.1 with dp := ((st1.1.nd + st1.2 : Nat) : ℤ) } true true st1.2 hfpd hat2 (by simp only [List.length_cons]; omega)
      rw [h2]
      have hat3 : At data (p0 + ip.length + 1 + (d :: ds').length) (expL ec sg eds ++ []) := at_drop_append hat2
      rw [setLoop_stop data _ _ _ _ true _ _ hat3 (h.fpStop (by rw [hfp]; simp)) (expL_no_dot ec sg eds h.ecE)]
      refine ⟨(pushAnyL true (d :: ds') ({ st1.1 with dp := ((st1.1.nd + st1.2 : Nat) : ℤ) }, st1.2)).1, true,
        (pushAnyL true (d :: ds') ({ st1.1 with dp := ((st1.1.nd + st1.2 : Nat) : ℤ) }, st1.2)).2, ?_, ?_⟩
      · simp only [fracL, List.length_cons, List.isEmpty_cons, Bool.not_false, Bool.true_or]
        congr 5
        omega
      · rw [hfp] at hmant
        rw [hmant]; rfl
  obtain ⟨aL, sawdot, dr, hloop, hadj⟩ := hloop
  rw [hmant] at hadj
  have hatE : At data (p0 + ip.length + (fracL fp).length) (expL ec sg eds ++ []) := at_drop_append (at_drop_append hatp)
  obtain ⟨wM, zM, nM⟩ := hfpgood
  generalize hM : (pushAnyL true fp ({ st1.1 with dp := ((st1.1.nd + st1.2 : Nat) : ℤ) }, st1.2)).1 = aM at hadj wM zM nM
  have hfrac := pushFrac_spec fp ({ st1.1 with dp := ((st1.1.nd + st1.2 : Nat) : ℤ) }, st1.2) h.fpDigits ⟨w1.size, w1.nd, w1.digits⟩
  simp only [] at hfrac
  rw [hM] at hfrac
  refine ⟨{ aM with dp := aM.dp + (clipAcc (10000 + data.size) eds 0 : ℤ) * sgnOf sg }, ?_, ⟨⟨wM.size, wM.nd, wM.digits⟩, zM⟩, by rw [show ({ aM with dp := aM.dp + (clipAcc (10000 + data.size) eds 0 : ℤ) * sgnOf sg } : Decimal).neg = aM.neg from rfl, nM]; exact n1, fun htr => ?_⟩
  · simp only [Decimal.set, hsz0, Bool.false_eq_true, if_false, hneg0, hp0, hloop, Bool.not_true]
    rw [hadj]
    exact setExp_val data _ _ ec sg eds hatE h.edsDigits h.ecE h.sgS
  · -- the value
    have htrM : aM.trunc = false := htr
    obtain ⟨f1, f2, f3⟩ := hfrac htrM
    obtain ⟨i1, i2⟩ := hint
    obtain ⟨_, i3⟩ := i2 f1
    simp only [val, Decimal.zero, Nat.zero_mul, Nat.zero_add, Nat.pow_zero, Nat.mul_one] at i3
    -- aval of the decimal at the dot is the integer part
    have hdot : aval ({ st1.1 with dp := ((st1.1.nd + st1.2 : Nat) : ℤ) } : Decimal) = (digitsVal ip 0 : ℚ) := by
      simp only [aval]
      have : ((st1.1.nd + st1.2 : Nat) : ℤ) - (st1.1.nd : ℤ) = (st1.2 : ℤ) := by push_cast; ring
      rw [this, zpow_natCast]
      exact_mod_cast i3
    have hsplit : (digitsVal (ip ++ fp) 0 : ℚ) = (digitsVal ip 0 : ℚ) * 10 ^ fp.length + (digitsVal fp 0 : ℚ) := by
      rw [digitsVal_append, digitsVal_acc fp (digitsVal ip 0)]; push_cast; ring
    have hmid : aval aM = (digitsVal (ip ++ fp) 0 : ℚ) * 10 ^ (-(fp.length : ℤ)) := by
      rw [f3, hdot, hsplit]
      have hexp : ((st1.1.nd + st1.2 : Nat) : ℤ) - (st1.1.nd : ℤ) - (fp.length : ℤ) = (st1.2 : ℤ) - (fp.length : ℤ) := by push_cast; ring
      rw [hexp]
      by_cases hdr : st1.2 = 0
      · rw [hdr]
        simp only [Nat.cast_zero, zero_sub]
        rw [add_mul, mul_assoc, ← zpow_natCast, ← zpow_add₀ (by norm_num)]
        simp
      · have h800 := i1 (by omega)
        have hz := f2 h800
        rw [hz]
        simp only [Nat.cast_zero, zero_mul, add_zero]
        rw [mul_assoc, ← zpow_natCast, ← zpow_add₀ (by norm_num)]
        simp
    simp only [aval] at hmid ⊢
    have e1 : aM.dp + (clipAcc (10000 + data.size) eds 0 : ℤ) * sgnOf sg - (aM.nd : ℤ) =
        (aM.dp - (aM.nd : ℤ)) + (clipAcc (10000 + data.size) eds 0 : ℤ) * sgnOf sg := by ring
    have e2 : (clipAcc (10000 + data.size) eds 0 : ℤ) * sgnOf sg - (fp.length : ℤ) =
        -(fp.length : ℤ) + (clipAcc (10000 + data.size) eds 0 : ℤ) * sgnOf sg := by ring
    rw [e1, e2, zpow_add₀ (by norm_num), zpow_add₀ (by norm_num), ← mul_assoc, hmid, ← mul_assoc]

end RJson.Dec
